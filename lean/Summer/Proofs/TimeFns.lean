import Summer.Model.TimeFns
import Summer.Spec.TimeFns
import Mathlib.Order.Basic
import Mathlib.Algebra.Order.Field.Basic
import Mathlib.Tactic.Linarith
import Mathlib.Tactic.Ring
import Mathlib.Tactic.FieldSimp
import Mathlib.Tactic.Push
import Mathlib.Data.List.GetD
import Mathlib.Analysis.SpecialFunctions.ExpDeriv
import Mathlib.Analysis.Calculus.Deriv.Slope
import Mathlib.Analysis.Calculus.Deriv.Inv
/-
Helper lemmas for property C16 (time-function library).
-/
set_option linter.unusedSectionVars false

namespace Summer.Proofs.TimeFns
open Summer Summer.TimeFns Summer.Spec

/-! ### JAX gather -/
section jget
variable {α : Type} [Zero α]

theorem jidx_of_nonneg_lt (n : Nat) (i : Int) (h0 : 0 ≤ i) (h : i < n) : jidx n i = i.toNat := by
  unfold jidx; simp only; split <;> omega

theorem jidx_of_ge (n : Nat) (i : Int) (hn : 0 < n) (h : (n : Int) - 1 ≤ i) : jidx n i = n - 1 := by
  unfold jidx; simp only; split <;> omega

theorem jidx_neg_one (n : Nat) (hn : 0 < n) : jidx n (-1) = n - 1 := by
  unfold jidx; simp only; split <;> omega

theorem jget_of_nonneg_lt (a : List α) (i : Int) (h0 : 0 ≤ i) (h : i.toNat < a.length) :
    jget a i = a[i.toNat] := by
  unfold jget; rw [jidx_of_nonneg_lt _ _ h0 (by omega)]; exact List.getD_eq_getElem _ _ h

theorem jget_natCast (a : List α) (i : Nat) (h : i < a.length) : jget a (i : Int) = a[i] := by
  have := jget_of_nonneg_lt a (i : Int) (by omega) (by simpa using h)
  simpa using this

theorem jget_of_ge (a : List α) (i : Int) (hn : 0 < a.length) (h : (a.length : Int) - 1 ≤ i) :
    jget a i = a[a.length - 1] := by
  unfold jget; rw [jidx_of_ge _ _ hn h]; exact List.getD_eq_getElem _ _ (by omega)

theorem jget_neg_one (a : List α) (hn : 0 < a.length) : jget a (-1) = a[a.length - 1] := by
  unfold jget; rw [jidx_neg_one _ hn]; exact List.getD_eq_getElem _ _ (by omega)

theorem jget_nil (i : Int) : jget ([] : List α) i = 0 := by
  simp [jget]

end jget

/-! ### `jnp.diff` -/
section diff
variable {α : Type} [Sub α]

theorem length_diff : ∀ l : List α, (diff l).length = l.length - 1
  | [] => rfl
  | [_] => rfl
  | a :: b :: t => by simp [diff, length_diff (b :: t)]

theorem getElem_diff : ∀ (l : List α) (i : Nat) (h : i + 1 < l.length),
    (diff l)[i]'(by rw [length_diff]; omega) = l[i + 1] - l[i]
  | a :: b :: t, 0, _ => by simp [diff]
  | a :: b :: t, i + 1, h => by
      simp only [diff, List.getElem_cons_succ]
      exact getElem_diff (b :: t) i (by simpa using h)

end diff

/-- reading `jnp.diff l` one past its end through the clamped gather gives its last entry -/
theorem jget_diff_past_end {α : Type} [Sub α] [Zero α] (l : List α) (hn : 2 ≤ l.length) :
    jget (diff l) ((l.length : Int) - 1) = l[l.length - 1] - l[l.length - 2] := by
  have hl := length_diff l
  rw [jget_of_ge (diff l) _ (by omega) (by omega)]
  have e1 : (diff l).length - 1 = l.length - 2 := by omega
  have e2 : l.length - 2 + 1 = l.length - 1 := by omega
  have := getElem_diff l (l.length - 2) (by omega)
  simp only [e2] at this
  simp only [e1, this]

/-! ### counting points `≤ x` in a sorted list -/
section count
variable {α : Type} [LinearOrder α]

theorem getElem_mono_of_pairwise {pts : List α} (hs : pts.Pairwise (· ≤ ·)) (i j : Nat)
    (hij : i ≤ j) (hj : j < pts.length) : pts[i] ≤ pts[j] := by
  rcases Nat.eq_or_lt_of_le hij with h | h
  · subst h; exact le_refl _
  · exact (List.pairwise_iff_getElem.mp hs) i j (by omega) hj h

/-- a split point of a list into a `≤ x` prefix and a `> x` suffix is the count of points `≤ x` -/
theorem countLE_of_split (x : α) : ∀ (pts : List α) (K : Nat), K ≤ pts.length →
    (∀ i : Nat, (h : i < pts.length) → i < K → pts[i] ≤ x) →
    (∀ i : Nat, (h : i < pts.length) → K ≤ i → x < pts[i]) → countLE x pts = K
  | [], K, hK, _, _ => by simp at hK; simp [countLE, hK]
  | a :: t, 0, _, _, H2 => by
      have ha : ¬ a ≤ x := not_le.mpr (H2 0 (by simp) (le_refl _))
      have := countLE_of_split x t 0 (Nat.zero_le _) (by intro i h hi; omega)
        (by intro i h _; exact H2 (i + 1) (by simpa using h) (Nat.zero_le _))
      simpa [countLE, ha] using this
  | a :: t, K + 1, hK, H1, H2 => by
      have ha : a ≤ x := H1 0 (by simp) (by omega)
      have := countLE_of_split x t K (by simpa using hK)
        (by intro i h hi; exact H1 (i + 1) (by simpa using h) (by omega))
        (by intro i h hi; exact H2 (i + 1) (by simpa using h) (by omega))
      simpa [countLE, ha] using this

theorem isCountLE_eq_countLE {x : α} {pts : List α} {k : Int} (h : IsCountLE x pts k) :
    k = (countLE x pts : Int) := by
  obtain ⟨h0, h1, H1, H2⟩ := h
  have := countLE_of_split x pts k.toNat (by omega)
    (by intro i hi hik; exact H1 i hi (by omega)) (by intro i hi hik; exact H2 i hi (by omega))
  omega

/-- an index `i` with `pts[i] ≤ x < pts[i+1]` pins the count to `i + 1` -/
theorem isCountLE_eq_succ {x : α} {pts : List α} {k : Int} (h : IsCountLE x pts k) (i : Nat)
    (hi : i + 1 < pts.length) (h1 : pts[i] ≤ x) (h2 : x < pts[i + 1]) : k = (i : Int) + 1 := by
  obtain ⟨_, _, H1, H2⟩ := h
  have a : (i : Int) < k := by
    by_contra hc
    exact absurd (H2 i (by omega) (by omega)) (not_lt.mpr h1)
  have b : ¬ ((i + 1 : Nat) : Int) < k := by
    intro hc
    exact absurd (H1 (i + 1) hi hc) (not_le.mpr h2)
  omega

theorem isCountLE_eq_zero {x : α} {pts : List α} {k : Int} (h : IsCountLE x pts k)
    (hn : 0 < pts.length) (h2 : x < pts[0]) : k = 0 := by
  obtain ⟨_, _, H1, _⟩ := h
  by_contra hc
  exact absurd (H1 0 hn (by omega)) (not_le.mpr h2)

theorem isCountLE_eq_length {x : α} {pts : List α} {k : Int} (h : IsCountLE x pts k)
    (hn : 0 < pts.length) (h1 : pts[pts.length - 1] ≤ x) : k = (pts.length : Int) := by
  obtain ⟨_, _, _, H2⟩ := h
  by_contra hc
  exact absurd (H2 (pts.length - 1) (by omega) (by omega)) (not_lt.mpr h1)

end count

/-! ### binary search -/
section bsearch
variable {α : Type} [LinearOrder α] [Zero α]

theorem bsLoop_inv (x : α) (pts : List α) (hs : pts.Pairwise (· ≤ ·)) (low high : Int)
    (hl : -1 ≤ low) (hlh : low < high) (hh : high ≤ (pts.length : Int) - 1)
    (Hlow : ∀ i : Nat, (h : i < pts.length) → (i : Int) ≤ low → pts[i] ≤ x)
    (Hhigh : ∀ i : Nat, (h : i < pts.length) → high < (i : Int) → x < pts[i]) :
    let r := bsLoop x pts low high;
    (-1 : Int) ≤ r.1 ∧ r.1 < r.2 ∧ r.2 ≤ (pts.length : Int) - 1 ∧ r.2 - r.1 ≤ 1 ∧
    (∀ i : Nat, (h : i < pts.length) → (i : Int) ≤ r.1 → pts[i] ≤ x) ∧
    (∀ i : Nat, (h : i < pts.length) → r.2 < (i : Int) → x < pts[i]) := by
  intro r
  obtain ⟨n, hn⟩ : ∃ n : Nat, (high - low).toNat = n := ⟨_, rfl⟩
  induction n using Nat.strong_induction_on generalizing low high with
  | _ n ih =>
  by_cases hgt : high - low > 1
  · have hr : r = bsLoop x pts
        (if decide (x < jget pts ((low + high) / 2)) = true then low else (low + high) / 2)
        (if decide (x < jget pts ((low + high) / 2)) = true then (low + high) / 2 else high) := by
      simp only [r]; rw [bsLoop]; simp only [hgt, ↓reduceDIte]
    rw [hr]
    have hmid0 : 0 ≤ (low + high) / 2 := by omega
    have hmidlt : (low + high) / 2 < high := by omega
    have hmidgt : low < (low + high) / 2 := by omega
    have hmsz : ((low + high) / 2).toNat < pts.length := by omega
    have hget : jget pts ((low + high) / 2) = pts[((low + high) / 2).toNat] :=
      jget_of_nonneg_lt pts _ hmid0 hmsz
    by_cases hu : x < jget pts ((low + high) / 2)
    · simp only [hu, decide_true, ↓reduceIte]
      refine ih _ ?_ low ((low + high) / 2) hl hmidgt (by omega) Hlow ?_ rfl
      · omega
      · intro i hi hgt'
        rw [hget] at hu
        by_cases hc : high < (i : Int)
        · exact Hhigh i hi hc
        · exact lt_of_lt_of_le hu (getElem_mono_of_pairwise hs ((low + high) / 2).toNat i (by omega) hi)
    · simp only [hu, decide_false, Bool.false_eq_true, ↓reduceIte]
      refine ih _ ?_ ((low + high) / 2) high (by omega) hmidlt hh ?_ Hhigh rfl
      · omega
      · intro i hi hle
        rw [hget] at hu
        push Not at hu
        exact le_trans (getElem_mono_of_pairwise hs i ((low + high) / 2).toNat (by omega) hmsz) hu
  · have hr : r = (low, high) := by
      simp only [r]; rw [bsLoop]; simp only [hgt, ↓reduceDIte]
    rw [hr]
    exact ⟨hl, hlh, hh, by omega, Hlow, Hhigh⟩

/-- the binary search returns the number of points `≤ x` (index characterisation); no hypothesis on
the length: for the empty list the loop does not run and the clamped read gives `0`. -/
theorem binarySearchSumGe_spec (x : α) (pts : List α) (hs : pts.Pairwise (· ≤ ·)) :
    IsCountLE x pts (binarySearchSumGe x pts) := by
  by_cases hne : pts.length = 0
  · have hnil : pts = [] := List.eq_nil_of_length_eq_zero hne
    subst hnil
    have hr : bsLoop x ([] : List α) (-1) (((([] : List α).length : Nat) : Int) - 1) = (-1, -1) := by
      rw [bsLoop]; simp
    unfold binarySearchSumGe
    rw [hr]
    refine ⟨?_, ?_, ?_, ?_⟩
    · simp only []; split <;> omega
    · simp only []; split <;> simp
    · intro i h; simp at h
    · intro i h; simp at h
  have hpos : 0 < pts.length := Nat.pos_of_ne_zero hne
  have inv := bsLoop_inv x pts hs (-1) ((pts.length : Int) - 1) (by omega) (by omega) (by omega)
    (by intro i hi h; omega) (by intro i hi h; omega)
  unfold binarySearchSumGe
  generalize bsLoop x pts (-1) (↑pts.length - 1) = r at inv ⊢
  obtain ⟨h1, h2, h3, h4, Hl, Hh⟩ := inv
  have hr2 : 0 ≤ r.2 := by omega
  have hsz : r.2.toNat < pts.length := by omega
  have hget : jget pts r.2 = pts[r.2.toNat] := jget_of_nonneg_lt pts _ hr2 hsz
  by_cases hx : x < jget pts r.2
  · simp only [hx, ↓reduceIte]
    refine ⟨by omega, by omega, ?_, ?_⟩
    · intro i hi hlt; exact Hl i hi (by omega)
    · intro i hi hge
      by_cases hc : r.2 < (i : Int)
      · exact Hh i hi hc
      · have : i = r.2.toNat := by omega
        subst this; rw [hget] at hx; exact hx
  · simp only [hx, ↓reduceIte]
    refine ⟨by omega, by omega, ?_, ?_⟩
    · intro i hi hlt
      by_cases hc : (i : Int) ≤ r.1
      · exact Hl i hi hc
      · have : i = r.2.toNat := by omega
        subst this; rw [hget] at hx; push Not at hx; exact hx
    · intro i hi hge; exact Hh i hi (by omega)

theorem binarySearchSumGe_eq_countLE (x : α) (pts : List α) (hs : pts.Pairwise (· ≤ ·)) :
    binarySearchSumGe x pts = (countLE x pts : Int) :=
  isCountLE_eq_countLE (binarySearchSumGe_spec x pts hs)

end bsearch

/-! ### consequences for the search result -/
section bsearch2
variable {α : Type} [LinearOrder α] [Zero α]

theorem bsearch_eq_zero (x : α) (pts : List α) (hs : pts.Pairwise (· ≤ ·)) (hn : 0 < pts.length)
    (h : x < pts[0]) : binarySearchSumGe x pts = 0 :=
  isCountLE_eq_zero (binarySearchSumGe_spec x pts hs) hn h

theorem bsearch_eq_succ (x : α) (pts : List α) (hs : pts.Pairwise (· ≤ ·)) (i : Nat)
    (hi : i + 1 < pts.length) (h1 : pts[i] ≤ x) (h2 : x < pts[i + 1]) :
    binarySearchSumGe x pts = (i : Int) + 1 :=
  isCountLE_eq_succ (binarySearchSumGe_spec x pts hs) i hi h1 h2

theorem bsearch_eq_length (x : α) (pts : List α) (hs : pts.Pairwise (· ≤ ·)) (hn : 0 < pts.length)
    (h : pts[pts.length - 1] ≤ x) : binarySearchSumGe x pts = (pts.length : Int) :=
  isCountLE_eq_length (binarySearchSumGe_spec x pts hs) hn h

theorem countLE_le_length (x : α) (pts : List α) : countLE x pts ≤ pts.length :=
  List.length_filter_le _ _

theorem piecewiseConstant_eq_countLE (x : α) (bps vals : List α) (hs : bps.Pairwise (· ≤ ·))
    (hlen : bps.length < vals.length) :
    piecewiseConstant x bps vals
      = vals[countLE x bps]'(lt_of_le_of_lt (countLE_le_length x bps) hlen) := by
  unfold piecewiseConstant
  rw [binarySearchSumGe_eq_countLE x bps hs]
  exact jget_natCast vals _ _

theorem piecewiseConstant_left (x : α) (bps vals : List α) (hs : bps.Pairwise (· ≤ ·))
    (hn : 0 < bps.length) (hlen : bps.length < vals.length) (h : x < bps[0]) :
    piecewiseConstant x bps vals = vals[0] := by
  unfold piecewiseConstant
  rw [bsearch_eq_zero x bps hs hn h]
  exact jget_natCast vals 0 (by omega)

theorem piecewiseConstant_mid (x : α) (bps vals : List α) (hs : bps.Pairwise (· ≤ ·))
    (hlen : bps.length < vals.length) (i : Nat) (hi : i + 1 < bps.length)
    (h1 : bps[i] ≤ x) (h2 : x < bps[i + 1]) :
    piecewiseConstant x bps vals = vals[i + 1] := by
  unfold piecewiseConstant
  rw [bsearch_eq_succ x bps hs i hi h1 h2]
  exact jget_natCast vals (i + 1) (by omega)

theorem piecewiseConstant_right (x : α) (bps vals : List α) (hs : bps.Pairwise (· ≤ ·))
    (hn : 0 < bps.length) (hlen : bps.length < vals.length) (h : bps[bps.length - 1] ≤ x) :
    piecewiseConstant x bps vals = vals[bps.length] := by
  unfold piecewiseConstant
  rw [bsearch_eq_length x bps hs hn h]
  exact jget_natCast vals bps.length hlen

end bsearch2

/-! ### interpolation -/
section interp
variable {α : Type} [Field α] [LinearOrder α] [IsStrictOrderedRing α]

theorem jget_zero (a : List α) (h : 0 < a.length) : jget a 0 = a[0] := by
  have := jget_natCast a 0 h
  simpa using this

theorem getScaleData_bounds (l : List α) (hn : 0 < l.length) :
    (getScaleData l).bounds = [l[0], l[l.length - 1]] := by
  simp only [getScaleData]
  rw [jget_neg_one l hn, jget_zero l hn]

theorem jget_pair_zero (a b : α) : jget [a, b] 0 = a := by
  simp [jget, jidx]

theorem jget_pair_one (a b : α) : jget [a, b] 1 = b := by
  simp [jget, jidx]

theorem strict_getElem_lt {xs : List α} (hs : xs.Pairwise (· < ·)) (i j : Nat) (hij : i < j)
    (hj : j < xs.length) : xs[i] < xs[j] :=
  (List.pairwise_iff_getElem.mp hs) i j (by omega) hj hij

theorem strict_getElem_le {xs : List α} (hs : xs.Pairwise (· < ·)) (i j : Nat) (hij : i ≤ j)
    (hj : j < xs.length) : xs[i] ≤ xs[j] :=
  getElem_mono_of_pairwise (hs.imp le_of_lt) i j hij hj

/-- left of (or at) the first point: branch 0 -/
theorem interpolateWith_left (sig : α → α) (t : α) (xs ys : List α) (hs : xs.Pairwise (· < ·))
    (hn : 0 < xs.length) (hlen : ys.length = xs.length) (h : t ≤ xs[0]) :
    interpolateWith sig t (getScaleData xs) (getScaleData ys) = ys[0] := by
  have h1 : ¬ xs[0] < t := not_lt.mpr h
  have h2 : ¬ xs[xs.length - 1] < t :=
    not_lt.mpr (le_trans h (strict_getElem_le hs 0 _ (Nat.zero_le _) (by omega)))
  have hb : boundsState t (getScaleData xs).bounds = 0 := by
    rw [getScaleData_bounds xs hn]; simp [boundsState, List.filter, h1, h2]
  simp only [interpolateWith, hb]
  rw [getScaleData_bounds ys (by omega), jget_pair_zero]

/-- strictly right of the last point: branch 2 -/
theorem interpolateWith_right (sig : α → α) (t : α) (xs ys : List α) (hs : xs.Pairwise (· < ·))
    (hn : 0 < xs.length) (hlen : ys.length = xs.length) (h : xs[xs.length - 1] < t) :
    interpolateWith sig t (getScaleData xs) (getScaleData ys) = ys[xs.length - 1] := by
  have h1 : xs[0] < t :=
    lt_of_le_of_lt (strict_getElem_le hs 0 _ (Nat.zero_le _) (by omega)) h
  have hb : boundsState t (getScaleData xs).bounds = 2 := by
    rw [getScaleData_bounds xs hn]; simp [boundsState, List.filter, h1, h]
  simp only [interpolateWith, hb]
  rw [getScaleData_bounds ys (by omega), jget_pair_one]
  simp only [hlen]

/-- strictly right of the first point and left of (or AT) the last point: branch 1 -/
theorem interpolateWith_middle (sig : α → α) (t : α) (xs ys : List α)
    (hn : 0 < xs.length) (h1 : xs[0] < t) (h2 : t ≤ xs[xs.length - 1]) :
    interpolateWith sig t (getScaleData xs) (getScaleData ys)
      = curveAt sig t (getScaleData xs) (getScaleData ys) := by
  have h2' : ¬ xs[xs.length - 1] < t := not_lt.mpr h2
  have hb : boundsState t (getScaleData xs).bounds = 1 := by
    rw [getScaleData_bounds xs hn]; simp [boundsState, List.filter, h1, h2']
  simp only [interpolateWith, hb]

theorem curveAt_seg (sig : α → α) (t : α) (xs ys : List α) (hs : xs.Pairwise (· < ·))
    (hlen : ys.length = xs.length) (i : Nat) (hi : i + 1 < xs.length)
    (h1 : xs[i] ≤ t) (h2 : t < xs[i + 1]) :
    curveAt sig t (getScaleData xs) (getScaleData ys)
      = ys[i] + sig ((t - xs[i]) / (xs[i + 1] - xs[i])) * (ys[i + 1] - ys[i]) := by
  have hk : binarySearchSumGe t xs = (i : Int) + 1 :=
    bsearch_eq_succ t xs (hs.imp le_of_lt) i hi h1 h2
  simp only [curveAt, getScaleData, hk, add_sub_cancel_right]
  rw [jget_natCast xs i (by omega), jget_natCast ys i (by omega),
    jget_natCast (diff xs) i (by rw [length_diff]; omega),
    jget_natCast (diff ys) i (by rw [length_diff]; omega),
    getElem_diff xs i hi, getElem_diff ys i (by omega)]

/-- at the last point the code is in branch 1 with `idx = n - 1`; `ranges[idx]` is read one past
the end through the clamped gather, `relx = 0 / ranges[n-2] = 0` -/
theorem curveAt_last (sig : α → α) (xs ys : List α) (hs : xs.Pairwise (· < ·))
    (hn : 0 < xs.length) (hlen : ys.length = xs.length) :
    curveAt sig xs[xs.length - 1] (getScaleData xs) (getScaleData ys)
      = ys[xs.length - 1] + sig 0 * jget (diff ys) ((xs.length : Int) - 1) := by
  have hk : binarySearchSumGe xs[xs.length - 1] xs = (xs.length : Int) :=
    bsearch_eq_length _ xs (hs.imp le_of_lt) hn (le_refl _)
  simp only [curveAt, getScaleData, hk]
  rw [jget_of_ge xs _ hn (le_refl _), jget_of_ge ys _ (by omega) (by omega)]
  simp only [sub_self, zero_div, hlen]

/-- value at the last point (needs `sig 0 = 0`) -/
theorem interp_knot_last (sig : α → α) (h0 : sig 0 = 0) (xs ys : List α)
    (hs : xs.Pairwise (· < ·)) (hn : 0 < xs.length) (hlen : ys.length = xs.length) :
    interpolateWith sig xs[xs.length - 1] (getScaleData xs) (getScaleData ys)
      = ys[xs.length - 1] := by
  by_cases h1 : xs[0] < xs[xs.length - 1]
  · rw [interpolateWith_middle sig _ xs ys hn h1 (le_refl _), curveAt_last sig xs ys hs hn hlen, h0]
    simp
  · have hle : xs[xs.length - 1] ≤ xs[0] := not_lt.mp h1
    have hn1 : xs.length - 1 = 0 := by
      by_contra hc
      exact absurd (strict_getElem_lt hs 0 (xs.length - 1) (by omega) (by omega)) h1
    rw [interpolateWith_left sig _ xs ys hs hn hlen hle]
    simp only [hn1]

/-- half-open segment `[xs[i], xs[i+1])` (needs `sig 0 = 0` only for `t = xs[0]`) -/
theorem interp_seg (sig : α → α) (h0 : sig 0 = 0) (t : α) (xs ys : List α)
    (hs : xs.Pairwise (· < ·)) (hlen : ys.length = xs.length) (i : Nat) (hi : i + 1 < xs.length)
    (h1 : xs[i] ≤ t) (h2 : t < xs[i + 1]) :
    interpolateWith sig t (getScaleData xs) (getScaleData ys)
      = ys[i] + sig ((t - xs[i]) / (xs[i + 1] - xs[i])) * (ys[i + 1] - ys[i]) := by
  by_cases hx0 : xs[0] < t
  · rw [interpolateWith_middle sig t xs ys (by omega) hx0
      (le_trans (le_of_lt h2) (strict_getElem_le hs (i + 1) _ (by omega) (by omega))),
      curveAt_seg sig t xs ys hs hlen i hi h1 h2]
  · have hle : t ≤ xs[0] := not_lt.mp hx0
    have hi0 : i = 0 := by
      by_contra hc
      have := strict_getElem_lt hs 0 i (by omega) (by omega)
      exact absurd (lt_of_lt_of_le this h1) hx0
    subst hi0
    have ht : t = xs[0] := le_antisymm hle h1
    rw [interpolateWith_left sig t xs ys hs (by omega) hlen hle, ht]
    simp [h0]

/-- the interpolant passes through every data point -/
theorem interp_knot (sig : α → α) (h0 : sig 0 = 0) (xs ys : List α)
    (hs : xs.Pairwise (· < ·)) (hlen : ys.length = xs.length) (i : Nat) (hi : i < xs.length) :
    interpolateWith sig xs[i] (getScaleData xs) (getScaleData ys) = ys[i] := by
  by_cases hlast : i + 1 < xs.length
  · rw [interp_seg sig h0 xs[i] xs ys hs hlen i hlast (le_refl _)
      (strict_getElem_lt hs i (i + 1) (by omega) hlast)]
    simp [h0]
  · have hi' : i = xs.length - 1 := by omega
    subst hi'
    exact interp_knot_last sig h0 xs ys hs (by omega) hlen

/-- closed segment `[xs[i], xs[i+1]]` (needs `sig 0 = 0` and `sig 1 = 1`): the pieces agree at the
knots -/
theorem interp_closed_seg (sig : α → α) (h0 : sig 0 = 0) (h1' : sig 1 = 1) (t : α) (xs ys : List α)
    (hs : xs.Pairwise (· < ·)) (hlen : ys.length = xs.length) (i : Nat) (hi : i + 1 < xs.length)
    (h1 : xs[i] ≤ t) (h2 : t ≤ xs[i + 1]) :
    interpolateWith sig t (getScaleData xs) (getScaleData ys)
      = ys[i] + sig ((t - xs[i]) / (xs[i + 1] - xs[i])) * (ys[i + 1] - ys[i]) := by
  rcases lt_or_eq_of_le h2 with h | h
  · exact interp_seg sig h0 t xs ys hs hlen i hi h1 h
  · subst h
    have hpos : xs[i + 1] - xs[i] ≠ 0 :=
      ne_of_gt (sub_pos.mpr (strict_getElem_lt hs i (i + 1) (by omega) hi))
    rw [interp_knot sig h0 xs ys hs hlen (i + 1) hi, div_self hpos, h1']
    ring

/-- relative position inside a segment -/
theorem relx_bounds (a b t : α) (hab : a < b) (h1 : a ≤ t) (h2 : t ≤ b) :
    0 ≤ (t - a) / (b - a) ∧ (t - a) / (b - a) ≤ 1 := by
  have hpos : 0 < b - a := sub_pos.mpr hab
  refine ⟨div_nonneg (sub_nonneg.mpr h1) (le_of_lt hpos), ?_⟩
  rw [div_le_one hpos]; linarith

theorem relx_mono (a b t1 t2 : α) (hab : a < b) (h : t1 ≤ t2) :
    (t1 - a) / (b - a) ≤ (t2 - a) / (b - a) := by
  have hpos : 0 < b - a := sub_pos.mpr hab
  exact div_le_div_of_nonneg_right (by linarith) (le_of_lt hpos)

/-- a convex combination stays between the end values -/
theorem between_of_unit (y0 y1 s : α) (hs0 : 0 ≤ s) (hs1 : s ≤ 1) :
    min y0 y1 ≤ y0 + s * (y1 - y0) ∧ y0 + s * (y1 - y0) ≤ max y0 y1 := by
  rcases le_total y0 y1 with h | h
  · have hd : 0 ≤ y1 - y0 := sub_nonneg.mpr h
    rw [min_eq_left h, max_eq_right h]
    constructor
    · nlinarith [mul_nonneg hs0 hd]
    · nlinarith [mul_nonneg (sub_nonneg.mpr hs1) hd]
  · have hd : 0 ≤ y0 - y1 := sub_nonneg.mpr h
    rw [min_eq_right h, max_eq_left h]
    constructor
    · nlinarith [mul_nonneg (sub_nonneg.mpr hs1) hd]
    · nlinarith [mul_nonneg hs0 hd]

theorem interp_between (sig : α → α) (h0 : sig 0 = 0) (h1' : sig 1 = 1) (hm : MonoOnUnit sig)
    (t : α) (xs ys : List α) (hs : xs.Pairwise (· < ·)) (hlen : ys.length = xs.length) (i : Nat)
    (hi : i + 1 < xs.length) (h1 : xs[i] ≤ t) (h2 : t ≤ xs[i + 1]) :
    min ys[i] ys[i + 1] ≤ interpolateWith sig t (getScaleData xs) (getScaleData ys) ∧
    interpolateWith sig t (getScaleData xs) (getScaleData ys) ≤ max ys[i] ys[i + 1] := by
  rw [interp_closed_seg sig h0 h1' t xs ys hs hlen i hi h1 h2]
  have hab := strict_getElem_lt hs i (i + 1) (by omega) hi
  obtain ⟨r0, r1⟩ := relx_bounds xs[i] xs[i + 1] t hab h1 h2
  have s0 : 0 ≤ sig ((t - xs[i]) / (xs[i + 1] - xs[i])) := by
    have := hm 0 _ (le_refl _) r0 r1; rwa [h0] at this
  have s1 : sig ((t - xs[i]) / (xs[i + 1] - xs[i])) ≤ 1 := by
    have := hm _ 1 r0 r1 (le_refl _); rwa [h1'] at this
  exact between_of_unit _ _ _ s0 s1

theorem interp_mono_up (sig : α → α) (h0 : sig 0 = 0) (h1' : sig 1 = 1) (hm : MonoOnUnit sig)
    (t1 t2 : α) (xs ys : List α) (hs : xs.Pairwise (· < ·)) (hlen : ys.length = xs.length) (i : Nat)
    (hi : i + 1 < xs.length) (h1 : xs[i] ≤ t1) (h12 : t1 ≤ t2) (h2 : t2 ≤ xs[i + 1])
    (hy : ys[i] ≤ ys[i + 1]) :
    interpolateWith sig t1 (getScaleData xs) (getScaleData ys)
      ≤ interpolateWith sig t2 (getScaleData xs) (getScaleData ys) := by
  rw [interp_closed_seg sig h0 h1' t1 xs ys hs hlen i hi h1 (le_trans h12 h2),
    interp_closed_seg sig h0 h1' t2 xs ys hs hlen i hi (le_trans h1 h12) h2]
  have hab := strict_getElem_lt hs i (i + 1) (by omega) hi
  obtain ⟨r0, _⟩ := relx_bounds xs[i] xs[i + 1] t1 hab h1 (le_trans h12 h2)
  obtain ⟨_, r1⟩ := relx_bounds xs[i] xs[i + 1] t2 hab (le_trans h1 h12) h2
  have hsig := hm _ _ r0 (relx_mono xs[i] xs[i + 1] t1 t2 hab h12) r1
  have hd : 0 ≤ ys[i + 1] - ys[i] := sub_nonneg.mpr hy
  have := mul_le_mul_of_nonneg_right hsig hd
  linarith

theorem interp_mono_down (sig : α → α) (h0 : sig 0 = 0) (h1' : sig 1 = 1) (hm : MonoOnUnit sig)
    (t1 t2 : α) (xs ys : List α) (hs : xs.Pairwise (· < ·)) (hlen : ys.length = xs.length) (i : Nat)
    (hi : i + 1 < xs.length) (h1 : xs[i] ≤ t1) (h12 : t1 ≤ t2) (h2 : t2 ≤ xs[i + 1])
    (hy : ys[i + 1] ≤ ys[i]) :
    interpolateWith sig t2 (getScaleData xs) (getScaleData ys)
      ≤ interpolateWith sig t1 (getScaleData xs) (getScaleData ys) := by
  rw [interp_closed_seg sig h0 h1' t1 xs ys hs hlen i hi h1 (le_trans h12 h2),
    interp_closed_seg sig h0 h1' t2 xs ys hs hlen i hi (le_trans h1 h12) h2]
  have hab := strict_getElem_lt hs i (i + 1) (by omega) hi
  obtain ⟨r0, _⟩ := relx_bounds xs[i] xs[i + 1] t1 hab h1 (le_trans h12 h2)
  obtain ⟨_, r1⟩ := relx_bounds xs[i] xs[i + 1] t2 hab (le_trans h1 h12) h2
  have hsig := hm _ _ r0 (relx_mono xs[i] xs[i + 1] t1 t2 hab h12) r1
  have hd : ys[i + 1] - ys[i] ≤ 0 := sub_nonpos.mpr hy
  have := mul_le_mul_of_nonpos_right hsig hd
  linarith

end interp

/-! ### rolling helpers -/
section rolling
variable {α : Type}

theorem rollingDiff_eq_seriesDiff [Sub α] (p : Nat) (x : List α) :
    rollingDiff p x = seriesDiff p x := by
  apply List.ext_getElem
  · simp [rollingDiff, seriesDiff]
  · intro i h1 h2
    have hi : i < x.length := by simpa [rollingDiff] using h1
    simp only [rollingDiff, seriesDiff, List.getElem_map, List.getElem_range, List.getElem_ofFn]
    by_cases hp : i < p
    · simp [hp]
    · have h3 : i - p < x.length := by omega
      simp [hp, List.getElem?_eq_getElem hi, List.getElem?_eq_getElem h3]

theorem drop_take_eq_window (x : List α) (w i : Nat) (hw : w ≤ i + 1) (hi : i < x.length) :
    (x.drop (i - (w - 1))).take w = window x w i hw hi := by
  apply List.ext_getElem
  · simp only [window, List.length_take, List.length_drop, List.length_ofFn]; omega
  · intro j h1 h2
    have hj : j < w := by simpa [window] using h2
    simp only [window, List.getElem_take, List.getElem_drop, List.getElem_ofFn]
    congr 1; omega

theorem rollingReduction_eq_seriesRolling (f : List α → α) (w : Nat) (hw : 1 ≤ w) (x : List α) :
    rollingReduction f w x = seriesRolling f w x := by
  apply List.ext_getElem
  · simp [rollingReduction, seriesRolling]
  · intro i h1 h2
    have hi : i < x.length := by simpa [rollingReduction] using h1
    simp only [rollingReduction, seriesRolling, List.getElem_map, List.getElem_range,
      List.getElem_ofFn, List.map_map]
    by_cases hp : i + 1 < w
    · have : ¬ (w - 1 ≤ i) := by omega
      simp [hp, this]
    · have h3 : w - 1 ≤ i := by omega
      have h4 : i - (w - 1) < x.length - w + 1 := by omega
      simp only [hp, h3, ↓reduceIte, ↓reduceDIte]
      rw [List.getElem?_eq_getElem (by simpa using h4)]
      simp only [List.getElem_map, List.getElem_range, Function.comp]
      rw [drop_take_eq_window x w i (by omega) hi]

theorem length_window (x : List α) (w i : Nat) (hw : w ≤ i + 1) (hi : i < x.length) :
    (window x w i hw hi).length = w := by
  simp [window]

theorem getElem_window (x : List α) (w i : Nat) (hw : w ≤ i + 1) (hi : i < x.length) (j : Nat)
    (hj : j < w) :
    (window x w i hw hi)[j]'(by rw [length_window]; exact hj) = x[i + 1 - w + j]'(by omega) := by
  simp [window]

end rolling

/-! ### the normalised logistic over `ℝ` -/
section real
open Filter Topology

theorem two_real : (two : ℝ) = 2 := by norm_num [two]

theorem normSigmoid_real (c x : ℝ) :
    normSigmoid Real.exp c x
      = (1 / (1 + Real.exp (c * (1 / 2 - x))) - 1 / (1 + Real.exp (c / 2)))
          * (1 / (1 - 1 / (1 + Real.exp (c / 2)) * 2)) := by
  simp only [normSigmoid, two_real]
  have : c * (1 / 2 - 0) = c / 2 := by ring
  rw [this]

theorem normSigmoid_zero (c : ℝ) : normSigmoid Real.exp c 0 = 0 := by
  rw [normSigmoid_real]
  have : c * (1 / 2 - 0) = c / 2 := by ring
  rw [this]; simp

theorem normSigmoid_scale_pos (c : ℝ) (hc : 0 < c) :
    0 < 1 / (1 - 1 / (1 + Real.exp (c / 2)) * 2) := by
  have he : 1 < Real.exp (c / 2) := Real.one_lt_exp_iff.mpr (by linarith)
  have h1 : 0 < 1 + Real.exp (c / 2) := by linarith
  have : 1 - 1 / (1 + Real.exp (c / 2)) * 2 = (Real.exp (c / 2) - 1) / (1 + Real.exp (c / 2)) := by
    field_simp; ring
  rw [this]
  exact one_div_pos.mpr (div_pos (by linarith) h1)

theorem normSigmoid_one (c : ℝ) (hc : 0 < c) : normSigmoid Real.exp c 1 = 1 := by
  rw [normSigmoid_real]
  have he : 1 < Real.exp (c / 2) := Real.one_lt_exp_iff.mpr (by linarith)
  have h1 : 0 < 1 + Real.exp (c / 2) := by linarith
  have hx : Real.exp (c * (1 / 2 - 1)) = (Real.exp (c / 2))⁻¹ := by
    rw [← Real.exp_neg]; congr 1; ring
  rw [hx]
  have hne : Real.exp (c / 2) - 1 ≠ 0 := by linarith
  have hne2 : Real.exp (c / 2) ≠ 0 := by linarith
  have hne3 : 1 + Real.exp (c / 2) - 2 ≠ 0 := by
    intro h; apply hne; linarith
  field_simp
  ring

theorem normSigmoid_strictMono (c : ℝ) (hc : 0 < c) : StrictMono (normSigmoid Real.exp c) := by
  intro x y hxy
  simp only [normSigmoid_real]
  apply mul_lt_mul_of_pos_right _ (normSigmoid_scale_pos c hc)
  have hexp : Real.exp (c * (1 / 2 - y)) < Real.exp (c * (1 / 2 - x)) := by
    apply Real.exp_lt_exp.mpr; nlinarith
  have hp := Real.exp_pos (c * (1 / 2 - y))
  have := one_div_lt_one_div_of_lt (by linarith : 0 < 1 + Real.exp (c * (1 / 2 - y))) (by linarith : 1 + Real.exp (c * (1 / 2 - y)) < 1 + Real.exp (c * (1 / 2 - x)))
  linarith

/-- derivative in the curvature of the uncorrected sigmoid at curvature 0 -/
theorem hasDerivAt_unc (k : ℝ) :
    HasDerivAt (fun c : ℝ => 1 / (1 + Real.exp (c * k))) (-k / 4) 0 := by
  have h1 : HasDerivAt (fun c : ℝ => c * k) k 0 := by
    simpa using (hasDerivAt_id (0 : ℝ)).mul_const k
  have h3 : HasDerivAt (fun c : ℝ => 1 + Real.exp (c * k)) (Real.exp (0 * k) * k) 0 :=
    h1.exp.const_add 1
  have h4 := h3.inv (by positivity)
  have e : -(Real.exp (0 * k) * k) / (1 + Real.exp (0 * k)) ^ 2 = -k / 4 := by
    simp; norm_num
  rw [e] at h4
  refine h4.congr_of_eventuallyEq (Eventually.of_forall fun c => ?_)
  simp [one_div]

/-- the normalised logistic tends to the identity as the curvature tends to 0 -/
theorem tendsto_normSigmoid_formula (x : ℝ) :
    Tendsto (fun c : ℝ =>
        (1 / (1 + Real.exp (c * (1 / 2 - x))) - 1 / (1 + Real.exp (c / 2)))
          * (1 / (1 - 1 / (1 + Real.exp (c / 2)) * 2))) (𝓝[≠] 0) (𝓝 x) := by
  have hN : HasDerivAt (fun c : ℝ =>
      1 / (1 + Real.exp (c * (1 / 2 - x))) - 1 / (1 + Real.exp (c * (1 / 2)))) (x / 4) 0 := by
    exact ((hasDerivAt_unc (1 / 2 - x)).fun_sub (hasDerivAt_unc (1 / 2))).congr_deriv (by ring)
  have hD : HasDerivAt (fun c : ℝ => 1 - 1 / (1 + Real.exp (c * (1 / 2))) * 2) (1 / 4) 0 := by
    exact (((hasDerivAt_unc (1 / 2)).mul_const 2).const_sub 1).congr_deriv (by ring)
  have tN := hN.tendsto_slope_zero
  have tD := hD.tendsto_slope_zero
  have t := tN.div tD (by norm_num)
  have e : x / 4 / (1 / 4) = x := by field_simp
  rw [e] at t
  refine t.congr' ?_
  filter_upwards [self_mem_nhdsWithin] with c hc
  have hc0 : c ≠ 0 := hc
  have h2 : c * (1 / 2) = c / 2 := by ring
  simp only [Pi.div_apply, zero_add, zero_mul, Real.exp_zero, smul_eq_mul, h2]
  norm_num
  field_simp

theorem tendsto_normSigmoid (x : ℝ) :
    Tendsto (fun c : ℝ => normSigmoid Real.exp c x) (𝓝[≠] 0) (𝓝 x) := by
  simp only [normSigmoid_real]
  exact tendsto_normSigmoid_formula x

end real

end Summer.Proofs.TimeFns
