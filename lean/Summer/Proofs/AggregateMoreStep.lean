import Summer.Proofs.AggregateMore
import Summer.Proofs.AggregateMoreDerived
/-
Helper lemmas for property C03, part 13: the flow-rate vectors of one evaluation of the right-hand side
(`Run.step`) of the stratified and of the unstratified model, multipliers computed by the runner, satisfy
the block-sum identity used by the derived flow outputs.
-/
open Summer Summer.Build Summer.Run Summer.Generated Summer.Spec Summer.Spec.AggregateMore
set_option linter.unusedSectionVars false

namespace Summer.Proofs.AggregateMoreStep
open Summer.Proofs Summer.Proofs.AggregateMore

section
variable {α : Type} [Field α] [LT α] [DecidableLT α]

/-- one evaluation of the right-hand side, unfolded, with the flow rates exposed -/
theorem step_some (m : Model α) (b : Backend) (params : List (String × α)) (x : List α) (t : α) (so : StepOut α)
    (h : step m b params t x = some so) :
    ∃ w mix ci, m.flows.mapM (fun f => (realised f).eval ⟨params, t, cleanV x⟩) = some w ∧
      mixingMatrix m ⟨params, t, cleanV x⟩ = some mix ∧ compInfectiousness m params = some ci ∧
      so.flowRates = flowRates b w (cleanV x)
        (if b.procType.isSome then infectiousMultipliers b (cleanV x) mix ci else ([], [])).1 ∧
      so.compRates = compRates b so.flowRates := by
  unfold step at h
  simp only [Option.bind_eq_bind, Option.bind_eq_some_iff] at h
  obtain ⟨static, hstatic, w, hw, mix, hmix, ci, hci, hout⟩ := h
  simp only [pure, Option.some.injEq] at hout
  subst hout
  refine ⟨w, mix, ci, ?_, hmix, hci, rfl, rfl⟩
  rw [← flowWeights_eq_mapM m ⟨params, t, cleanV x⟩ params static rfl hstatic]
  exact hw
end

section
variable {α : Type} [Field α] [LinearOrder α] [IsStrictOrderedRing α]

/-- **The flow rates of one evaluation of the right-hand side**: in the setting of `rhs_agg_multi`, the
flow-rate vector of `m'` at a non-negative `x'` and that of `m` at `agg x'` are given by functions of the
flow whose values on the copies of a flow add up to the value on the flow. -/
theorem step_flowRates_agg {m m' : Model α} {s : Strat α} {b b' : Backend}
    (hsw : stratifyWith m s = .ok m') (hb : prepare m = .ok b) (hb' : prepare m' = .ok b')
    (hfa : s.flowAdj = []) (hia : s.infAdj = []) (hmix : s.mixing = none) (hstrain : s.kind ≠ .strain)
    (hage : s.kind = .age → "0" ∈ s.strata) (hname : s.name ≠ "strain")
    (ok : StratOk m.comps s) (hne : s.strata ≠ []) (hs : sourcedOk m = true)
    (hu : catsUniform b = true) (hu' : catsUniform b' = true) (hkeys : catKeysAvoid m s.name = true)
    (hmsf : mixingStateFree m = true)
    (hsf : ∀ g ∈ m'.flows, stateFree (realised g) = true)
    (params : List (String × α)) (t : α) (x' : List α) (hx : x'.length = m'.comps.length)
    (hnn : NN x') (so so' : StepOut α)
    (hso' : step m' b' params t x' = some so') (hso : step m b params t (agg m.comps s x') = some so) :
    ∃ R R' : Flow α → α, so'.flowRates = m'.flows.map R' ∧ so.flowRates = m.flows.map R ∧
      ∀ f ∈ m.flows, sumL ((copiesA s f).map R') = R f := by
  have hn : (s.strata.length : α) ≠ 0 := by
    have : s.strata.length ≠ 0 := fun e => hne (List.length_eq_zero_iff.1 e)
    exact_mod_cast this
  obtain ⟨hcomps, extra, hflows, hextra, _⟩ := stratifyWith_shape m m' s hsw hfa hmix hstrain ok.fresh
  obtain ⟨hstr, hstrains, hinf, hcats, hmats'⟩ := stratifyWith_fields m m' s hsw hfa hmix hstrain
  have hB := backendFor_of_prepare m b hb
  have hB' := backendFor_of_prepare m' b' hb'
  have ht := foiTables_of_prepare m b hb
  have ht' := foiTables_of_prepare m' b' hb'
  obtain ⟨w', mix', ci', hw', hmx', hci', hfr', _⟩ := step_some m' b' params x' t so' hso'
  obtain ⟨w, mix, ci, hw, hmx, hci, hfr, _⟩ := step_some m b params _ t so hso
  have hnn2 : NN (agg m.comps s x') := aggBy_NN _ _ _ _ hnn
  rw [cleanV_of_NN x' hnn] at hw' hmx' hfr'
  rw [cleanV_of_NN _ hnn2] at hw hmx hfr
  rw [mixingMatrix_congr m m' _ hmats', mixingMatrix_stateFree m params t x' (agg m.comps s x') hmsf, hmx] at hmx'
  simp only [Option.some.injEq] at hmx'
  subst hmx'
  have hw'' : m'.flows.mapM (fun f => (realised f).eval ⟨params, t, agg m.comps s x'⟩) = some w' := by
    rw [← hw']
    exact mapM_option_congr _ _ _ (fun g hg => (eval_stateFree params t _ _ _ (hsf g hg)).symm)
  rw [hfr', hfr, mapM_eval_eq_map _ _ _ hw, mapM_eval_eq_map _ _ _ hw'']
  have hps := perStrain_agg_ci hsw hb hb' hfa hia hmix hstrain hname ok hne hu hu' hkeys params ci ci' hci hci' x' hx mix
  have hprocM : ∀ i (hi : i < m.flows.length), isInfection m.flows[i].kind = true → b.procType.isSome = true := by
    intro i hi h
    rw [hB.procType, List.any_eq_true]
    exact ⟨_, List.getElem_mem hi, h⟩
  have hprocM' : ∀ i (hi : i < m'.flows.length), isInfection m'.flows[i].kind = true → b'.procType.isSome = true := by
    intro i hi h
    rw [hB'.procType, List.any_eq_true]
    exact ⟨_, List.getElem_mem hi, h⟩
  refine AggregateMoreDerived.flow_rates_agg ok hn hstrain hage extra hcomps hflows hextra hB hB' hs x' hx _ _ _
    (multFn m (infectiousMultipliers b (agg m.comps s x') mix ci).2)
    (multFn m' (infectiousMultipliers b' x' mix ci').2) ?_ ?_ ?_
  · intro i hi h
    rw [hprocM i hi h]
    exact mults_getD ht _ _ _ i hi h
  · intro i hi h
    rw [hprocM' i hi h]
    exact mults_getD ht' _ _ _ i hi h
  · intro f hf _ g hg
    rw [hps]
    have hgm : g ∈ m'.flows := by
      rw [hflows]
      exact List.mem_append_left _ (List.mem_flatMap.2 ⟨f, hf, hg⟩)
    exact multFn_copy_multi ok.fresh hname hkeys hcats hstrains _ f g hg (ends_of_backendFor hB f hf).1
      (ends_of_backendFor hB f hf).2 (ends_of_backendFor hB' g hgm).1
end
end Summer.Proofs.AggregateMoreStep
