import Summer.Proofs.AggregateRates
/-
Helper lemmas for property C03, part 4: linearity of the force of infection in the infected values
(strain stratifications).
-/
open Summer Summer.Build Summer.Run Summer.Generated Summer.Spec
set_option linter.unusedSectionVars false
set_option linter.unnecessarySeqFocus false

namespace Summer.Proofs
section
variable {α : Type} [Field α]
/-- `dot` as a sum over positions -/
theorem dot_eq_range (a b : List α) :
    dot a b = sumL ((List.range (min a.length b.length)).map (fun c => a.getD c 0 * b.getD c 0)) := by
  induction a generalizing b with
  | nil => simp [dot, vmul, sumL]
  | cons x xs ih =>
    cases b with
    | nil => simp [dot, vmul, sumL]
    | cons y ys =>
      have := ih ys
      unfold dot vmul at this ⊢
      simp only [List.zipWith_cons_cons, sumL, List.length_cons, Nat.succ_min_succ, List.range_succ_eq_map,
        List.map_cons, List.map_map, List.getD_cons_zero, this]
      rfl

/-- `dot` is additive in its second argument over a family of vectors of one common length -/
theorem dot_sum {κ} (row : List α) (ks : List κ) (V : κ → List α) (v : List α) (L : Nat)
    (hV : ∀ k ∈ ks, (V k).length = L) (hv : v.length = L)
    (hsum : ∀ c, c < L → sumL (ks.map (fun k => (V k).getD c 0)) = v.getD c 0) :
    sumL (ks.map (fun k => dot row (V k))) = dot row v := by
  have h1 : ks.map (fun k => dot row (V k)) = ks.map (fun k =>
      sumL ((List.range (min row.length L)).map (fun c => row.getD c 0 * (V k).getD c 0))) := by
    apply List.map_congr_left
    intro k hk
    rw [dot_eq_range, hV k hk]
  rw [h1, dot_eq_range, hv, sumL_swap]
  apply sumL_map_congr
  intro c hc
  rw [sumL_map_mul_left, hsum c (by have := List.mem_range.1 hc; omega)]

theorem matVec_getD (mix : Matrix α) (v : List α) (r : Nat) (hr : r < mix.length) :
    (matVec mix v).getD r 0 = dot mix[r] v := by
  unfold matVec
  rw [map_getD_zero _ _ _ hr]

/-- `matVec` is additive over a family of vectors of one common length -/
theorem matVec_sum {κ} (mix : Matrix α) (ks : List κ) (V : κ → List α) (v : List α) (L : Nat)
    (hV : ∀ k ∈ ks, (V k).length = L) (hv : v.length = L)
    (hsum : ∀ c, c < L → sumL (ks.map (fun k => (V k).getD c 0)) = v.getD c 0) (r : Nat) (hr : r < mix.length) :
    sumL (ks.map (fun k => (matVec mix (V k)).getD r 0)) = (matVec mix v).getD r 0 := by
  rw [matVec_getD mix v r hr, ← dot_sum mix[r] ks V v L hV hv hsum]
  apply sumL_map_congr
  intro k _
  exact matVec_getD mix (V k) r hr

/-- the infected population per category, as computed inside `forceOfInfection` -/
def infPops (infVals infness : List α) (catIndexer : List (List Nat)) : List α :=
  catIndexer.map (fun row => sumL (gather (vmul infVals infness) row))

theorem foi_density (infVals infness : List α) (ci : List (List Nat)) (mix : Matrix α) (catPops : List α) :
    (forceOfInfection infVals infness ci mix catPops).1 = matVec mix (infPops infVals infness ci) := rfl

theorem foi_frequency (infVals infness : List α) (ci : List (List Nat)) (mix : Matrix α) (catPops : List α) :
    (forceOfInfection infVals infness ci mix catPops).2 =
      matVec mix (List.zipWith (· / ·) (infPops infVals infness ci) catPops) := rfl

theorem zipWith_div_getD (a b : List α) (c : Nat) (hc : c < min a.length b.length) :
    (List.zipWith (· / ·) a b).getD c 0 = a.getD c 0 / b.getD c 0 := by
  have h1 : c < a.length := by omega
  have h2 : c < b.length := by omega
  simp [List.getD_eq_getElem?_getD, h1, h2]

theorem sumL_map_div_right {β} (l : List β) (f : β → α) (k : α) :
    sumL (l.map (fun x => f x / k)) = sumL (l.map f) / k := by
  simp only [div_eq_mul_inv]; exact sumL_map_mul_right l f k⁻¹


theorem infPops_length (iv inf : List α) (ci : List (List Nat)) : (infPops iv inf ci).length = ci.length := by
  simp [infPops]

/-- **strain_foi_sum** at the level of `forceOfInfection`: if in every category the infected
populations of the strains add up to the unstratified infected population, then so do the forces of
infection (density and frequency), row by row. -/
theorem foi_sum {κ} (strains : List κ) (iv inf : κ → List α) (ci : κ → List (List Nat))
    (iv0 inf0 : List α) (ci0 : List (List Nat)) (mix : Matrix α) (catPops : List α) (ncat : Nat)
    (hci : ∀ k ∈ strains, (ci k).length = ncat) (hci0 : ci0.length = ncat)
    (hpop : ∀ c, c < ncat → sumL (strains.map (fun k => (infPops (iv k) (inf k) (ci k)).getD c 0))
      = (infPops iv0 inf0 ci0).getD c 0)
    (r : Nat) (hr : r < mix.length) :
    sumL (strains.map (fun k => (forceOfInfection (iv k) (inf k) (ci k) mix catPops).1.getD r 0))
        = (forceOfInfection iv0 inf0 ci0 mix catPops).1.getD r 0 ∧
    sumL (strains.map (fun k => (forceOfInfection (iv k) (inf k) (ci k) mix catPops).2.getD r 0))
        = (forceOfInfection iv0 inf0 ci0 mix catPops).2.getD r 0 := by
  constructor
  · simp only [foi_density]
    exact matVec_sum mix strains (fun k => infPops (iv k) (inf k) (ci k)) _ ncat
      (fun k hk => by rw [infPops_length, hci k hk]) (by rw [infPops_length, hci0]) hpop r hr
  · simp only [foi_frequency]
    refine matVec_sum mix strains (fun k => List.zipWith (· / ·) (infPops (iv k) (inf k) (ci k)) catPops) _
      (min ncat catPops.length) (fun k hk => by simp [infPops_length, hci k hk])
      (by simp [infPops_length, hci0]) ?_ r hr
    intro c hc
    have h1 : strains.map (fun k => (List.zipWith (· / ·) (infPops (iv k) (inf k) (ci k)) catPops).getD c 0)
        = strains.map (fun k => (infPops (iv k) (inf k) (ci k)).getD c 0 / catPops.getD c 0) := by
      apply List.map_congr_left
      intro k hk
      exact zipWith_div_getD _ _ c (by rw [infPops_length, hci k hk]; exact hc)
    rw [h1, sumL_map_div_right, hpop c (by omega), zipWith_div_getD _ _ c (by rw [infPops_length, hci0]; exact hc)]

theorem gather_sum {κ} (ks : List κ) (V : κ → List α) (v : List α) (row : List Nat)
    (hsum : ∀ j, sumL (ks.map (fun k => (V k).getD j 0)) = v.getD j 0) :
    sumL (ks.map (fun k => sumL (gather (V k) row))) = sumL (gather v row) := by
  unfold gather
  rw [sumL_swap]
  apply sumL_map_congr
  intro j _
  exact hsum j

/-- the category sums are additive in the infected values: when all strains use the same category
indexer as the unstratified model and the infected values (value × infectiousness) of the strains add
up position by position, the hypothesis of `foi_sum` holds -/
theorem infPops_sum {κ} (strains : List κ) (iv inf : κ → List α) (iv0 inf0 : List α) (ci0 : List (List Nat))
    (hinf : ∀ j, sumL (strains.map (fun k => (vmul (iv k) (inf k)).getD j 0)) = (vmul iv0 inf0).getD j 0)
    (c : Nat) (hc : c < ci0.length) :
    sumL (strains.map (fun k => (infPops (iv k) (inf k) ci0).getD c 0)) = (infPops iv0 inf0 ci0).getD c 0 := by
  unfold infPops
  rw [map_getD_zero _ _ _ hc]
  have : strains.map (fun k => (ci0.map (fun row => sumL (gather (vmul (iv k) (inf k)) row))).getD c 0)
      = strains.map (fun k => sumL (gather (vmul (iv k) (inf k)) ci0[c])) := by
    apply List.map_congr_left
    intro k _
    rw [map_getD_zero _ _ _ hc]
  rw [this]
  exact gather_sum strains (fun k => vmul (iv k) (inf k)) _ _ hinf
end
end Summer.Proofs
