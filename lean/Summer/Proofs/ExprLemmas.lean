import Summer.Model.Expr
/-
Coincidence lemma for the expression language: an expression that mentions no model variable
(`usesModelVars = false`) evaluates to the same result whatever the time and state are.
Mathlib-free; generic over the core arithmetic classes.
-/
namespace Summer.Proofs
open Summer

section
variable {α : Type} [Zero α] [Add α] [Sub α] [Mul α] [Div α] [LT α] [DecidableLT α]

mutual
theorem eval_coincidence (p : List (String × α)) (t t' : α) (x x' : List α) :
    ∀ e : Expr α, e.usesModelVars = false → e.eval ⟨p, t, x⟩ = e.eval ⟨p, t', x'⟩
  | .const _, _ => by simp [Expr.eval]
  | .param _, _ => by simp [Expr.eval]
  | .time, h => by simp [Expr.usesModelVars] at h
  | .comp _, h => by simp [Expr.usesModelVars] at h
  | .popSum, h => by simp [Expr.usesModelVars] at h
  | .add a b, h => by
      simp only [Expr.usesModelVars, Bool.or_eq_false_iff] at h
      simp only [Expr.eval, eval_coincidence p t t' x x' a h.1, eval_coincidence p t t' x x' b h.2]
  | .sub a b, h => by
      simp only [Expr.usesModelVars, Bool.or_eq_false_iff] at h
      simp only [Expr.eval, eval_coincidence p t t' x x' a h.1, eval_coincidence p t t' x x' b h.2]
  | .mul a b, h => by
      simp only [Expr.usesModelVars, Bool.or_eq_false_iff] at h
      simp only [Expr.eval, eval_coincidence p t t' x x' a h.1, eval_coincidence p t t' x x' b h.2]
  | .div a b, h => by
      simp only [Expr.usesModelVars, Bool.or_eq_false_iff] at h
      simp only [Expr.eval, eval_coincidence p t t' x x' a h.1, eval_coincidence p t t' x x' b h.2]
  | .pw a bs vs, h => by
      simp only [Expr.usesModelVars, Bool.or_eq_false_iff] at h
      simp only [Expr.eval, eval_coincidence p t t' x x' a h.1.1,
        evalList_coincidence p t t' x x' bs h.1.2, evalList_coincidence p t t' x x' vs h.2]
  | .lin a bs vs, h => by
      simp only [Expr.usesModelVars, Bool.or_eq_false_iff] at h
      simp only [Expr.eval, eval_coincidence p t t' x x' a h.1.1,
        evalList_coincidence p t t' x x' bs h.1.2, evalList_coincidence p t t' x x' vs h.2]
theorem evalList_coincidence (p : List (String × α)) (t t' : α) (x x' : List α) :
    ∀ l : List (Expr α), Expr.usesModelVarsList l = false →
      Expr.evalList ⟨p, t, x⟩ l = Expr.evalList ⟨p, t', x'⟩ l
  | [], _ => by simp [Expr.evalList]
  | e :: es, h => by
      simp only [Expr.usesModelVarsList, Bool.or_eq_false_iff] at h
      simp only [Expr.evalList, eval_coincidence p t t' x x' e h.1, evalList_coincidence p t t' x x' es h.2]
end

/-- environment form: only the parameter dictionary matters -/
theorem eval_coincidence_env (e : Expr α) (h : e.usesModelVars = false) (env env' : Env α)
    (hp : env.params = env'.params) : e.eval env = e.eval env' := by
  cases env with | mk p t x =>
  cases env' with | mk p' t' x' =>
  simp only at hp
  subst hp
  exact eval_coincidence p t t' x x' e h

end
end Summer.Proofs
