import Mathlib.Algebra.Group.Defs
import Mathlib.Data.List.Perm.Basic
import Summer.Spec.InvarianceStratComm
import Summer.Proofs.Structure
import Summer.Proofs.Invariance
import Summer.Proofs.FOI
/-
Helper lemmas for property C15, part "two independent stratifications commute at MODEL level"
(`Summer/Props/C15StratComm.lean`).
-/
set_option linter.unusedSectionVars false

namespace Summer.Proofs.StratComm
open Summer Summer.Build Summer.Generated Summer.Spec
open Summer.Proofs.InvFlowOrder (pre flowsStrat bind_ok_iff guardE_bind_ok_iff stratifyWith_eq)

/-! ## A. what an accepted non-age `stratify_with` does to every field -/

section decomposition
variable {α : Type}

theorem forIn_yield_ok2 {β : Type} (l : List β) (g1 g2 : β → Res Unit) (r : PUnit)
    (h : (forIn l PUnit.unit (fun d (_ : PUnit) => do
        g1 d
        g2 d
        pure (ForInStep.yield PUnit.unit)) : Res PUnit) = .ok r) :
    ∀ d ∈ l, g1 d = .ok () ∧ g2 d = .ok () := by
  induction l with
  | nil => intro d hd; cases hd
  | cons a l ih =>
    simp only [List.forIn_cons, bind_assoc, pure_bind] at h
    obtain ⟨u, hu, h⟩ := (bind_ok_iff _ _ _).1 h
    obtain ⟨u', hu', h⟩ := (bind_ok_iff _ _ _).1 h
    intro d hd
    rcases List.mem_cons.1 hd with rfl | hd
    · exact ⟨hu, hu'⟩
    · exact ih h d hd

/-- the update of the three fields touched by the validation part of `stratify_with` -/
def preModel (m : Model α) (s : Strat α) : Model α :=
  { m with
    mixingMats := m.mixingMats ++ mixingOf s
    mixingCats := (match s.mixing with
      | none => m.mixingCats
      | some _ => FOI.catsStep m.mixingCats s.name s.strata)
    strains := if s.isStrain then s.strata else m.strains }

theorem pre_ok_inv (m m2 : Model α) (s : Strat α) (h : pre m s = .ok m2) :
    m.strats.any (fun t => t.name == s.name) = false ∧
    (∀ d ∈ s.flowAdj, strataExist m d.srcStrata = .ok () ∧ strataExist m d.dstStrata = .ok ()) ∧
    (s.isStrain = true → m.strats.any (fun t => t.isStrain) = false) ∧
    m2 = preModel m s := by
  simp only [pre] at h
  obtain ⟨hfresh, h⟩ := (guardE_bind_ok_iff _ _ _ _).1 h
  obtain ⟨-, h⟩ := (guardE_bind_ok_iff _ _ _ _).1 h
  obtain ⟨_, -, h⟩ := (bind_ok_iff _ _ _).1 h
  obtain ⟨r, hex, h⟩ := (bind_ok_iff _ _ _).1 h
  obtain ⟨-, h⟩ := (guardE_bind_ok_iff _ _ _ _).1 h
  obtain ⟨m1, h1, h⟩ := (bind_ok_iff _ _ _).1 h
  obtain ⟨m2', h2, h⟩ := (bind_ok_iff _ _ _).1 h
  obtain ⟨-, h⟩ := (guardE_bind_ok_iff _ _ _ _).1 h
  cases h
  refine ⟨by simpa using hfresh, ?_, ?_, ?_⟩
  · exact forIn_yield_ok2 _ _ _ r hex
  · intro hs
    rw [hs] at h2
    simp only [if_true] at h2
    obtain ⟨hg, -⟩ := (guardE_bind_ok_iff _ _ _ _).1 h2
    simpa using hg
  · have e1 : m1 = { preModel m s with strains := m.strains } := by
      cases hm : s.mixing with
      | none =>
        rw [hm] at h1; cases h1
        simp [preModel, mixingOf, hm]
      | some mat =>
        rw [hm] at h1
        obtain ⟨-, h1⟩ := (guardE_bind_ok_iff _ _ _ _).1 h1
        obtain ⟨-, h1⟩ := (guardE_bind_ok_iff _ _ _ _).1 h1
        cases h1
        simp [preModel, mixingOf, hm, FOI.catsStep]
    cases hs : s.isStrain with
    | false =>
      rw [hs] at h2; cases h2
      rw [e1]; simp [preModel, hs]
    | true =>
      rw [hs] at h2
      simp only [if_true] at h2
      obtain ⟨-, h2⟩ := (guardE_bind_ok_iff _ _ _ _).1 h2
      cases h2
      rw [e1]; simp [preModel, hs]

end decomposition

section decomposition2
variable {α : Type} [One α] [Div α] [NatCast α]

/-- entry flows have no source, exit flows no destination (true of every reachable model) -/
def ShapeLite (fl : List (Flow α)) : Prop :=
  ∀ f ∈ fl, (isEntry f.kind = true → f.src = none) ∧ (isExit f.kind = true → f.dst = none)

/-- the model after an accepted non-age `stratify_with`, every field explicit -/
def stratModel (m : Model α) (s : Strat α) : Model α :=
  { preModel m s with
    comps := stratifyComps m.comps s
    flows := m.flows.flatMap (fun f => copies f s)
    strats := m.strats ++ [s]
    actions := m.actions ++ [.stratify s.name] }

theorem isAgeing_false {s : Strat α} (hk : s.kind ≠ .age) : s.isAgeing = false := by
  cases h : s.isAgeing with
  | false => rfl
  | true => exact absurd ((Structure.isAgeing_iff s).1 h) hk

theorem stratifyWith_ok_eq {m m' : Model α} {s : Strat α} (hk : s.kind ≠ .age) (hshape : ShapeLite m.flows)
    (h : stratifyWith m s = .ok m') :
    m' = stratModel m s ∧
    m.strats.any (fun t => t.name == s.name) = false ∧
    (∀ d ∈ s.flowAdj, strataExist m d.srcStrata = .ok () ∧ strataExist m d.dstStrata = .ok ()) ∧
    (s.isStrain = true → m.strats.any (fun t => t.isStrain) = false) := by
  obtain ⟨ageing, R⟩ := Structure.stratifyWith_ok hshape h
  have hfl : m'.flows = m.flows.flatMap (fun f => copies f s) := by
    rw [R.flows, R.notAge hk, List.append_nil]
  rw [stratifyWith_eq _ _ (isAgeing_false hk)] at h
  obtain ⟨m2, h2, h⟩ := (bind_ok_iff _ _ _).1 h
  obtain ⟨nf, -, h⟩ := (bind_ok_iff _ _ _).1 h
  obtain ⟨hfresh, hex, hstrain, rfl⟩ := pre_ok_inv m m2 s h2
  cases h
  refine ⟨?_, hfresh, hex, hstrain⟩
  have : nf = m.flows.flatMap (fun f => copies f s) := hfl
  rw [this]
  rfl

/-- the flows of the stratified model keep the shape -/
theorem shapeLite_copies {fl : List (Flow α)} (h : ShapeLite fl) (s : Strat α) :
    ShapeLite (fl.flatMap (fun f => copies f s)) := by
  intro g hg
  obtain ⟨f, hf, hgf⟩ := List.mem_flatMap.1 hg
  rcases Structure.mem_copies hgf with ⟨rfl, _⟩ | ⟨st, _, rfl⟩
  · exact h g hf
  · refine ⟨fun he => ?_, fun he => ?_⟩
    · show stratEnd s st f.src = none
      rw [Structure.stratEnd_none_iff]; exact (h f hf).1 he
    · show stratEnd s st f.dst = none
      rw [Structure.stratEnd_none_iff]; exact (h f hf).2 he

end decomposition2

/-! ## B. one parent flow: the two blocks of copies correspond -/

section dict
variable {β : Type}

theorem mem_dictSet_ne (l : List (String × β)) (k : String) (v : β) (kv : String × β) (h : kv.1 ≠ k) :
    kv ∈ dictSet l k v ↔ kv ∈ l := by
  unfold dictSet
  split
  · rw [List.mem_map]
    constructor
    · rintro ⟨p, hp, e⟩
      by_cases hk : p.1 = k
      · have hb : (p.1 == k) = true := by simpa using hk
        rw [if_pos hb] at e
        exact absurd (by rw [← e]) h
      · have hb : ¬ (p.1 == k) = true := by simpa using hk
        rw [if_neg hb] at e
        rw [← e]; exact hp
    · intro hkv
      refine ⟨kv, hkv, ?_⟩
      have hb : ¬ (kv.1 == k) = true := by simpa using h
      rw [if_neg hb]
  · rw [List.mem_append, List.mem_singleton]
    constructor
    · rintro (h' | h')
      · exact h'
      · exact absurd (by rw [h']) h
    · exact Or.inl

end dict

section perFlow
variable {α : Type} [One α] [Div α] [NatCast α]

theorem filtersAvoid_iff (s : Strat α) (name : String) :
    filtersAvoid s name = true ↔
      ∀ d ∈ s.flowAdj, (∀ kv ∈ d.srcStrata, kv.1 ≠ name) ∧ (∀ kv ∈ d.dstStrata, kv.1 ≠ name) := by
  simp [filtersAvoid, List.all_eq_true]

theorem endOk_stratEnd (s : Strat α) (st : String) (flt : Strata) (h : ∀ kv ∈ flt, kv.1 ≠ s.name)
    (e : Option Comp) : endOk flt (stratEnd s st e) ↔ endOk flt e := by
  cases e with
  | none => exact Iff.rfl
  | some c =>
    unfold stratEnd
    split
    · show (∀ kv ∈ flt, kv ∈ dictSet c.strata s.name st) ↔ (∀ kv ∈ flt, kv ∈ c.strata)
      constructor
      · intro H kv hkv; exact (mem_dictSet_ne _ _ _ kv (h kv hkv)).1 (H kv hkv)
      · intro H kv hkv; exact (mem_dictSet_ne _ _ _ kv (h kv hkv)).2 (H kv hkv)
    · exact Iff.rfl

theorem endIn_stratEnd (s s' : Strat α) (st : String) (e : Option Comp) :
    endIn s' (stratEnd s st e) ↔ endIn s' e := by
  cases e with
  | none => exact Iff.rfl
  | some c =>
    unfold stratEnd
    split
    · exact Iff.rfl
    · exact Iff.rfl

theorem winning_copyOf (s s' : Strat α) (f : Flow α) (st : String) (h : filtersAvoid s' s.name = true) :
    winning s' (copyOf f s st) = winning s' f := by
  unfold winning
  congr 2
  apply List.filter_congr
  intro d hd
  obtain ⟨h1, h2⟩ := (filtersAvoid_iff s' s.name).1 h d hd
  have : declApplies d (copyOf f s st) ↔ declApplies d f := by
    unfold declApplies flowSelected copyOf
    simp only [endOk_stratEnd s st _ h1, endOk_stratEnd s st _ h2]
  exact decide_eq_decide.2 this

theorem conservation_congr {g f : Flow α} {s : Strat α} (hk : g.kind = f.kind) (hw : winning s g = winning s f)
    (hs : endIn s g.src ↔ endIn s f.src) (hd : endIn s g.dst ↔ endIn s f.dst) :
    conservation g s ↔ conservation f s := by
  unfold conservation
  rw [hk, hw, hs, hd]

theorem extraAdj_congr {g f : Flow α} {s : Strat α} (hk : g.kind = f.kind) (hw : winning s g = winning s f)
    (hs : endIn s g.src ↔ endIn s f.src) (hd : endIn s g.dst ↔ endIn s f.dst) (st : String) :
    extraAdj g s st = extraAdj f s st := by
  have hc := conservation_congr hk hw hs hd
  unfold extraAdj autoAdj birthIntoAge
  simp only [hk, hw, hc]

theorem extraAdj_copyOf (s s' : Strat α) (f : Flow α) (a b : String) (h : filtersAvoid s' s.name = true) :
    extraAdj (copyOf f s a) s' b = extraAdj f s' b :=
  extraAdj_congr rfl (winning_copyOf s s' f a h) (endIn_stratEnd s s' a f.src) (endIn_stratEnd s s' a f.dst) b

theorem extraAdj_declared (f : Flow α) (s : Strat α) (st : String) :
    ∀ x ∈ extraAdj f s st, DeclaredAdj s x := by
  intro x hx
  unfold extraAdj at hx
  split at hx
  · cases hx
  · rw [List.mem_append] at hx
    rcases hx with hx | hx
    · cases hw : winning s f with
      | none =>
        rw [hw] at hx
        unfold autoAdj at hx
        split at hx
        · exact Or.inl (List.mem_singleton.1 hx)
        · split at hx
          · exact Or.inl (List.mem_singleton.1 hx)
          · cases hx
      | some a =>
        rw [hw] at hx
        obtain ⟨l1, d, l2, e, -, rfl, -⟩ := (Structure.winning_eq_some_iff s f a).1 hw
        unfold userAdj at hx
        split at hx
        · rename_i adj hl
          rw [List.mem_singleton] at hx
          subst hx
          exact Or.inr ⟨d, by rw [e]; simp, st, Structure.mem_of_alookup hl⟩
        · cases hx
    · split at hx
      · exact Or.inl (List.mem_singleton.1 hx)
      · cases hx

theorem endSem_stratEnd_comm (s1 s2 : Strat α) (hne : s1.name ≠ s2.name) (a b : String) (e : Option Comp) :
    endSem (stratEnd s2 b (stratEnd s1 a e)) = endSem (stratEnd s1 a (stratEnd s2 b e)) := by
  cases e with
  | none => rfl
  | some c =>
    by_cases h1 : c.name ∈ s1.comps <;> by_cases h2 : c.name ∈ s2.comps
    · simp only [stratEnd, h1, h2, if_true, Structure.stratify_name, endSem, Option.map_some]
      rw [Invariance.compSem_stratify_comm c s1.name a s2.name b hne]
    · simp [stratEnd, h1, h2, Structure.stratify_name]
    · simp [stratEnd, h1, h2, Structure.stratify_name]
    · simp [stratEnd, h1, h2]

end perFlow

end Summer.Proofs.StratComm
