import Mathlib.Algebra.Group.Defs
import Mathlib.Data.List.Perm.Basic
import Summer.Spec.InvarianceStratComm
import Summer.Proofs.Structure
import Summer.Proofs.Invariance
import Summer.Proofs.FOI
/-
Helper lemmas for property C15, part "two independent stratifications commute at MODEL level"
(`Summer/Props/C15StratComm.lean`).
-/
set_option linter.unusedSectionVars false

namespace Summer.Proofs.StratComm
open Summer Summer.Build Summer.Generated Summer.Spec
open Summer.Proofs.InvFlowOrder (pre flowsStrat bind_ok_iff guardE_bind_ok_iff stratifyWith_eq)

/-! ## A. what an accepted non-age `stratify_with` does to every field -/

section decomposition
variable {α : Type}

theorem forIn_yield_ok2 {β : Type} (l : List β) (g1 g2 : β → Res Unit) (r : PUnit)
    (h : (forIn l PUnit.unit (fun d (_ : PUnit) => do
        g1 d
        g2 d
        pure (ForInStep.yield PUnit.unit)) : Res PUnit) = .ok r) :
    ∀ d ∈ l, g1 d = .ok () ∧ g2 d = .ok () := by
  induction l with
  | nil => intro d hd; cases hd
  | cons a l ih =>
    simp only [List.forIn_cons, bind_assoc, pure_bind] at h
    obtain ⟨u, hu, h⟩ := (bind_ok_iff _ _ _).1 h
    obtain ⟨u', hu', h⟩ := (bind_ok_iff _ _ _).1 h
    intro d hd
    rcases List.mem_cons.1 hd with rfl | hd
    · exact ⟨hu, hu'⟩
    · exact ih h d hd

/-- the update of the three fields touched by the validation part of `stratify_with` -/
def preModel (m : Model α) (s : Strat α) : Model α :=
  { m with
    mixingMats := m.mixingMats ++ mixingOf s
    mixingCats := (match s.mixing with
      | none => m.mixingCats
      | some _ => FOI.catsStep m.mixingCats s.name s.strata)
    strains := if s.isStrain then s.strata else m.strains }

theorem pre_ok_inv (m m2 : Model α) (s : Strat α) (h : pre m s = .ok m2) :
    m.strats.any (fun t => t.name == s.name) = false ∧
    (∀ d ∈ s.flowAdj, strataExist m d.srcStrata = .ok () ∧ strataExist m d.dstStrata = .ok ()) ∧
    (s.isStrain = true → m.strats.any (fun t => t.isStrain) = false) ∧
    m2 = preModel m s := by
  simp only [pre] at h
  obtain ⟨hfresh, h⟩ := (guardE_bind_ok_iff _ _ _ _).1 h
  obtain ⟨-, h⟩ := (guardE_bind_ok_iff _ _ _ _).1 h
  obtain ⟨_, -, h⟩ := (bind_ok_iff _ _ _).1 h
  obtain ⟨r, hex, h⟩ := (bind_ok_iff _ _ _).1 h
  obtain ⟨-, h⟩ := (guardE_bind_ok_iff _ _ _ _).1 h
  obtain ⟨m1, h1, h⟩ := (bind_ok_iff _ _ _).1 h
  obtain ⟨m2', h2, h⟩ := (bind_ok_iff _ _ _).1 h
  obtain ⟨-, h⟩ := (guardE_bind_ok_iff _ _ _ _).1 h
  cases h
  refine ⟨by simpa using hfresh, ?_, ?_, ?_⟩
  · exact forIn_yield_ok2 _ _ _ r hex
  · intro hs
    rw [hs] at h2
    simp only [if_true] at h2
    obtain ⟨hg, -⟩ := (guardE_bind_ok_iff _ _ _ _).1 h2
    simpa using hg
  · have e1 : m1 = { preModel m s with strains := m.strains } := by
      cases hm : s.mixing with
      | none =>
        rw [hm] at h1; cases h1
        simp [preModel, mixingOf, hm]
      | some mat =>
        rw [hm] at h1
        obtain ⟨-, h1⟩ := (guardE_bind_ok_iff _ _ _ _).1 h1
        obtain ⟨-, h1⟩ := (guardE_bind_ok_iff _ _ _ _).1 h1
        cases h1
        simp [preModel, mixingOf, hm, FOI.catsStep]
    cases hs : s.isStrain with
    | false =>
      rw [hs] at h2; cases h2
      rw [e1]; simp [preModel, hs]
    | true =>
      rw [hs] at h2
      simp only [if_true] at h2
      obtain ⟨-, h2⟩ := (guardE_bind_ok_iff _ _ _ _).1 h2
      cases h2
      rw [e1]; simp [preModel, hs]

end decomposition

section decomposition2
variable {α : Type} [One α] [Div α] [NatCast α]

/-- entry flows have no source, exit flows no destination (true of every reachable model) -/
def ShapeLite (fl : List (Flow α)) : Prop :=
  ∀ f ∈ fl, (isEntry f.kind = true → f.src = none) ∧ (isExit f.kind = true → f.dst = none)

/-- the model after an accepted non-age `stratify_with`, every field explicit -/
def stratModel (m : Model α) (s : Strat α) : Model α :=
  { preModel m s with
    comps := stratifyComps m.comps s
    flows := m.flows.flatMap (fun f => copies f s)
    strats := m.strats ++ [s]
    actions := m.actions ++ [.stratify s.name] }

theorem isAgeing_false {s : Strat α} (hk : s.kind ≠ .age) : s.isAgeing = false := by
  cases h : s.isAgeing with
  | false => rfl
  | true => exact absurd ((Structure.isAgeing_iff s).1 h) hk

theorem stratifyWith_ok_eq {m m' : Model α} {s : Strat α} (hk : s.kind ≠ .age) (hshape : ShapeLite m.flows)
    (h : stratifyWith m s = .ok m') :
    m' = stratModel m s ∧
    m.strats.any (fun t => t.name == s.name) = false ∧
    (∀ d ∈ s.flowAdj, strataExist m d.srcStrata = .ok () ∧ strataExist m d.dstStrata = .ok ()) ∧
    (s.isStrain = true → m.strats.any (fun t => t.isStrain) = false) := by
  obtain ⟨ageing, R⟩ := Structure.stratifyWith_ok hshape h
  have hfl : m'.flows = m.flows.flatMap (fun f => copies f s) := by
    rw [R.flows, R.notAge hk, List.append_nil]
  rw [stratifyWith_eq _ _ (isAgeing_false hk)] at h
  obtain ⟨m2, h2, h⟩ := (bind_ok_iff _ _ _).1 h
  obtain ⟨nf, -, h⟩ := (bind_ok_iff _ _ _).1 h
  obtain ⟨hfresh, hex, hstrain, rfl⟩ := pre_ok_inv m m2 s h2
  cases h
  refine ⟨?_, hfresh, hex, hstrain⟩
  have : nf = m.flows.flatMap (fun f => copies f s) := hfl
  rw [this]
  rfl

/-- the flows of the stratified model keep the shape -/
theorem shapeLite_copies {fl : List (Flow α)} (h : ShapeLite fl) (s : Strat α) :
    ShapeLite (fl.flatMap (fun f => copies f s)) := by
  intro g hg
  obtain ⟨f, hf, hgf⟩ := List.mem_flatMap.1 hg
  rcases Structure.mem_copies hgf with ⟨rfl, _⟩ | ⟨st, _, rfl⟩
  · exact h g hf
  · refine ⟨fun he => ?_, fun he => ?_⟩
    · show stratEnd s st f.src = none
      rw [Structure.stratEnd_none_iff]; exact (h f hf).1 he
    · show stratEnd s st f.dst = none
      rw [Structure.stratEnd_none_iff]; exact (h f hf).2 he

end decomposition2

/-! ## B. one parent flow: the two blocks of copies correspond -/

section dict
variable {β : Type}

theorem mem_dictSet_ne (l : List (String × β)) (k : String) (v : β) (kv : String × β) (h : kv.1 ≠ k) :
    kv ∈ dictSet l k v ↔ kv ∈ l := by
  unfold dictSet
  split
  · rw [List.mem_map]
    constructor
    · rintro ⟨p, hp, e⟩
      by_cases hk : p.1 = k
      · have hb : (p.1 == k) = true := by simpa using hk
        rw [if_pos hb] at e
        exact absurd (by rw [← e]) h
      · have hb : ¬ (p.1 == k) = true := by simpa using hk
        rw [if_neg hb] at e
        rw [← e]; exact hp
    · intro hkv
      refine ⟨kv, hkv, ?_⟩
      have hb : ¬ (kv.1 == k) = true := by simpa using h
      rw [if_neg hb]
  · rw [List.mem_append, List.mem_singleton]
    constructor
    · rintro (h' | h')
      · exact h'
      · exact absurd (by rw [h']) h
    · exact Or.inl

end dict

section perFlow
variable {α : Type} [One α] [Div α] [NatCast α]

theorem filtersAvoid_iff (s : Strat α) (name : String) :
    filtersAvoid s name = true ↔
      ∀ d ∈ s.flowAdj, (∀ kv ∈ d.srcStrata, kv.1 ≠ name) ∧ (∀ kv ∈ d.dstStrata, kv.1 ≠ name) := by
  simp [filtersAvoid, List.all_eq_true]

theorem stratEnd_some_in {s : Strat α} {c : Comp} (h : c.name ∈ s.comps) (st : String) :
    stratEnd s st (some c) = some (c.stratify s.name st) := by simp [stratEnd, h]

theorem stratEnd_some_out {s : Strat α} {c : Comp} (h : c.name ∉ s.comps) (st : String) :
    stratEnd s st (some c) = some c := by simp [stratEnd, h]

theorem endOk_stratEnd (s : Strat α) (st : String) (flt : Strata) (h : ∀ kv ∈ flt, kv.1 ≠ s.name)
    (e : Option Comp) : endOk flt (stratEnd s st e) ↔ endOk flt e := by
  cases e with
  | none => exact Iff.rfl
  | some c =>
    by_cases hc : c.name ∈ s.comps
    · rw [stratEnd_some_in hc]
      show (∀ kv ∈ flt, kv ∈ dictSet c.strata s.name st) ↔ (∀ kv ∈ flt, kv ∈ c.strata)
      constructor
      · intro H kv hkv; exact (mem_dictSet_ne _ _ _ kv (h kv hkv)).1 (H kv hkv)
      · intro H kv hkv; exact (mem_dictSet_ne _ _ _ kv (h kv hkv)).2 (H kv hkv)
    · rw [stratEnd_some_out hc]

theorem endIn_stratEnd (s s' : Strat α) (st : String) (e : Option Comp) :
    endIn s' (stratEnd s st e) ↔ endIn s' e := by
  cases e with
  | none => exact Iff.rfl
  | some c =>
    by_cases hc : c.name ∈ s.comps
    · rw [stratEnd_some_in hc]; exact Iff.rfl
    · rw [stratEnd_some_out hc]

theorem winning_copyOf (s s' : Strat α) (f : Flow α) (st : String) (h : filtersAvoid s' s.name = true) :
    winning s' (copyOf f s st) = winning s' f := by
  unfold winning
  congr 2
  apply List.filter_congr
  intro d hd
  obtain ⟨h1, h2⟩ := (filtersAvoid_iff s' s.name).1 h d hd
  have : declApplies d (copyOf f s st) ↔ declApplies d f := by
    unfold declApplies flowSelected copyOf
    simp only [endOk_stratEnd s st _ h1, endOk_stratEnd s st _ h2]
  exact decide_eq_decide.2 this

theorem conservation_congr {g f : Flow α} {s : Strat α} (hk : g.kind = f.kind) (hw : winning s g = winning s f)
    (hs : endIn s g.src ↔ endIn s f.src) (hd : endIn s g.dst ↔ endIn s f.dst) :
    conservation g s ↔ conservation f s := by
  unfold conservation
  rw [hk, hw, hs, hd]

theorem extraAdj_congr {g f : Flow α} {s : Strat α} (hk : g.kind = f.kind) (hw : winning s g = winning s f)
    (hs : endIn s g.src ↔ endIn s f.src) (hd : endIn s g.dst ↔ endIn s f.dst) (st : String) :
    extraAdj g s st = extraAdj f s st := by
  have hc := conservation_congr hk hw hs hd
  unfold extraAdj autoAdj birthIntoAge
  simp only [hk, hw, hc]

theorem extraAdj_copyOf (s s' : Strat α) (f : Flow α) (a b : String) (h : filtersAvoid s' s.name = true) :
    extraAdj (copyOf f s a) s' b = extraAdj f s' b :=
  extraAdj_congr (g := copyOf f s a) (f := f) rfl (winning_copyOf s s' f a h) (endIn_stratEnd s s' a f.src) (endIn_stratEnd s s' a f.dst) b

theorem mem_absShare {f : Flow α} {s : Strat α} {x : Adj α} (h : x ∈ absShare f s) : x = share s.strata.length := by
  unfold absShare at h
  split at h
  · exact List.mem_singleton.1 h
  · cases h

theorem mem_autoAdj {f : Flow α} {s : Strat α} {x : Adj α} (h : x ∈ autoAdj f s) : x = share s.strata.length := by
  unfold autoAdj at h
  split at h
  · exact List.mem_singleton.1 h
  · split at h
    · exact List.mem_singleton.1 h
    · cases h

theorem mem_userAdj {a : List (String × Option (Adj α))} {st : String} {x : Adj α} (h : x ∈ userAdj a st) :
    (st, some x) ∈ a := by
  unfold userAdj at h
  split at h
  · rename_i adj hl
    rw [List.mem_singleton] at h
    subst h
    exact Structure.mem_of_alookup hl
  · cases h

theorem extraAdj_declared (f : Flow α) (s : Strat α) (st : String) :
    ∀ x ∈ extraAdj f s st, DeclaredAdj s x := by
  intro x hx
  by_cases hb : birthIntoAge f s
  · rw [Structure.extraAdj_birth_age hb] at hx; cases hx
  · cases hw : winning s f with
    | none =>
      rw [Structure.extraAdj_auto hb hw, List.mem_append] at hx
      rcases hx with hx | hx
      · exact Or.inl (mem_autoAdj hx)
      · exact Or.inl (mem_absShare hx)
    | some a =>
      rw [Structure.extraAdj_user hb hw, List.mem_append] at hx
      rcases hx with hx | hx
      · obtain ⟨l1, d, l2, e, -, rfl, -⟩ := (Structure.winning_eq_some_iff s f a).1 hw
        exact Or.inr ⟨d, by rw [e]; simp, st, mem_userAdj hx⟩
      · exact Or.inl (mem_absShare hx)

theorem endSem_stratEnd_comm (s1 s2 : Strat α) (hne : s1.name ≠ s2.name) (a b : String) (e : Option Comp) :
    endSem (stratEnd s2 b (stratEnd s1 a e)) = endSem (stratEnd s1 a (stratEnd s2 b e)) := by
  cases e with
  | none => rfl
  | some c =>
    by_cases h1 : c.name ∈ s1.comps <;> by_cases h2 : c.name ∈ s2.comps
    · simp only [stratEnd, h1, h2, if_true, Structure.stratify_name, endSem, Option.map_some]
      rw [Invariance.compSem_stratify_comm c s1.name a s2.name b hne]
    · simp [stratEnd, h1, h2, Structure.stratify_name]
    · simp [stratEnd, h1, h2, Structure.stratify_name]
    · simp [stratEnd, h1, h2]

end perFlow

section corr
variable {α : Type} {P1 P2 : Adj α → Prop}

theorem FlowCorr.rfl' (g : Flow α) : FlowCorr P1 P2 g g :=
  ⟨rfl, rfl, rfl, rfl, rfl, g.adjs, [], [], by simp, by simp, by simp, by simp⟩

theorem FlowsCorr.rfl' (l : List (Flow α)) : FlowsCorr P1 P2 l l := by
  refine ⟨l.map (fun g => (g, g)), by simp [Function.comp_def], by simp [Function.comp_def], ?_⟩
  intro p hp
  obtain ⟨g, -, rfl⟩ := List.mem_map.1 hp
  exact FlowCorr.rfl' g

theorem FlowsCorr.of_eq {l l' : List (Flow α)} (h : l = l') : FlowsCorr P1 P2 l l' := by
  subst h; exact FlowsCorr.rfl' l

theorem FlowsCorr.append {a a' b b' : List (Flow α)} (ha : FlowsCorr P1 P2 a a') (hb : FlowsCorr P1 P2 b b') :
    FlowsCorr P1 P2 (a ++ b) (a' ++ b') := by
  obtain ⟨pa, ha1, ha2, ha3⟩ := ha
  obtain ⟨pb, hb1, hb2, hb3⟩ := hb
  refine ⟨pa ++ pb, by rw [List.map_append, ha1, hb1], by rw [List.map_append]; exact ha2.append hb2, ?_⟩
  intro p hp
  rcases List.mem_append.1 hp with hp | hp
  · exact ha3 p hp
  · exact hb3 p hp

theorem FlowsCorr.flatMap {β : Type} (L : List β) (F G : β → List (Flow α))
    (h : ∀ x ∈ L, FlowsCorr P1 P2 (F x) (G x)) : FlowsCorr P1 P2 (L.flatMap F) (L.flatMap G) := by
  induction L with
  | nil => exact FlowsCorr.rfl' []
  | cons x L ih =>
    rw [List.flatMap_cons, List.flatMap_cons]
    exact FlowsCorr.append (h x List.mem_cons_self) (ih (fun y hy => h y (List.mem_cons_of_mem _ hy)))

/-- weaken the provenance predicates -/
theorem FlowsCorr.mono {Q1 Q2 : Adj α → Prop} (h1 : ∀ x, P1 x → Q1 x) (h2 : ∀ x, P2 x → Q2 x)
    {l l' : List (Flow α)} (h : FlowsCorr P1 P2 l l') : FlowsCorr Q1 Q2 l l' := by
  obtain ⟨pairs, e1, e2, e3⟩ := h
  refine ⟨pairs, e1, e2, fun p hp => ?_⟩
  obtain ⟨k, n, pr, sr, ds, base, x1, x2, a1, a2, q1, q2⟩ := e3 p hp
  exact ⟨k, n, pr, sr, ds, base, x1, x2, a1, a2, fun x hx => h1 x (q1 x hx), fun x hx => h2 x (q2 x hx)⟩

end corr

section block
variable {α : Type} [One α] [Div α] [NatCast α]

theorem not_birthIntoAge {f : Flow α} {s : Strat α} (hk : s.kind ≠ .age) : ¬ birthIntoAge f s :=
  fun h => hk h.2

theorem copies_touched' {f : Flow α} {s : Strat α} (hk : s.kind ≠ .age) (h : endIn s f.src ∨ endIn s f.dst) :
    copies f s = s.strata.map (copyOf f s) := by
  rw [Structure.copies_touched h, Structure.copyStrata_other (not_birthIntoAge hk)]

/-- whether a copy is touched by ANOTHER stratification is decided by the parent -/
theorem touched_copies {f g : Flow α} {s s' : Strat α} (hg : g ∈ copies f s) :
    (endIn s' g.src ∨ endIn s' g.dst) ↔ (endIn s' f.src ∨ endIn s' f.dst) := by
  rcases Structure.mem_copies hg with ⟨rfl, _⟩ | ⟨st, _, rfl⟩
  · exact Iff.rfl
  · show (endIn s' (stratEnd s st f.src) ∨ endIn s' (stratEnd s st f.dst)) ↔ _
    rw [endIn_stratEnd, endIn_stratEnd]

theorem flatMap_copies_untouched {f : Flow α} {s s' : Strat α} (h : ¬ (endIn s' f.src ∨ endIn s' f.dst)) :
    (copies f s).flatMap (fun g => copies g s') = copies f s := by
  rw [Structure.flatMap_congr' (g := fun g => [g])
    (fun g hg => Structure.copies_untouched (fun hh => h ((touched_copies hg).1 hh)))]
  exact List.flatMap_singleton' _

/-- **one parent flow.**  The copies of the copies in the two orders correspond. -/
theorem block_corr (f : Flow α) (s1 s2 : Strat α) (hne : s1.name ≠ s2.name) (hk1 : s1.kind ≠ .age)
    (hk2 : s2.kind ≠ .age) (hf1 : filtersAvoid s1 s2.name = true) (hf2 : filtersAvoid s2 s1.name = true) :
    FlowsCorr (DeclaredAdj s1) (DeclaredAdj s2)
      ((copies f s1).flatMap (fun g => copies g s2)) ((copies f s2).flatMap (fun g => copies g s1)) := by
  by_cases h2 : endIn s2 f.src ∨ endIn s2 f.dst
  · by_cases h1 : endIn s1 f.src ∨ endIn s1 f.dst
    · -- both stratifications touch the flow
      have e12 : (copies f s1).flatMap (fun g => copies g s2)
          = s1.strata.flatMap (fun a => s2.strata.map (fun b => copyOf (copyOf f s1 a) s2 b)) := by
        rw [copies_touched' hk1 h1, List.flatMap_map]
        refine Structure.flatMap_congr' (fun a _ => ?_)
        exact copies_touched' hk2 ((touched_copies (s := s1) (f := f)
          (by rw [copies_touched' hk1 h1]; exact List.mem_map_of_mem ‹a ∈ s1.strata›)).2 h2)
      have e21 : (copies f s2).flatMap (fun g => copies g s1)
          = s2.strata.flatMap (fun b => s1.strata.map (fun a => copyOf (copyOf f s2 b) s1 a)) := by
        rw [copies_touched' hk2 h2, List.flatMap_map]
        refine Structure.flatMap_congr' (fun b _ => ?_)
        exact copies_touched' hk1 ((touched_copies (s := s2) (f := f)
          (by rw [copies_touched' hk2 h2]; exact List.mem_map_of_mem ‹b ∈ s2.strata›)).2 h1)
      rw [e12, e21]
      refine ⟨s1.strata.flatMap (fun a => s2.strata.map (fun b =>
        (copyOf (copyOf f s1 a) s2 b, copyOf (copyOf f s2 b) s1 a))), ?_, ?_, ?_⟩
      · rw [List.map_flatMap]
        simp only [List.map_map, Function.comp_def]
      · rw [List.map_flatMap]
        simp only [List.map_map, Function.comp_def]
        exact Invariance.flatMap_map_swap_perm (fun a b => copyOf (copyOf f s2 b) s1 a) s1.strata s2.strata
      · intro p hp
        obtain ⟨a, -, hp⟩ := List.mem_flatMap.1 hp
        obtain ⟨b, -, rfl⟩ := List.mem_map.1 hp
        refine ⟨rfl, rfl, rfl, endSem_stratEnd_comm s1 s2 hne a b f.src, endSem_stratEnd_comm s1 s2 hne a b f.dst,
          f.adjs, extraAdj f s1 a, extraAdj f s2 b, ?_, ?_, extraAdj_declared f s1 a, extraAdj_declared f s2 b⟩
        · show (f.adjs ++ extraAdj f s1 a) ++ extraAdj (copyOf f s1 a) s2 b = _
          rw [extraAdj_copyOf s1 s2 f a b hf2]
        · show (f.adjs ++ extraAdj f s2 b) ++ extraAdj (copyOf f s2 b) s1 a = _
          rw [extraAdj_copyOf s2 s1 f b a hf1]
    · -- only `s2` touches it
      rw [Structure.copies_untouched h1, List.flatMap_cons, List.flatMap_nil, List.append_nil,
        flatMap_copies_untouched h1]
      exact FlowsCorr.rfl' _
  · -- `s2` does not touch it
    rw [Structure.copies_untouched h2, List.flatMap_cons, List.flatMap_nil, List.append_nil,
      flatMap_copies_untouched h2]
    exact FlowsCorr.rfl' _

/-- **all flows.**  The flow lists of the two doubly stratified models correspond. -/
theorem flows_corr (fl : List (Flow α)) (s1 s2 : Strat α) (hne : s1.name ≠ s2.name) (hk1 : s1.kind ≠ .age)
    (hk2 : s2.kind ≠ .age) (hf1 : filtersAvoid s1 s2.name = true) (hf2 : filtersAvoid s2 s1.name = true) :
    FlowsCorr (DeclaredAdj s1) (DeclaredAdj s2)
      ((fl.flatMap (fun f => copies f s1)).flatMap (fun g => copies g s2))
      ((fl.flatMap (fun f => copies f s2)).flatMap (fun g => copies g s1)) := by
  rw [List.flatMap_assoc, List.flatMap_assoc]
  exact FlowsCorr.flatMap fl _ _ (fun f _ => block_corr f s1 s2 hne hk1 hk2 hf1 hf2)

end block

/-! ## C. realised weights of corresponding flows -/

section weights
variable {α : Type} [CommSemiring α] [Sub α] [Div α] [LT α] [DecidableLT α]

/-- product of optional values -/
def omul (x y : Option α) : Option α :=
  match x, y with
  | some x, some y => some (x * y)
  | _, _ => none

theorem omul_right_comm (z u v : Option α) : omul (omul z u) v = omul (omul z v) u := by
  cases z <;> cases u <;> cases v <;> simp [omul, mul_right_comm]

/-- one step of `Spec.weightFold` -/
def wstep (env : Env α) (acc : Option α) (a : Adj α) : Option α :=
  match a with
  | .mul e => (match acc, e.eval env with
      | some x, some y => some (x * y)
      | _, _ => none)
  | .ovr e => e.eval env

theorem weightFold_eq (f : Flow α) (env : Env α) : weightFold f env = f.adjs.foldl (wstep env) (f.param.eval env) := rfl

theorem wstep_comm (env : Env α) (a b : Adj α) (ha : isMulAdj a = true) (hb : isMulAdj b = true) (z : Option α) :
    wstep env (wstep env z a) b = wstep env (wstep env z b) a := by
  cases a with
  | ovr e => cases ha
  | mul e =>
    cases b with
    | ovr e' => cases hb
    | mul e' =>
      exact omul_right_comm z _ _

theorem foldl_wstep_swap (env : Env α) (x : Option α) (a a' : List (Adj α))
    (h : AdjSwap (fun y => isMulAdj y = true) (fun y => isMulAdj y = true) a a') :
    a.foldl (wstep env) x = a'.foldl (wstep env) x := by
  obtain ⟨base, e1, e2, rfl, rfl, h1, h2⟩ := h
  rw [List.append_assoc, List.append_assoc, List.foldl_append, List.foldl_append (l := base)]
  refine List.Perm.foldl_eq' List.perm_append_comm ?_ _
  intro p hp q hq z
  have hm : ∀ y ∈ e1 ++ e2, isMulAdj y = true := by
    intro y hy
    rcases List.mem_append.1 hy with hy | hy
    · exact h1 y hy
    · exact h2 y hy
  exact wstep_comm env p q (hm p hp) (hm q hq) z

/-- corresponding flows whose swapped blocks are `Multiply`-only have the same realised weight -/
theorem weight_of_flowCorr {g g' : Flow α}
    (h : FlowCorr (fun y => isMulAdj y = true) (fun y => isMulAdj y = true) g g') (env : Env α) :
    (Run.realised g).eval env = (Run.realised g').eval env := by
  rw [realised_eval_eq_weightFold, realised_eval_eq_weightFold, weightFold_eq, weightFold_eq, h.param]
  exact foldl_wstep_swap env _ _ _ h.adjs

end weights

section mulOnly
variable {α : Type} [One α] [Div α] [NatCast α]

theorem declared_isMul {s : Strat α} (h : mulOnly s = true) (x : Adj α) (hx : DeclaredAdj s x) :
    isMulAdj x = true := by
  rcases hx with rfl | ⟨d, hd, st, hst⟩
  · rfl
  · unfold mulOnly at h
    have := List.all_eq_true.1 (List.all_eq_true.1 h d hd) (st, some x) hst
    exact this

end mulOnly

/-! ## D. mixing categories and Kronecker factors -/

section cats

theorem alookup_dictSet_comm (mc : Strata) (k1 a k2 b : String) (hne : k1 ≠ k2) :
    alookup (dictSet (dictSet mc k1 a) k2 b) = alookup (dictSet (dictSet mc k2 b) k1 a) :=
  congrArg Prod.snd (Invariance.compSem_stratify_comm ⟨"", mc⟩ k1 a k2 b hne)

/-- refining the mixing categories by two stratifications in either order gives the same categories
up to a permutation and the insertion order of the dictionaries -/
theorem catsStep_comm (cats : List Strata) (n1 n2 : String) (l1 l2 : List String) (hne : n1 ≠ n2) :
    ((FOI.catsStep (FOI.catsStep cats n1 l1) n2 l2).map alookup).Perm
      ((FOI.catsStep (FOI.catsStep cats n2 l2) n1 l1).map alookup) := by
  unfold FOI.catsStep
  rw [List.flatMap_assoc, List.flatMap_assoc, List.map_flatMap, List.map_flatMap]
  apply List.Perm.flatMap_left
  intro mc _
  simp only [List.flatMap_map, List.map_flatMap, List.map_map, Function.comp_def]
  refine (Invariance.flatMap_map_swap_perm (fun a b => alookup (dictSet (dictSet mc n1 a) n2 b)) l1 l2).trans ?_
  apply List.Perm.of_eq
  congr 1
  funext b
  apply List.map_congr_left
  intro a _
  exact alookup_dictSet_comm mc n1 a n2 b hne

/-- entry-wise form, at the row-major indices used by the Kronecker product -/
theorem catsStep_swap_entry (cats : List Strata) (n1 n2 : String) (l1 l2 : List String) (hne : n1 ≠ n2)
    (i k l : Nat) (hi : i < cats.length) (hk : k < l1.length) (hl : l < l2.length) :
    (FOI.catsStep (FOI.catsStep cats n1 l1) n2 l2).getD ((i * l1.length + k) * l2.length + l) []
      = dictSet (dictSet (cats.getD i []) n1 (l1.getD k "")) n2 (l2.getD l "") ∧
    (FOI.catsStep (FOI.catsStep cats n2 l2) n1 l1).getD ((i * l2.length + l) * l1.length + k) []
      = dictSet (dictSet (cats.getD i []) n2 (l2.getD l "")) n1 (l1.getD k "") ∧
    alookup ((FOI.catsStep (FOI.catsStep cats n1 l1) n2 l2).getD ((i * l1.length + k) * l2.length + l) [])
      = alookup ((FOI.catsStep (FOI.catsStep cats n2 l2) n1 l1).getD ((i * l2.length + l) * l1.length + k) []) := by
  have e1 : (FOI.catsStep (FOI.catsStep cats n1 l1) n2 l2).getD ((i * l1.length + k) * l2.length + l) []
      = dictSet (dictSet (cats.getD i []) n1 (l1.getD k "")) n2 (l2.getD l "") := by
    rw [FOI.getD_catsStep _ _ _ _ _ (by rw [FOI.length_catsStep]; exact FOI.mul_add_lt hi hk) hl,
      FOI.getD_catsStep _ _ _ _ _ hi hk]
  have e2 : (FOI.catsStep (FOI.catsStep cats n2 l2) n1 l1).getD ((i * l2.length + l) * l1.length + k) []
      = dictSet (dictSet (cats.getD i []) n2 (l2.getD l "")) n1 (l1.getD k "") := by
    rw [FOI.getD_catsStep _ _ _ _ _ (by rw [FOI.length_catsStep]; exact FOI.mul_add_lt hi hl) hk,
      FOI.getD_catsStep _ _ _ _ _ hi hl]
  exact ⟨e1, e2, by rw [e1, e2]; exact alookup_dictSet_comm _ _ _ _ _ hne⟩

end cats

section kronSwap
variable {α : Type} [CommSemigroup α] [Zero α]

/-- swapping the last two Kronecker factors permutes rows and columns by
`((i,k),l) ↦ ((i,l),k)` (row-major indices) -/
theorem kron3_swap (P A B : Matrix α) (n p q : Nat) (hP : IsShape P n n) (hA : IsShape A p p) (hB : IsShape B q q)
    (i j k k' l l' : Nat) (hi : i < n) (hj : j < n) (hk : k < p) (hk' : k' < p) (hl : l < q) (hl' : l' < q) :
    mget (kron (kron P A) B) ((i * p + k) * q + l) ((j * p + k') * q + l')
      = mget (kron (kron P B) A) ((i * q + l) * p + k) ((j * q + l') * p + k') := by
  rw [FOI.mget_kron_shape _ _ _ _ _ _ (FOI.isShape_kron _ _ _ _ _ _ hP hA) hB _ _ _ _
      (FOI.mul_add_lt hi hk) hl (FOI.mul_add_lt hj hk') hl',
    FOI.mget_kron_shape _ _ _ _ _ _ hP hA _ _ _ _ hi hk hj hk',
    FOI.mget_kron_shape _ _ _ _ _ _ (FOI.isShape_kron _ _ _ _ _ _ hP hB) hA _ _ _ _
      (FOI.mul_add_lt hi hl) hk (FOI.mul_add_lt hj hl') hk',
    FOI.mget_kron_shape _ _ _ _ _ _ hP hB _ _ _ _ hi hl hj hl']
  exact mul_right_comm _ _ _

theorem kron2_swap (A B : Matrix α) (p q : Nat) (hA : IsShape A p p) (hB : IsShape B q q)
    (k k' l l' : Nat) (hk : k < p) (hk' : k' < p) (hl : l < q) (hl' : l' < q) :
    mget (kron A B) (k * q + l) (k' * q + l') = mget (kron B A) (l * p + k) (l' * p + k') := by
  rw [FOI.mget_kron_shape _ _ _ _ _ _ hA hB _ _ _ _ hk hl hk' hl',
    FOI.mget_kron_shape _ _ _ _ _ _ hB hA _ _ _ _ hl hk hl' hk']
  exact mul_comm _ _

end kronSwap

section kronAll
variable {α : Type} [CommSemiring α]

theorem kronAll_snoc2 (p0 : Matrix α) (rest : List (Matrix α)) (A B : Matrix α) :
    kronAll (p0 :: rest ++ [A, B]) = kron (kron (kronAll (p0 :: rest)) A) B := by
  simp [kronAll, List.foldl_append]

/-- the product `Run.mixingMatrix` forms from `pre ++ [A, B]` is the one it forms from
`pre ++ [B, A]` with rows and columns permuted.  `n` is the size of the product of `pre`
(`n = 1` when `pre` is empty). -/
theorem kronAll_swap (pre : List (Matrix α)) (A B : Matrix α) (n p q : Nat)
    (hn : IsShape (kronAll pre) n n) (hA : IsShape A p p) (hB : IsShape B q q)
    (i j k k' l l' : Nat) (hi : i < n) (hj : j < n) (hk : k < p) (hk' : k' < p) (hl : l < q) (hl' : l' < q) :
    mget (kronAll (pre ++ [A, B])) ((i * p + k) * q + l) ((j * p + k') * q + l')
      = mget (kronAll (pre ++ [B, A])) ((i * q + l) * p + k) ((j * q + l') * p + k') := by
  cases pre with
  | nil =>
    have h1 : n = 1 := hn.1.symm
    subst h1
    have hi0 : i = 0 := by omega
    have hj0 : j = 0 := by omega
    subst hi0 hj0
    simp only [List.nil_append, kronAll, List.foldl_cons, List.foldl_nil, Nat.zero_mul, Nat.zero_add]
    exact kron2_swap A B p q hA hB k k' l l' hk hk' hl hl'
  | cons p0 rest =>
    rw [kronAll_snoc2, kronAll_snoc2]
    exact kron3_swap _ A B n p q hn hA hB i j k k' l l' hi hj hk hk' hl hl'

end kronAll

section mixingMatrix
variable {α : Type} [Zero α] [One α] [Add α] [Sub α] [Mul α] [Div α] [LT α] [DecidableLT α]

theorem mixingMatrix_eq_kronAll (m : Model α) (env : Env α) :
    Run.mixingMatrix m env = (m.mixingMats.mapM (Run.evalMatrix env)).map kronAll := by
  unfold Run.mixingMatrix
  cases m.mixingMats.mapM (Run.evalMatrix env) with
  | none => rfl
  | some mats => cases mats <;> rfl

theorem mapM_append_some {β γ : Type} (F : β → Option γ) (l1 l2 : List β) (o1 o2 : List γ)
    (h1 : l1.mapM F = some o1) (h2 : l2.mapM F = some o2) : (l1 ++ l2).mapM F = some (o1 ++ o2) := by
  rw [List.mapM_append, h1, h2]; rfl

end mixingMatrix

/-- an accepted call, named: used to state non-vacuity examples without evaluating a whole `Model` by `rfl` -/
theorem ok_of_isSome {β : Type} (r : Res β) (d : β) (h : r.toOption.isSome = true) :
    r = .ok (match r with | .ok x => x | .error _ => d) := by
  cases r with
  | ok x => rfl
  | error e => cases h

theorem some_of_isSome {β : Type} (o : Option β) (d : β) (h : o.isSome = true) : o = some (o.getD d) := by
  cases o with
  | some x => rfl
  | none => cases h

/-! ## E. assembling the two orders -/

section assemble
variable {α : Type} [One α] [Div α] [NatCast α]

/-- an accepted strata filter only mentions stratifications already applied to the model -/
theorem strataExist_keys (m : Model α) (flt : Strata) (h : strataExist m flt = .ok ()) :
    ∀ kv ∈ flt, m.strats.any (fun t => t.name == kv.1) = true := by
  induction flt with
  | nil => intro kv hkv; cases hkv
  | cons a flt ih =>
    unfold strataExist at h ih
    rw [List.forM_eq_forM, List.forM_cons] at h
    rw [List.forM_eq_forM] at ih
    obtain ⟨u, hu, h⟩ := (bind_ok_iff _ _ _).1 h
    intro kv hkv
    rcases List.mem_cons.1 hkv with rfl | hkv
    · cases hf : m.strats.find? (fun s => s.name == kv.1) with
      | none => rw [hf] at hu; cases hu
      | some t =>
        have := List.find?_some hf
        exact List.any_eq_true.2 ⟨t, List.mem_of_find?_eq_some hf, this⟩
    · exact ih h kv hkv

/-- hypothesis (b) of the commutation theorem is FORCED by both orders being accepted: a filter of
`s'` that mentions `s` is rejected when `s'` is applied before `s` -/
theorem filtersAvoid_of_ok {m : Model α} {s s' : Strat α}
    (hfresh : m.strats.any (fun t => t.name == s.name) = false)
    (hex : ∀ d ∈ s'.flowAdj, strataExist m d.srcStrata = .ok () ∧ strataExist m d.dstStrata = .ok ()) :
    filtersAvoid s' s.name = true := by
  rw [filtersAvoid_iff]
  intro d hd
  have key : ∀ flt, strataExist m flt = .ok () → ∀ kv ∈ flt, kv.1 ≠ s.name := by
    intro flt hflt kv hkv e
    have := strataExist_keys m flt hflt kv hkv
    rw [e, hfresh] at this
    cases this
  exact ⟨key _ (hex d hd).1, key _ (hex d hd).2⟩

/-- both orders accepted: the two models, explicitly, and the facts the validations give -/
theorem both_orders {m m12 m21 : Model α} {s1 s2 : Strat α} (hk1 : s1.kind ≠ .age) (hk2 : s2.kind ≠ .age)
    (hshape : ShapeLite m.flows)
    (h12 : (stratifyWith m s1 >>= fun ma => stratifyWith ma s2) = .ok m12)
    (h21 : (stratifyWith m s2 >>= fun mb => stratifyWith mb s1) = .ok m21) :
    m12 = stratModel (stratModel m s1) s2 ∧ m21 = stratModel (stratModel m s2) s1 ∧
    filtersAvoid s1 s2.name = true ∧ filtersAvoid s2 s1.name = true ∧
    ¬ (s1.isStrain = true ∧ s2.isStrain = true) := by
  obtain ⟨ma, ha, hab⟩ := (bind_ok_iff _ _ _).1 h12
  obtain ⟨mb, hb, hba⟩ := (bind_ok_iff _ _ _).1 h21
  obtain ⟨rfl, hfresh1, hex1, -⟩ := stratifyWith_ok_eq hk1 hshape ha
  obtain ⟨rfl, hfresh2, hex2, -⟩ := stratifyWith_ok_eq hk2 hshape hb
  obtain ⟨rfl, -, -, hstr2⟩ := stratifyWith_ok_eq hk2 (shapeLite_copies hshape s1) hab
  obtain ⟨rfl, -, -, -⟩ := stratifyWith_ok_eq hk1 (shapeLite_copies hshape s2) hba
  refine ⟨rfl, rfl, filtersAvoid_of_ok hfresh2 hex1, filtersAvoid_of_ok hfresh1 hex2, ?_⟩
  rintro ⟨hs1, hs2⟩
  have := hstr2 hs2
  simp [stratModel, hs1] at this

/-- the two explicit models are the same up to the stated reorderings -/
theorem stratCommutes_models (m : Model α) (s1 s2 : Strat α) (hne : s1.name ≠ s2.name)
    (hk1 : s1.kind ≠ .age) (hk2 : s2.kind ≠ .age)
    (hf1 : filtersAvoid s1 s2.name = true) (hf2 : filtersAvoid s2 s1.name = true)
    (hstrain : ¬ (s1.isStrain = true ∧ s2.isStrain = true)) :
    StratCommutes m s1 s2 (stratModel (stratModel m s1) s2) (stratModel (stratModel m s2) s1) := by
  refine ⟨?_, Invariance.stratifyComps_comm m.comps s1 s2 hne, flows_corr m.flows s1 s2 hne hk1 hk2 hf1 hf2,
    ⟨by simp [stratModel], by simp [stratModel]⟩, ⟨by simp [stratModel, preModel], by simp [stratModel, preModel]⟩,
    ⟨by simp [stratModel, preModel], by simp [stratModel, preModel]⟩, ?_⟩
  · cases h1 : s1.isStrain <;> cases h2 : s2.isStrain
    · simp [stratModel, preModel, h1, h2]
    · simp [stratModel, preModel, h1, h2]
    · simp [stratModel, preModel, h1, h2]
    · exact absurd ⟨h1, h2⟩ hstrain
  · show ((stratModel (stratModel m s1) s2).mixingCats.map alookup).Perm
      ((stratModel (stratModel m s2) s1).mixingCats.map alookup)
    cases hm1 : s1.mixing <;> cases hm2 : s2.mixing
    · simp [stratModel, preModel, hm1, hm2]
    · simp [stratModel, preModel, hm1, hm2]
    · simp [stratModel, preModel, hm1, hm2]
    · simp only [stratModel, preModel, hm1, hm2]
      exact catsStep_comm m.mixingCats s1.name s2.name s1.strata s2.strata hne

end assemble

/-! ## F0. consequences of the structural invariant -/

section invFacts
variable {α : Type}

/-- in a model satisfying the structural invariant, distinct compartments are distinct as
(name, strata lookup) -/
theorem semNodup_of_inv {m : Model α} (h : Inv m) : (m.comps.map compSem).Nodup := by
  unfold List.Nodup
  rw [List.pairwise_map]
  refine List.Pairwise.imp_of_mem ?_ h.nodup
  intro c c' hc hc' hne hsem
  apply hne
  have hname : c.name = c'.name := congrArg Prod.fst hsem
  have hlook : alookup c.strata = alookup c'.strata := congrArg Prod.snd hsem
  have hstrata : c.strata = c'.strata := by
    refine Structure.strata_eq_of_subset ?_ (h.uniform c hc c' hc' hname) (h.keys c' hc')
    rintro ⟨k, v⟩ hkv
    have := Structure.alookup_of_mem (h.keys c hc) hkv
    rw [hlook] at this
    exact Structure.mem_of_alookup this
  cases c; cases c'; simp_all

theorem sourcedOk_of_inv {m : Model α} (h : Inv m) : sourcedOk m = true := by
  unfold sourcedOk
  rw [List.all_eq_true]
  intro f hf
  obtain ⟨h1, h2, h3⟩ := h.shape f hf
  cases hk : f.kind <;> simp only [isSourced, Bool.not_true, Bool.not_false, Bool.false_or, Bool.true_or]
  · exact (h3 (by rw [hk]; rfl) (by rw [hk]; rfl)).1
  · exact (h3 (by rw [hk]; rfl) (by rw [hk]; rfl)).1
  · exact (h3 (by rw [hk]; rfl) (by rw [hk]; rfl)).1
  · exact (h2 (by rw [hk]; rfl)).2

end invFacts

/-! ## F. the rate laws of two corresponding models (part of (4)) -/

section ratesCorr
variable {α : Type} [Field α]
open Summer.Run

/-- the weaker correspondence the rate laws need: same class, ends equal as (name, strata lookup) -/
def EndsCorr (g g' : Flow α) : Prop :=
  g.kind = g'.kind ∧ endSem g.src = endSem g'.src ∧ endSem g.dst = endSem g'.dst

theorem EndsCorr.of_flowCorr {P1 P2 : Adj α → Prop} {g g' : Flow α} (h : FlowCorr P1 P2 g g') : EndsCorr g g' :=
  ⟨h.kind, h.src, h.dst⟩

theorem semState_getD_compIdx (pop : String × (String → Option String) → α) (comps : List Comp) (c : Comp)
    (i : Nat) (h : compIdx comps c = some i) : (semState pop comps).getD i 0 = pop (compSem c) := by
  obtain ⟨hi, hc⟩ := Invariance.compIdx_getElem comps c i h
  unfold semState
  rw [getD_eq_getElem _ _ _ (by simpa using hi)]
  simp [hc]

theorem sumL_semState (pop : String × (String → Option String) → α) (cs cs' : List Comp)
    (h : (cs.map compSem).Perm (cs'.map compSem)) : sumL (semState pop cs) = sumL (semState pop cs') := by
  have e : ∀ l : List Comp, semState pop l = (l.map compSem).map pop := by
    intro l; simp [semState, Function.comp_def]
  rw [e, e]
  exact Invariance.sumL_perm (h.map pop)

/-- the source population of corresponding flows is the same -/
theorem srcPop_corr {m m' : Model α} {b b' : Backend} (hb : BackendFor m b) (hb' : BackendFor m' b')
    (pop : String × (String → Option String) → α) {g g' : Flow α} (hg : g ∈ m.flows) (hg' : g' ∈ m'.flows)
    (hc : EndsCorr g g') (hsome : g.src.isSome = true) :
    (semState pop m.comps).getD ((srcIx m g).getD 0) 0 = (semState pop m'.comps).getD ((srcIx m' g').getD 0) 0 := by
  have hsome' : g'.src.isSome = true := by
    have := hc.2.1
    cases hs : g.src with
    | none => rw [hs] at hsome; cases hsome
    | some c =>
      cases hs' : g'.src with
      | none => rw [hs, hs'] at this; cases this
      | some c' => rfl
  have h1 := hb.srcOk g hg hsome
  have h2 := hb'.srcOk g' hg' hsome'
  cases hs : g.src with
  | none => rw [hs] at hsome; cases hsome
  | some c =>
    cases hs' : g'.src with
    | none => rw [hs'] at hsome'; cases hsome'
    | some c' =>
      have hsem : compSem c = compSem c' := by
        have := hc.2.1
        rw [hs, hs'] at this
        exact Option.some.inj this
      unfold srcIx at h1 h2 ⊢
      rw [hs] at h1 ⊢
      rw [hs'] at h2 ⊢
      simp only [Option.bind_some] at h1 h2 ⊢
      cases hi : compIdx m.comps c with
      | none => rw [hi] at h1; cases h1
      | some i =>
        cases hi' : compIdx m'.comps c' with
        | none => rw [hi'] at h2; cases h2
        | some i' =>
          simp only [Option.getD_some]
          rw [semState_getD_compIdx pop _ _ _ hi, semState_getD_compIdx pop _ _ _ hi', hsem]

/-- sums over the first / second components of a list of pairs, filtered -/
theorem sumL_pairs_filter {β : Type} (pairs : List (β × β)) (q q' : β → Bool) (F F' : β → α)
    (h : ∀ p ∈ pairs, q p.1 = q' p.2 ∧ (q p.1 = true → F p.1 = F' p.2)) :
    sumL (((pairs.map (·.1)).filter q).map F) = sumL (((pairs.map (·.2)).filter q').map F') := by
  induction pairs with
  | nil => rfl
  | cons p ps ih =>
    have hp := h p List.mem_cons_self
    have ih' := ih (fun x hx => h x (List.mem_cons_of_mem _ hx))
    simp only [List.map_cons, List.filter_cons]
    rw [← hp.1]
    by_cases hq : q p.1 = true
    · simp only [hq, if_true, List.map_cons, sumL]
      rw [hp.2 hq, ih']
    · simp only [hq, Bool.false_eq_true, if_false]
      exact ih'

/-- the hypotheses shared by the lemmas below: two models with index tables whose compartments and
flows correspond, in the same state `pop` -/
structure RatesSetup (m m' : Model α) (b b' : Backend) (pairs : List (Flow α × Flow α)) : Prop where
  hb : BackendFor m b
  hb' : BackendFor m' b'
  sourced : sourcedOk m = true
  comps : (m.comps.map compSem).Perm (m'.comps.map compSem)
  nodup : (m.comps.map compSem).Nodup
  fst : pairs.map (·.1) = m.flows
  snd : (pairs.map (·.2)).Perm m'.flows
  ends : ∀ p ∈ pairs, EndsCorr p.1 p.2

theorem RatesSetup.mem {m m' : Model α} {b b' : Backend} {pairs : List (Flow α × Flow α)}
    (S : RatesSetup m m' b b' pairs) {p : Flow α × Flow α} (hp : p ∈ pairs) : p.1 ∈ m.flows ∧ p.2 ∈ m'.flows :=
  ⟨by rw [← S.fst]; exact List.mem_map_of_mem hp, S.snd.mem_iff.1 (List.mem_map_of_mem hp)⟩

theorem RatesSetup.srcSome {m m' : Model α} {b b' : Backend} {pairs : List (Flow α × Flow α)}
    (S : RatesSetup m m' b b' pairs) {p : Flow α × Flow α} (hp : p ∈ pairs) (hk : isSourced p.1.kind = true) :
    p.1.src.isSome = true := by
  have := List.all_eq_true.1 S.sourced p.1 (S.mem hp).1
  simpa [hk] using this

theorem popOfFlow_corr {m m' : Model α} {b b' : Backend} {pairs : List (Flow α × Flow α)}
    (S : RatesSetup m m' b b' pairs) (pop : String × (String → Option String) → α)
    {p : Flow α × Flow α} (hp : p ∈ pairs) :
    popOfFlow m (semState pop m.comps) p.1 = popOfFlow m' (semState pop m'.comps) p.2 := by
  have hk := (S.ends p hp).1
  unfold popOfFlow
  rw [← hk]
  by_cases h1 : isCrude p.1.kind = true
  · simp only [h1, if_true]; exact sumL_semState pop _ _ S.comps
  · by_cases h2 : isNonPop p.1.kind = true
    · simp only [h1, h2, Bool.false_eq_true, if_false, if_true]
    · simp only [h1, h2, Bool.false_eq_true, if_false]
      have hs : isSourced p.1.kind = true := by
        revert h1 h2; cases p.1.kind <;> simp [isCrude, isNonPop, isSourced]
      exact srcPop_corr S.hb S.hb' pop (S.mem hp).1 (S.mem hp).2 (S.ends p hp) (S.srcSome hp hs)

theorem deathsBy_corr {m m' : Model α} {b b' : Backend} {pairs : List (Flow α × Flow α)}
    (S : RatesSetup m m' b b' pairs) (pop : String × (String → Option String) → α) (W W' : Flow α → α)
    (hW : ∀ p ∈ pairs, W p.1 = W' p.2) :
    deathsBy m W (semState pop m.comps) = deathsBy m' W' (semState pop m'.comps) := by
  unfold deathsBy
  rw [← S.fst, ← Invariance.sumL_perm ((S.snd.filter _).map _)]
  apply sumL_pairs_filter
  intro p hp
  have hk := (S.ends p hp).1
  refine ⟨by rw [hk], fun hd => ?_⟩
  have hs : isSourced p.1.kind = true := by
    revert hd; cases p.1.kind <;> simp [isDeath, isSourced]
  rw [hW p hp, srcPop_corr S.hb S.hb' pop (S.mem hp).1 (S.mem hp).2 (S.ends p hp) (S.srcSome hp hs)]

/-- **flow rates of corresponding flows agree**, given weights and infection multipliers that agree on
corresponding flows -/
theorem rateBy_corr {m m' : Model α} {b b' : Backend} {pairs : List (Flow α × Flow α)}
    (S : RatesSetup m m' b b' pairs) (pop : String × (String → Option String) → α) (W W' M M' : Flow α → α)
    (hW : ∀ p ∈ pairs, W p.1 = W' p.2) (hM : ∀ p ∈ pairs, isInfection p.1.kind = true → M p.1 = M' p.2)
    {p : Flow α × Flow α} (hp : p ∈ pairs) :
    rateBy m W (semState pop m.comps) M p.1 = rateBy m' W' (semState pop m'.comps) M' p.2 := by
  have hk := (S.ends p hp).1
  unfold rateBy
  rw [← hk, hW p hp, popOfFlow_corr S pop hp, deathsBy_corr S pop W W' hW]
  by_cases hi : isInfection p.1.kind = true
  · simp only [hi, if_true, hM p hp hi]
  · simp only [hi, Bool.false_eq_true, if_false]

theorem inflow_map (m : Model α) (R : Flow α → α) (c : Nat) :
    inflow m (m.flows.map R) c = sumL ((m.flows.filter (fun f => dstIx m f == some c)).map R) := by
  unfold inflow
  rw [Invariance.zip_map_self, List.filter_map, List.map_map]
  rfl

theorem outflow_map (m : Model α) (R : Flow α → α) (c : Nat) :
    outflow m (m.flows.map R) c = sumL ((m.flows.filter (fun f => srcIx m f == some c)).map R) := by
  unfold outflow
  rw [Invariance.zip_map_self, List.filter_map, List.map_map]
  rfl

/-- positions `i` in `cs` and `i'` in `cs'` carry the same compartment (as name and strata lookup) -/
def SamePos (cs cs' : List Comp) (i i' : Nat) : Prop :=
  ∃ (hi : i < cs.length) (hi' : i' < cs'.length), compSem cs[i] = compSem cs'[i']

theorem nodup_getElem_inj {β : Type} {l : List β} (h : l.Nodup) {i j : Nat} (hi : i < l.length) (hj : j < l.length)
    (e : l[i] = l[j]) : i = j := by
  rcases Nat.lt_trichotomy i j with hlt | heq | hgt
  · exact absurd e (List.pairwise_iff_getElem.1 h i j hi hj hlt)
  · exact heq
  · exact absurd e.symm (List.pairwise_iff_getElem.1 h j i hj hi hgt)

theorem nodup_sem_inj {cs : List Comp} (hnd : (cs.map compSem).Nodup) {i j : Nat} (hi : i < cs.length)
    (hj : j < cs.length) (h : compSem cs[i] = compSem cs[j]) : i = j := by
  have hi' : i < (cs.map compSem).length := by simpa using hi
  have hj' : j < (cs.map compSem).length := by simpa using hj
  have : (cs.map compSem)[i] = (cs.map compSem)[j] := by simpa using h
  exact nodup_getElem_inj hnd hi' hj' this

/-- an end of a flow sits at position `i` of one model iff the corresponding end sits at the
corresponding position of the other model -/
theorem endIx_corr {cs cs' : List Comp} (hnd : (cs.map compSem).Nodup) (hnd' : (cs'.map compSem).Nodup)
    {e e' : Option Comp} (he : endSem e = endSem e') (hok : e.isSome = true → (e.bind (compIdx cs)).isSome = true)
    (hok' : e'.isSome = true → (e'.bind (compIdx cs')).isSome = true) {i i' : Nat} (hpos : SamePos cs cs' i i') :
    (e.bind (compIdx cs) == some i) = (e'.bind (compIdx cs') == some i') := by
  obtain ⟨hi, hi', hsem⟩ := hpos
  cases e with
  | none =>
    cases e' with
    | none => rfl
    | some c' => cases he
  | some c =>
    cases e' with
    | none => cases he
    | some c' =>
      have hcc : compSem c = compSem c' := Option.some.inj he
      have h1 := hok rfl
      have h2 := hok' rfl
      simp only [Option.bind_some] at h1 h2 ⊢
      cases hj : compIdx cs c with
      | none => rw [hj] at h1; cases h1
      | some j =>
        cases hj' : compIdx cs' c' with
        | none => rw [hj'] at h2; cases h2
        | some j' =>
          obtain ⟨hjl, hjc⟩ := Invariance.compIdx_getElem cs c j hj
          obtain ⟨hjl', hjc'⟩ := Invariance.compIdx_getElem cs' c' j' hj'
          have e1 : (j = i) ↔ (j' = i') := by
            constructor
            · intro h; subst h
              exact nodup_sem_inj hnd' hjl' hi' (by rw [hjc', ← hcc, ← hjc, hsem])
            · intro h; subst h
              exact nodup_sem_inj hnd hjl hi (by rw [hjc, hcc, ← hjc', hsem])
          by_cases hji : j = i
          · have := e1.1 hji; subst hji; subst this; simp
          · have hne : ¬ j' = i' := fun h => hji (e1.2 h)
            simp [hji, hne]

theorem RatesSetup.nodup' {m m' : Model α} {b b' : Backend} {pairs : List (Flow α × Flow α)}
    (S : RatesSetup m m' b b' pairs) : (m'.comps.map compSem).Nodup := S.comps.nodup_iff.1 S.nodup

theorem inflow_corr {m m' : Model α} {b b' : Backend} {pairs : List (Flow α × Flow α)}
    (S : RatesSetup m m' b b' pairs) (R R' : Flow α → α) (hR : ∀ p ∈ pairs, R p.1 = R' p.2)
    {i i' : Nat} (hpos : SamePos m.comps m'.comps i i') :
    inflow m (m.flows.map R) i = inflow m' (m'.flows.map R') i' := by
  rw [inflow_map, inflow_map, ← S.fst, ← Invariance.sumL_perm ((S.snd.filter _).map _)]
  apply sumL_pairs_filter
  intro p hp
  refine ⟨?_, fun _ => hR p hp⟩
  exact endIx_corr S.nodup S.nodup' (S.ends p hp).2.2 (S.hb.dstOk p.1 (S.mem hp).1) (S.hb'.dstOk p.2 (S.mem hp).2) hpos

theorem outflow_corr {m m' : Model α} {b b' : Backend} {pairs : List (Flow α × Flow α)}
    (S : RatesSetup m m' b b' pairs) (R R' : Flow α → α) (hR : ∀ p ∈ pairs, R p.1 = R' p.2)
    {i i' : Nat} (hpos : SamePos m.comps m'.comps i i') :
    outflow m (m.flows.map R) i = outflow m' (m'.flows.map R') i' := by
  rw [outflow_map, outflow_map, ← S.fst, ← Invariance.sumL_perm ((S.snd.filter _).map _)]
  apply sumL_pairs_filter
  intro p hp
  refine ⟨?_, fun _ => hR p hp⟩
  exact endIx_corr S.nodup S.nodup' (S.ends p hp).2.1 (S.hb.srcOk p.1 (S.mem hp).1) (S.hb'.srcOk p.2 (S.mem hp).2) hpos

/-- **compartment rates at corresponding positions agree** -/
theorem compRates_corr {m m' : Model α} {b b' : Backend} {pairs : List (Flow α × Flow α)}
    (S : RatesSetup m m' b b' pairs) (pop : String × (String → Option String) → α) (W W' M M' : Flow α → α)
    (hW : ∀ p ∈ pairs, W p.1 = W' p.2) (hM : ∀ p ∈ pairs, isInfection p.1.kind = true → M p.1 = M' p.2)
    {i i' : Nat} (hpos : SamePos m.comps m'.comps i i') :
    (compRates b (flowRates b (m.flows.map W) (semState pop m.comps)
        ((m.flows.filter (fun f => isInfection f.kind)).map M))).getD i 0
      = (compRates b' (flowRates b' (m'.flows.map W') (semState pop m'.comps)
        ((m'.flows.filter (fun f => isInfection f.kind)).map M'))).getD i' 0 := by
  obtain ⟨hi, hi', _⟩ := id hpos
  rw [Invariance.flowRates_eq_map S.hb, Invariance.flowRates_eq_map S.hb',
    compRates_getD_spec S.hb _ i hi, compRates_getD_spec S.hb' _ i' hi',
    inflow_corr S _ _ (fun p hp => rateBy_corr S pop W W' M M' hW hM hp) hpos,
    outflow_corr S _ _ (fun p hp => rateBy_corr S pop W W' M M' hW hM hp) hpos]

end ratesCorr

section ratesAssemble
variable {α : Type} [Field α]
open Summer.Run

/-- the setup of section F for the two doubly stratified models -/
theorem ratesSetup_of_commutes {m m12 m21 : Model α} {s1 s2 : Strat α} {b12 b21 : Backend}
    (hc : StratCommutes m s1 s2 m12 m21) (hinv12 : Inv m12)
    (hp12 : prepare m12 = .ok b12) (hp21 : prepare m21 = .ok b21) :
    ∃ pairs, RatesSetup m12 m21 b12 b21 pairs ∧
      ∀ p ∈ pairs, FlowCorr (DeclaredAdj s1) (DeclaredAdj s2) p.1 p.2 := by
  obtain ⟨pairs, e1, e2, e3⟩ := hc.flows
  exact ⟨pairs, ⟨backendFor_of_prepare m12 b12 hp12, backendFor_of_prepare m21 b21 hp21, sourcedOk_of_inv hinv12,
    hc.comps, semNodup_of_inv hinv12, e1, e2, fun p hp => EndsCorr.of_flowCorr (e3 p hp)⟩, e3⟩

end ratesAssemble

section rhsNoInf
variable {α : Type} [Field α] [LT α] [DecidableLT α]
open Summer.Run

theorem cleanV_semState (pop : String × (String → Option String) → α) (comps : List Comp) :
    cleanV (semState pop comps) = semState (fun c => clean (pop c)) comps := by
  simp [cleanV, semState, Function.comp_def]

/-- without infection flows the right-hand side, when defined, is the rate law applied to the
realised weights -/
theorem rhs_noinf {m : Model α} {b : Backend} (hb : BackendFor m b)
    (hno : m.flows.all (fun f => !isInfection f.kind) = true) (p : List (String × α)) (x : List α) (t : α)
    (r : List α) (h : rhs m b p x t = some r) :
    r = compRates b (flowRates b (m.flows.map (fun f => ((realised f).eval ⟨p, t, cleanV x⟩).getD 0)) (cleanV x)
      ((m.flows.filter (fun f => isInfection f.kind)).map (fun _ => (0 : α)))) := by
  rw [Invariance.rhs_eq] at h
  obtain ⟨w, hw, h⟩ := Option.bind_eq_some_iff.1 h
  obtain ⟨mix, -, h⟩ := Option.bind_eq_some_iff.1 h
  obtain ⟨ci, -, h⟩ := Option.bind_eq_some_iff.1 h
  have hr : r = Invariance.ratesOf b w (cleanV x) mix ci := (Option.some.inj h).symm
  have hproc : b.procType.isSome = false := by
    rw [hb.procType]
    rw [List.all_eq_true] at hno
    rw [Bool.eq_false_iff]
    intro hany
    obtain ⟨f, hf, hk⟩ := List.any_eq_true.1 hany
    have := hno f hf
    rw [hk] at this
    cases this
  have hfil : m.flows.filter (fun f => isInfection f.kind) = [] := by
    rw [List.filter_eq_nil_iff]
    intro f hf
    have := List.all_eq_true.1 hno f hf
    simpa using this
  have hwm : w = m.flows.map (fun f => ((realised f).eval ⟨p, t, cleanV x⟩).getD 0) := by
    unfold Invariance.weightsAt at hw
    rw [Invariance.mapM_option_eq_map _ (0 : α)] at hw
    split at hw
    · exact (Option.some.inj hw).symm
    · cases hw
  rw [hr, hfil, ← hwm]
  unfold Invariance.ratesOf
  rw [hproc]
  rfl

end rhsNoInf

end Summer.Proofs.StratComm
