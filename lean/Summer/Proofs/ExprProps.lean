import Summer.Spec.ExprGraphSpec
/-
Helper lemmas for C09 / C10 / C14: association-list lookup, mutual structural inductions on `Expr`,
`Option`-monad `mapM`/`foldlM` facts, and the derived-output graph lemmas.
-/
namespace Summer
namespace ExprProps
open Summer.Spec

/-! ### `alookup` -/
section alookup
variable {β : Type}

@[simp] theorem alookup_nil (k : String) : alookup ([] : List (String × β)) k = none := rfl

theorem alookup_cons (k' : String) (v : β) (l : List (String × β)) (k : String) :
    alookup ((k', v) :: l) k = if k' = k then some v else alookup l k := by
  unfold alookup
  by_cases h : k' = k
  · simp [List.find?, h]
  · have hb : (k' == k) = false := by simpa using h
    simp [List.find?, hb, h]

theorem alookup_append (l₁ l₂ : List (String × β)) (k : String) :
    alookup (l₁ ++ l₂) k = (alookup l₁ k).or (alookup l₂ k) := by
  induction l₁ with
  | nil => simp
  | cons p l ih =>
    obtain ⟨k', v⟩ := p
    rw [List.cons_append, alookup_cons, alookup_cons, ih]
    by_cases h : k' = k <;> simp [h]

theorem alookup_filter_key (q : String → Bool) (l : List (String × β)) (k : String) :
    alookup (l.filter (fun kv => q kv.1)) k = if q k = true then alookup l k else none := by
  induction l with
  | nil => simp
  | cons p l ih =>
    obtain ⟨k', v⟩ := p
    by_cases hq : q k' = true
    · rw [List.filter_cons_of_pos (by simpa using hq), alookup_cons, alookup_cons, ih]
      by_cases h : k' = k
      · subst h; simp [hq]
      · simp [h]
    · rw [List.filter_cons_of_neg (by simpa using hq), ih, alookup_cons]
      by_cases h : k' = k
      · subst h; simp [hq]
      · simp [h]

theorem alookup_isSome_iff (l : List (String × β)) (k : String) :
    (alookup l k).isSome = true ↔ k ∈ l.map Prod.fst := by
  induction l with
  | nil => simp
  | cons p l ih =>
    obtain ⟨k', v⟩ := p
    rw [alookup_cons]
    by_cases h : k' = k
    · subst h; simp
    · simp only [h, if_false, ih, List.map_cons, List.mem_cons]
      constructor
      · exact Or.inr
      · rintro (h' | h')
        · exact absurd h'.symm h
        · exact h'

theorem alookup_eq_none_iff (l : List (String × β)) (k : String) :
    alookup l k = none ↔ k ∉ l.map Prod.fst := by
  rw [← alookup_isSome_iff]; cases alookup l k <;> simp

/-- a looked-up value is an entry of the list -/
theorem alookup_mem {l : List (String × β)} {k : String} {v : β} (h : alookup l k = some v) :
    (k, v) ∈ l := by
  induction l with
  | nil => simp at h
  | cons p l ih =>
    obtain ⟨k', v'⟩ := p
    rw [alookup_cons] at h
    by_cases hk : k' = k
    · subst hk; simp at h; subst h; exact List.mem_cons_self
    · simp [hk] at h; exact List.mem_cons_of_mem _ (ih h)

/-- with pairwise distinct keys every entry is what lookup returns -/
theorem alookup_of_mem_nodup {l : List (String × β)} (hn : (l.map Prod.fst).Nodup) {k : String} {v : β}
    (h : (k, v) ∈ l) : alookup l k = some v := by
  induction l with
  | nil => simp at h
  | cons p l ih =>
    obtain ⟨k', v'⟩ := p
    rw [List.map_cons, List.nodup_cons] at hn
    rw [alookup_cons]
    rcases List.mem_cons.1 h with h | h
    · injection h with h1 h2; subst h1; subst h2; simp
    · have : k' ≠ k := by
        intro e; subst e
        exact hn.1 (List.mem_map.2 ⟨(k', v), h, rfl⟩)
      simp [this, ih hn.2 h]

theorem alookup_mergedParams (dyn : List String) (fixed dynVals : List (String × β)) (k : String) :
    alookup (mergedParams dyn fixed dynVals) k =
      if dyn.contains k = true then alookup dynVals k else alookup fixed k := by
  unfold mergedParams
  rw [alookup_append, alookup_filter_key (fun k => dyn.contains k),
    alookup_filter_key (fun k => !dyn.contains k)]
  by_cases h : k ∈ dyn
  · simp [h]
  · simp [h]

theorem alookup_freezeParams (dyn : List String) (fixed dynVals : List (String × β)) (k : String) :
    alookup (freezeParams dyn fixed dynVals) k =
      if dyn.contains k = true then alookup dynVals k
      else (alookup fixed k).or (alookup dynVals k) := by
  unfold freezeParams
  rw [alookup_append, alookup_mergedParams]
  by_cases h : k ∈ dyn
  · simp [h]
  · simp [h]

theorem alookup_map_set (l : List (String × β)) (k : String) (v : β) (k' : String) :
    alookup (l.map (fun p => if p.1 == k then (k, v) else p)) k' =
      if k = k' then (alookup l k).map (fun _ => v) else alookup l k' := by
  induction l with
  | nil => simp
  | cons p l ih =>
    obtain ⟨k0, v0⟩ := p
    simp only [List.map_cons]
    by_cases h0 : k0 = k
    · subst h0
      simp only [beq_self_eq_true, if_true, alookup_cons]
      by_cases h1 : k0 = k'
      · simp [h1]
      · rw [if_neg h1, ih, if_neg h1, if_neg h1, if_neg h1]
    · have hb : (k0 == k) = false := by simpa using h0
      simp only [hb, Bool.false_eq_true, if_false, alookup_cons, h0, ih]
      by_cases h1 : k0 = k'
      · subst h1
        have : ¬ k = k0 := fun e => h0 e.symm
        simp [this]
      · simp only [h1, if_false]

theorem alookup_dictSet (l : List (String × β)) (k : String) (v : β) (k' : String) :
    alookup (dictSet l k v) k' = if k = k' then some v else alookup l k' := by
  unfold dictSet
  by_cases ha : l.any (fun p => p.1 == k) = true
  · rw [if_pos ha, alookup_map_set]
    have hs : (alookup l k).isSome = true := by
      rw [alookup_isSome_iff]
      obtain ⟨p, hp, e⟩ := List.any_eq_true.1 ha
      exact List.mem_map.2 ⟨p, hp, by simpa using e⟩
    cases hl : alookup l k with
    | none => simp [hl] at hs
    | some w => simp
  · rw [if_neg ha, alookup_append, alookup_cons, alookup_nil]
    have hnone : alookup l k = none := by
      rw [alookup_eq_none_iff]
      intro hm
      apply ha
      obtain ⟨p, hp, e⟩ := List.mem_map.1 hm
      exact List.any_eq_true.2 ⟨p, hp, by simp [e]⟩
    by_cases h : k = k'
    · subst h; simp [hnone]
    · simp [h]

/-- Python `{**a, **b}` (the model's `dictUpdate`) read through `alookup`, for a `b` without
duplicate keys (a Python dict) -/
theorem alookup_dictUpdate : ∀ (b a : List (String × β)) (k : String), (b.map Prod.fst).Nodup →
    alookup (dictUpdate a b) k = (alookup b k).or (alookup a k)
  | [], a, k, _ => by simp [dictUpdate]
  | (k0, v0) :: b, a, k, hn => by
    rw [List.map_cons, List.nodup_cons] at hn
    have : dictUpdate a ((k0, v0) :: b) = dictUpdate (dictSet a k0 v0) b := by
      simp [dictUpdate, List.foldl_cons]
    rw [this, alookup_dictUpdate b _ k hn.2, alookup_dictSet, alookup_cons]
    by_cases h : k0 = k
    · subst h
      rw [(alookup_eq_none_iff _ _).2 hn.1]; simp
    · simp [h]

theorem alookup_withDefaults (defaults supplied : List (String × β)) (k : String) :
    alookup (withDefaults defaults supplied) k = (alookup supplied k).or (alookup defaults k) := by
  unfold withDefaults; exact alookup_append ..

end alookup

/-! ### `Option`-monad list traversals -/
section mapM
variable {β γ : Type}

theorem mapM_congr {f g : β → Option γ} : ∀ {l : List β}, (∀ a ∈ l, f a = g a) → l.mapM f = l.mapM g
  | [], _ => by simp
  | a :: l, h => by
    simp only [List.mapM_cons]
    rw [h a List.mem_cons_self, mapM_congr (l := l) (fun b hb => h b (List.mem_cons_of_mem _ hb))]

/-- `mapM` succeeds exactly when every element does, and then returns the element-wise results -/
theorem mapM_eq_some_iff {f : β → Option γ} : ∀ {l : List β} {w : List γ},
    l.mapM f = some w ↔ l.map f = w.map some
  | [], w => by
    cases w <;> simp
  | a :: l, w => by
    simp only [List.mapM_cons]
    cases hfa : f a with
    | none => cases w <;> simp [hfa]
    | some b =>
      cases hl : l.mapM f with
      | none =>
        cases w with
        | nil => simp
        | cons c w =>
          have : ¬ l.map f = w.map some := fun h => by
            have := (mapM_eq_some_iff (f := f) (l := l) (w := w)).2 h
            rw [hl] at this; cases this
          simp [hfa, this]
      | some bs =>
        have hbs := (mapM_eq_some_iff (f := f)).1 hl
        cases w with
        | nil => simp
        | cons c w =>
          simp only [hfa, Option.pure_def, Option.bind_eq_bind, Option.bind_some, Option.some.injEq,
            List.cons.injEq, List.map_cons, hbs]
          constructor
          · rintro ⟨h1, h2⟩; exact ⟨h1, by rw [h2]⟩
          · rintro ⟨h1, h2⟩
            exact ⟨h1, (List.map_inj_right (fun _ _ h => Option.some.inj h)).1 h2⟩

theorem mapM_eq_none_iff {f : β → Option γ} : ∀ {l : List β},
    l.mapM f = none ↔ ∃ a ∈ l, f a = none
  | [] => by simp
  | a :: l => by
    simp only [List.mapM_cons, List.mem_cons, exists_eq_or_imp]
    cases hfa : f a with
    | none => simp
    | some b =>
      cases hl : l.mapM f with
      | none => simp [mapM_eq_none_iff.1 hl]
      | some bs =>
        simp
        intro a ha hn
        have := mapM_eq_none_iff.2 ⟨a, ha, hn⟩
        rw [hl] at this; cases this

theorem mapM_some_getElem {f : β → Option γ} {l : List β} {w : List γ} (h : l.mapM f = some w) :
    w.length = l.length ∧ ∀ (i : Nat) (h₁ : i < l.length) (h₂ : i < w.length), f l[i] = some w[i] := by
  have hm := mapM_eq_some_iff.1 h
  have hlen : w.length = l.length := by simpa using (congrArg List.length hm).symm
  refine ⟨hlen, fun i h₁ h₂ => ?_⟩
  have : (l.map f)[i]'(by simpa using h₁) = (w.map some)[i]'(by simpa using h₂) := by
    simp only [hm]
  simpa using this

theorem eq_of_nodup_map {f : β → γ} : ∀ {l : List β}, (l.map f).Nodup → ∀ {a b : β}, a ∈ l → b ∈ l →
    f a = f b → a = b
  | [], _, _, _, ha, _, _ => by cases ha
  | c :: l, hn, a, b, ha, hb, e => by
    rw [List.map_cons, List.nodup_cons] at hn
    rcases List.mem_cons.1 ha with ha' | ha' <;> rcases List.mem_cons.1 hb with hb' | hb'
    · rw [ha', hb']
    · subst ha'; exact (hn.1 (List.mem_map.2 ⟨b, hb', e.symm⟩)).elim
    · subst hb'; exact (hn.1 (List.mem_map.2 ⟨a, ha', e⟩)).elim
    · exact eq_of_nodup_map hn.2 ha' hb' e

end mapM

/-! ### purely structural facts -/
section structural
variable {α : Type}

theorem allBound_append (p : List (String × α)) (a b : List String) :
    allBound p (a ++ b) = (allBound p a && allBound p b) := by
  simp [allBound, List.all_append]

theorem allBound_iff (p : List (String × α)) (ks : List String) :
    allBound p ks = true ↔ ∀ k ∈ ks, (alookup p k).isSome = true := by
  simp [allBound]

/- an expression without model variables has no `comp` leaf -/
mutual
theorem compsInRange_of_static (n : Nat) : ∀ e : Expr α, e.usesModelVars = false → compsInRange n e = true
  | .const _, _ => rfl
  | .param _, _ => rfl
  | .time, _ => rfl
  | .comp _, h => by simp [Expr.usesModelVars] at h
  | .popSum, _ => rfl
  | .add a b, h => by
    simp only [Expr.usesModelVars, Bool.or_eq_false_iff] at h
    simp [compsInRange, compsInRange_of_static n a h.1, compsInRange_of_static n b h.2]
  | .sub a b, h => by
    simp only [Expr.usesModelVars, Bool.or_eq_false_iff] at h
    simp [compsInRange, compsInRange_of_static n a h.1, compsInRange_of_static n b h.2]
  | .mul a b, h => by
    simp only [Expr.usesModelVars, Bool.or_eq_false_iff] at h
    simp [compsInRange, compsInRange_of_static n a h.1, compsInRange_of_static n b h.2]
  | .div a b, h => by
    simp only [Expr.usesModelVars, Bool.or_eq_false_iff] at h
    simp [compsInRange, compsInRange_of_static n a h.1, compsInRange_of_static n b h.2]
  | .pw a bs vs, h => by
    simp only [Expr.usesModelVars, Bool.or_eq_false_iff] at h
    simp [compsInRange, compsInRange_of_static n a h.1.1, compsInRangeList_of_static n bs h.1.2,
      compsInRangeList_of_static n vs h.2]
  | .lin a bs vs, h => by
    simp only [Expr.usesModelVars, Bool.or_eq_false_iff] at h
    simp [compsInRange, compsInRange_of_static n a h.1.1, compsInRangeList_of_static n bs h.1.2,
      compsInRangeList_of_static n vs h.2]
theorem compsInRangeList_of_static (n : Nat) : ∀ l : List (Expr α),
    Expr.usesModelVarsList l = false → compsInRangeList n l = true
  | [], _ => rfl
  | e :: es, h => by
    simp only [Expr.usesModelVarsList, Bool.or_eq_false_iff] at h
    simp [compsInRangeList, compsInRange_of_static n e h.1, compsInRangeList_of_static n es h.2]
end

/- no model variable, a fortiori no `time` leaf -/
mutual
theorem usesTime_le_usesModelVars : ∀ e : Expr α, e.usesModelVars = false → e.usesTime = false
  | .const _, _ => rfl
  | .param _, _ => rfl
  | .time, h => by simp [Expr.usesModelVars] at h
  | .comp _, _ => rfl
  | .popSum, _ => rfl
  | .add a b, h => by
    simp only [Expr.usesModelVars, Bool.or_eq_false_iff] at h
    simp [Expr.usesTime, usesTime_le_usesModelVars a h.1, usesTime_le_usesModelVars b h.2]
  | .sub a b, h => by
    simp only [Expr.usesModelVars, Bool.or_eq_false_iff] at h
    simp [Expr.usesTime, usesTime_le_usesModelVars a h.1, usesTime_le_usesModelVars b h.2]
  | .mul a b, h => by
    simp only [Expr.usesModelVars, Bool.or_eq_false_iff] at h
    simp [Expr.usesTime, usesTime_le_usesModelVars a h.1, usesTime_le_usesModelVars b h.2]
  | .div a b, h => by
    simp only [Expr.usesModelVars, Bool.or_eq_false_iff] at h
    simp [Expr.usesTime, usesTime_le_usesModelVars a h.1, usesTime_le_usesModelVars b h.2]
  | .pw a bs vs, h => by
    simp only [Expr.usesModelVars, Bool.or_eq_false_iff] at h
    simp [Expr.usesTime, usesTime_le_usesModelVars a h.1.1, usesTimeList_le_usesModelVarsList bs h.1.2,
      usesTimeList_le_usesModelVarsList vs h.2]
  | .lin a bs vs, h => by
    simp only [Expr.usesModelVars, Bool.or_eq_false_iff] at h
    simp [Expr.usesTime, usesTime_le_usesModelVars a h.1.1, usesTimeList_le_usesModelVarsList bs h.1.2,
      usesTimeList_le_usesModelVarsList vs h.2]
theorem usesTimeList_le_usesModelVarsList : ∀ l : List (Expr α),
    Expr.usesModelVarsList l = false → Expr.usesTimeList l = false
  | [], _ => rfl
  | e :: es, h => by
    simp only [Expr.usesModelVarsList, Bool.or_eq_false_iff] at h
    simp [Expr.usesTimeList, usesTime_le_usesModelVars e h.1, usesTimeList_le_usesModelVarsList es h.2]
end

end structural

/-! ### structural inductions on `Expr` -/
section expr
variable {α : Type} [Zero α] [Add α] [Sub α] [Mul α] [Div α] [LT α] [DecidableLT α]

/- `eval` only reads the dictionary at the keys in `params` -/
mutual
theorem eval_congr_params (p q : List (String × α)) (t : α) (x : List α) :
    ∀ e : Expr α, (∀ k ∈ e.params, alookup p k = alookup q k) → e.eval ⟨p, t, x⟩ = e.eval ⟨q, t, x⟩
  | .const _, _ => by simp [Expr.eval]
  | .param k, h => by simpa [Expr.eval, Expr.params] using h
  | .time, _ => by simp [Expr.eval]
  | .comp _, _ => by simp [Expr.eval]
  | .popSum, _ => by simp [Expr.eval]
  | .add a b, h => by
    simp only [Expr.params, List.mem_append] at h
    simp only [Expr.eval, eval_congr_params p q t x a (fun k hk => h k (Or.inl hk)),
      eval_congr_params p q t x b (fun k hk => h k (Or.inr hk))]
  | .sub a b, h => by
    simp only [Expr.params, List.mem_append] at h
    simp only [Expr.eval, eval_congr_params p q t x a (fun k hk => h k (Or.inl hk)),
      eval_congr_params p q t x b (fun k hk => h k (Or.inr hk))]
  | .mul a b, h => by
    simp only [Expr.params, List.mem_append] at h
    simp only [Expr.eval, eval_congr_params p q t x a (fun k hk => h k (Or.inl hk)),
      eval_congr_params p q t x b (fun k hk => h k (Or.inr hk))]
  | .div a b, h => by
    simp only [Expr.params, List.mem_append] at h
    simp only [Expr.eval, eval_congr_params p q t x a (fun k hk => h k (Or.inl hk)),
      eval_congr_params p q t x b (fun k hk => h k (Or.inr hk))]
  | .pw a bs vs, h => by
    simp only [Expr.params, List.mem_append] at h
    simp only [Expr.eval, eval_congr_params p q t x a (fun k hk => h k (Or.inl (Or.inl hk))),
      evalList_congr_params p q t x bs (fun k hk => h k (Or.inl (Or.inr hk))),
      evalList_congr_params p q t x vs (fun k hk => h k (Or.inr hk))]
  | .lin a bs vs, h => by
    simp only [Expr.params, List.mem_append] at h
    simp only [Expr.eval, eval_congr_params p q t x a (fun k hk => h k (Or.inl (Or.inl hk))),
      evalList_congr_params p q t x bs (fun k hk => h k (Or.inl (Or.inr hk))),
      evalList_congr_params p q t x vs (fun k hk => h k (Or.inr hk))]
theorem evalList_congr_params (p q : List (String × α)) (t : α) (x : List α) :
    ∀ l : List (Expr α), (∀ k ∈ Expr.paramsList l, alookup p k = alookup q k) →
      Expr.evalList ⟨p, t, x⟩ l = Expr.evalList ⟨q, t, x⟩ l
  | [], _ => by simp [Expr.evalList]
  | e :: es, h => by
    simp only [Expr.paramsList, List.mem_append] at h
    simp only [Expr.evalList, eval_congr_params p q t x e (fun k hk => h k (Or.inl hk)),
      evalList_congr_params p q t x es (fun k hk => h k (Or.inr hk))]
end

/- substitution = evaluation with the binding consed in front -/
mutual
theorem subst_eval (p : String) (v : α) (env : Env α) :
    ∀ e : Expr α, (e.subst p v).eval env = e.eval ⟨(p, v) :: env.params, env.time, env.state⟩
  | .const _ => by simp [Expr.subst, Expr.eval]
  | .param k => by
    by_cases h : k = p
    · simp [Expr.subst, Expr.eval, h, alookup_cons]
    · have h' : ¬ p = k := fun e => h e.symm
      simp [Expr.subst, Expr.eval, h, h', alookup_cons]
  | .time => by simp [Expr.subst, Expr.eval]
  | .comp _ => by simp [Expr.subst, Expr.eval]
  | .popSum => by simp [Expr.subst, Expr.eval]
  | .add a b => by simp only [Expr.subst, Expr.eval, subst_eval p v env a, subst_eval p v env b]
  | .sub a b => by simp only [Expr.subst, Expr.eval, subst_eval p v env a, subst_eval p v env b]
  | .mul a b => by simp only [Expr.subst, Expr.eval, subst_eval p v env a, subst_eval p v env b]
  | .div a b => by simp only [Expr.subst, Expr.eval, subst_eval p v env a, subst_eval p v env b]
  | .pw a bs vs => by
    simp only [Expr.subst, Expr.eval, subst_eval p v env a, substList_eval p v env bs,
      substList_eval p v env vs]
  | .lin a bs vs => by
    simp only [Expr.subst, Expr.eval, subst_eval p v env a, substList_eval p v env bs,
      substList_eval p v env vs]
theorem substList_eval (p : String) (v : α) (env : Env α) :
    ∀ l : List (Expr α), Expr.evalList env (Expr.substList p v l) =
      Expr.evalList ⟨(p, v) :: env.params, env.time, env.state⟩ l
  | [] => by simp [Expr.substList, Expr.evalList]
  | e :: es => by
    simp only [Expr.substList, Expr.evalList, subst_eval p v env e, substList_eval p v env es]
end

/- what `freeze` computes, with no side condition -/
mutual
theorem freeze_eval (dyn : List String) (fixed dynVals : List (String × α)) (t : α) (x : List α) :
    ∀ e : Expr α, (e.freeze dyn fixed).eval ⟨dynVals, t, x⟩ =
      e.eval ⟨freezeParams dyn fixed dynVals, t, x⟩
  | .const _ => by simp [Expr.freeze, Expr.eval]
  | .param k => by
    simp only [Expr.freeze, Expr.eval, alookup_freezeParams]
    by_cases h : k ∈ dyn
    · simp [h, Expr.eval]
    · cases hf : alookup fixed k with
      | none => simp [h, Expr.eval]
      | some v => simp [h, Expr.eval]
  | .time => by simp [Expr.freeze, Expr.eval]
  | .comp _ => by simp [Expr.freeze, Expr.eval]
  | .popSum => by simp [Expr.freeze, Expr.eval]
  | .add a b => by
    simp only [Expr.freeze, Expr.eval, freeze_eval dyn fixed dynVals t x a, freeze_eval dyn fixed dynVals t x b]
  | .sub a b => by
    simp only [Expr.freeze, Expr.eval, freeze_eval dyn fixed dynVals t x a, freeze_eval dyn fixed dynVals t x b]
  | .mul a b => by
    simp only [Expr.freeze, Expr.eval, freeze_eval dyn fixed dynVals t x a, freeze_eval dyn fixed dynVals t x b]
  | .div a b => by
    simp only [Expr.freeze, Expr.eval, freeze_eval dyn fixed dynVals t x a, freeze_eval dyn fixed dynVals t x b]
  | .pw a bs vs => by
    simp only [Expr.freeze, Expr.eval, freeze_eval dyn fixed dynVals t x a,
      freezeList_eval dyn fixed dynVals t x bs, freezeList_eval dyn fixed dynVals t x vs]
  | .lin a bs vs => by
    simp only [Expr.freeze, Expr.eval, freeze_eval dyn fixed dynVals t x a,
      freezeList_eval dyn fixed dynVals t x bs, freezeList_eval dyn fixed dynVals t x vs]
theorem freezeList_eval (dyn : List String) (fixed dynVals : List (String × α)) (t : α) (x : List α) :
    ∀ l : List (Expr α), Expr.evalList ⟨dynVals, t, x⟩ (Expr.freezeList dyn fixed l) =
      Expr.evalList ⟨freezeParams dyn fixed dynVals, t, x⟩ l
  | [] => by simp [Expr.freezeList, Expr.evalList]
  | e :: es => by
    simp only [Expr.freezeList, Expr.evalList, freeze_eval dyn fixed dynVals t x e,
      freezeList_eval dyn fixed dynVals t x es]
end

/-! ### when does `eval` succeed -/

theorem isSome_bind2 {β γ δ : Type} (oa : Option β) (ob : Option γ) (f : β → γ → δ) :
    (do let x ← oa; let y ← ob; pure (f x y) : Option δ).isSome = (oa.isSome && ob.isSome) := by
  cases oa <;> cases ob <;> rfl

theorem isSome_bind3 {β γ δ ε : Type} (oa : Option β) (ob : Option γ) (oc : Option δ) (f : β → γ → δ → ε) :
    (do let x ← oa; let y ← ob; let z ← oc; pure (f x y z) : Option ε).isSome =
      (oa.isSome && ob.isSome && oc.isSome) := by
  cases oa <;> cases ob <;> cases oc <;> rfl

private theorem and4 (a b c d : Bool) : (a && c && (b && d)) = (a && b && (c && d)) := by
  cases a <;> cases b <;> cases c <;> cases d <;> rfl
private theorem and6 (a b c d e f : Bool) :
    (a && d && (b && e) && (c && f)) = (a && b && c && (d && e && f)) := by
  cases a <;> cases b <;> cases c <;> cases d <;> cases e <;> cases f <;> rfl

/- `eval` succeeds exactly when every mentioned parameter is bound and every `comp` index is in range -/
mutual
theorem eval_isSome (env : Env α) : ∀ e : Expr α,
    (e.eval env).isSome = (allBound env.params e.params && compsInRange env.state.length e)
  | .const _ => by simp [Expr.eval, Expr.params, compsInRange, allBound]
  | .param k => by simp [Expr.eval, Expr.params, compsInRange, allBound]
  | .time => by simp [Expr.eval, Expr.params, compsInRange, allBound]
  | .comp i => by
    by_cases h : i < env.state.length <;> simp [Expr.eval, Expr.params, compsInRange, allBound, h]
  | .popSum => by simp [Expr.eval, Expr.params, compsInRange, allBound]
  | .add a b => by
    simp only [Expr.eval, Expr.params, compsInRange, allBound_append, isSome_bind2, eval_isSome env a,
      eval_isSome env b, and4]
  | .sub a b => by
    simp only [Expr.eval, Expr.params, compsInRange, allBound_append, isSome_bind2, eval_isSome env a,
      eval_isSome env b, and4]
  | .mul a b => by
    simp only [Expr.eval, Expr.params, compsInRange, allBound_append, isSome_bind2, eval_isSome env a,
      eval_isSome env b, and4]
  | .div a b => by
    simp only [Expr.eval, Expr.params, compsInRange, allBound_append, isSome_bind2, eval_isSome env a,
      eval_isSome env b, and4]
  | .pw a bs vs => by
    simp only [Expr.eval, Expr.params, compsInRange, allBound_append, isSome_bind3, eval_isSome env a,
      evalList_isSome env bs, evalList_isSome env vs, and6]
  | .lin a bs vs => by
    simp only [Expr.eval, Expr.params, compsInRange, allBound_append, isSome_bind3, eval_isSome env a,
      evalList_isSome env bs, evalList_isSome env vs, and6]
theorem evalList_isSome (env : Env α) : ∀ l : List (Expr α),
    (Expr.evalList env l).isSome =
      (allBound env.params (Expr.paramsList l) && compsInRangeList env.state.length l)
  | [] => by simp [Expr.evalList, Expr.paramsList, compsInRangeList, allBound]
  | e :: es => by
    simp only [Expr.evalList, Expr.paramsList, compsInRangeList, allBound_append, isSome_bind2,
      eval_isSome env e, evalList_isSome env es, and4]
end

/-! ### C10: dependence on time and state -/

/- without model variables the value is the same at every time and state -/
mutual
theorem static_eval (p : List (String × α)) (t t' : α) (x x' : List α) : ∀ e : Expr α,
    e.usesModelVars = false → e.eval ⟨p, t, x⟩ = e.eval ⟨p, t', x'⟩
  | .const _, _ => by simp [Expr.eval]
  | .param _, _ => by simp [Expr.eval]
  | .time, h => by simp [Expr.usesModelVars] at h
  | .comp _, h => by simp [Expr.usesModelVars] at h
  | .popSum, h => by simp [Expr.usesModelVars] at h
  | .add a b, h => by
    simp only [Expr.usesModelVars, Bool.or_eq_false_iff] at h
    simp only [Expr.eval, static_eval p t t' x x' a h.1, static_eval p t t' x x' b h.2]
  | .sub a b, h => by
    simp only [Expr.usesModelVars, Bool.or_eq_false_iff] at h
    simp only [Expr.eval, static_eval p t t' x x' a h.1, static_eval p t t' x x' b h.2]
  | .mul a b, h => by
    simp only [Expr.usesModelVars, Bool.or_eq_false_iff] at h
    simp only [Expr.eval, static_eval p t t' x x' a h.1, static_eval p t t' x x' b h.2]
  | .div a b, h => by
    simp only [Expr.usesModelVars, Bool.or_eq_false_iff] at h
    simp only [Expr.eval, static_eval p t t' x x' a h.1, static_eval p t t' x x' b h.2]
  | .pw a bs vs, h => by
    simp only [Expr.usesModelVars, Bool.or_eq_false_iff] at h
    simp only [Expr.eval, static_eval p t t' x x' a h.1.1, static_evalList p t t' x x' bs h.1.2,
      static_evalList p t t' x x' vs h.2]
  | .lin a bs vs, h => by
    simp only [Expr.usesModelVars, Bool.or_eq_false_iff] at h
    simp only [Expr.eval, static_eval p t t' x x' a h.1.1, static_evalList p t t' x x' bs h.1.2,
      static_evalList p t t' x x' vs h.2]
theorem static_evalList (p : List (String × α)) (t t' : α) (x x' : List α) : ∀ l : List (Expr α),
    Expr.usesModelVarsList l = false → Expr.evalList ⟨p, t, x⟩ l = Expr.evalList ⟨p, t', x'⟩ l
  | [], _ => by simp [Expr.evalList]
  | e :: es, h => by
    simp only [Expr.usesModelVarsList, Bool.or_eq_false_iff] at h
    simp only [Expr.evalList, static_eval p t t' x x' e h.1, static_evalList p t t' x x' es h.2]
end

/- without a `time` leaf the value does not depend on the time -/
mutual
theorem timeFree_eval (p : List (String × α)) (t t' : α) (x : List α) : ∀ e : Expr α,
    e.usesTime = false → e.eval ⟨p, t, x⟩ = e.eval ⟨p, t', x⟩
  | .const _, _ => by simp [Expr.eval]
  | .param _, _ => by simp [Expr.eval]
  | .time, h => by simp [Expr.usesTime] at h
  | .comp _, _ => by simp [Expr.eval]
  | .popSum, _ => by simp [Expr.eval]
  | .add a b, h => by
    simp only [Expr.usesTime, Bool.or_eq_false_iff] at h
    simp only [Expr.eval, timeFree_eval p t t' x a h.1, timeFree_eval p t t' x b h.2]
  | .sub a b, h => by
    simp only [Expr.usesTime, Bool.or_eq_false_iff] at h
    simp only [Expr.eval, timeFree_eval p t t' x a h.1, timeFree_eval p t t' x b h.2]
  | .mul a b, h => by
    simp only [Expr.usesTime, Bool.or_eq_false_iff] at h
    simp only [Expr.eval, timeFree_eval p t t' x a h.1, timeFree_eval p t t' x b h.2]
  | .div a b, h => by
    simp only [Expr.usesTime, Bool.or_eq_false_iff] at h
    simp only [Expr.eval, timeFree_eval p t t' x a h.1, timeFree_eval p t t' x b h.2]
  | .pw a bs vs, h => by
    simp only [Expr.usesTime, Bool.or_eq_false_iff] at h
    simp only [Expr.eval, timeFree_eval p t t' x a h.1.1, timeFree_evalList p t t' x bs h.1.2,
      timeFree_evalList p t t' x vs h.2]
  | .lin a bs vs, h => by
    simp only [Expr.usesTime, Bool.or_eq_false_iff] at h
    simp only [Expr.eval, timeFree_eval p t t' x a h.1.1, timeFree_evalList p t t' x bs h.1.2,
      timeFree_evalList p t t' x vs h.2]
theorem timeFree_evalList (p : List (String × α)) (t t' : α) (x : List α) : ∀ l : List (Expr α),
    Expr.usesTimeList l = false → Expr.evalList ⟨p, t, x⟩ l = Expr.evalList ⟨p, t', x⟩ l
  | [], _ => by simp [Expr.evalList]
  | e :: es, h => by
    simp only [Expr.usesTimeList, Bool.or_eq_false_iff] at h
    simp only [Expr.evalList, timeFree_eval p t t' x e h.1, timeFree_evalList p t t' x es h.2]
end

end expr
/-! ### C10: static / time-varying split of the flow weights -/
section flows
variable {α : Type} [Zero α] [Add α] [Sub α] [Mul α] [Div α] [LT α] [DecidableLT α]
open Run

/-- the static stage's entry for one flow -/
def staticEntry (p : List (String × α)) (f : Flow α) : Option α :=
  let r := realised f
  if r.usesModelVars then some 0 else evalStatic p r

/-- the per-evaluation stage's entry for one flow, given its static entry -/
def dynEntry (env : Env α) (fs : Flow α × α) : Option α :=
  let r := realised fs.1
  if r.usesModelVars then r.eval env else some fs.2

theorem staticFlowWeights_eq (m : Model α) (p : List (String × α)) :
    staticFlowWeights m p = m.flows.mapM (staticEntry p) := rfl

theorem flowWeights_eq (m : Model α) (env : Env α) (s : List α) :
    flowWeights m env s = (m.flows.zip s).mapM (dynEntry env) := rfl

theorem evalStatic_eq (p : List (String × α)) (t : α) (x : List α) (e : Expr α)
    (h : e.usesModelVars = false) : evalStatic p e = e.eval ⟨p, t, x⟩ :=
  static_eval p 0 t [] x e h

/-- an expression without model variables fails to evaluate iff one of its parameters is unbound -/
theorem static_eval_isSome (p : List (String × α)) (t : α) (x : List α) (e : Expr α)
    (h : e.usesModelVars = false) : (e.eval ⟨p, t, x⟩).isSome = allBound p e.params := by
  rw [eval_isSome, compsInRange_of_static _ e h, Bool.and_true]

theorem split_list (p : List (String × α)) (t : α) (x : List α) :
    ∀ (fl : List (Flow α)) (s : List α), fl.mapM (staticEntry p) = some s →
      (fl.zip s).mapM (dynEntry ⟨p, t, x⟩) = fl.mapM (fun f => (realised f).eval ⟨p, t, x⟩)
  | [], s, h => by
    simp only [List.mapM_nil, Option.pure_def, Option.some.injEq] at h
    subst h; simp
  | f :: fl, s, h => by
    simp only [List.mapM_cons] at h
    cases hf : staticEntry p f with
    | none => simp [hf] at h
    | some a =>
      cases hl : fl.mapM (staticEntry p) with
      | none => simp [hf, hl] at h
      | some s' =>
        simp [hf, hl] at h; subst h
        simp only [List.zip_cons_cons, List.mapM_cons, split_list p t x fl s' hl]
        have hd : dynEntry ⟨p, t, x⟩ (f, a) = (realised f).eval ⟨p, t, x⟩ := by
          unfold dynEntry
          unfold staticEntry at hf
          by_cases hu : (realised f).usesModelVars = true
          · simp [hu]
          · have hu' : (realised f).usesModelVars = false := by simpa using hu
            simp only [hu', Bool.false_eq_true, if_false] at hf ⊢
            rw [← hf, evalStatic_eq p t x _ hu']
        rw [hd]

theorem static_none_iff (p : List (String × α)) (fl : List (Flow α)) :
    fl.mapM (staticEntry p) = none ↔
      ∃ f ∈ fl, (realised f).usesModelVars = false ∧ allBound p (realised f).params = false := by
  rw [mapM_eq_none_iff]
  constructor
  · rintro ⟨f, hf, hn⟩
    refine ⟨f, hf, ?_⟩
    unfold staticEntry at hn
    by_cases hu : (realised f).usesModelVars = true
    · simp [hu] at hn
    · have hu' : (realised f).usesModelVars = false := by simpa using hu
      simp only [hu', Bool.false_eq_true, if_false] at hn
      refine ⟨hu', ?_⟩
      have := static_eval_isSome p 0 [] _ hu'
      unfold evalStatic at hn
      rw [hn] at this
      simpa using this.symm
  · rintro ⟨f, hf, hu, hb⟩
    refine ⟨f, hf, ?_⟩
    unfold staticEntry
    simp only [hu, Bool.false_eq_true, if_false]
    have := static_eval_isSome p 0 [] _ hu
    rw [hb] at this
    unfold evalStatic
    cases h : (realised f).eval ⟨p, 0, []⟩ with
    | none => rfl
    | some v => rw [h] at this; cases this

end flows

/-! ### C14: evaluation of the derived-output request graph -/
section graph
variable {α : Type} [Zero α] [One α] [Add α] [Sub α] [Mul α] [Div α] [LT α] [DecidableLT α]
open Derived

/-- one step of `evalAll` -/
def stepReq (m : Model α) (d : RunData α) (done : List (String × List α)) (r : ReqEntry α) :
    Option (List (String × List α)) := do
  let v ← evalRequest m d done r.req
  pure (done ++ [(r.name, v)])

/-- `evalAll` started from already computed results -/
def evalFrom (m : Model α) (d : RunData α) (done : List (String × List α)) (reqs : List (ReqEntry α)) :
    Option (List (String × List α)) := reqs.foldlM (stepReq m d) done

theorem evalAll_eq (m : Model α) (d : RunData α) (reqs : List (ReqEntry α)) :
    evalAll m d reqs = evalFrom m d [] reqs := rfl

theorem evalFrom_nil (m : Model α) (d : RunData α) (done : List (String × List α)) :
    evalFrom m d done [] = some done := rfl

theorem evalFrom_cons (m : Model α) (d : RunData α) (done : List (String × List α)) (r : ReqEntry α)
    (rs : List (ReqEntry α)) :
    evalFrom m d done (r :: rs) =
      (evalRequest m d done r.req).bind (fun v => evalFrom m d (done ++ [(r.name, v)]) rs) := by
  unfold evalFrom
  rw [List.foldlM_cons]
  unfold stepReq
  cases evalRequest m d done r.req <;> rfl

/-- a request reads the earlier results only at its direct dependencies -/
theorem evalRequest_congr (m : Model α) (d : RunData α) (done₁ done₂ : List (String × List α)) :
    ∀ r : Request α, (∀ k ∈ deps r, alookup done₁ k = alookup done₂ k) →
      evalRequest m d done₁ r = evalRequest m d done₂ r
  | .flow .., _ => rfl
  | .comp .., _ => rfl
  | .agg sources, h => by
    simp only [deps] at h
    simp only [evalRequest, mapM_congr (f := alookup done₁) (g := alookup done₂) h]
  | .cum source start, h => by
    simp only [deps, List.mem_singleton, forall_eq] at h
    simp only [evalRequest, h]
  | .func e sources, h => by
    simp only [deps] at h
    simp only [evalRequest, mapM_congr (f := alookup done₁) (g := alookup done₂) h]
  | .cv _, _ => rfl

/-- the result of a successful evaluation extends `done` by one entry per request, in order -/
theorem evalFrom_keys (m : Model α) (d : RunData α) :
    ∀ (reqs : List (ReqEntry α)) (done out : List (String × List α)), evalFrom m d done reqs = some out →
      ∃ extra, out = done ++ extra ∧ extra.map Prod.fst = reqs.map (·.name)
  | [], done, out, h => by
    rw [evalFrom_nil] at h; injection h with h; subst h; exact ⟨[], by simp, rfl⟩
  | r :: rs, done, out, h => by
    rw [evalFrom_cons] at h
    cases hv : evalRequest m d done r.req with
    | none => simp [hv] at h
    | some v =>
      simp only [hv, Option.bind_some] at h
      obtain ⟨extra, he, hk⟩ := evalFrom_keys m d rs _ _ h
      exact ⟨(r.name, v) :: extra, by simp [he], by simp [hk]⟩

theorem evalAll_keys (m : Model α) (d : RunData α) (reqs : List (ReqEntry α)) (out : List (String × List α))
    (h : evalAll m d reqs = some out) : out.map Prod.fst = reqs.map (·.name) := by
  obtain ⟨extra, he, hk⟩ := evalFrom_keys m d reqs [] out h
  simp [he, hk]

/-! #### pruning with a dependency-closed predicate -/

/-- Simulation: run the full list from `done₁` and the `keep`-filtered list from `done₂`; if the two
starting points agree on every kept key and `keep` is dependency-closed, then success of the full
run implies success of the pruned run, with the same value at every kept key. -/
theorem filter_sim (m : Model α) (d : RunData α) (keep : String → Bool) :
    ∀ (reqs : List (ReqEntry α)), DepClosed keep reqs → ∀ (done₁ done₂ out₁ : List (String × List α)),
      (∀ k, keep k = true → alookup done₁ k = alookup done₂ k) →
      evalFrom m d done₁ reqs = some out₁ →
      ∃ out₂, evalFrom m d done₂ (reqs.filter (fun r => keep r.name)) = some out₂ ∧
        ∀ k, keep k = true → alookup out₁ k = alookup out₂ k
  | [], _, done₁, done₂, out₁, hag, h => by
    rw [evalFrom_nil] at h; injection h with h; subst h
    exact ⟨done₂, rfl, hag⟩
  | r :: rs, hc, done₁, done₂, out₁, hag, h => by
    have hc' : DepClosed keep rs := fun r' hr' => hc r' (List.mem_cons_of_mem _ hr')
    rw [evalFrom_cons] at h
    cases hv : evalRequest m d done₁ r.req with
    | none => simp [hv] at h
    | some v =>
      simp only [hv, Option.bind_some] at h
      by_cases hk : keep r.name = true
      · have hv₂ : evalRequest m d done₂ r.req = some v := by
          rw [← hv]; symm
          exact evalRequest_congr m d done₁ done₂ r.req
            (fun k hkd => hag k (hc r List.mem_cons_self hk k hkd))
        rw [List.filter_cons_of_pos (by simpa using hk), evalFrom_cons, hv₂, Option.bind_some]
        apply filter_sim m d keep rs hc' _ _ out₁ _ h
        intro k hkk
        rw [alookup_append, alookup_append, hag k hkk]
      · rw [List.filter_cons_of_neg (by simpa using hk)]
        apply filter_sim m d keep rs hc' _ _ out₁ _ h
        intro k hkk
        have hne : r.name ≠ k := by intro e; rw [e] at hk; exact hk hkk
        rw [alookup_append, alookup_cons, if_neg hne, alookup_nil, Option.or_none]
        exact hag k hkk

end graph

/-! #### `neededSet` -/
section needed
variable {α : Type}
open Derived

theorem neededSet_nil (W : List String) : neededSet ([] : List (ReqEntry α)) W = W := rfl

theorem neededSet_cons (r : ReqEntry α) (rs : List (ReqEntry α)) (W : List String) :
    neededSet (r :: rs) W =
      if (neededSet rs W).contains r.name then neededSet rs W ++ deps r.req else neededSet rs W := by
  unfold neededSet
  rw [List.reverse_cons, List.foldl_append]
  rfl

theorem subset_neededSet : ∀ (reqs : List (ReqEntry α)) (W : List String) (k : String),
    k ∈ W → k ∈ neededSet reqs W
  | [], _, _, h => h
  | r :: rs, W, k, h => by
    rw [neededSet_cons]
    have := subset_neededSet rs W k h
    split
    · exact List.mem_append_left _ this
    · exact this

theorem neededSet_mono_cons (r : ReqEntry α) (rs : List (ReqEntry α)) (W : List String) (k : String)
    (h : k ∈ neededSet rs W) : k ∈ neededSet (r :: rs) W := by
  rw [neededSet_cons]; split
  · exact List.mem_append_left _ h
  · exact h

/-- names declared by a well-ordered list are new -/
theorem wellOrderedFrom_fresh : ∀ (reqs : List (ReqEntry α)) (seen : List String),
    wellOrderedFrom seen reqs = true → ∀ r ∈ reqs, r.name ∉ seen
  | [], _, _, _, h => by simp at h
  | r :: rs, seen, hw, r', hr' => by
    simp only [wellOrderedFrom, Bool.and_eq_true, Bool.not_eq_true', List.all_eq_true] at hw
    rcases List.mem_cons.1 hr' with e | hm
    · subst e; simpa using hw.1.2
    · intro hs
      exact wellOrderedFrom_fresh rs _ hw.2 r' hm (List.mem_append_left _ hs)

theorem wellOrderedFrom_nodup : ∀ (reqs : List (ReqEntry α)) (seen : List String),
    wellOrderedFrom seen reqs = true → (reqs.map (·.name)).Nodup
  | [], _, _ => by simp
  | r :: rs, seen, hw => by
    have hw' := hw
    simp only [wellOrderedFrom, Bool.and_eq_true] at hw
    rw [List.map_cons, List.nodup_cons]
    refine ⟨?_, wellOrderedFrom_nodup rs _ hw.2⟩
    intro hm
    obtain ⟨r', hr', e⟩ := List.mem_map.1 hm
    exact wellOrderedFrom_fresh rs _ hw.2 r' hr' (by simp [e])

/-- on a well-ordered request list, the backwards pass computes a dependency-closed set -/
theorem neededSet_closed_from (W : List String) : ∀ (reqs : List (ReqEntry α)) (seen : List String),
    wellOrderedFrom seen reqs = true →
      DepClosed (fun k => (neededSet reqs W).contains k) reqs
  | [], _, _ => by intro r hr; simp at hr
  | r :: rs, seen, hw => by
    have ih := neededSet_closed_from W rs _ (by
      simp only [wellOrderedFrom, Bool.and_eq_true] at hw; exact hw.2)
    have hfresh := wellOrderedFrom_fresh rs (seen ++ [r.name]) (by
      simp only [wellOrderedFrom, Bool.and_eq_true] at hw; exact hw.2)
    have hdeps : ∀ k ∈ deps r.req, k ∈ seen := by
      simp only [wellOrderedFrom, Bool.and_eq_true, List.all_eq_true] at hw
      intro k hk; simpa using hw.1.1 k hk
    intro r' hr' hkeep k hk
    simp only [List.contains_iff_mem] at hkeep ⊢
    rcases List.mem_cons.1 hr' with e | hm
    · subst e
      rw [neededSet_cons] at hkeep ⊢
      by_cases hc : (neededSet rs W).contains r'.name = true
      · rw [if_pos hc]; exact List.mem_append_right _ hk
      · rw [if_neg hc] at hkeep
        exact absurd (by simpa using hkeep) hc
    · have hin : r'.name ∈ neededSet rs W := by
        rw [neededSet_cons] at hkeep
        split at hkeep
        · rcases List.mem_append.1 hkeep with h | h
          · exact h
          · exact absurd (List.mem_append_left _ (hdeps _ h)) (hfresh r' hm)
        · exact hkeep
      have := ih r' hm (by simpa using hin) k hk
      exact neededSet_mono_cons r rs W k (by simpa using this)

end needed

/-! #### fixpoint characterisation (for order independence) -/
section graph
variable {α : Type} [Zero α] [One α] [Add α] [Sub α] [Mul α] [Div α] [LT α] [DecidableLT α]
open Derived

/-- In a successful evaluation of a well-ordered list every request's stored value is the request's
definition applied to the final results. -/
theorem evalFrom_fixpoint (m : Model α) (d : RunData α) :
    ∀ (reqs : List (ReqEntry α)) (done out : List (String × List α)),
      wellOrderedFrom (done.map Prod.fst) reqs = true → evalFrom m d done reqs = some out →
      ∀ r ∈ reqs, alookup out r.name = evalRequest m d out r.req ∧ (alookup out r.name).isSome = true
  | [], _, _, _, _, r, hr => by simp at hr
  | r :: rs, done, out, hw, h, r', hr' => by
    have hw' := hw
    simp only [wellOrderedFrom, Bool.and_eq_true, Bool.not_eq_true', List.all_eq_true] at hw
    rw [evalFrom_cons] at h
    cases hv : evalRequest m d done r.req with
    | none => simp [hv] at h
    | some v =>
      simp only [hv, Option.bind_some] at h
      have hw2 : wellOrderedFrom ((done ++ [(r.name, v)]).map Prod.fst) rs = true := by
        simpa using hw.2
      rcases List.mem_cons.1 hr' with e | hm
      · subst e
        obtain ⟨extra, he, _⟩ := evalFrom_keys m d rs _ _ h
        have hnone : alookup done r'.name = none := by
          rw [alookup_eq_none_iff]; simpa using hw.1.2
        have hval : alookup out r'.name = some v := by
          rw [he, alookup_append, alookup_append, hnone, alookup_cons]; simp
        refine ⟨?_, by simp [hval]⟩
        rw [hval, ← hv]
        apply evalRequest_congr
        intro k hk
        have hks : (alookup done k).isSome = true := by
          rw [alookup_isSome_iff]; simpa using hw.1.1 k hk
        rw [he, alookup_append, alookup_append]
        cases hd : alookup done k with
        | none => simp [hd] at hks
        | some _ => simp
      · exact evalFrom_fixpoint m d rs _ out hw2 h r' hm

/-- Conversely, any table `out₂` in which every request of a well-ordered list has a value equal to
its definition determines the evaluation of that list. -/
theorem evalFrom_unique (m : Model α) (d : RunData α) (out₂ : List (String × List α)) :
    ∀ (reqs : List (ReqEntry α)) (done : List (String × List α)),
      wellOrderedFrom (done.map Prod.fst) reqs = true →
      (∀ r ∈ reqs, alookup out₂ r.name = evalRequest m d out₂ r.req ∧ (alookup out₂ r.name).isSome = true) →
      (∀ k ∈ done.map Prod.fst, alookup done k = alookup out₂ k) →
      ∃ out₁, evalFrom m d done reqs = some out₁ ∧
        (∀ k ∈ out₁.map Prod.fst, alookup out₁ k = alookup out₂ k)
  | [], done, _, _, hag => ⟨done, rfl, hag⟩
  | r :: rs, done, hw, hfix, hag => by
    simp only [wellOrderedFrom, Bool.and_eq_true, Bool.not_eq_true', List.all_eq_true] at hw
    obtain ⟨hr1, hr2⟩ := hfix r List.mem_cons_self
    have hev : evalRequest m d done r.req = alookup out₂ r.name := by
      rw [hr1]
      apply evalRequest_congr
      intro k hk
      exact hag k (by simpa using hw.1.1 k hk)
    cases hv : alookup out₂ r.name with
    | none => simp [hv] at hr2
    | some v =>
      rw [evalFrom_cons, hev, hv, Option.bind_some]
      apply evalFrom_unique m d out₂ rs _ (by simpa using hw.2)
        (fun r' hr' => hfix r' (List.mem_cons_of_mem _ hr'))
      intro k hk
      rw [alookup_append]
      simp only [List.map_append, List.map_cons, List.map_nil, List.mem_append, List.mem_singleton] at hk
      by_cases hd : k ∈ done.map Prod.fst
      · have := hag k hd
        have hs : (alookup done k).isSome = true := (alookup_isSome_iff _ _).2 hd
        cases hdk : alookup done k with
        | none => simp [hdk] at hs
        | some w => rw [← this, hdk]; rfl
      · have hk' : k = r.name := by
          rcases hk with h | h
          · exact absurd h hd
          · exact h
        subst hk'
        rw [(alookup_eq_none_iff _ _).2 hd, alookup_cons]; simp [hv]

end graph

/-! ### example data for the non-vacuity `example`s of `Props/C14.lean` -/
namespace Ex
open Derived

/-- one flow, two compartments, three times -/
def exModel (reqs : List (ReqEntry Rat)) (W : List String) : Model Rat := {
  t0 := 0, t1 := 2, dt := 1, nTimes := 3, comps := [⟨"S", []⟩, ⟨"I", []⟩], origNames := ["S", "I"],
  infectious := ["I"], flows := [⟨.transition, "inf", some ⟨"S", []⟩, some ⟨"I", []⟩, .param "b", []⟩],
  strats := [], mixingCats := [[]], mixingMats := [], strains := [], initDist := none, arrayPop := none,
  actions := [], requests := reqs, computed := [], whitelist := W, finalized := true }

def exData : RunData Rat :=
  { times := [0, 1, 2], outputs := [[10, 1], [8, 3], [5, 6]], flows := [[2], [3], [4]],
    computed := [("cvx", [7, 8, 9])], params := [("k", 2)] }

/-- incidence (unsaved), prevalence, a cumulative, an aggregate (unsaved), a function of two outputs
and a parameter, and a request nobody else needs -/
def exReqs : List (ReqEntry Rat) :=
  [⟨"inc", .flow "inf" [] [] true, false⟩, ⟨"prev", .comp ["I"] [], true⟩,
   ⟨"cuminc", .cum "inc" none, true⟩, ⟨"tot", .agg ["inc", "prev"], false⟩,
   ⟨"f", .func (.mul (.param "k") (.add (.comp 0) (.comp 1))) ["cuminc", "tot"], true⟩,
   ⟨"other", .cv "cvx", true⟩]

/-- as `exReqs`, plus a request that FAILS (`cv "missing"`) -/
def exReqsBad : List (ReqEntry Rat) := exReqs ++ [⟨"bad", .cv "missing", true⟩]

/-- a request list that re-declares the name `"a"` (not `WellOrdered`) -/
def exReqsDup : List (ReqEntry Rat) :=
  [⟨"z", .cv "cvx", true⟩, ⟨"a", .cv "cvx", true⟩, ⟨"c", .agg ["a"], true⟩, ⟨"a", .agg ["z"], true⟩]

/-- another dependency-consistent order of the same requests -/
def exReqs' : List (ReqEntry Rat) :=
  [⟨"other", .cv "cvx", true⟩, ⟨"prev", .comp ["I"] [], true⟩, ⟨"inc", .flow "inf" [] [] true, false⟩,
   ⟨"tot", .agg ["inc", "prev"], false⟩, ⟨"cuminc", .cum "inc" none, true⟩,
   ⟨"f", .func (.mul (.param "k") (.add (.comp 0) (.comp 1))) ["cuminc", "tot"], true⟩]

end Ex

end ExprProps
end Summer
