import Summer.Spec.IllFormed
/-
Helper lemmas for C17 (`Summer/Props/C17.lean`).

For every public call of `Summer/Model/Build.lean` an *inversion* lemma: if the call succeeds then
every validation it performs holds, expressed in the vocabulary of `Summer/Spec/IllFormed.lean`
(for the simple calls this is an `iff`).  The rejection theorems are contrapositives.  No Mathlib.
-/
namespace Summer.Proofs.IllFormed
open Summer Summer.Build Summer.Spec Summer.Generated

section basics
variable {β γ : Type}

@[simp] theorem isOk_ok (b : β) : (Except.ok b : Res β).isOk = true := rfl
@[simp] theorem isOk_error (e : Err) : (Except.error e : Res β).isOk = false := rfl
@[simp] theorem isOk_pure (b : β) : (pure b : Res β).isOk = true := rfl
@[simp] theorem isOk_fail (msg : String) : (fail msg : Res β).isOk = false := rfl

theorem isOk_iff {x : Res β} : x.isOk = true ↔ ∃ b, x = .ok b := by
  cases x <;> simp

theorem isOk_bind {x : Res β} {f : β → Res γ} :
    (x >>= f).isOk = true ↔ ∃ b, x = .ok b ∧ (f b).isOk = true := by
  cases x with
  | error e => simp [bind, Except.bind]
  | ok b => simp [bind, Except.bind]

theorem bind_eq_ok {x : Res β} {f : β → Res γ} {c : γ} :
    (x >>= f) = .ok c ↔ ∃ b, x = .ok b ∧ f b = .ok c := by
  cases x with
  | error e => simp [bind, Except.bind]
  | ok b => simp [bind, Except.bind]

theorem isOk_guardE {c : Bool} {msg : String} : (guardE c msg).isOk = true ↔ c = true := by
  cases c <;> simp [guardE]

theorem guardE_eq_ok {c : Bool} {msg : String} {u : Unit} : guardE c msg = .ok u ↔ c = true := by
  cases c <;> simp [guardE, fail, pure, Except.pure]

theorem isOk_guardE_bind {c : Bool} {msg : String} {f : Unit → Res γ} :
    (guardE c msg >>= f).isOk = true ↔ c = true ∧ (f ()).isOk = true := by
  cases c <;> simp [guardE, fail, bind, Except.bind, pure, Except.pure]

@[simp] theorem isOk_map {x : Res β} {f : β → γ} : (f <$> x).isOk = x.isOk := by
  cases x <;> rfl

theorem isOk_false_of {x : Res β} (h : x.isOk = true → False) : x.isOk = false := by
  cases hx : x.isOk
  · rfl
  · exact (h hx).elim

end basics


instance : LawfulBEq FlowKind where
  eq_of_beq {a b} h := by cases a <;> cases b <;> first | rfl | exact absurd h (by decide)
  rfl {a} := by cases a <;> decide

instance : LawfulBEq StratKind where
  eq_of_beq {a b} h := by cases a <;> cases b <;> first | rfl | exact absurd h (by decide)
  rfl {a} := by cases a <;> decide

/-! ### bridges between the spec vocabulary and the model's Boolean tests -/
section bridges
variable {α : Type}

theorem strataContains_iff (strata flt : Strata) :
    strataContains strata flt = true ↔ ∀ kv ∈ flt, kv ∈ strata := by
  simp [strataContains, List.all_eq_true]

theorem isMatch_iff (c : Comp) (name : String) (flt : Strata) :
    c.isMatch name flt = true ↔ CompMatches c name flt := by
  simp [Comp.isMatch, Comp.hasStrata, strataContains_iff, CompMatches]

theorem decide_compMatches (c : Comp) (name : String) (flt : Strata) :
    decide (CompMatches c name flt) = c.isMatch name flt := by
  rw [Bool.eq_iff_iff, decide_eq_true_iff, isMatch_iff]

theorem nMatching_eq (m : Model α) (name : String) (flt : Strata) :
    nMatching m name flt = (m.comps.filter (fun c => c.isMatch name flt)).length := by
  simp [nMatching, List.countP_eq_length_filter, decide_compMatches]

theorem decide_queryMatches (c : Comp) (name : String) (flt : Strata) :
    decide (QueryMatches c name flt)
      = (c.name == name && flt.all (fun kv => alookup c.strata kv.1 == some kv.2)) := by
  rw [Bool.eq_iff_iff, decide_eq_true_iff]
  simp [QueryMatches, List.all_eq_true]

theorem nQueryMatching_eq (m : Model α) (name : String) (flt : Strata) :
    nQueryMatching m name flt = (getMatching m name flt).length := by
  simp only [nQueryMatching, getMatching, List.countP_eq_length_filter, List.filter_filter,
    decide_queryMatches]
  congr 1
  apply List.filter_congr
  intro c _
  rw [Bool.and_comm]

end bridges

/-! ### flow-adding calls -/
section flows
variable {α : Type}

theorem checkExpected_isOk {ex : Option Nat} {n : Nat} :
    (checkExpected ex n).isOk = true ↔ ∀ e, ex = some e → e = n := by
  cases ex <;> simp [checkExpected, isOk_guardE]

theorem checkExpected_bind_isOk {γ : Type} {ex : Option Nat} {n : Nat} {f : Unit → Res γ} :
    (checkExpected ex n >>= f).isOk = true ↔ (∀ e, ex = some e → e = n) ∧ (f ()).isOk = true := by
  cases ex with
  | none => simp [checkExpected, bind, Except.bind, pure, Except.pure]
  | some e => simp [checkExpected, isOk_guardE_bind]

theorem addEntry_isOk {m : Model α} {kind name} {p : Expr α} {dest ds ex adjs} :
    (addEntry m kind name p dest ds ex adjs).isOk = true ↔
      m.finalized = false ∧ ∀ e, ex = some e → e = nMatching m dest ds := by
  simp [addEntry, isOk_guardE_bind, checkExpected_isOk, nMatching_eq]

theorem addExit_isOk {m : Model α} {kind name} {p : Expr α} {src ss ex} :
    (addExit m kind name p src ss ex).isOk = true ↔
      m.finalized = false ∧ ∀ e, ex = some e → e = nMatching m src ss := by
  simp [addExit, isOk_guardE_bind, checkExpected_isOk, nMatching_eq]

theorem addTransitionCore_isOk {m : Model α} {kind name} {p : Expr α} {src dst ss ds ex} :
    (addTransitionCore m kind name p src dst ss ds ex).isOk = true ↔
      m.finalized = false ∧ dst ∈ m.origNames ∧ src ∈ m.origNames ∧
      nQueryMatching m dst ds = nQueryMatching m src ss ∧
      ∀ e, ex = some e → e = min (nQueryMatching m src ss) (nQueryMatching m dst ds) := by
  simp [addTransitionCore, isOk_guardE_bind, checkExpected_isOk, nQueryMatching_eq]

theorem hasBirthFlow_iff {m : Model α} : hasBirthFlow m = true ↔ ∃ f ∈ m.flows, IsBirthFlow f := by
  simp [hasBirthFlow, List.any_eq_true, isBirth, birthKinds, IsBirthFlow]

theorem addExit_ok_finalized {m m' : Model α} {kind name} {p : Expr α} {src ss ex}
    (h : addExit m kind name p src ss ex = .ok m') : m'.finalized = m.finalized := by
  unfold addExit at h
  simp only [bind_eq_ok, guardE_eq_ok] at h
  obtain ⟨_, hf, _, _, h⟩ := h
  cases h
  simp

theorem universalDeath_fold_isOk {name : String} {p : Expr α} :
    ∀ (l : List String) (m : Model α),
      (l.foldlM (fun acc c => addExit acc .death name p c [] none) m).isOk = true ↔
        (l = [] ∨ m.finalized = false)
  | [], m => by simp
  | c :: l, m => by
    rw [List.foldlM_cons, isOk_bind]
    constructor
    · rintro ⟨m', h1, _⟩
      have := (addExit_isOk (m := m) (kind := .death) (name := name) (p := p) (src := c)
        (ss := []) (ex := none)).mp (by rw [h1]; rfl)
      exact Or.inr this.1
    · intro h
      have hf : m.finalized = false := by simpa using h
      have hok := (addExit_isOk (m := m) (kind := .death) (name := name) (p := p) (src := c)
        (ss := []) (ex := none)).mpr ⟨hf, by simp⟩
      obtain ⟨m', hm'⟩ := isOk_iff.mp hok
      refine ⟨m', hm', ?_⟩
      rw [universalDeath_fold_isOk l m']
      exact Or.inr (by rw [addExit_ok_finalized hm', hf])

end flows


section flows2
variable {α : Type} [One α] [Div α] [NatCast α]

theorem addFlow_crudeBirth_isOk {m : Model α} {name ok} {p : Expr α} {dest ds ex} :
    (addFlow m (.crudeBirth name ok p dest ds ex)).isOk = true ↔
      ok = true ∧ (¬ ∃ f ∈ m.flows, IsBirthFlow f) ∧ m.finalized = false ∧
      ∀ e, ex = some e → e = nMatching m dest ds := by
  simp only [addFlow, isOk_guardE_bind, addEntry_isOk, ← hasBirthFlow_iff]
  simp

theorem addFlow_replBirth_isOk {m : Model α} {name dest ds ex} :
    (addFlow m (.replBirth name dest ds ex)).isOk = true ↔
      (¬ ∃ f ∈ m.flows, IsBirthFlow f) ∧ m.finalized = false ∧
      ∀ e, ex = some e → e = nMatching m dest ds := by
  simp only [addFlow, isOk_guardE_bind, addEntry_isOk, ← hasBirthFlow_iff]
  simp

theorem addFlow_importF_isOk {m : Model α} {name ok} {p : Expr α} {dest split ds ex} :
    (addFlow m (.importF name ok p dest split ds ex)).isOk = true ↔
      ok = true ∧ (split = true → nMatching m dest ds ≠ 0) ∧ m.finalized = false ∧
      ∀ e, ex = some e → e = nMatching m dest ds := by
  simp only [addFlow, isOk_guardE_bind]
  cases split <;> simp [isOk_guardE_bind, addEntry_isOk, nMatching_eq]

theorem addFlow_death_isOk {m : Model α} {name ok} {p : Expr α} {src ss ex} :
    (addFlow m (.death name ok p src ss ex)).isOk = true ↔
      ok = true ∧ m.finalized = false ∧ ∀ e, ex = some e → e = nMatching m src ss := by
  simp only [addFlow, isOk_guardE_bind, addExit_isOk]

theorem addFlow_transition_isOk {m : Model α} {kind name ok} {p : Expr α} {src dst ss ds ex} :
    (addFlow m (.transition kind name ok p src dst ss ds ex)).isOk = true ↔
      ok = true ∧ kind ∈ transitionKinds ∧
      m.finalized = false ∧ dst ∈ m.origNames ∧ src ∈ m.origNames ∧
      nQueryMatching m dst ds = nQueryMatching m src ss ∧
      ∀ e, ex = some e → e = min (nQueryMatching m src ss) (nQueryMatching m dst ds) := by
  simp only [addFlow, isOk_guardE_bind, addTransitionCore_isOk]
  simp

theorem addFlow_universalDeath_isOk {m : Model α} {name ok} {p : Expr α} :
    (addFlow m (.universalDeath name ok p)).isOk = true ↔
      ok = true ∧ (¬ ∃ f ∈ m.flows, f.name = name) ∧ (m.origNames = [] ∨ m.finalized = false) := by
  simp only [addFlow, isOk_guardE_bind, universalDeath_fold_isOk]
  simp

end flows2


/-! ### population and requests -/
section popreq
variable {α : Type}

theorem hasRequest_iff {m : Model α} {n : String} : hasRequest m n = true ↔ Requested m n := by
  simp [hasRequest, Requested]

theorem hasRequest_eq_false_iff {m : Model α} {n : String} :
    hasRequest m n = false ↔ ¬ Requested m n := by
  rw [← hasRequest_iff]; simp

theorem flowIsMatch_iff (f : Flow α) (name : String) (ss ds : Strata) :
    flowIsMatch f name ss ds = true ↔ FlowMatches f name ss ds := by
  rcases f with ⟨k, n, src, dst, p, adjs⟩
  cases src <;> cases dst <;> cases ss <;> cases ds <;>
    simp [flowIsMatch, FlowMatches, EndHasStrata, Comp.hasStrata, strataContains_iff, and_assoc]

theorem setInitialPopulation_isOk [Zero α] {m : Model α} {isDict dist} :
    (setInitialPopulation m isDict dist).isOk = true ↔
      m.finalized = false ∧ m.strats = [] ∧ isDict = true ∧ ∀ kv ∈ dist, kv.1 ∈ m.origNames := by
  simp [setInitialPopulation, isOk_guardE_bind, isOk_guardE]

theorem initPopArray_isOk {m : Model α} {arr} :
    (initPopArray m arr).isOk = true ↔ m.finalized = false := by
  simp [initPopArray, isOk_guardE]

theorem adjustPopulationSplit_isOk_finalized [Zero α] [One α] [Add α] [Sub α] [Div α] [NatCast α]
    [LT α] [DecidableLT α] {m : Model α} {den r}
    (h : (adjustPopulationSplit m den r).isOk = true) : m.finalized = false := by
  unfold adjustPopulationSplit at h
  rw [isOk_guardE_bind] at h
  simpa using h.1

theorem addRequest_isOk {m : Model α} {e : ReqEntry α} :
    (addRequest m e).isOk = true ↔
      m.finalized = false ∧ (¬ Requested m e.name) ∧ (¬ SourceMissing m e.req) ∧
      ∀ names strata, e.req = .comp names strata → ∃ c ∈ m.comps, ∃ n ∈ names, CompMatches c n strata := by
  unfold addRequest
  rw [isOk_guardE_bind, isOk_guardE_bind]
  rcases e with ⟨name, req, save⟩
  cases req <;>
    simp [SourceMissing, isOk_guardE, hasRequest_iff, hasRequest_eq_false_iff, flowIsMatch_iff, isMatch_iff]

end popreq


/-! ### loops -/
section loops
variable {β γ σ : Type}

theorem forIn_ok_forall {f : β → PUnit → Res (ForInStep PUnit)} {P : β → Prop}
    (hstep : ∀ d r, f d PUnit.unit = .ok r → r = .yield PUnit.unit ∧ P d) :
    ∀ (l : List β) {r}, forIn l PUnit.unit f = .ok r → ∀ d ∈ l, P d
  | [], _, _ => by simp
  | a :: l, r, h => by
    rw [List.forIn_cons, bind_eq_ok] at h
    obtain ⟨step, h1, h2⟩ := h
    obtain ⟨rfl, hp⟩ := hstep a step h1
    intro d hd
    rcases List.mem_cons.mp hd with rfl | hd
    · exact hp
    · exact forIn_ok_forall hstep l h2 d hd

theorem foldlM_isOk_forall {f : σ → β → Res σ} {P : β → Prop}
    (hstep : ∀ s x, (f s x).isOk = true → P x) :
    ∀ (l : List β) (init : σ), (l.foldlM f init).isOk = true → ∀ x ∈ l, P x
  | [], _, _ => by simp
  | a :: l, init, h => by
    rw [List.foldlM_cons, isOk_bind] at h
    obtain ⟨s', h1, h2⟩ := h
    intro x hx
    rcases List.mem_cons.mp hx with rfl | hx
    · exact hstep init _ (by rw [h1]; rfl)
    · exact foldlM_isOk_forall hstep l s' h2 x hx

theorem mapM_ok_map {g : β → Res γ} {h : β → Option γ} (hg : ∀ b c, g b = .ok c → h b = some c) :
    ∀ (l : List β) (cs : List γ), l.mapM g = .ok cs → l.map h = cs.map some
  | [], cs, hl => by
    simp [pure, Except.pure] at hl; subst hl; rfl
  | a :: l, cs, hl => by
    rw [List.mapM_cons, bind_eq_ok] at hl
    obtain ⟨c, h1, hl⟩ := hl
    rw [bind_eq_ok] at hl
    obtain ⟨cs', h2, hl⟩ := hl
    simp [pure, Except.pure] at hl; subst hl
    simp [hg a c h1, mapM_ok_map hg l cs' h2]

theorem mem_insertSorted {x a : Int} : ∀ {l : List Int}, x ∈ insertSorted a l ↔ x = a ∨ x ∈ l
  | [] => by simp [insertSorted]
  | y :: ys => by
    unfold insertSorted
    split
    · simp
    · simp only [List.mem_cons, mem_insertSorted (l := ys)]; exact or_left_comm

theorem mem_sortInts {x : Int} : ∀ {l : List Int}, x ∈ sortInts l ↔ x ∈ l
  | [] => by simp [sortInts]
  | a :: l => by
    have ih := mem_sortInts (x := x) (l := l)
    simp only [sortInts, List.foldr_cons] at ih ⊢
    rw [mem_insertSorted, ih]; simp

theorem sameSet_right {a b : List String} (h : sameSet a b = true) : ∀ x ∈ b, x ∈ a := by
  simp [sameSet] at h; exact h.2

theorem literalSplit_lits {α : Type} : ∀ (props : List (String × Expr α)) (vals : List α),
    LiteralSplit props vals → props.filterMap (fun kv => Expr.isConst kv.2) = vals
  | [], vals, h => by
    cases vals <;> simp_all [LiteralSplit]
  | kv :: props, vals, h => by
    cases vals with
    | nil => simp [LiteralSplit] at h
    | cons v vals =>
      simp only [LiteralSplit, List.map_cons, List.cons.injEq] at h
      have ih := literalSplit_lits props vals h.2
      have h1 : Expr.isConst kv.2 = some v := by rw [h.1]; rfl
      rw [List.filterMap_cons, h1, ih]

theorem literalSplit_length {α : Type} {props : List (String × Expr α)} {vals : List α}
    (h : LiteralSplit props vals) : vals.length = props.length := by
  have := congrArg List.length h
  simpa using this.symm

end loops

/-! ### `mkStrat` -/
section mkstrat
variable {α : Type} [Zero α] [One α] [Add α] [Sub α] [Div α] [NatCast α] [LT α] [DecidableLT α]

/-- what a successful `mkStrat` guarantees, in the vocabulary of the specification -/
structure MkStratOk (sp : StratSpec α) : Prop where
  flowAdj : ∀ d ∈ sp.flowAdj, ¬ Omits (stratumNames sp.kind sp.strata) (d.adjs.map (·.1))
  infAdj : ∀ ia ∈ sp.infAdj, ¬ Omits (stratumNames sp.kind sp.strata) (ia.2.map (·.1))
  split : ∀ props vals, sp.split = some props → LiteralSplit props vals →
    ¬ Omits (stratumNames sp.kind sp.strata) (props.map (·.1)) ∧ (∀ v ∈ vals, ¬ v < 0) ∧
    (1 - sumL vals < (splitTol : α) ∧ sumL vals - 1 < (splitTol : α))
  mixing : ¬ (sp.kind = .strain ∧ sp.mixing.isSome = true)

theorem not_omits_of_sameSet {names keys strata : List String} (hsub : ∀ st ∈ names, st ∈ strata)
    (h : sameSet keys strata = true) : ¬ Omits names keys := by
  rintro ⟨st, hst, hn⟩
  exact hn (sameSet_right h st (hsub st hst))

theorem mkStrat_isOk_inv {sp : StratSpec α} (h : (mkStrat sp).isOk = true) : MkStratOk sp := by
  unfold mkStrat at h
  simp only [isOk_bind, guardE_eq_ok] at h
  obtain ⟨strata, hstrata, _, _, split, hsplit, _, hfa, _, hia, _, hmix, _⟩ := h
  -- every canonical stratum name is a stratum of the stratification
  have hsub : ∀ st ∈ stratumNames sp.kind sp.strata, st ∈ strata := by
    by_cases hk : sp.kind = .age
    · simp only [hk, beq_self_eq_true, if_true, bind_eq_ok, guardE_eq_ok] at hstrata
      obtain ⟨ints, hints, _, _, hs⟩ := hstrata
      simp only [pure, Except.pure, Except.ok.injEq] at hs
      subst hs
      have hmap := mapM_ok_map (h := String.toInt?) (by
        intro s i hsi
        split at hsi
        · next j hj => simp [pure, Except.pure] at hsi; rw [hj, hsi]
        · simp [fail] at hsi) sp.strata ints hints
      intro st hst
      simp only [stratumNames, hk, if_true, List.mem_filterMap] at hst
      obtain ⟨s0, hs0, hst⟩ := hst
      have : s0.toInt? ∈ sp.strata.map String.toInt? := List.mem_map_of_mem hs0
      rw [hmap, List.mem_map] at this
      obtain ⟨i, hi, hi'⟩ := this
      rw [← hi'] at hst
      simp only [Option.map_some, Option.some.injEq] at hst
      subst hst
      exact List.mem_map_of_mem (mem_sortInts.mpr hi)
    · have hk' : (sp.kind == StratKind.age) = false := by simpa using hk
      simp only [hk', Bool.false_eq_true, if_false, pure, Except.pure, Except.ok.injEq] at hstrata
      subst hstrata
      simp [stratumNames, hk]
  refine ⟨?_, ?_, ?_, ?_⟩
  · intro d hd
    refine not_omits_of_sameSet hsub ?_
    refine forIn_ok_forall (P := fun d => sameSet (d.adjs.map (·.1)) strata = true) ?_ _ hfa d hd
    intro d r hr
    rw [bind_eq_ok] at hr
    obtain ⟨_, h1, h2⟩ := hr
    simp only [pure, Except.pure, Except.ok.injEq] at h2
    exact ⟨h2.symm, guardE_eq_ok.mp h1⟩
  · intro ia hia'
    refine not_omits_of_sameSet hsub ?_
    refine foldlM_isOk_forall (P := fun ia => sameSet (ia.2.map (·.1)) strata = true) ?_ _ _
      (by rw [hia]; rfl) ia hia'
    intro seen ia hok
    rw [isOk_guardE_bind] at hok
    exact hok.1
  · intro props vals hsp hlit
    rw [hsp] at hsplit
    have hl := literalSplit_lits props vals hlit
    have hlen := literalSplit_length hlit
    simp only [hl, hlen, beq_self_eq_true, if_true, bind_eq_ok, guardE_eq_ok] at hsplit
    obtain ⟨_, h1, _, h2, _, h3, _⟩ := hsplit
    refine ⟨not_omits_of_sameSet hsub h1, ?_, ?_⟩
    · simpa using h2
    · simpa [splitTol] using h3
  · rintro ⟨hk, hm⟩
    simp [hk, hm] at hmix

end mkstrat


/-! ### `stratifyWith` -/
section stratify
variable {α : Type}

theorem forM_ok_forall {β : Type} {f : β → Res PUnit} :
    ∀ (l : List β) {u : PUnit}, l.forM f = .ok u → ∀ x ∈ l, f x = .ok ⟨⟩
  | [], _, _ => by simp
  | a :: l, u, h => by
    rw [List.forM_eq_forM, List.forM_cons, bind_eq_ok] at h
    obtain ⟨_, h1, h2⟩ := h
    intro x hx
    rcases List.mem_cons.mp hx with rfl | hx
    · exact h1
    · exact forM_ok_forall l (u := u) (by rw [List.forM_eq_forM]; exact h2) x hx

theorem strataExist_ok {m : Model α} {flt : Strata} {u : Unit} (h : strataExist m flt = .ok u) :
    ∀ kv ∈ flt, ∃ t ∈ m.strats, t.name = kv.1 ∧ kv.2 ∈ t.strata := by
  intro kv hkv
  unfold strataExist at h
  have h1 := forM_ok_forall _ h kv hkv
  split at h1
  · simp [fail] at h1
  · next t ht =>
    have := List.find?_some ht
    have hmem := List.mem_of_find?_eq_some ht
    exact ⟨t, hmem, by simpa using this, by simpa using guardE_eq_ok.mp h1⟩

variable [One α] [Div α] [NatCast α]

/-- what a successful `stratifyWith` guarantees, in the vocabulary of the specification -/
structure StratifyOk (m : Model α) (s : Strat α) : Prop where
  freshName : ¬ ∃ t ∈ m.strats, t.name = s.name
  notFinal : m.finalized = false
  flowsExist : ∀ d ∈ s.flowAdj, ∃ f ∈ m.flows, f.name = d.flow
  filters : ∀ d ∈ s.flowAdj, ∀ kv ∈ d.srcStrata ++ d.dstStrata,
    ∃ t ∈ m.strats, t.name = kv.1 ∧ kv.2 ∈ t.strata
  infComps : ∀ ia ∈ s.infAdj, ia.1 ∈ m.origNames
  mixing : s.mixing.isSome = true → s.kind ≠ .strain ∧ s.comps = m.origNames
  strain : s.kind = .strain → ¬ ∃ t ∈ m.strats, t.kind = .strain
  comps : ∀ c ∈ s.comps, c ∈ m.origNames
  age : s.kind = .age → (¬ ∃ t ∈ m.strats, t.kind = .age) ∧ s.comps = m.origNames

theorem stratifyWith_isOk_inv {m : Model α} {s : Strat α} (h : (stratifyWith m s).isOk = true) :
    StratifyOk m s := by
  unfold stratifyWith at h
  simp only [isOk_bind, guardE_eq_ok] at h
  obtain ⟨_, h1, _, h2, _, h3, _, h4, _, h5, m1, h6, m2, h7, _, h8, newFlows, _, m4, h10, _⟩ := h
  refine ⟨?_, ?_, ?_, ?_, ?_, ?_, ?_, ?_, ?_⟩
  · simpa using h1
  · simpa using h2
  · intro d hd
    have := forIn_ok_forall (P := fun d => (m.flows.any fun f => f.name == d.flow) = true) (by
      intro d r hr
      rw [bind_eq_ok] at hr
      obtain ⟨_, h1, h2⟩ := hr
      simp only [pure, Except.pure, Except.ok.injEq] at h2
      exact ⟨h2.symm, guardE_eq_ok.mp h1⟩) _ h3 d hd
    simpa using this
  · intro d hd
    have := forIn_ok_forall
      (P := fun d => ∀ kv ∈ d.srcStrata ++ d.dstStrata, ∃ t ∈ m.strats, t.name = kv.1 ∧ kv.2 ∈ t.strata) (by
      intro d r hr
      rw [bind_eq_ok] at hr
      obtain ⟨_, h1, hr⟩ := hr
      rw [bind_eq_ok] at hr
      obtain ⟨_, h2, hr⟩ := hr
      simp only [pure, Except.pure, Except.ok.injEq] at hr
      refine ⟨hr.symm, ?_⟩
      intro kv hkv
      rcases List.mem_append.mp hkv with hkv | hkv
      · exact strataExist_ok h1 kv hkv
      · exact strataExist_ok h2 kv hkv) _ h4 d hd
    exact this
  · simpa using h5
  · intro hm
    obtain ⟨mat, hmat⟩ := Option.isSome_iff_exists.mp hm
    rw [hmat] at h6
    simp only [bind_eq_ok, guardE_eq_ok] at h6
    obtain ⟨_, ha, _, hb, _⟩ := h6
    refine ⟨?_, by simpa using hb⟩
    intro hk
    simp [Strat.isStrain, hk] at ha
  · intro hk
    have : s.isStrain = true := by simp [Strat.isStrain, hk]
    simp only [this, if_true, bind_eq_ok, guardE_eq_ok] at h7
    obtain ⟨_, ha, _⟩ := h7
    simpa [Strat.isStrain] using ha
  · simpa using h8
  · intro hk
    have : s.isAgeing = true := by simp [Strat.isAgeing, hk]
    simp only [this, if_true, bind_eq_ok, guardE_eq_ok] at h10
    obtain ⟨_, ha, _, hb, _⟩ := h10
    exact ⟨by simpa [Strat.isAgeing] using ha, by simpa using hb⟩

end stratify

section mkmodel
variable {α : Type} [LT α] [DecidableLT α]

theorem mkModel_isOk {t0 t1 dt : α} {ws comps inf} :
    (mkModel t0 t1 dt ws comps inf).isOk = true ↔ t0 < t1 ∧ ws.isSome = true ∧ ∀ n ∈ inf, n ∈ comps := by
  unfold mkModel
  cases ws <;> simp [isOk_guardE_bind, isOk_guardE]

end mkmodel

/-! ### the master theorem -/
section master
variable {α : Type} [Zero α] [One α] [Add α] [Sub α] [Div α] [NatCast α] [LT α] [DecidableLT α]

/-- every ill-formed call is rejected, whatever the current model -/
theorem illFormed_rejected (m : Model α) (c : Call α) (h : IllFormed m c) : c.isOk m = false := by
  cases h with
  | endNotAfterStart hlt => exact isOk_false_of fun h => hlt (mkModel_isOk.mp h).1
  | timestepNotDividing => exact isOk_false_of fun h => by simpa using (mkModel_isOk.mp h).2.1
  | infectiousUnknown hex =>
    obtain ⟨n, hn, hnot⟩ := hex
    exact isOk_false_of fun h => hnot ((mkModel_isOk.mp h).2.2 n hn)
  | initDistUnknown hex =>
    obtain ⟨kv, hkv, hnot⟩ := hex
    exact isOk_false_of fun h => hnot ((setInitialPopulation_isOk.mp h).2.2.2 kv hkv)
  | stratifiedUnknown hex =>
    obtain ⟨c, hc, hnot⟩ := hex
    exact isOk_false_of fun h => hnot ((stratifyWith_isOk_inv h).comps c hc)
  | flowCompUnknown hor =>
    refine isOk_false_of fun h => ?_
    have := addFlow_transition_isOk.mp h
    rcases hor with h1 | h1
    · exact h1 this.2.2.2.2.1
    · exact h1 this.2.2.2.1
  | outputCompUnknown hall =>
    refine isOk_false_of fun h => ?_
    obtain ⟨c, hc, n, hn, hm⟩ := (addRequest_isOk.mp h).2.2.2 _ _ rfl
    exact hall c hc n hn hm
  | adjustedFlowUnknown hex =>
    obtain ⟨d, hd, hnot⟩ := hex
    refine isOk_false_of fun h => ?_
    obtain ⟨f, hf, hname⟩ := (stratifyWith_isOk_inv h).flowsExist d hd
    exact hnot f hf hname
  | filterStratumUnknown hex =>
    obtain ⟨d, hd, kv, hkv, hnot⟩ := hex
    refine isOk_false_of fun h => ?_
    obtain ⟨t, ht, hname, hmem⟩ := (stratifyWith_isOk_inv h).filters d hd kv hkv
    exact hnot t ht hname hmem
  | outputSourceUnknown hmiss => exact isOk_false_of fun h => (addRequest_isOk.mp h).2.2.1 hmiss
  | flowAdjOmits hex =>
    obtain ⟨d, hd, hom⟩ := hex
    exact isOk_false_of fun h => (mkStrat_isOk_inv h).flowAdj d hd hom
  | infAdjOmits hex =>
    obtain ⟨ia, hia, hom⟩ := hex
    exact isOk_false_of fun h => (mkStrat_isOk_inv h).infAdj ia hia hom
  | splitOmits hsp hlit hom =>
    exact isOk_false_of fun h => ((mkStrat_isOk_inv h).split _ _ hsp hlit).1 hom
  | splitNegative hsp hlit hex =>
    obtain ⟨v, hv, hneg⟩ := hex
    exact isOk_false_of fun h => ((mkStrat_isOk_inv h).split _ _ hsp hlit).2.1 v hv hneg
  | splitNotSumOne hsp hlit hor =>
    refine isOk_false_of fun h => ?_
    have := ((mkStrat_isOk_inv h).split _ _ hsp hlit).2.2
    rcases hor with h1 | h1
    · exact h1 this.1
    · exact h1 this.2
  | @secondBirth op hb hex =>
    refine isOk_false_of fun h => ?_
    cases op <;> simp only [opIsBirth, Bool.false_eq_true] at hb
    · exact (addFlow_crudeBirth_isOk.mp h).2.1 hex
    · exact (addFlow_replBirth_isOk.mp h).1 hex
  | secondAge hk hex => exact isOk_false_of fun h => ((stratifyWith_isOk_inv h).age hk).1 hex
  | secondStrain hk hex => exact isOk_false_of fun h => (stratifyWith_isOk_inv h).strain hk hex
  | dupStratName hex => exact isOk_false_of fun h => (stratifyWith_isOk_inv h).freshName hex
  | dupUniversalDeath hex => exact isOk_false_of fun h => (addFlow_universalDeath_isOk.mp h).2.1 hex
  | dupOutputName hex => exact isOk_false_of fun h => (addRequest_isOk.mp h).2.1 hex
  | mixingOnPartial hm hex =>
    obtain ⟨c, hc, hnot⟩ := hex
    refine isOk_false_of fun h => hnot ?_
    rw [((stratifyWith_isOk_inv h).mixing hm).2]; exact hc
  | ageOnPartial hk hex =>
    obtain ⟨c, hc, hnot⟩ := hex
    refine isOk_false_of fun h => hnot ?_
    rw [((stratifyWith_isOk_inv h).age hk).2]; exact hc
  | mixingOnStrainSet hk hm => exact isOk_false_of fun h => (mkStrat_isOk_inv h).mixing ⟨hk, hm⟩
  | mixingOnStrain hk hm => exact isOk_false_of fun h => ((stratifyWith_isOk_inv h).mixing hm).1 hk
  | unequalCounts hne =>
    exact isOk_false_of fun h => hne (addFlow_transition_isOk.mp h).2.2.2.2.2.1.symm
  | @unmetExpectation op e hex hne =>
    refine isOk_false_of fun h => hne ?_
    cases op <;> simp only [opExpected, flowsCreated] at hex ⊢
    · exact (addFlow_crudeBirth_isOk.mp h).2.2.2 e hex
    · exact (addFlow_replBirth_isOk.mp h).2.2 e hex
    · exact (addFlow_importF_isOk.mp h).2.2.2 e hex
    · exact (addFlow_death_isOk.mp h).2.2 e hex
    · exact absurd hex (by simp)
    · exact (addFlow_transition_isOk.mp h).2.2.2.2.2.2 e hex
  | @badRate op hbad =>
    refine isOk_false_of fun h => ?_
    cases op <;> simp only [opRateOk, Option.some.injEq, reduceCtorEq] at hbad
    · exact absurd (addFlow_crudeBirth_isOk.mp h).1 (by simp [hbad])
    · exact absurd (addFlow_importF_isOk.mp h).1 (by simp [hbad])
    · exact absurd (addFlow_death_isOk.mp h).1 (by simp [hbad])
    · exact absurd (addFlow_universalDeath_isOk.mp h).1 (by simp [hbad])
    · exact absurd (addFlow_transition_isOk.mp h).1 (by simp [hbad])

/-- a finalised model refuses every modifying call; for `add_universal_death_flows` this needs at
least one original compartment (the call loops over them and only `_add_exit_flow` checks). -/
theorem finalised_rejected (m : Model α) (c : Call α) (hfin : m.finalized = true)
    (hmut : c.mutates = true)
    (hud : ∀ name ok p, c = .addFlow (.universalDeath name ok p) → m.origNames ≠ []) :
    c.isOk m = false := by
  have hne : ¬ m.finalized = false := by simp [hfin]
  cases c with
  | mkModel => simp [Call.mutates] at hmut
  | mkStrat => simp [Call.mutates] at hmut
  | addFlow op =>
    cases op with
    | crudeBirth => exact isOk_false_of fun h => hne (addFlow_crudeBirth_isOk.mp h).2.2.1
    | replBirth => exact isOk_false_of fun h => hne (addFlow_replBirth_isOk.mp h).2.1
    | importF => exact isOk_false_of fun h => hne (addFlow_importF_isOk.mp h).2.2.1
    | death => exact isOk_false_of fun h => hne (addFlow_death_isOk.mp h).2.1
    | universalDeath name ok p =>
      refine isOk_false_of fun h => ?_
      rcases (addFlow_universalDeath_isOk.mp h).2.2 with h0 | h0
      · exact hud name ok p rfl h0
      · exact hne h0
    | transition => exact isOk_false_of fun h => hne (addFlow_transition_isOk.mp h).2.2.1
  | stratifyWith s => exact isOk_false_of fun h => hne (stratifyWith_isOk_inv h).notFinal
  | setInitialPopulation => exact isOk_false_of fun h => hne (setInitialPopulation_isOk.mp h).1
  | initPopArray => exact isOk_false_of fun h => hne (initPopArray_isOk.mp h)
  | adjustPopulationSplit => exact isOk_false_of fun h => hne (adjustPopulationSplit_isOk_finalized h)
  | addRequest => exact isOk_false_of fun h => hne (addRequest_isOk.mp h).1

omit [Zero α] [Add α] [Sub α] [LT α] [DecidableLT α] in
/-- on a model without compartments `add_universal_death_flows` is a no-op (finalised or not) -/
theorem universalDeath_noop {m m' : Model α} {name ok} {p : Expr α} (h0 : m.origNames = [])
    (h : addFlow m (.universalDeath name ok p) = .ok m') : m' = m := by
  simp only [addFlow, h0, List.foldlM_nil, bind_eq_ok, guardE_eq_ok] at h
  obtain ⟨_, _, _, _, h⟩ := h
  simpa [pure, Except.pure] using h.symm

end master

/-! ### reachable models -/
section reach
variable {α : Type}

/-- the call left compartments, original names and stratifications untouched -/
def Frame (m m' : Model α) : Prop :=
  m'.comps = m.comps ∧ m'.origNames = m.origNames ∧ m'.strats = m.strats

theorem Frame.refl (m : Model α) : Frame m m := ⟨rfl, rfl, rfl⟩
theorem Frame.trans {a b c : Model α} (h1 : Frame a b) (h2 : Frame b c) : Frame a c :=
  ⟨h2.1.trans h1.1, h2.2.1.trans h1.2.1, h2.2.2.trans h1.2.2⟩

theorem pure_eq_ok {β : Type} {a b : β} : (pure a : Res β) = .ok b ↔ a = b := by
  simp [pure, Except.pure]

theorem foldlM_frame {β : Type} {f : Model α → β → Res (Model α)}
    (hstep : ∀ m x m', f m x = .ok m' → Frame m m') :
    ∀ (l : List β) (m m' : Model α), l.foldlM f m = .ok m' → Frame m m'
  | [], m, m', h => by
    rw [List.foldlM_nil, pure_eq_ok] at h; subst h; exact Frame.refl _
  | x :: l, m, m', h => by
    rw [List.foldlM_cons, bind_eq_ok] at h
    obtain ⟨m1, h1, h2⟩ := h
    exact (hstep m x m1 h1).trans (foldlM_frame hstep l m1 m' h2)

theorem addEntry_frame {m m' : Model α} {kind name} {p : Expr α} {dest ds ex adjs}
    (h : addEntry m kind name p dest ds ex adjs = .ok m') : Frame m m' := by
  simp only [addEntry, bind_eq_ok, guardE_eq_ok, pure_eq_ok] at h
  obtain ⟨_, _, _, _, h⟩ := h
  subst h; exact ⟨rfl, rfl, rfl⟩

theorem addExit_frame {m m' : Model α} {kind name} {p : Expr α} {src ss ex}
    (h : addExit m kind name p src ss ex = .ok m') : Frame m m' := by
  simp only [addExit, bind_eq_ok, guardE_eq_ok, pure_eq_ok] at h
  obtain ⟨_, _, _, _, h⟩ := h
  subst h; exact ⟨rfl, rfl, rfl⟩

theorem addTransitionCore_frame {m m' : Model α} {kind name} {p : Expr α} {src dst ss ds ex}
    (h : addTransitionCore m kind name p src dst ss ds ex = .ok m') : Frame m m' := by
  simp only [addTransitionCore, bind_eq_ok, guardE_eq_ok, pure_eq_ok] at h
  obtain ⟨_, _, _, _, _, _, _, _, _, _, h⟩ := h
  subst h; exact ⟨rfl, rfl, rfl⟩

theorem addFlow_frame [One α] [Div α] [NatCast α] {m m' : Model α} {op : FlowOp α}
    (h : addFlow m op = .ok m') : Frame m m' := by
  cases op with
  | crudeBirth =>
    simp only [addFlow, bind_eq_ok, guardE_eq_ok] at h
    obtain ⟨_, _, _, _, h⟩ := h
    exact addEntry_frame h
  | replBirth =>
    simp only [addFlow, bind_eq_ok, guardE_eq_ok] at h
    obtain ⟨_, _, h⟩ := h
    exact addEntry_frame h
  | importF name ok p dest split ds ex =>
    simp only [addFlow, bind_eq_ok, guardE_eq_ok] at h
    obtain ⟨_, _, h⟩ := h
    cases split
    · exact addEntry_frame h
    · simp only [if_true, bind_eq_ok, guardE_eq_ok] at h
      obtain ⟨_, _, h⟩ := h
      exact addEntry_frame h
  | death =>
    simp only [addFlow, bind_eq_ok, guardE_eq_ok] at h
    obtain ⟨_, _, h⟩ := h
    exact addExit_frame h
  | universalDeath =>
    simp only [addFlow, bind_eq_ok, guardE_eq_ok] at h
    obtain ⟨_, _, _, _, h⟩ := h
    exact foldlM_frame (fun _ _ _ h => addExit_frame h) _ _ _ h
  | transition =>
    simp only [addFlow, bind_eq_ok, guardE_eq_ok] at h
    obtain ⟨_, _, _, _, h⟩ := h
    exact addTransitionCore_frame h

/-- what `stratifyWith` does to compartments, original names and stratifications -/
theorem stratifyWith_frame [One α] [Div α] [NatCast α] {m m' : Model α} {s : Strat α}
    (h : stratifyWith m s = .ok m') :
    m'.comps = stratifyComps m.comps s ∧ m'.origNames = m.origNames ∧ m'.strats = m.strats ++ [s] := by
  unfold stratifyWith at h
  simp only [bind_eq_ok, guardE_eq_ok] at h
  obtain ⟨_, _, _, _, _, _, _, _, _, _, m1, h6, m2, h7, _, _, newFlows, _, m4, h10, h⟩ := h
  rw [pure_eq_ok] at h
  have f1 : Frame m m1 := by
    split at h6
    · rw [pure_eq_ok] at h6; subst h6; exact Frame.refl _
    · simp only [bind_eq_ok, guardE_eq_ok, pure_eq_ok] at h6
      obtain ⟨_, _, _, _, h6⟩ := h6
      subst h6; exact ⟨rfl, rfl, rfl⟩
  have f2 : Frame m1 m2 := by
    split at h7
    · simp only [bind_eq_ok, guardE_eq_ok, pure_eq_ok] at h7
      obtain ⟨_, _, h7⟩ := h7
      subst h7; exact ⟨rfl, rfl, rfl⟩
    · rw [pure_eq_ok] at h7; subst h7; exact Frame.refl _
  have f12 := f1.trans f2
  have f4 : m4.comps = stratifyComps m2.comps s ∧ m4.origNames = m2.origNames ∧ m4.strats = m2.strats := by
    split at h10
    · simp only [bind_eq_ok, guardE_eq_ok] at h10
      obtain ⟨_, _, _, _, h10⟩ := h10
      have := foldlM_frame (fun acc ab acc' hacc =>
        foldlM_frame (fun acc2 c acc2' hacc2 => by
          simp only [bind_eq_ok, guardE_eq_ok] at hacc2
          obtain ⟨_, _, hacc2⟩ := hacc2
          exact addTransitionCore_frame hacc2) _ acc acc' hacc) _ _ _ h10
      exact this
    · rw [pure_eq_ok] at h10; subst h10; exact ⟨rfl, rfl, rfl⟩
  subst h
  refine ⟨?_, ?_, ?_⟩
  · show m4.comps = _
    rw [f4.1, f12.1]
  · show m4.origNames = _
    rw [f4.2.1, f12.2.1]
  · show m4.strats ++ [s] = _
    rw [f4.2.2, f12.2.2]

theorem setInitialPopulation_frame [Zero α] {m m' : Model α} {isDict dist}
    (h : setInitialPopulation m isDict dist = .ok m') : Frame m m' := by
  simp only [setInitialPopulation, bind_eq_ok, guardE_eq_ok, pure_eq_ok] at h
  obtain ⟨_, _, _, _, _, _, _, _, h⟩ := h
  subst h; exact ⟨rfl, rfl, rfl⟩

theorem initPopArray_frame {m m' : Model α} {arr} (h : initPopArray m arr = .ok m') : Frame m m' := by
  simp only [initPopArray, bind_eq_ok, guardE_eq_ok, pure_eq_ok] at h
  obtain ⟨_, _, h⟩ := h
  subst h; exact ⟨rfl, rfl, rfl⟩

theorem adjustPopulationSplit_frame [Zero α] [One α] [Add α] [Sub α] [Div α] [NatCast α] [LT α]
    [DecidableLT α] {m m' : Model α} {den r} (h : adjustPopulationSplit m den r = .ok m') :
    Frame m m' := by
  simp only [adjustPopulationSplit, bind_eq_ok, guardE_eq_ok] at h
  obtain ⟨_, _, h⟩ := h
  split at h
  · simp [fail] at h
  · simp only [bind_eq_ok, guardE_eq_ok, pure_eq_ok] at h
    obtain ⟨_, _, _, _, _, _, h⟩ := h
    subst h; exact ⟨rfl, rfl, rfl⟩

theorem addRequest_frame {m m' : Model α} {e} (h : addRequest m e = .ok m') : Frame m m' := by
  simp only [addRequest, bind_eq_ok, guardE_eq_ok] at h
  obtain ⟨_, _, _, _, h⟩ := h
  split at h <;> simp only [bind_eq_ok, guardE_eq_ok, pure_eq_ok] at h
  all_goals first
    | (obtain ⟨_, _, h⟩ := h; subst h; exact ⟨rfl, rfl, rfl⟩)
    | (subst h; exact ⟨rfl, rfl, rfl⟩)

theorem addComputedValue_frame {m m' : Model α} {name e} (h : addComputedValue m name e = .ok m') :
    Frame m m' := by
  simp only [addComputedValue, bind_eq_ok, guardE_eq_ok, pure_eq_ok] at h
  obtain ⟨_, _, h⟩ := h
  subst h; exact ⟨rfl, rfl, rfl⟩

theorem mkStrat_strata_ne_nil [Zero α] [One α] [Add α] [Sub α] [Div α] [NatCast α] [LT α]
    [DecidableLT α] {sp : StratSpec α} {s : Strat α} (h : mkStrat sp = .ok s) : s.strata ≠ [] := by
  unfold mkStrat at h
  simp only [bind_eq_ok, guardE_eq_ok, pure_eq_ok] at h
  obtain ⟨strata, _, _, hne, _, _, _, _, _, _, _, _, h⟩ := h
  subst h
  intro h0
  exact (by simpa using hne : ¬ strata = []) h0

theorem stratifyComps_names {comps : List Comp} {s : Strat α} (hne : s.strata ≠ []) (n : String) :
    (∃ c ∈ stratifyComps comps s, c.name = n) ↔ ∃ c ∈ comps, c.name = n := by
  simp only [stratifyComps, List.mem_flatMap]
  constructor
  · rintro ⟨c', ⟨c, hc, hc'⟩, hn⟩
    refine ⟨c, hc, ?_⟩
    split at hc'
    · obtain ⟨st, _, rfl⟩ := List.mem_map.mp hc'
      exact hn
    · rw [List.mem_singleton] at hc'; subst hc'; exact hn
  · rintro ⟨c, hc, hn⟩
    by_cases hin : c.hasNameIn s.comps = true
    · obtain ⟨st, hst⟩ := List.exists_mem_of_ne_nil _ hne
      exact ⟨c.stratify s.name st, ⟨c, hc, by rw [if_pos hin]; exact List.mem_map_of_mem hst⟩, hn⟩
    · exact ⟨c, ⟨c, hc, by rw [if_neg hin]; exact List.mem_singleton.mpr rfl⟩, hn⟩

/-- on reachable models the bookkeeping lists agree with the actual structure -/
structure WellNamed (m : Model α) : Prop where
  /-- `origNames` is exactly the set of names of the current compartments -/
  names : ∀ n, n ∈ m.origNames ↔ ∃ c ∈ m.comps, c.name = n
  /-- stratification names are pairwise distinct -/
  stratNames : (m.strats.map (·.name)).Nodup

theorem WellNamed.of_frame {m m' : Model α} (h : WellNamed m) (f : Frame m m') : WellNamed m' :=
  ⟨by rw [f.1, f.2.1]; exact h.names, by rw [f.2.2]; exact h.stratNames⟩

theorem reachable_wellNamed [Zero α] [One α] [Add α] [Sub α] [Mul α] [Div α] [NatCast α] [LT α]
    [DecidableLT α] {m : Model α} (h : ReachableB m) : WellNamed m := by
  induction h with
  | @mk t0 t1 dt ws comps inf m h =>
    unfold mkModel at h
    rw [bind_eq_ok] at h
    obtain ⟨_, _, h⟩ := h
    cases ws with
    | none => simp [fail] at h
    | some k =>
      simp only [bind_eq_ok, guardE_eq_ok, pure_eq_ok] at h
      obtain ⟨_, _, h⟩ := h
      subst h
      refine ⟨fun n => ?_, by simp⟩
      simp only [List.mem_map]
      exact ⟨fun hn => ⟨⟨n, []⟩, ⟨n, hn, rfl⟩, rfl⟩, fun ⟨c, ⟨a, ha, hc⟩, hn⟩ => by subst hc; subst hn; exact ha⟩
  | addFlow _ h ih => exact ih.of_frame (addFlow_frame h)
  | @stratify m m' sp s _ hs h ih =>
    obtain ⟨hc, ho, hst⟩ := stratifyWith_frame h
    have hok := stratifyWith_isOk_inv (by rw [h]; rfl)
    refine ⟨fun n => ?_, ?_⟩
    · rw [hc, ho, stratifyComps_names (mkStrat_strata_ne_nil hs)]; exact ih.names n
    · rw [hst, List.map_append, List.nodup_append]
      refine ⟨ih.stratNames, by simp, ?_⟩
      intro a ha b hb
      simp only [List.map_cons, List.map_nil, List.mem_singleton] at hb
      subst hb
      obtain ⟨t, ht, rfl⟩ := List.mem_map.mp ha
      exact fun heq => hok.freshName ⟨t, ht, heq⟩
  | setInitialPopulation _ h ih => exact ih.of_frame (setInitialPopulation_frame h)
  | initPopArray _ h ih => exact ih.of_frame (initPopArray_frame h)
  | adjustPopulationSplit _ h ih => exact ih.of_frame (adjustPopulationSplit_frame h)
  | addRequest _ h ih => exact ih.of_frame (addRequest_frame h)
  | addComputedValue _ h ih => exact ih.of_frame (addComputedValue_frame h)
  | finalize _ ih => exact ⟨ih.names, ih.stratNames⟩

theorem eq_of_nodup_map {β γ : Type} {f : β → γ} :
    ∀ {l : List β}, (l.map f).Nodup → ∀ {x y}, x ∈ l → y ∈ l → f x = f y → x = y
  | [], _, _, _, hx, _, _ => by cases hx
  | a :: l, hnd, x, y, hx, hy, hf => by
    rw [List.map_cons, List.nodup_cons] at hnd
    rcases List.mem_cons.mp hx with hxa | hxl <;> rcases List.mem_cons.mp hy with hya | hyl
    · rw [hxa, hya]
    · exact (hnd.1 (by rw [← hxa, hf]; exact List.mem_map_of_mem hyl)).elim
    · exact (hnd.1 (by rw [← hya, ← hf]; exact List.mem_map_of_mem hxl)).elim
    · exact eq_of_nodup_map hnd.2 hxl hyl hf

end reach

end Summer.Proofs.IllFormed
