import Mathlib.Algebra.Field.GeomSum
import Mathlib.Analysis.Complex.Exponential
import Mathlib.Tactic.Positivity
import Summer.Proofs.Solvers
import Summer.Spec.Convergence
/-
Helper lemmas for the global convergence theorem of the fixed-step solvers (C07Convergence):
algebra of the sup-norm predicate `Within`, Lipschitz stability of `eulerStep` / `rk4Step`, the discrete
Gronwall recursion, and the `exp` estimates over `ℝ`.
-/
namespace Summer.Proofs.Convergence
open Summer Summer.Solvers Summer.Spec.Convergence Summer.Proofs.Solvers

/-! ### algebra of `Within` -/
section within
variable {α : Type} [Field α] [LinearOrder α] [IsStrictOrderedRing α]

theorem within_iff_abs (d : α) (a b : List α) :
    Within d a b ↔
      a.length = b.length ∧ ∀ i (ha : i < a.length) (hb : i < b.length), |a[i] - b[i]| ≤ d := by
  simp only [Within, abs_le]

theorem within_refl {d : α} (hd : 0 ≤ d) (a : List α) : Within d a a :=
  ⟨rfl, fun i _ _ => by rw [sub_self]; constructor <;> linarith⟩

theorem within_mono {d d' : α} {a b : List α} (h : Within d a b) (hd : d ≤ d') : Within d' a b :=
  ⟨h.1, fun i ha hb => by obtain ⟨h1, h2⟩ := h.2 i ha hb; constructor <;> linarith⟩

omit [IsStrictOrderedRing α] in
theorem within_of_eq {d d' : α} {a b : List α} (h : Within d a b) (hd : d = d') : Within d' a b := hd ▸ h

theorem within_symm {d : α} {a b : List α} (h : Within d a b) : Within d b a :=
  ⟨h.1.symm, fun i ha hb => by obtain ⟨h1, h2⟩ := h.2 i hb ha; constructor <;> linarith⟩

theorem within_trans {d1 d2 : α} {a b c : List α} (h1 : Within d1 a b) (h2 : Within d2 b c) :
    Within (d1 + d2) a c :=
  ⟨h1.1.trans h2.1, fun i ha hc => by
    have hb : i < b.length := h1.1 ▸ ha
    obtain ⟨p1, p2⟩ := h1.2 i ha hb
    obtain ⟨q1, q2⟩ := h2.2 i hb hc
    constructor <;> linarith⟩

theorem within_vadd {d1 d2 : α} {a b a' b' : List α} (h1 : Within d1 a b) (h2 : Within d2 a' b') :
    Within (d1 + d2) (vadd a a') (vadd b b') := by
  refine ⟨by simp [h1.1, h2.1], fun i ha hb => ?_⟩
  have ha' := ha
  have hb' := hb
  simp only [length_vadd, Nat.lt_min] at ha' hb'
  obtain ⟨p1, p2⟩ := h1.2 i ha'.1 hb'.1
  obtain ⟨q1, q2⟩ := h2.2 i ha'.2 hb'.2
  simp only [getElem_vadd]
  constructor <;> linarith

theorem within_vscale {c d : α} (hc : 0 ≤ c) {a b : List α} (h : Within d a b) :
    Within (c * d) (vscale c a) (vscale c b) := by
  refine ⟨by simp [h.1], fun i ha hb => ?_⟩
  have ha' := ha
  have hb' := hb
  simp only [length_vscale] at ha' hb'
  obtain ⟨p1, p2⟩ := h.2 i ha' hb'
  simp only [getElem_vscale]
  constructor <;> nlinarith

/-- distance `0` is equality -/
theorem within_zero_iff (a b : List α) : Within 0 a b ↔ a = b := by
  constructor
  · intro h
    apply List.ext_getElem h.1
    intro i ha hb
    obtain ⟨p1, p2⟩ := h.2 i ha hb
    linarith
  · rintro rfl; exact within_refl le_rfl a

omit [LinearOrder α] [IsStrictOrderedRing α] in
theorem length_vadd_vscale {n : Nat} (c : α) {y v : List α} (hy : y.length = n) (hv : v.length = n) :
    (vadd y (vscale c v)).length = n := by simp [hy, hv]

end within

/-! ### Lipschitz stability of one Euler / RK4 step -/
section steps
variable {α : Type} [Field α] [LinearOrder α] [IsStrictOrderedRing α]

omit [IsStrictOrderedRing α] in
theorem length_eulerStep {n : Nat} {L : α} {f : List α → α → List α} (hf : LipField n L f) (h : α)
    {y : List α} (t : α) (hy : y.length = n) : (eulerStep f h y t).length = n :=
  length_vadd_vscale h hy (hf.len y t hy)

theorem eulerStep_lip {n : Nat} {L h : α} {f : List α → α → List α} (hf : LipField n L f) (hh : 0 ≤ h)
    {y z : List α} (t d : α) (hy : y.length = n) (hz : z.length = n) (hw : Within d y z) :
    Within ((1 + h * L) * d) (eulerStep f h y t) (eulerStep f h z t) := by
  have := within_vadd hw (within_vscale hh (hf.lip y z t d hy hz hw))
  exact within_of_eq this (by ring)

/-- local version: `f` only needs to be `L`-Lipschitz between the states of a set `D` -/
theorem eulerStep_lip_on {D : List α → Prop} {L h : α} {f : List α → α → List α}
    (hf : LipFieldOn D L f) (hh : 0 ≤ h) (y z : List α) (t d : α) (hy : D y) (hz : D z)
    (hw : Within d y z) : Within ((1 + h * L) * d) (eulerStep f h y t) (eulerStep f h z t) := by
  have := within_vadd hw (within_vscale hh (hf y z t d hy hz hw))
  exact within_of_eq this (by ring)

omit [IsStrictOrderedRing α] in
theorem length_rk4Step {n : Nat} {L : α} {f : List α → α → List α} (hf : LipField n L f) (h : α)
    {y : List α} (t : α) (hy : y.length = n) : (rk4Step f h y t).length = n := by
  rw [rk4Step_classical]
  simp only []
  have l1 := hf.len y t hy
  have l2 := hf.len _ (t + h / 2) (length_vadd_vscale (h / 2) hy l1)
  have l3 := hf.len _ (t + h / 2) (length_vadd_vscale (h / 2) hy l2)
  have l4 := hf.len _ (t + h) (length_vadd_vscale h hy l3)
  simp [hy, l1, l2, l3, l4]

theorem rk4Amp_eq (x : α) : rk4Amp x = 1 + x + x ^ 2 / 2 + x ^ 3 / 6 + x ^ 4 / 24 := by
  simp only [rk4Amp]; ring

theorem rk4Amp_eq_lam (h L : α) : rk4Amp (h * L) = 1 + h * rk4Lam h L := by
  simp only [rk4Amp, rk4Lam]; ring

theorem rk4Lam_pos {h L : α} (hh : 0 ≤ h) (hL : 0 < L) : 0 < rk4Lam h L := by
  simp only [rk4Lam]; positivity

theorem rk4Lam_ge {h L : α} (hh : 0 ≤ h) (hL : 0 ≤ L) : L ≤ rk4Lam h L := by
  simp only [rk4Lam]
  have : 0 ≤ h * L / 2 + h * L * (h * L) / 6 + h * L * (h * L) * (h * L) / 24 := by positivity
  nlinarith

theorem rk4Step_lip {n : Nat} {L h : α} {f : List α → α → List α} (hf : LipField n L f) (hh : 0 ≤ h)
    {y z : List α} (t d : α) (hy : y.length = n) (hz : z.length = n) (hw : Within d y z) :
    Within (rk4Amp (h * L) * d) (rk4Step f h y t) (rk4Step f h z t) := by
  rw [rk4Step_classical, rk4Step_classical]
  simp only []
  have hh2 : 0 ≤ h / 2 := by positivity
  have hh6 : 0 ≤ h / 6 := by positivity
  have h2 : (0 : α) ≤ 2 := by norm_num
  -- stage 1
  have ly1 := hf.len y t hy
  have lz1 := hf.len z t hz
  have w1 := hf.lip y z t d hy hz hw
  -- stage 2
  have ay2 := length_vadd_vscale (h / 2) hy ly1
  have az2 := length_vadd_vscale (h / 2) hz lz1
  have w2 := hf.lip _ _ (t + h / 2) _ ay2 az2 (within_vadd hw (within_vscale hh2 w1))
  have ly2 := hf.len _ (t + h / 2) ay2
  have lz2 := hf.len _ (t + h / 2) az2
  -- stage 3
  have ay3 := length_vadd_vscale (h / 2) hy ly2
  have az3 := length_vadd_vscale (h / 2) hz lz2
  have w3 := hf.lip _ _ (t + h / 2) _ ay3 az3 (within_vadd hw (within_vscale hh2 w2))
  have ly3 := hf.len _ (t + h / 2) ay3
  have lz3 := hf.len _ (t + h / 2) az3
  -- stage 4
  have ay4 := length_vadd_vscale h hy ly3
  have az4 := length_vadd_vscale h hz lz3
  have w4 := hf.lip _ _ (t + h) _ ay4 az4 (within_vadd hw (within_vscale hh w3))
  -- combination
  have ws := within_vadd (within_vadd (within_vadd w1 (within_vscale h2 w2)) (within_vscale h2 w3)) w4
  have := within_vadd hw (within_vscale hh6 ws)
  refine within_of_eq this ?_
  simp only [rk4Amp]
  ring

theorem eulerStep_stable {n : Nat} {L h : α} {f : List α → α → List α} (hf : LipField n L f)
    (hh : 0 ≤ h) : StableStep (fun y => y.length = n) (1 + h * L) (eulerStep f h) :=
  ⟨fun _ t hy => length_eulerStep hf h t hy, fun _ _ t d hy hz hw => eulerStep_lip hf hh t d hy hz hw⟩

theorem rk4Step_stable {n : Nat} {L h : α} {f : List α → α → List α} (hf : LipField n L f)
    (hh : 0 ≤ h) : StableStep (fun y => y.length = n) (rk4Amp (h * L)) (rk4Step f h) :=
  ⟨fun _ t hy => length_rk4Step hf h t hy, fun _ _ t d hy hz hw => rk4Step_lip hf hh t d hy hz hw⟩

end steps

/-! ### the discrete Gronwall recursion -/
section gronwall
variable {α : Type} [Field α] [LinearOrder α] [IsStrictOrderedRing α]
open Finset

/-- consistency + stability ⇒ convergence, first `N` steps; `Φ` only needs to be `ρ`-Lipschitz between
states of a set `D` that contains the exact values and the numerical iterates. -/
theorem one_step_error_on {D : List α → Prop} {ρ : α} {Φ : List α → α → List α}
    (hΦ : ∀ y z t d, D y → D z → Within d y z → Within (ρ * d) (Φ y t) (Φ z t))
    (tk : ℕ → α) (Y u : ℕ → List α) (τ : α) (N : ℕ)
    (hY : ∀ k, k < N → D (Y k)) (hu : ∀ k, k < N → D (u k))
    (hτ : ∀ k, k < N → Within τ (Y (k + 1)) (Φ (Y k) (tk k)))
    (hu0 : u 0 = Y 0) (hus : ∀ k, k < N → u (k + 1) = Φ (u k) (tk k)) :
    ∀ k, k ≤ N → Within (τ * ∑ i ∈ range k, ρ ^ i) (Y k) (u k) := by
  intro k
  induction k with
  | zero =>
    intro _
    rw [hu0]
    simp only [range_zero, sum_empty, mul_zero]
    exact within_refl le_rfl _
  | succ k ih =>
    intro hk
    have hw := ih (by omega)
    rw [hus k (by omega)]
    have h1 := hτ k (by omega)
    have h2 := hΦ (Y k) (u k) (tk k) _ (hY k (by omega)) (hu k (by omega)) hw
    refine within_of_eq (within_trans h1 h2) ?_
    rw [geom_sum_succ]
    ring

/-- when `D` is invariant under the step (`StableStep`) the iterates stay in `D` by themselves -/
theorem one_step_error {D : List α → Prop} {ρ : α} {Φ : List α → α → List α} (hΦ : StableStep D ρ Φ)
    (tk : ℕ → α) (Y u : ℕ → List α) (τ : α) (N : ℕ)
    (hY : ∀ k, k ≤ N → D (Y k))
    (hτ : ∀ k, k < N → Within τ (Y (k + 1)) (Φ (Y k) (tk k)))
    (hu0 : u 0 = Y 0) (hus : ∀ k, k < N → u (k + 1) = Φ (u k) (tk k)) :
    ∀ k, k ≤ N → D (u k) ∧ Within (τ * ∑ i ∈ range k, ρ ^ i) (Y k) (u k) := by
  have hD : ∀ k, k ≤ N → D (u k) := by
    intro k
    induction k with
    | zero => intro h0; rw [hu0]; exact hY 0 h0
    | succ k ih => intro hk; rw [hus k (by omega)]; exact hΦ.inv _ _ (ih (by omega))
  intro k hk
  exact ⟨hD k hk, one_step_error_on hΦ.lip tk Y u τ N (fun k hk => hY k (by omega))
    (fun k hk => hD k (by omega)) hτ hu0 hus k hk⟩

/-- rows version of `one_step_error_on` -/
theorem rows_error_on {D : List α → Prop} {ρ : α} {Φ : List α → α → List α}
    (hΦ : ∀ y z t d, D y → D z → Within d y z → Within (ρ * d) (Φ y t) (Φ z t))
    (times : List α) (rows : List (List α)) (Y : ℕ → List α) (τ : α)
    (hr0 : rows.getD 0 [] = Y 0)
    (hrs : ∀ i, i + 1 < times.length → rows.getD (i + 1) [] = Φ (rows.getD i []) (times.getD i 0))
    (hY : ∀ k, k + 1 < times.length → D (Y k)) (hu : ∀ k, k + 1 < times.length → D (rows.getD k []))
    (hτ : ∀ k, k + 1 < times.length → Within τ (Y (k + 1)) (Φ (Y k) (times.getD k 0))) :
    ∀ k, k < times.length → Within (τ * ∑ i ∈ range k, ρ ^ i) (Y k) (rows.getD k []) := by
  intro k hk
  exact one_step_error_on hΦ (fun k => times.getD k 0) Y (fun k => rows.getD k []) τ (times.length - 1)
    (fun k hk => hY k (by omega)) (fun k hk => hu k (by omega)) (fun k hk => hτ k (by omega)) hr0
    (fun k hk => hrs k (by omega)) k (by omega)

/-- the same for the rows of a scan over a list of times (the shape `euler_rows` / `rk4_rows` give):
row `0` is `Y 0`, row `i+1` is the step of row `i` at `times[i]`. -/
theorem rows_error {D : List α → Prop} {ρ : α} {Φ : List α → α → List α} (hΦ : StableStep D ρ Φ)
    (times : List α) (rows : List (List α)) (Y : ℕ → List α) (τ : α)
    (hr0 : rows.getD 0 [] = Y 0)
    (hrs : ∀ i, i + 1 < times.length → rows.getD (i + 1) [] = Φ (rows.getD i []) (times.getD i 0))
    (hY : ∀ k, k < times.length → D (Y k))
    (hτ : ∀ k, k + 1 < times.length → Within τ (Y (k + 1)) (Φ (Y k) (times.getD k 0))) :
    ∀ k, k < times.length → Within (τ * ∑ i ∈ range k, ρ ^ i) (Y k) (rows.getD k []) := by
  intro k hk
  exact (one_step_error hΦ (fun k => times.getD k 0) Y (fun k => rows.getD k []) τ (times.length - 1)
    (fun k hk => hY k (by omega)) (fun k hk => hτ k (by omega)) hr0 (fun k hk => hrs k (by omega))
    k (by omega)).2

theorem geom_closed {x : α} (hx : x ≠ 0) (k : ℕ) :
    ∑ i ∈ range k, (1 + x) ^ i = ((1 + x) ^ k - 1) / x := by
  rw [geom_sum_eq (by intro h; apply hx; linarith)]
  congr 1; ring

/-- `τ = C·h^(p+1)` turns the geometric sum into the order-`p` bound -/
theorem order_bound {C h Λ : α} (hh : 0 < h) (hΛ : 0 < Λ) (p k : ℕ) :
    C * h ^ (p + 1) * ∑ i ∈ range k, (1 + h * Λ) ^ i = C * h ^ p * ((1 + h * Λ) ^ k - 1) / Λ := by
  rw [geom_closed (by positivity)]
  field_simp
  ring

theorem geom_sum_mono {r s : α} (hr : 0 ≤ r) (hrs : r ≤ s) (k : ℕ) :
    ∑ i ∈ range k, r ^ i ≤ ∑ i ∈ range k, s ^ i :=
  sum_le_sum fun i _ => pow_le_pow_left₀ hr hrs i

end gronwall

/-! ### the uniform grid -/
section grid
variable {α : Type} [Field α]

theorem uniformGrid_step {t0 h : α} {times : List α} (hg : UniformGrid t0 h times) (h2 : 2 ≤ times.length) :
    times.getD 1 0 - times.getD 0 0 = h := by
  rw [hg 1 (by omega), hg 0 (by omega)]
  simp

theorem uniformGrid_linspace [CharZero α] (t0 h : α) (n : Nat) (hn : 2 ≤ n) :
    UniformGrid t0 h (linspace t0 (t0 + ((n : α) - 1) * h) n) := by
  intro i hi
  rw [length_linspace] at hi
  exact linspace_step t0 h n i hn hi

end grid

/-! ### `exp` estimates over `ℝ` -/
section real
open Finset

theorem one_add_pow_le_exp {x : ℝ} (hx : 0 ≤ x) (k : ℕ) : (1 + x) ^ k ≤ Real.exp (k * x) := by
  rw [Real.exp_nat_mul]
  exact pow_le_pow_left₀ (by linarith) (by linarith [Real.add_one_le_exp x]) k

theorem rk4Amp_le_exp {x : ℝ} (hx : 0 ≤ x) : rk4Amp x ≤ Real.exp x := by
  have := Real.sum_le_exp_of_nonneg hx 5
  refine le_trans (le_of_eq ?_) this
  simp only [rk4Amp, sum_range_succ, range_zero, sum_empty, Nat.factorial]
  norm_num
  ring

/-- a geometric sum with ratio `0 ≤ ρ ≤ eˣ`, `x > 0`, is at most `(e^{kx} - 1)/x` -/
theorem geom_sum_le_exp {ρ x : ℝ} (hρ : 0 ≤ ρ) (hx : 0 < x) (hρx : ρ ≤ Real.exp x) (k : ℕ) :
    ∑ i ∈ range k, ρ ^ i ≤ (Real.exp (k * x) - 1) / x := by
  have h1 : 1 < Real.exp x := by linarith [Real.add_one_le_exp x]
  have hxe : x ≤ Real.exp x - 1 := by linarith [Real.add_one_le_exp x]
  have hnum : 0 ≤ Real.exp x ^ k - 1 := by
    have := one_le_pow₀ (n := k) h1.le
    linarith
  calc ∑ i ∈ range k, ρ ^ i ≤ ∑ i ∈ range k, Real.exp x ^ i := geom_sum_mono hρ hρx k
    _ = (Real.exp x ^ k - 1) / (Real.exp x - 1) := geom_sum_eq (ne_of_gt h1) k
    _ ≤ (Real.exp x ^ k - 1) / x := div_le_div_of_nonneg_left hnum hx hxe
    _ = (Real.exp (k * x) - 1) / x := by rw [Real.exp_nat_mul]

end real

/-! ### concrete objects on `ℚ` for the non-vacuity examples -/

/-- linear 2-compartment field, `L = 3/2` -/
def exLin : List ℚ → ℚ → List ℚ := fun y _ =>
  match y with
  | [a, b] => [-a + b / 2, a / 2 - b]
  | _ => y.map (fun _ => 0)

/-- non-linear (clamped), time-dependent 2-compartment field, `L = 3/2` -/
def exClamp : List ℚ → ℚ → List ℚ := fun y t =>
  match y with
  | [a, b] => [t - max 0 a + b / 2, max 0 a / 2 - b]
  | _ => y.map (fun _ => 0)

/-- scalar field `y' = -y + t² + 2t` with exact solution `y(t) = t²`, `L = 1` -/
def exQuad : List ℚ → ℚ → List ℚ := fun y t =>
  match y with
  | [a] => [-a + t * t + 2 * t]
  | _ => y.map (fun _ => 0)

theorem within_pair {d a b a' b' : ℚ} (h : Within d [a, b] [a', b']) :
    (-d ≤ a - a' ∧ a - a' ≤ d) ∧ (-d ≤ b - b' ∧ b - b' ≤ d) :=
  ⟨h.2 0 (by simp) (by simp), h.2 1 (by simp) (by simp)⟩

theorem within_pair_mk {d a b a' b' : ℚ} (h0 : -d ≤ a - a' ∧ a - a' ≤ d) (h1 : -d ≤ b - b' ∧ b - b' ≤ d) :
    Within d [a, b] [a', b'] := by
  refine ⟨rfl, fun i ha hb => ?_⟩
  match i, ha with
  | 0, _ => exact h0
  | 1, _ => exact h1

theorem exLin_lip : LipField 2 (3 / 2) exLin := by
  refine ⟨?_, ?_⟩
  · intro y t hy
    match y, hy with
    | [a, b], _ => rfl
  · intro y z t d hy hz hw
    match y, hy, z, hz, hw with
    | [a, b], _, [a', b'], _, hw =>
      obtain ⟨⟨p1, p2⟩, ⟨q1, q2⟩⟩ := within_pair hw
      simp only [exLin]
      exact within_pair_mk (by constructor <;> linarith) (by constructor <;> linarith)

theorem max0_lip {d a a' : ℚ} (h1 : -d ≤ a - a') (h2 : a - a' ≤ d) :
    -d ≤ max 0 a - max 0 a' ∧ max 0 a - max 0 a' ≤ d := by
  rcases le_total 0 a with ha | ha <;> rcases le_total 0 a' with ha' | ha' <;>
    simp only [max_eq_right, max_eq_left, ha, ha'] <;> constructor <;> linarith

theorem exClamp_lip : LipField 2 (3 / 2) exClamp := by
  refine ⟨?_, ?_⟩
  · intro y t hy
    match y, hy with
    | [a, b], _ => rfl
  · intro y z t d hy hz hw
    match y, hy, z, hz, hw with
    | [a, b], _, [a', b'], _, hw =>
      obtain ⟨⟨p1, p2⟩, ⟨q1, q2⟩⟩ := within_pair hw
      obtain ⟨m1, m2⟩ := max0_lip p1 p2
      simp only [exClamp]
      exact within_pair_mk (by constructor <;> linarith) (by constructor <;> linarith)

theorem within_single {d a a' : ℚ} : Within d [a] [a'] ↔ (-d ≤ a - a' ∧ a - a' ≤ d) := by
  constructor
  · intro h; exact h.2 0 (by simp) (by simp)
  · intro h
    refine ⟨rfl, fun i ha hb => ?_⟩
    match i, ha with
    | 0, _ => exact h

theorem exQuad_lip : LipField 1 1 exQuad := by
  refine ⟨?_, ?_⟩
  · intro y t hy
    match y, hy with
    | [a], _ => rfl
  · intro y z t d hy hz hw
    match y, hy, z, hz, hw with
    | [a], _, [a'], _, hw =>
      obtain ⟨p1, p2⟩ := within_single.mp hw
      simp only [exQuad]
      exact within_single.mpr (by constructor <;> linarith)

/-- SIR-like field with the bilinear infection term `s·i` (not globally Lipschitz) -/
def exSI : List ℚ → ℚ → List ℚ := fun y _ =>
  match y with
  | [s, i] => [-(s * i), s * i - i / 2]
  | _ => y.map (fun _ => 0)

/-- the unit box `0 ≤ s, i ≤ 1` -/
def exBox (y : List ℚ) : Prop := y.length = 2 ∧ ∀ x ∈ y, 0 ≤ x ∧ x ≤ 1

instance (y : List ℚ) : Decidable (exBox y) := by unfold exBox; exact inferInstance

theorem exSI_lip : LipFieldOn exBox (5 / 2) exSI := by
  intro y z t d hy hz hw
  match y, hy, z, hz, hw with
  | [s, i], hy, [s', i'], hz, hw =>
    obtain ⟨⟨p1, p2⟩, ⟨q1, q2⟩⟩ := within_pair hw
    have hs := hy.2 s (by simp)
    have hi := hy.2 i (by simp)
    have hs' := hz.2 s' (by simp)
    have hi' := hz.2 i' (by simp)
    have hd : 0 ≤ d := by linarith
    have e : s * i - s' * i' = s * (i - i') + i' * (s - s') := by ring
    have u1 : s * (i - i') ≤ d := by nlinarith
    have u2 : -d ≤ s * (i - i') := by nlinarith
    have u3 : i' * (s - s') ≤ d := by nlinarith
    have u4 : -d ≤ i' * (s - s') := by nlinarith
    simp only [exSI]
    exact within_pair_mk (by constructor <;> linarith) (by constructor <;> linarith)

/-- the exact solution `t²` of `exQuad` sampled on the grid `k·h` -/
def exQuadY (h : ℚ) (k : ℕ) : List ℚ := [((k : ℚ) * h) ^ 2]

/-- Euler's local error on `exQuad` is exactly `h²` (so `C = 1`, `p = 1`) -/
theorem exQuad_euler_local (h : ℚ) (k : ℕ) :
    eulerStep exQuad h (exQuadY h k) (0 + (k : ℚ) * h) = [(((k + 1 : ℕ) : ℚ) * h) ^ 2 - h ^ 2] := by
  simp only [eulerStep, exQuad, exQuadY, vadd, vscale, List.map_cons, List.map_nil, List.zipWith_cons_cons,
    List.zipWith_nil_right]
  congr 1
  push_cast
  ring

/-- RK4's local error on `exQuad` is exactly `-h⁵/48` (so `C = 1/48`, `p = 4`) -/
theorem exQuad_rk4_local (h : ℚ) (k : ℕ) :
    rk4Step exQuad h (exQuadY h k) (0 + (k : ℚ) * h) = [(((k + 1 : ℕ) : ℚ) * h) ^ 2 + h ^ 5 / 48] := by
  rw [rk4Step_classical]
  simp only [exQuad, exQuadY, vadd, vscale, List.map_cons, List.map_nil, List.zipWith_cons_cons,
    List.zipWith_nil_right]
  congr 1
  push_cast
  ring

end Summer.Proofs.Convergence
