import Summer.Model.Params
import Summer.Proofs.ExprProps
/-
Helper lemmas for `Props/C09Model.lean`: which parameters the model-level evaluations
(`Run.step`, `Run.initialPopulation`, `Derived.flowsForOutputs`, `Derived.evalAll`) read, and which
they need.
-/
namespace Summer.Proofs.ModelParams
open Summer Summer.Run Summer.Params Summer.Spec Summer.ExprProps Summer.Derived

/-! ### `dedup` keeps exactly the members, once -/

theorem mem_foldl_dedup (l acc : List String) (k : String) :
    k ∈ l.foldl (fun acc k => if acc.contains k then acc else acc ++ [k]) acc ↔ k ∈ acc ∨ k ∈ l := by
  induction l generalizing acc with
  | nil => simp
  | cons a l ih =>
    rw [List.foldl_cons, ih]
    by_cases h : acc.contains a = true
    · rw [if_pos h]
      have ha : a ∈ acc := by simpa using h
      constructor
      · rintro (h1 | h1)
        · exact Or.inl h1
        · exact Or.inr (List.mem_cons_of_mem _ h1)
      · rintro (h1 | h1)
        · exact Or.inl h1
        · rcases List.mem_cons.1 h1 with rfl | h2
          · exact Or.inl ha
          · exact Or.inr h2
    · rw [if_neg h]
      constructor
      · rintro (h1 | h1)
        · rcases List.mem_append.1 h1 with h2 | h2
          · exact Or.inl h2
          · exact Or.inr (by simp at h2; simp [h2])
        · exact Or.inr (List.mem_cons_of_mem _ h1)
      · rintro (h1 | h1)
        · exact Or.inl (List.mem_append_left _ h1)
        · rcases List.mem_cons.1 h1 with rfl | h2
          · exact Or.inl (by simp)
          · exact Or.inr h2

theorem mem_dedup (l : List String) (k : String) : k ∈ dedup l ↔ k ∈ l := by
  unfold dedup; rw [mem_foldl_dedup]; simp

theorem nodup_foldl_dedup (l acc : List String) (h : acc.Nodup) :
    (l.foldl (fun acc k => if acc.contains k then acc else acc ++ [k]) acc).Nodup := by
  induction l generalizing acc with
  | nil => exact h
  | cons a l ih =>
    rw [List.foldl_cons]
    apply ih
    by_cases hc : acc.contains a = true
    · rw [if_pos hc]; exact h
    · rw [if_neg hc]
      have ha : a ∉ acc := by simpa using hc
      rw [List.nodup_append]
      exact ⟨h, by simp, fun x hx y hy => by
        simp only [List.mem_singleton] at hy; subst hy; intro e; subst e; exact ha hx⟩

theorem nodup_dedup (l : List String) : (dedup l).Nodup := nodup_foldl_dedup l [] (by simp)

/-! ### the sites that contribute to `mainParams` -/
section sites
variable {α : Type}

/-- realised flow weights -/
def flowParams (m : Model α) : List String := m.flows.flatMap (fun f => (realised f).params)

/-- initial population: the population array, or the initial distribution and the population splits -/
def popParams (m : Model α) : List String :=
  match m.arrayPop with
  | some arr => arr.flatMap (fun e => e.params)
  | none => ((m.initDist.getD []).flatMap (fun kv => kv.2.params))
            ++ (m.strats.flatMap (fun s => s.split.flatMap (fun kv => kv.2.params)))

/-- infectiousness adjustments -/
def infParams (m : Model α) : List String :=
  m.strats.flatMap (fun s => s.infAdj.flatMap (fun ia => ia.2.flatMap (fun sa =>
    match sa.2 with | some a => a.expr.params | none => [])))

/-- mixing matrices -/
def mixParams (m : Model α) : List String :=
  m.mixingMats.flatMap (fun mat => mat.flatMap (fun row => row.flatMap (fun e => e.params)))

/-- computed values -/
def cvParams (m : Model α) : List String := m.computed.flatMap (fun kv => kv.2.params)

/-- the proportions of `adjust_population_split` actions: evaluated by `initialPopulation` but NOT
registered in `mainParams` -/
def rebalanceParams (m : Model α) : List String :=
  m.actions.flatMap (fun a => match a with
    | .rebalance r => r.props.flatMap (fun kv => kv.2.params)
    | .stratify _ => [])

/-- what `step` (hence `rhs`) reads -/
def stepParams (m : Model α) : List String := flowParams m ++ infParams m ++ mixParams m

theorem mainParams_eq (m : Model α) :
    mainParams m = dedup (flowParams m ++ popParams m ++ infParams m ++ mixParams m ++ cvParams m) := rfl

theorem mem_mainParams (m : Model α) (k : String) :
    k ∈ mainParams m ↔
      k ∈ flowParams m ∨ k ∈ popParams m ∨ k ∈ infParams m ∨ k ∈ mixParams m ∨ k ∈ cvParams m := by
  rw [mainParams_eq, mem_dedup]
  simp only [List.mem_append, or_assoc]

theorem mem_inputParams (m : Model α) (k : String) :
    k ∈ inputParams m ↔ k ∈ mainParams m ∨ k ∈ doParams m := by
  unfold inputParams; rw [mem_dedup, List.mem_append]

theorem mem_doParams (m : Model α) (k : String) :
    k ∈ doParams m ↔ ∃ r ∈ m.requests, k ∈ (match r.req with | .func e _ => e.params | _ => []) := by
  unfold doParams; rw [mem_dedup, List.mem_flatMap]; exact Iff.rfl

theorem mem_doParams_of_func (m : Model α) (r : ReqEntry α) (hr : r ∈ m.requests) (e : Expr α)
    (src : List String) (hreq : r.req = .func e src) (k : String) (hk : k ∈ e.params) : k ∈ doParams m := by
  rw [mem_doParams]; exact ⟨r, hr, by rw [hreq]; exact hk⟩

theorem stepParams_subset (m : Model α) (k : String) (h : k ∈ stepParams m) : k ∈ mainParams m := by
  rw [mem_mainParams]
  simp only [stepParams, List.mem_append] at h
  rcases h with (h | h) | h
  · exact Or.inl h
  · exact Or.inr (Or.inr (Or.inl h))
  · exact Or.inr (Or.inr (Or.inr (Or.inl h)))

theorem mem_flowParams {m : Model α} {f : Flow α} (hf : f ∈ m.flows) {k : String}
    (hk : k ∈ (realised f).params) : k ∈ flowParams m :=
  List.mem_flatMap.2 ⟨f, hf, hk⟩

theorem mem_mixParams {m : Model α} {mat : Matrix (Expr α)} (hm : mat ∈ m.mixingMats) {row : List (Expr α)}
    (hr : row ∈ mat) {e : Expr α} (he : e ∈ row) {k : String} (hk : k ∈ e.params) : k ∈ mixParams m :=
  List.mem_flatMap.2 ⟨mat, hm, List.mem_flatMap.2 ⟨row, hr, List.mem_flatMap.2 ⟨e, he, hk⟩⟩⟩

theorem mem_infParams {m : Model α} {s : Strat α} (hs : s ∈ m.strats)
    {ia : String × List (String × Option (Adj α))} (hia : ia ∈ s.infAdj) {st : String} {a : Adj α}
    (hsa : (st, some a) ∈ ia.2) {k : String} (hk : k ∈ a.expr.params) : k ∈ infParams m :=
  List.mem_flatMap.2 ⟨s, hs, List.mem_flatMap.2 ⟨ia, hia, List.mem_flatMap.2 ⟨(st, some a), hsa, hk⟩⟩⟩

theorem mem_cvParams {m : Model α} {kv : String × Expr α} (h : kv ∈ m.computed) {k : String}
    (hk : k ∈ kv.2.params) : k ∈ cvParams m :=
  List.mem_flatMap.2 ⟨kv, h, hk⟩

theorem mem_rebalanceParams {m : Model α} {r : Rebalance α} (h : BuildAction.rebalance r ∈ m.actions)
    {kv : String × Expr α} (hkv : kv ∈ r.props) {k : String} (hk : k ∈ kv.2.params) :
    k ∈ rebalanceParams m :=
  List.mem_flatMap.2 ⟨_, h, List.mem_flatMap.2 ⟨kv, hkv, hk⟩⟩

theorem mem_popParams_array {m : Model α} {arr : List (Expr α)} (ha : m.arrayPop = some arr) {e : Expr α}
    (he : e ∈ arr) {k : String} (hk : k ∈ e.params) : k ∈ popParams m := by
  unfold popParams; rw [ha]; exact List.mem_flatMap.2 ⟨e, he, hk⟩

theorem mem_popParams_dist {m : Model α} (ha : m.arrayPop = none) {dist : List (String × Expr α)}
    (hd : m.initDist = some dist) {kv : String × Expr α} (hkv : kv ∈ dist) {k : String}
    (hk : k ∈ kv.2.params) : k ∈ popParams m := by
  unfold popParams; rw [ha, hd]
  exact List.mem_append_left _ (List.mem_flatMap.2 ⟨kv, hkv, hk⟩)

theorem mem_popParams_split {m : Model α} (ha : m.arrayPop = none) {s : Strat α} (hs : s ∈ m.strats)
    {kv : String × Expr α} (hkv : kv ∈ s.split) {k : String} (hk : k ∈ kv.2.params) : k ∈ popParams m := by
  unfold popParams; rw [ha]
  exact List.mem_append_right _ (List.mem_flatMap.2 ⟨s, hs, List.mem_flatMap.2 ⟨kv, hkv, hk⟩⟩)

/-- the parameters a successful `initialPopulation` has necessarily read -/
def popNeeded (m : Model α) : List String :=
  match m.arrayPop with
  | some arr => arr.flatMap (fun e => e.params)
  | none => ((m.initDist.getD []).flatMap (fun kv => kv.2.params))
      ++ m.actions.flatMap (fun a => match a with
          | .stratify name => (match m.strats.find? (fun s => s.name == name) with
              | some s => s.split.flatMap (fun kv => kv.2.params)
              | none => [])
          | .rebalance r => r.props.flatMap (fun kv => kv.2.params))

/-- every stratification of the model has been applied (as `stratify_with` does: it records the
stratification and the build action together) and stratification names are distinct -/
def StratsApplied (m : Model α) : Prop :=
  ∀ s ∈ m.strats, BuildAction.stratify s.name ∈ m.actions ∧
    m.strats.find? (fun s' => s'.name == s.name) = some s

theorem popParams_subset_popNeeded (m : Model α) (hs : StratsApplied m) (k : String)
    (hk : k ∈ popParams m) : k ∈ popNeeded m := by
  unfold popParams at hk
  unfold popNeeded
  cases harr : m.arrayPop with
  | some arr => rw [harr] at hk; exact hk
  | none =>
    rw [harr] at hk
    simp only [List.mem_append, List.mem_flatMap] at hk ⊢
    rcases hk with hk | ⟨s, hs', kv, hkv, hkk⟩
    · exact Or.inl hk
    · obtain ⟨h1, h2⟩ := hs s hs'
      refine Or.inr ⟨_, h1, ?_⟩
      simp only [h2, List.mem_flatMap]
      exact ⟨kv, hkv, hkk⟩

end sites

/-! ### `Option`-monad folds -/
section folds
variable {β γ : Type}

theorem foldlM_congr {f g : γ → β → Option γ} : ∀ (l : List β) (init : γ),
    (∀ a ∈ l, ∀ acc, f acc a = g acc a) → l.foldlM f init = l.foldlM g init
  | [], _, _ => rfl
  | a :: l, init, h => by
    rw [List.foldlM_cons, List.foldlM_cons, h a List.mem_cons_self init]
    cases g init a with
    | none => rfl
    | some c => exact foldlM_congr l c (fun b hb => h b (List.mem_cons_of_mem _ hb))

/-- a successful fold ran its step function successfully on every element -/
theorem foldlM_some_all {f : γ → β → Option γ} : ∀ (l : List β) (init r : γ),
    l.foldlM f init = some r → ∀ a ∈ l, ∃ acc, (f acc a).isSome = true
  | [], _, _, _, a, ha => by cases ha
  | b :: l, init, r, h, a, ha => by
    rw [List.foldlM_cons] at h
    cases hb : f init b with
    | none => rw [hb] at h; cases h
    | some c =>
      rw [hb] at h
      rcases List.mem_cons.1 ha with rfl | ha'
      · exact ⟨init, by rw [hb]; rfl⟩
      · exact foldlM_some_all l c r h a ha'

/-- a successful `mapM` evaluated every element successfully -/
theorem mapM_some_all {f : β → Option γ} {l : List β} {w : List γ} (h : l.mapM f = some w) :
    ∀ a ∈ l, (f a).isSome = true := by
  intro a ha
  cases hfa : f a with
  | some _ => rfl
  | none =>
    have := (mapM_eq_none_iff (f := f) (l := l)).2 ⟨a, ha, hfa⟩
    rw [h] at this; cases this

end folds

/-! ### evaluation only reads the mentioned parameters, and needs them -/
section eval
variable {α : Type} [Zero α] [One α] [Add α] [Sub α] [Mul α] [Div α] [LT α] [DecidableLT α]

omit [One α] in
theorem evalStatic_congr (p q : List (String × α)) (e : Expr α)
    (h : ∀ k ∈ e.params, alookup p k = alookup q k) : evalStatic p e = evalStatic q e :=
  eval_congr_params p q 0 [] e h

omit [One α] in
theorem eval_bound (env : Env α) (e : Expr α) (h : (e.eval env).isSome = true) :
    ∀ k ∈ e.params, (alookup env.params k).isSome = true := by
  rw [eval_isSome, Bool.and_eq_true, allBound_iff] at h
  exact h.1

omit [One α] in
theorem evalStatic_bound (p : List (String × α)) (e : Expr α) (h : (evalStatic p e).isSome = true) :
    ∀ k ∈ e.params, (alookup p k).isSome = true :=
  eval_bound ⟨p, 0, []⟩ e h

/-! #### flow weights -/

omit [One α] in
/-- the two weight stages composed are direct evaluation of every realised weight at `(t, x)` -/
theorem weights_total (m : Model α) (p : List (String × α)) (t : α) (x : List α) :
    (staticFlowWeights m p).bind (flowWeights m ⟨p, t, x⟩) =
      m.flows.mapM (fun f => (realised f).eval ⟨p, t, x⟩) := by
  cases hs : staticFlowWeights m p with
  | some s => exact split_list p t x m.flows s hs
  | none =>
    rw [Option.bind_none]; symm
    rw [staticFlowWeights_eq, static_none_iff] at hs
    obtain ⟨f, hf, hu, hb⟩ := hs
    rw [mapM_eq_none_iff]
    refine ⟨f, hf, ?_⟩
    have := static_eval_isSome p t x _ hu
    rw [hb] at this
    cases h : (realised f).eval ⟨p, t, x⟩ with
    | none => rfl
    | some _ => rw [h] at this; cases this

omit [One α] in
theorem weights_congr (m : Model α) (p q : List (String × α)) (t : α) (x : List α)
    (h : ∀ k ∈ flowParams m, alookup p k = alookup q k) :
    m.flows.mapM (fun f => (realised f).eval ⟨p, t, x⟩) = m.flows.mapM (fun f => (realised f).eval ⟨q, t, x⟩) :=
  mapM_congr (fun _ hf => eval_congr_params p q t x _ (fun _ hk => h _ (mem_flowParams hf hk)))

/-! #### mixing matrix -/

theorem mixingMatrix_congr (m : Model α) (p q : List (String × α)) (t : α) (x : List α)
    (h : ∀ k ∈ mixParams m, alookup p k = alookup q k) :
    mixingMatrix m ⟨p, t, x⟩ = mixingMatrix m ⟨q, t, x⟩ := by
  unfold mixingMatrix
  have : m.mixingMats.mapM (evalMatrix ⟨p, t, x⟩) = m.mixingMats.mapM (evalMatrix ⟨q, t, x⟩) := by
    apply mapM_congr
    intro mat hmat
    unfold evalMatrix
    apply mapM_congr
    intro row hrow
    apply mapM_congr
    intro e he
    exact eval_congr_params p q t x e (fun _ hk => h _ (mem_mixParams hmat hrow he hk))
  rw [this]

theorem mixingMatrix_bound (m : Model α) (env : Env α) (h : (mixingMatrix m env).isSome = true) :
    ∀ k ∈ mixParams m, (alookup env.params k).isSome = true := by
  unfold mixingMatrix at h
  cases hm : m.mixingMats.mapM (evalMatrix env) with
  | none => rw [hm] at h; cases h
  | some mats =>
    intro k hk
    simp only [mixParams, List.mem_flatMap] at hk
    obtain ⟨mat, hmat, row, hrow, e, he, hke⟩ := hk
    have h1 := mapM_some_all hm mat hmat
    unfold evalMatrix at h1
    obtain ⟨rows, hrows⟩ := Option.isSome_iff_exists.1 h1
    have h2 := mapM_some_all hrows row hrow
    obtain ⟨vals, hvals⟩ := Option.isSome_iff_exists.1 h2
    exact eval_bound env e (mapM_some_all hvals e he) k hke

/-! #### compartment infectiousness -/

/-- the innermost step of `compInfectiousness` -/
def ciStep (m : Model α) (params : List (String × α)) (sname comp : String) (acc : List α)
    (sa : String × Option (Adj α)) : Option (List α) :=
  match sa.2 with
  | none => some acc
  | some adj => do
    let v ← evalStatic params adj.expr
    let targets := Build.getMatching m comp [(sname, sa.1)]
    pure (targets.foldl (fun (acc : List α) c =>
      match compIdx m.comps c with
      | none => acc
      | some i => match adj with
        | .ovr _ => acc.set i v
        | .mul _ => acc.set i (v * acc.getD i 0)) acc)

theorem compInfectiousness_eq (m : Model α) (params : List (String × α)) :
    compInfectiousness m params =
      m.strats.foldlM (fun acc s => s.infAdj.foldlM (fun acc ia =>
        ia.2.foldlM (ciStep m params s.name ia.1) acc) acc) (List.replicate m.comps.length 1) := rfl

omit [One α] in
theorem ciStep_congr (m : Model α) (p q : List (String × α)) (sname comp : String) (acc : List α)
    (sa : String × Option (Adj α))
    (h : ∀ a, sa.2 = some a → ∀ k ∈ a.expr.params, alookup p k = alookup q k) :
    ciStep m p sname comp acc sa = ciStep m q sname comp acc sa := by
  obtain ⟨st, o⟩ := sa
  cases o with
  | none => rfl
  | some a =>
    simp only [ciStep]
    rw [evalStatic_congr p q a.expr (h a rfl)]

theorem compInfectiousness_congr (m : Model α) (p q : List (String × α))
    (h : ∀ k ∈ infParams m, alookup p k = alookup q k) :
    compInfectiousness m p = compInfectiousness m q := by
  rw [compInfectiousness_eq, compInfectiousness_eq]
  apply foldlM_congr
  intro s hs acc
  apply foldlM_congr
  intro ia hia acc
  apply foldlM_congr
  intro sa hsa acc
  apply ciStep_congr
  intro a ha k hk
  obtain ⟨st, o⟩ := sa
  simp only at ha
  subst ha
  exact h k (mem_infParams hs hia hsa hk)

theorem compInfectiousness_bound (m : Model α) (p : List (String × α))
    (h : (compInfectiousness m p).isSome = true) : ∀ k ∈ infParams m, (alookup p k).isSome = true := by
  obtain ⟨ci, hci⟩ := Option.isSome_iff_exists.1 h
  rw [compInfectiousness_eq] at hci
  intro k hk
  simp only [infParams, List.mem_flatMap] at hk
  obtain ⟨s, hs, ia, hia, sa, hsa, hke⟩ := hk
  obtain ⟨acc1, h1⟩ := foldlM_some_all _ _ _ hci s hs
  obtain ⟨r1, hr1⟩ := Option.isSome_iff_exists.1 h1
  obtain ⟨acc2, h2⟩ := foldlM_some_all _ _ _ hr1 ia hia
  obtain ⟨r2, hr2⟩ := Option.isSome_iff_exists.1 h2
  obtain ⟨acc3, h3⟩ := foldlM_some_all _ _ _ hr2 sa hsa
  obtain ⟨st, o⟩ := sa
  cases o with
  | none => simp at hke
  | some a =>
    simp only at hke
    simp only [ciStep] at h3
    cases hv : evalStatic p a.expr with
    | none => rw [hv] at h3; cases h3
    | some v => exact evalStatic_bound p a.expr (by rw [hv]; rfl) k hke

/-! #### one evaluation of the right-hand side -/

/-- the parameter-free part of `step` -/
def outOf (b : Backend) (w xc : List α) (mix : Matrix α) (ci : List α) : StepOut α :=
  let mp := if b.procType.isSome then infectiousMultipliers b xc mix ci else ([], [])
  let fr := flowRates b w xc mp.1
  { weights := w, mults := mp.1, perStrain := mp.2, mixing := mix, compInf := ci, flowRates := fr,
    compRates := compRates b fr }

/-- `step` reads the parameters through exactly three evaluations, all at THIS `(t, cleanV x)`:
the realised weights, the mixing matrix and the infectiousness adjustments -/
theorem step_form (m : Model α) (b : Backend) (p : List (String × α)) (t : α) (x : List α) :
    step m b p t x =
      (m.flows.mapM (fun f => (realised f).eval ⟨p, t, cleanV x⟩)).bind fun w =>
      (mixingMatrix m ⟨p, t, cleanV x⟩).bind fun mix =>
      (compInfectiousness m p).bind fun ci => some (outOf b w (cleanV x) mix ci) := by
  rw [← weights_total]
  unfold step
  cases staticFlowWeights m p with
  | none => rfl
  | some st =>
    simp only [Option.bind_eq_bind, Option.bind_some]
    cases flowWeights m ⟨p, t, cleanV x⟩ st with
    | none => rfl
    | some w =>
      cases mixingMatrix m ⟨p, t, cleanV x⟩ with
      | none => rfl
      | some mix =>
        cases compInfectiousness m p with
        | none => rfl
        | some ci => rfl

theorem step_congr (m : Model α) (b : Backend) (p q : List (String × α)) (t : α) (x : List α)
    (h : ∀ k ∈ stepParams m, alookup p k = alookup q k) : step m b p t x = step m b q t x := by
  have hf : ∀ k ∈ flowParams m, alookup p k = alookup q k :=
    fun k hk => h k (by simp [stepParams, hk])
  have hi : ∀ k ∈ infParams m, alookup p k = alookup q k :=
    fun k hk => h k (by simp [stepParams, hk])
  have hm : ∀ k ∈ mixParams m, alookup p k = alookup q k :=
    fun k hk => h k (by simp [stepParams, hk])
  rw [step_form, step_form, weights_congr m p q t _ hf, mixingMatrix_congr m p q t _ hm,
    compInfectiousness_congr m p q hi]

theorem step_bound (m : Model α) (b : Backend) (p : List (String × α)) (t : α) (x : List α)
    (h : (step m b p t x).isSome = true) : ∀ k ∈ stepParams m, (alookup p k).isSome = true := by
  rw [step_form] at h
  cases hw : m.flows.mapM (fun f => (realised f).eval ⟨p, t, cleanV x⟩) with
  | none => rw [hw] at h; cases h
  | some w =>
    cases hmx : mixingMatrix m ⟨p, t, cleanV x⟩ with
    | none => rw [hw, hmx] at h; cases h
    | some mix =>
      cases hci : compInfectiousness m p with
      | none => rw [hw, hmx, hci] at h; cases h
      | some ci =>
        intro k hk
        simp only [stepParams, List.mem_append] at hk
        rcases hk with (hk | hk) | hk
        · simp only [flowParams, List.mem_flatMap] at hk
          obtain ⟨f, hf, hkf⟩ := hk
          exact eval_bound ⟨p, t, cleanV x⟩ _ (mapM_some_all hw f hf) k hkf
        · exact compInfectiousness_bound m p (by rw [hci]; rfl) k hk
        · exact mixingMatrix_bound m ⟨p, t, cleanV x⟩ (by rw [hmx]; rfl) k hk

/-! #### initial population -/

omit [One α] in
theorem evalDict_congr (p q : List (String × α)) (d : List (String × Expr α))
    (h : ∀ kv ∈ d, ∀ k ∈ kv.2.params, alookup p k = alookup q k) : evalDict p d = evalDict q d := by
  unfold evalDict
  apply mapM_congr
  intro kv hkv
  rw [evalStatic_congr p q kv.2 (h kv hkv)]

omit [One α] in
theorem evalDict_bound (p : List (String × α)) (d : List (String × Expr α))
    (h : (evalDict p d).isSome = true) : ∀ kv ∈ d, ∀ k ∈ kv.2.params, (alookup p k).isSome = true := by
  obtain ⟨vals, hv⟩ := Option.isSome_iff_exists.1 h
  unfold evalDict at hv
  intro kv hkv k hk
  have := mapM_some_all hv kv hkv
  cases he : evalStatic p kv.2 with
  | none => simp [he] at this
  | some v => exact evalStatic_bound p kv.2 (by rw [he]; rfl) k hk

/-- one build action of `calculate_initial_population` -/
def ipStep (m : Model α) (params : List (String × α)) (st : List Comp × List α) (a : BuildAction α) :
    Option (List Comp × List α) :=
  match a with
  | .stratify name => do
      let s ← m.strats.find? (fun s => s.name == name)
      let split ← evalDict params s.split
      let ix := stratIndexArrays st.1 s
      pure (Build.stratifyComps st.1 s, stratifyValues ix s.strata split st.2)
  | .rebalance r => do
      let props ← evalDict params r.props
      pure (st.1, rebalance m.comps r.strat r.destFilter props st.2)

omit [One α] in
theorem initialPopulation_dist (m : Model α) (params : List (String × α)) (dist : List (String × Expr α))
    (h1 : m.arrayPop = none) (h2 : m.initDist = some dist) :
    initialPopulation m params =
      (evalDict params dist).bind fun dvals =>
        (m.actions.foldlM (ipStep m params)
          (m.origNames.map (fun n => (⟨n, []⟩ : Comp)),
           m.origNames.map (fun n => (alookup dvals n).getD 0))).bind (fun r => some r.2) := by
  unfold initialPopulation
  rw [h1]
  simp only [h2, Option.bind_eq_bind, Option.bind_some, Option.pure_def]
  rfl

omit [One α] in
theorem ipStep_congr (m : Model α) (p q : List (String × α)) (st : List Comp × List α) (a : BuildAction α)
    (ha : a ∈ m.actions) (harr : m.arrayPop = none)
    (h : ∀ k, k ∈ popParams m ∨ k ∈ rebalanceParams m → alookup p k = alookup q k) :
    ipStep m p st a = ipStep m q st a := by
  cases a with
  | stratify name =>
    simp only [ipStep]
    cases hf : m.strats.find? (fun s => s.name == name) with
    | none => rfl
    | some s =>
      simp only [Option.bind_eq_bind, Option.bind_some]
      rw [evalDict_congr p q s.split (fun kv hkv k hk =>
        h k (Or.inl (mem_popParams_split harr (List.mem_of_find?_eq_some hf) hkv hk)))]
  | rebalance r =>
    simp only [ipStep]
    rw [evalDict_congr p q r.props (fun kv hkv k hk => h k (Or.inr (mem_rebalanceParams ha hkv hk)))]

omit [One α] in
theorem initialPopulation_congr (m : Model α) (p q : List (String × α))
    (h : ∀ k, k ∈ popParams m ∨ k ∈ rebalanceParams m → alookup p k = alookup q k) :
    initialPopulation m p = initialPopulation m q := by
  cases harr : m.arrayPop with
  | some arr =>
    unfold initialPopulation
    rw [harr]
    exact mapM_congr (fun e he => evalStatic_congr p q e (fun k hk =>
      h k (Or.inl (mem_popParams_array harr he hk))))
  | none =>
    cases hd : m.initDist with
    | none => unfold initialPopulation; rw [harr]; simp [hd]
    | some dist =>
      rw [initialPopulation_dist m p dist harr hd, initialPopulation_dist m q dist harr hd,
        evalDict_congr p q dist (fun kv hkv k hk => h k (Or.inl (mem_popParams_dist harr hd hkv hk)))]
      cases evalDict q dist with
      | none => rfl
      | some dvals =>
        simp only [Option.bind_some]
        rw [foldlM_congr (f := ipStep m p) (g := ipStep m q) m.actions _
          (fun a ha st => ipStep_congr m p q st a ha harr h)]

omit [One α] in
theorem initialPopulation_bound (m : Model α) (p : List (String × α))
    (h : (initialPopulation m p).isSome = true) : ∀ k ∈ popNeeded m, (alookup p k).isSome = true := by
  intro k hk
  cases harr : m.arrayPop with
  | some arr =>
    unfold initialPopulation at h
    rw [harr] at h
    simp only [popNeeded, harr, List.mem_flatMap] at hk
    obtain ⟨e, he, hke⟩ := hk
    obtain ⟨vals, hv⟩ := Option.isSome_iff_exists.1 h
    exact evalStatic_bound p e (mapM_some_all hv e he) k hke
  | none =>
    cases hd : m.initDist with
    | none => unfold initialPopulation at h; rw [harr] at h; simp [hd] at h
    | some dist =>
      rw [initialPopulation_dist m p dist harr hd] at h
      cases hdv : evalDict p dist with
      | none => rw [hdv] at h; cases h
      | some dvals =>
        rw [hdv, Option.bind_some] at h
        simp only [popNeeded, harr, hd, Option.getD_some, List.mem_append, List.mem_flatMap] at hk
        rcases hk with ⟨kv, hkv, hkk⟩ | ⟨a, ha, hka⟩
        · exact evalDict_bound p dist (by rw [hdv]; rfl) kv hkv k hkk
        · cases hfold : m.actions.foldlM (ipStep m p)
              (m.origNames.map (fun n => (⟨n, []⟩ : Comp)),
               m.origNames.map (fun n => (alookup dvals n).getD 0)) with
          | none => rw [hfold] at h; cases h
          | some r =>
            obtain ⟨st, hst⟩ := foldlM_some_all _ _ _ hfold a ha
            cases a with
            | stratify name =>
              simp only [ipStep] at hst
              cases hf : m.strats.find? (fun s => s.name == name) with
              | none => rw [hf] at hst; cases hst
              | some s =>
                rw [hf] at hst
                simp only [hf, List.mem_flatMap] at hka
                simp only [Option.bind_eq_bind, Option.bind_some] at hst
                obtain ⟨kv, hkv, hkk⟩ := hka
                cases hsp : evalDict p s.split with
                | none => rw [hsp] at hst; cases hst
                | some _ => exact evalDict_bound p s.split (by rw [hsp]; rfl) kv hkv k hkk
            | rebalance r =>
              simp only [ipStep] at hst
              simp only [List.mem_flatMap] at hka
              obtain ⟨kv, hkv, hkk⟩ := hka
              cases hsp : evalDict p r.props with
              | none => rw [hsp] at hst; cases hst
              | some _ => exact evalDict_bound p r.props (by rw [hsp]; rfl) kv hkv k hkk

end eval

/-! ### derived outputs -/
section derived
variable {α : Type} [Zero α] [One α] [Add α] [Sub α] [Mul α] [Div α] [LT α] [DecidableLT α]

theorem evalRequest_params_congr (m : Model α) (d : RunData α) (p q : List (String × α))
    (done : List (String × List α)) : ∀ r : Request α,
    (∀ e src, r = .func e src → ∀ k ∈ e.params, alookup p k = alookup q k) →
    evalRequest m { d with params := p } done r = evalRequest m { d with params := q } done r
  | .flow .., _ => rfl
  | .comp .., _ => rfl
  | .agg _, _ => rfl
  | .cum .., _ => rfl
  | .cv _, _ => rfl
  | .func e src, h => by
    simp only [evalRequest]
    cases src.mapM (alookup done) with
    | none => rfl
    | some srcs =>
      simp only [Option.bind_eq_bind, Option.bind_some]
      apply mapM_congr
      intro i _
      exact eval_congr_params p q _ _ e (h e src rfl)

theorem evalAll_params_congr (m : Model α) (d : RunData α) (p q : List (String × α))
    (reqs : List (ReqEntry α))
    (h : ∀ r ∈ reqs, ∀ e src, r.req = .func e src → ∀ k ∈ e.params, alookup p k = alookup q k) :
    evalAll m { d with params := p } reqs = evalAll m { d with params := q } reqs := by
  unfold evalAll
  apply foldlM_congr
  intro r hr done
  rw [evalRequest_params_congr m d p q done r.req (h r hr)]

/-- a successful `evalAll` over a non-empty time grid has evaluated every function request's
expression, so its parameters are bound -/
theorem evalAll_bound (m : Model α) (d : RunData α) (reqs : List (ReqEntry α))
    (h : (evalAll m d reqs).isSome = true) (ht : d.times ≠ []) :
    ∀ r ∈ reqs, ∀ e src, r.req = .func e src → ∀ k ∈ e.params, (alookup d.params k).isSome = true := by
  intro r hr e src hreq k hk
  obtain ⟨all, hall⟩ := Option.isSome_iff_exists.1 h
  unfold evalAll at hall
  obtain ⟨done, hdone⟩ := foldlM_some_all _ _ _ hall r hr
  rw [hreq] at hdone
  simp only [evalRequest] at hdone
  cases hs : src.mapM (alookup done) with
  | none => rw [hs] at hdone; cases hdone
  | some srcs =>
    rw [hs] at hdone
    simp only [Option.bind_eq_bind, Option.bind_some] at hdone
    cases hm : (List.range d.times.length).mapM (fun i =>
        e.eval ⟨d.params, d.times.getD i 0, srcs.map (fun s => s.getD i 0)⟩) with
    | none => rw [hm] at hdone; cases hdone
    | some vals =>
      have hpos : 0 < d.times.length := List.length_pos_iff.2 ht
      have := mapM_some_all hm 0 (by simp [hpos])
      exact eval_bound _ e this k hk

theorem derivedOutputs_params_congr (m : Model α) (d : RunData α) (p q : List (String × α))
    (h : ∀ r ∈ m.requests, ∀ e src, r.req = .func e src → ∀ k ∈ e.params, alookup p k = alookup q k) :
    derivedOutputs m { d with params := p } = derivedOutputs m { d with params := q } := by
  have h2 := evalAll_params_congr m d p q
    (m.requests.filter (fun r => (neededSet m.requests m.whitelist).contains r.name))
    (fun r hr => h r (List.mem_filter.1 hr).1)
  unfold derivedOutputs
  simp only [evalAll_params_congr m d p q m.requests h, h2]

theorem flowsForOutputs_congr (m : Model α) (b : Backend) (p q : List (String × α)) (times : List α)
    (outputs : List (List α))
    (h : ∀ k, k ∈ stepParams m ∨ k ∈ cvParams m → alookup p k = alookup q k) :
    flowsForOutputs m b p times outputs = flowsForOutputs m b q times outputs := by
  have hs : ∀ t x, step m b p t x = step m b q t x :=
    fun t x => step_congr m b p q t x (fun k hk => h k (Or.inl hk))
  have hc : ∀ (t : α) (x : List α), m.computed.mapM (fun (kv : String × Expr α) => kv.2.eval ⟨p, t, x⟩) =
      m.computed.mapM (fun (kv : String × Expr α) => kv.2.eval ⟨q, t, x⟩) :=
    fun t x => mapM_congr (fun kv hkv => eval_congr_params p q t x kv.2
      (fun k hk => h k (Or.inr (mem_cvParams hkv hk))))
  unfold flowsForOutputs
  simp only [hs, hc]

/-- what `flowsForOutputs` computes for one output row -/
def rowOut (m : Model α) (b : Backend) (params : List (String × α)) (ty : α × List α) :
    Option (List α × List α) := do
  let s ← step m b params ty.1 ty.2
  let cvs ← m.computed.mapM (fun kv => kv.2.eval ⟨params, ty.1, cleanV ty.2⟩)
  pure (s.flowRates, cvs)

theorem flowsForOutputs_rows (m : Model α) (b : Backend) (p : List (String × α)) (times : List α)
    (outputs : List (List α)) :
    flowsForOutputs m b p times outputs =
      ((times.zip outputs).mapM (rowOut m b p)).bind (fun rows =>
        some (rows.map (·.1), m.computed.zipIdx.map (fun kv => (kv.1.1, rows.map (fun r => r.2.getD kv.2 0))))) :=
  rfl

theorem flowsForOutputs_bound (m : Model α) (b : Backend) (p : List (String × α)) (times : List α)
    (outputs : List (List α)) (h : (flowsForOutputs m b p times outputs).isSome = true)
    (ht : times ≠ []) (ho : outputs ≠ []) :
    ∀ k, k ∈ stepParams m ∨ k ∈ cvParams m → (alookup p k).isSome = true := by
  obtain ⟨t, ts, rfl⟩ := List.exists_cons_of_ne_nil ht
  obtain ⟨y, ys, rfl⟩ := List.exists_cons_of_ne_nil ho
  rw [flowsForOutputs_rows] at h
  cases hrows : ((t :: ts).zip (y :: ys)).mapM (rowOut m b p) with
  | none => rw [hrows] at h; cases h
  | some rows =>
    have h0 := mapM_some_all hrows (t, y) (by simp)
    unfold rowOut at h0
    simp only at h0
    cases hst : step m b p t y with
    | none => rw [hst] at h0; cases h0
    | some s =>
      cases hcv : m.computed.mapM (fun (kv : String × Expr α) => kv.2.eval ⟨p, t, cleanV y⟩) with
      | none => rw [hst, hcv] at h0; cases h0
      | some cvs =>
        rintro k (hk | hk)
        · exact step_bound m b p t y (by rw [hst]; rfl) k hk
        · simp only [cvParams, List.mem_flatMap] at hk
          obtain ⟨kv, hkv, hkk⟩ := hk
          exact eval_bound ⟨p, t, cleanV y⟩ kv.2 (mapM_some_all hcv kv hkv) k hkk

end derived

section build
variable {α : Type} [Zero α] [One α] [Add α] [Sub α] [Mul α] [Div α] [NatCast α] [LT α] [DecidableLT α]

theorem filterMap_length_all {β γ : Type} (f : β → Option γ) : ∀ l : List β,
    (l.filterMap f).length = l.length → ∀ a ∈ l, (f a).isSome = true
  | [], _, a, ha => by cases ha
  | b :: l, h, a, ha => by
    cases hb : f b with
    | none =>
      rw [List.filterMap_cons_none hb] at h
      have := List.length_filterMap_le f l
      simp only [List.length_cons] at h
      omega
    | some c =>
      rw [List.filterMap_cons_some hb] at h
      simp only [List.length_cons, Nat.add_right_cancel_iff] at h
      rcases List.mem_cons.1 ha with rfl | ha'
      · rw [hb]; rfl
      · exact filterMap_length_all f l h a ha'

omit [Zero α] [One α] [Add α] [Sub α] [Mul α] [Div α] [NatCast α] [LT α] [DecidableLT α] in
theorem isConst_params (e : Expr α) (h : (Build.Expr.isConst e).isSome = true) : e.params = [] := by
  cases e <;> simp_all [Build.Expr.isConst, Expr.params]

theorem guardE_bind_ok {β : Type} (c : Bool) (msg : String) (f : Unit → Res β) (x : β)
    (h : (guardE c msg >>= f) = .ok x) : c = true ∧ f () = .ok x := by
  cases c with
  | false => simp [guardE, fail, bind, Except.bind] at h
  | true => exact ⟨rfl, by simpa [guardE, bind, Except.bind, pure, Except.pure] using h⟩

omit [Mul α] in
/-- `adjust_population_split` only accepts literal proportions, so it never introduces a rebalance
parameter -/
theorem adjustPopulationSplit_rebalanceParams (m m' : Model α) (d : Nat) (r : Rebalance α)
    (h : Build.adjustPopulationSplit m d r = .ok m') :
    (∀ kv ∈ r.props, kv.2.params = []) ∧ m'.actions = m.actions ++ [.rebalance r] ∧
      rebalanceParams m' = rebalanceParams m := by
  unfold Build.adjustPopulationSplit at h
  obtain ⟨_, h⟩ := guardE_bind_ok _ _ _ _ h
  cases hf : m.strats.find? (fun s => s.name == r.strat) with
  | none => rw [hf] at h; cases h
  | some s =>
    rw [hf] at h
    simp only at h
    obtain ⟨_, h⟩ := guardE_bind_ok _ _ _ _ h
    obtain ⟨hl, h⟩ := guardE_bind_ok _ _ _ _ h
    obtain ⟨_, h⟩ := guardE_bind_ok _ _ _ _ h
    simp only [pure, Except.pure, Except.ok.injEq] at h
    subst h
    have hc : ∀ kv ∈ r.props, kv.2.params = [] := fun kv hkv =>
      isConst_params kv.2 (filterMap_length_all (fun kv => Build.Expr.isConst kv.2) _ (eq_of_beq hl) kv hkv)
    refine ⟨hc, rfl, ?_⟩
    simp only [rebalanceParams, List.flatMap_append, List.flatMap_cons, List.flatMap_nil, List.append_nil]
    have : r.props.flatMap (fun kv => kv.2.params) = [] := by
      rw [List.flatMap_eq_nil_iff]; exact hc
    rw [this, List.append_nil]
end build


/-! ### example data for the non-vacuity `example`s of `Props/C09Model.lean` / `Props/C10Solvers.lean` -/
namespace Ex

def sY : Comp := ⟨"S", [("age", "young")]⟩
def sO : Comp := ⟨"S", [("age", "old")]⟩
def iY : Comp := ⟨"I", [("age", "young")]⟩
def iO : Comp := ⟨"I", [("age", "old")]⟩

def ageStrat : Strat Rat :=
  { kind := .plain, name := "age", strata := ["young", "old"], comps := ["S", "I"],
    split := [("young", .param "py"), ("old", .sub (.const 1) (.param "py"))],
    flowAdj := [],
    infAdj := [("I", [("young", none), ("old", some (.mul (.param "inf_old")))])],
    mixing := some [[.param "c11", .const 1], [.const 1, .param "c22"]] }

/-- an age-stratified S/I model: frequency-dependent infection (parameter, `Multiply` adjustment),
a time-dependent death rate, parameterised mixing matrix, infectiousness adjustment, initial
distribution, population split, a (literal) rebalance, a computed value and a function output -/
def exModel : Model Rat :=
  { t0 := 0, t1 := 2, dt := 1, nTimes := 3,
    comps := [sY, sO, iY, iO], origNames := ["S", "I"], infectious := ["I"],
    flows := [
      { kind := .infFreq, name := "infection", src := some sY, dst := some iY, param := .param "beta", adjs := [] },
      { kind := .infFreq, name := "infection", src := some sO, dst := some iO, param := .param "beta",
        adjs := [.mul (.param "susc_old")] },
      { kind := .death, name := "death", src := some iY, dst := none, param := .mul .time (.param "mu"), adjs := [] },
      { kind := .death, name := "death", src := some iO, dst := none, param := .mul .time (.param "mu"), adjs := [] } ],
    strats := [ageStrat], mixingCats := [[("age", "young")], [("age", "old")]],
    mixingMats := [[[.param "c11", .const 1], [.const 1, .param "c22"]]], strains := ["default"],
    initDist := some [("S", .param "n0"), ("I", .const 10)], arrayPop := none,
    actions := [.stratify "age", .rebalance ⟨"age", [], [("young", .const (1/4)), ("old", .const (3/4))]⟩],
    requests := [⟨"inc", .flow "infection" [] [] true, true⟩,
                 ⟨"scaled", .func (.mul (.param "k") (.comp 0)) ["inc"], true⟩],
    computed := [("tot", .mul (.param "cvp") .popSum)], whitelist := [], finalized := true }

/-- `prepare exModel` -/
def exBackend : Backend :=
  { nComps := 4, nFlows := 4, populationIdx := [0, 1, 2, 3], nonPopIdx := [], crudeIdx := [], replIdx := [],
    deathIdx := [2, 3], infFlowIdx := [0, 1], posMap := [(0, 2), (1, 3)],
    negMap := [(0, 0), (1, 1), (2, 2), (3, 3)], catIdx := [[0, 2], [1, 3]], categoryLookup := [0, 1, 0, 1],
    strainInfIdx := [[2, 3]], strainCatIdx := [[[0], [1]]], infStrainLookup := [0, 0], infCatLookup := [0, 1],
    procType := some true }

/-- all input parameters, plus one the model never mentions -/
def exParams : List (String × Rat) :=
  [("beta", 1/2), ("susc_old", 2), ("mu", 1/10), ("py", 1/2), ("inf_old", 3), ("c11", 2), ("c22", 1/2),
   ("n0", 990), ("cvp", 1), ("k", 1000), ("junk", 7)]

/-- the same values on the model's input parameters, in another order, with a different `junk` and another
stray key -/
def exParams' : List (String × Rat) :=
  [("junk", 8), ("k", 1000), ("cvp", 1), ("n0", 990), ("c22", 1/2), ("c11", 2), ("inf_old", 3), ("py", 1/2),
   ("mu", 1/10), ("susc_old", 2), ("beta", 1/2), ("stray", 0)]

/-- the same model with a parameterised rebalance proportion (cannot be built through
`adjustPopulationSplit`; used to show why `coincidence_initialPopulation` lists the extra keys) -/
def exModelRb : Model Rat :=
  { exModel with actions := [.stratify "age",
      .rebalance ⟨"age", [], [("young", .param "q"), ("old", .sub (.const 1) (.param "q"))]⟩] }

/-- a trajectory and the tables `flowsForOutputs` computes from it -/
def exTimes : List Rat := [0, 1, 2]
def exOutputs : List (List Rat) := [[200, 700, 30, 80], [190, 650, 40, 100], [180, 600, 50, 120]]
def exFlows : List (List Rat) :=
  [[17000/299, 59500/299, 0, 0], [1634/23, 5590/23, 4, 10], [1935/23, 6450/23, 10, 24]]
def exCvs : List (String × List Rat) := [("tot", [1010, 980, 950])]

/-- `initialPopulation exModel exParams` -/
def exY0 : List Rat := [495/2, 1485/2, 5/2, 15/2]

end Ex

end Summer.Proofs.ModelParams
