import Summer.Props.C05
import Summer.Proofs.ListLemmas
import Mathlib.Algebra.Order.Field.Basic
import Mathlib.Tactic.Ring
/-
Helper lemmas for property C03, "proportionate mixing": a FULL stratification whose mixing matrix has
every row equal to the population split `p` (`M[i][j] = p_j`), at a state that is split by `p`, has the
same frequency-dependent force of infection in every category as the unstratified model; with the
all-ones matrix the same holds for the density-dependent force of infection.
-/
open Summer Summer.Run Summer.Spec Summer.Proofs.FOI
set_option linter.unusedSectionVars false

namespace Summer.Proofs.AggregateMoreMixing

/-! ### lists -/
section lists
variable {β γ : Type}

/-- reading a uniform `flatMap` past its end gives the default -/
theorem getD_flatMap_uniform_out (l : List β) (f : β → List γ) (n : Nat)
    (h : ∀ x ∈ l, (f x).length = n) (i k : Nat) (hi : l.length ≤ i) (d : γ) :
    (l.flatMap f).getD (i * n + k) d = d := by
  apply Summer.Proofs.getD_of_le
  rw [length_flatMap_uniform l f n h]
  exact Nat.le_trans (Nat.mul_le_mul_right n hi) (Nat.le_add_right _ _)

theorem map_range_getD (p : List β) (d : β) (g : β → γ) :
    (List.range p.length).map (fun j => g (p.getD j d)) = p.map g := by
  apply List.ext_getElem
  · simp
  · intro i h1 h2
    have hi : i < p.length := by simpa using h2
    simp [List.getD_eq_getElem?_getD, List.getElem?_eq_getElem hi]

end lists

section field
variable {α : Type} [Field α]

/-- `Σ_{j < |p|} g p_j = Σ_{q ∈ p} g q` -/
theorem sumRange_getD (p : List α) (g : α → α) :
    sumRange p.length (fun j => g (p.getD j 0)) = sumL (p.map g) := by
  unfold sumRange
  rw [map_range_getD]

theorem sumL_map_mul_const (p : List α) (c : α) : sumL (p.map (fun q => q * c)) = sumL p * c := by
  induction p with
  | nil => simp [sumL]
  | cons x p ih => simp only [List.map_cons, sumL, ih]; ring

theorem sumL_map_const_mul (p : List α) (c : α) : sumL (p.map (fun q => c * q)) = c * sumL p := by
  induction p with
  | nil => simp [sumL]
  | cons x p ih => simp only [List.map_cons, sumL, ih]; ring

/-- `Σ (vmul a b) = Σ_{c < |a|} a_c b_c` (a shorter `b` contributes zeros) -/
theorem sumL_vmul_eq_sumRange (a b : List α) :
    sumL (vmul a b) = sumRange a.length (fun c => a.getD c 0 * b.getD c 0) :=
  dot_eq_sumRange a b a.length (Nat.min_le_left _ _)

/-! ### the split state and the split infectiousness, entrywise -/

/-- child `j` of compartment `c` holds `iv_c · p_j` (also when `c` is out of range: both sides `0`) -/
theorem getD_splitVals (iv p : List α) (c j : Nat) (hj : j < p.length) :
    (iv.flatMap (fun v => p.map (fun q => v * q))).getD (c * p.length + j) 0
      = iv.getD c 0 * p.getD j 0 := by
  by_cases hc : c < iv.length
  · rw [getD_flatMap_uniform iv _ p.length (fun _ _ => by simp) c j hc hj 0 0,
      getD_map' p _ j 0 0 hj]
  · have hc' : iv.length ≤ c := Nat.le_of_not_lt hc
    rw [getD_flatMap_uniform_out iv _ p.length (fun _ _ => by simp) c j hc' 0,
      Summer.Proofs.getD_of_le iv c 0 hc', zero_mul]

/-- every child of compartment `c` keeps the infectiousness of `c` -/
theorem getD_splitInf (inf : List α) (n c j : Nat) (hj : j < n) :
    (inf.flatMap (fun a => List.replicate n a)).getD (c * n + j) 0 = inf.getD c 0 := by
  by_cases hc : c < inf.length
  · rw [getD_flatMap_uniform inf _ n (fun _ _ => by simp) c j hc hj 0 0]
    simp [List.getD_eq_getElem?_getD, hj]
  · have hc' : inf.length ≤ c := Nat.le_of_not_lt hc
    rw [getD_flatMap_uniform_out inf _ n (fun _ _ => by simp) c j hc' 0,
      Summer.Proofs.getD_of_le inf c 0 hc']

/-- the category indexer that `prepare` computes for a full stratification into `n` categories of a
model with `k` infectious compartments: category `j` holds the `j`-th child of every compartment -/
theorem getD_splitCatIdx (k n j : Nat) (hj : j < n) :
    ((List.range n).map (fun j => (List.range k).map (fun c => c * n + j))).getD j []
      = (List.range k).map (fun c => c * n + j) := by
  rw [getD_map' (List.range n) _ j 0 [] (by simpa using hj)]
  simp [List.getD_eq_getElem?_getD, hj]

/-! ### infected population per category -/

/-- the infected population of the single category of the unstratified model -/
theorem infPop_unstratified (iv inf : List α) :
    infPop iv inf [List.range iv.length] 0 = sumL (vmul iv inf) := by
  rw [sumL_vmul_eq_sumRange]
  rfl

/-- `P_j = P · p_j` in `infPop` form -/
theorem infPop_split (iv inf p : List α) (j : Nat) (hj : j < p.length) :
    infPop (iv.flatMap (fun v => p.map (fun q => v * q)))
        (inf.flatMap (fun a => List.replicate p.length a))
        ((List.range p.length).map (fun j => (List.range iv.length).map (fun c => c * p.length + j))) j
      = sumL (vmul iv inf) * p.getD j 0 := by
  unfold infPop
  rw [getD_splitCatIdx iv.length p.length j hj, List.map_map, sumL_vmul_eq_sumRange]
  unfold sumRange
  rw [← sumL_map_mul_const]
  rw [List.map_map]
  congr 1
  apply List.map_congr_left
  intro c _
  simp only [Function.comp_apply]
  rw [getD_splitVals iv p c j hj, getD_splitInf inf p.length c j hj]
  ring

/-- `P_j = P · p_j` in the form computed by `forceOfInfection` -/
theorem category_infected_split (iv inf p : List α) (j : Nat) (hj : j < p.length) :
    sumL (gather (vmul (iv.flatMap (fun v => p.map (fun q => v * q)))
          (inf.flatMap (fun a => List.replicate p.length a)))
        (((List.range p.length).map
          (fun j => (List.range iv.length).map (fun c => c * p.length + j))).getD j []))
      = sumL (vmul iv inf) * p.getD j 0 := by
  rw [← infPop_split iv inf p j hj]
  have h := getD_infPops (iv.flatMap (fun v => p.map (fun q => v * q)))
    (inf.flatMap (fun a => List.replicate p.length a))
    ((List.range p.length).map (fun j => (List.range iv.length).map (fun c => c * p.length + j))) j
  rw [getD_map' _ _ j [] 0 (by simpa using hj)] at h
  exact h

/-! ### matrix entries -/

theorem mget_replicate (n : Nat) (row : List α) (i j : Nat) (hi : i < n) :
    mget (List.replicate n row) i j = row.getD j 0 := by
  unfold mget
  simp [List.getD_eq_getElem?_getD, hi]

theorem mget_ones (n i j : Nat) (hi : i < n) (hj : j < n) :
    mget (List.replicate n (List.replicate n (1 : α))) i j = 1 := by
  rw [mget_replicate n _ i j hi]
  simp [List.getD_eq_getElem?_getD, hj]

/-! ### the unstratified model -/

theorem foi_unstratified (iv inf : List α) (N : α) :
    (forceOfInfection iv inf [List.range iv.length] [[1]] [N]).1.getD 0 0 = sumL (vmul iv inf) ∧
    (forceOfInfection iv inf [List.range iv.length] [[1]] [N]).2.getD 0 0 = sumL (vmul iv inf) / N := by
  obtain ⟨h1, h2⟩ := Summer.Props.C05.foi_entry iv inf [List.range iv.length] [[1]] [N] 0 (by simp)
  rw [h1, h2]
  simp only [List.length_cons, List.length_nil, Nat.zero_add, sumRange_succ, sumRange_zero,
    infPop_unstratified, add_zero]
  constructor
  · show (1 : α) * _ = _
    rw [one_mul]
  · show (1 : α) * (_ / N) = _
    rw [one_mul]

/-! ### the stratified model -/

theorem length_foi (infVals infness : List α) (ci : List (List Nat)) (mix : Matrix α) (cp : List α) :
    (forceOfInfection infVals infness ci mix cp).1.length = mix.length ∧
    (forceOfInfection infVals infness ci mix cp).2.length = mix.length := by
  rw [Summer.Props.C05.foi_eq_spec]
  simp

/-- frequency-dependent force of infection under proportionate mixing (an empty stratum `p_j = 0`
contributes `0 · (0/0) = 0 = 0 · (P/N)`, and `N = 0` gives `0` on both sides, so neither `p_j ≠ 0` nor
`N ≠ 0` is needed) -/
theorem foi_frequency_split (iv inf p : List α) (N : α) (hsum : sumL p = 1)
    (i : Nat) (hi : i < p.length) :
    (forceOfInfection (iv.flatMap (fun v => p.map (fun q => v * q)))
        (inf.flatMap (fun a => List.replicate p.length a))
        ((List.range p.length).map (fun j => (List.range iv.length).map (fun c => c * p.length + j)))
        (List.replicate p.length p) (p.map (fun q => N * q))).2.getD i 0
      = sumL (vmul iv inf) / N := by
  rw [(Summer.Props.C05.foi_entry _ _ _ _ _ i (by simpa using hi)).2]
  simp only [List.length_map, List.length_range]
  rw [sumRange_congr p.length _ (fun j => p.getD j 0 * (sumL (vmul iv inf) / N))]
  · rw [sumRange_getD p (fun q => q * (sumL (vmul iv inf) / N)), sumL_map_mul_const, hsum, one_mul]
  · intro j hj
    rw [mget_replicate _ _ i j hi, infPop_split iv inf p j hj, getD_map' p _ j 0 0 hj]
    by_cases hne : p.getD j 0 = 0
    · rw [hne, zero_mul, zero_mul]
    · rw [mul_div_mul_right _ _ hne]

/-- density-dependent force of infection under the all-ones mixing matrix -/
theorem foi_density_split (iv inf p : List α) (cp : List α) (hsum : sumL p = 1)
    (i : Nat) (hi : i < p.length) :
    (forceOfInfection (iv.flatMap (fun v => p.map (fun q => v * q)))
        (inf.flatMap (fun a => List.replicate p.length a))
        ((List.range p.length).map (fun j => (List.range iv.length).map (fun c => c * p.length + j)))
        (List.replicate p.length (List.replicate p.length 1)) cp).1.getD i 0
      = sumL (vmul iv inf) := by
  rw [(Summer.Props.C05.foi_entry _ _ _ _ _ i (by simpa using hi)).1]
  simp only [List.length_map, List.length_range]
  rw [sumRange_congr p.length _ (fun j => sumL (vmul iv inf) * p.getD j 0)]
  · rw [sumRange_getD p (fun q => sumL (vmul iv inf) * q), sumL_map_const_mul, hsum, mul_one]
  · intro j hj
    rw [mget_ones _ i j hi hj, infPop_split iv inf p j hj, one_mul]

/-- with matrix rows `p` the density-dependent force is `(Σ_j p_j²) · P`, not `P` -/
theorem foi_density_rows_split (iv inf p : List α) (cp : List α) (i : Nat) (hi : i < p.length) :
    (forceOfInfection (iv.flatMap (fun v => p.map (fun q => v * q)))
        (inf.flatMap (fun a => List.replicate p.length a))
        ((List.range p.length).map (fun j => (List.range iv.length).map (fun c => c * p.length + j)))
        (List.replicate p.length p) cp).1.getD i 0
      = sumL (p.map (fun q => q * q)) * sumL (vmul iv inf) := by
  rw [(Summer.Props.C05.foi_entry _ _ _ _ _ i (by simpa using hi)).1]
  simp only [List.length_map, List.length_range]
  rw [sumRange_congr p.length _ (fun j => p.getD j 0 * p.getD j 0 * sumL (vmul iv inf))]
  · rw [sumRange_getD p (fun q => q * q * sumL (vmul iv inf)),
      ← sumL_map_mul_const (p.map (fun q => q * q)), List.map_map]
    rfl
  · intro j hj
    rw [mget_replicate _ _ i j hi, infPop_split iv inf p j hj]
    ring

/-! ### the general fact behind proportionate mixing: only the category populations matter -/

theorem gather_vmul (a b : List α) (row : List Nat) :
    gather (vmul a b) row = row.map (fun q => a.getD q 0 * b.getD q 0) := by
  unfold gather
  apply List.map_congr_left
  intro q _
  exact getD_vmul a b q

theorem sumL_map_div (l : List Nat) (f : Nat → α) (N : α) :
    sumL (l.map (fun j => f j / N)) = sumL (l.map f) / N := by
  induction l with
  | nil => simp [sumL]
  | cons x l ih => simp only [List.map_cons, sumL, ih]; rw [add_div]

/-- ANY strain, ANY category indexer with `n` categories, any state: if the mixing matrix has all rows
equal to `p` (no zero entry) and the category populations are `N · p_j`, then the frequency-dependent
force of infection is, in every category, the total infected population divided by `N`.
(`Σ p = 1` is not needed here.) -/
theorem foi_frequency_proportional_pops (infVals infness : List α) (ci : List (List Nat))
    (p : List α) (N : α) (hlen : ci.length = p.length) (hp : ∀ q ∈ p, q ≠ 0)
    (i : Nat) (hi : i < p.length) :
    (forceOfInfection infVals infness ci (List.replicate p.length p) (p.map (fun q => N * q))).2.getD i 0
      = sumL (ci.map (fun row => sumL (gather (vmul infVals infness) row))) / N := by
  rw [(Summer.Props.C05.foi_entry _ _ _ _ _ i (by simpa using hi)).2]
  rw [sumRange_congr ci.length _ (fun j => infPop infVals infness ci j / N)]
  · unfold sumRange
    rw [sumL_map_div]
    congr 2
    unfold infPop
    rw [map_range_getD ci [] (fun row => sumL (row.map (fun q => infVals.getD q 0 * infness.getD q 0)))]
    apply List.map_congr_left
    intro row _
    rw [gather_vmul]
  · intro j hj
    have hj' : j < p.length := hlen ▸ hj
    rw [mget_replicate _ _ i j hi, getD_map' p _ j 0 0 hj']
    have hne : p.getD j 0 ≠ 0 := hp _ (getD_mem p j 0 hj')
    rw [← mul_div_assoc, mul_comm (p.getD j 0), mul_div_mul_right _ _ hne]

end field
end Summer.Proofs.AggregateMoreMixing
