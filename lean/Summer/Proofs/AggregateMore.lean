import Summer.Proofs.AggregateFoiSimple
import Summer.Proofs.FOI
import Summer.Spec.AggregateMore
/-
Helper lemmas for property C03, part 9: aggregation of the force of infection for models with SEVERAL
mixing categories (an already stratified base model carrying mixing matrices), when the new
unadjusted stratification has no mixing matrix.
-/
open Summer Summer.Build Summer.Run Summer.Generated Summer.Spec Summer.Spec.AggregateMore
set_option linter.unusedSectionVars false
set_option linter.unnecessarySeqFocus false

namespace Summer.Proofs.AggregateMore
open Summer.Proofs

/-! ### reshaping a uniform list of rows -/
section reshape
variable {β : Type}

theorem drop_take_flatten (w : Nat) : ∀ (rows : List (List β)), (∀ r ∈ rows, r.length = w) →
    ∀ i (hi : i < rows.length), (rows.flatten.drop (i * w)).take w = rows[i]
  | [], _, i, hi => by simp at hi
  | r :: rs, h, 0, _ => by
      have hr := h r (by simp)
      simp only [Nat.zero_mul, List.drop_zero, List.flatten_cons, List.getElem_cons_zero]
      rw [← hr, List.take_left]
  | r :: rs, h, i + 1, hi => by
      have hr := h r (by simp)
      have e : (i + 1) * w = r.length + i * w := by rw [hr, Nat.add_mul, Nat.one_mul, Nat.add_comm]
      simp only [List.flatten_cons, List.getElem_cons_succ]
      rw [e, List.drop_append, List.drop_of_length_le (by omega), Nat.add_sub_cancel_left, List.nil_append]
      exact drop_take_flatten w rs (fun r' hr' => h r' (by simp [hr'])) i (by simpa using hi)

theorem reshapeRows_flatten (rows : List (List β)) (w : Nat) (h : ∀ r ∈ rows, r.length = w) :
    reshapeRows rows.flatten rows.length w = rows := by
  unfold reshapeRows
  apply List.ext_getElem
  · simp
  · intro i h1 h2
    simp only [List.getElem_map, List.getElem_range]
    exact drop_take_flatten w rows h i h2

theorem length_flatten_uniform (rows : List (List β)) (w : Nat) (h : ∀ r ∈ rows, r.length = w) :
    rows.flatten.length = rows.length * w := by
  induction rows with
  | nil => simp
  | cons r rs ih =>
    rw [List.flatten_cons, List.length_append, ih (fun r' hr' => h r' (by simp [hr'])), h r (by simp),
      List.length_cons, Nat.add_mul, Nat.one_mul, Nat.add_comm]

/-- the per-category local indexer of one strain, when all categories hold `w` infectious compartments -/
theorem strainCat_uniform (catIdx : List (List Nat)) (inf : List Nat) (w : Nat)
    (hu : ∀ row ∈ catIdx, (row.filter (fun j => inf.contains j)).length = w) :
    reshapeRows (locOf catIdx inf) catIdx.length ((locOf catIdx inf).length / catIdx.length)
      = catIdx.map (fun row => (row.filter (fun j => inf.contains j)).map (fun j => (indexOf? inf j).getD 0)) := by
  have hloc : locOf catIdx inf
      = (catIdx.map (fun row => (row.filter (fun j => inf.contains j)).map (fun j => (indexOf? inf j).getD 0))).flatten := by
    unfold locOf
    rw [List.filter_flatten, List.map_flatten, List.map_map]
    rfl
  have hrows : ∀ r ∈ catIdx.map (fun row => (row.filter (fun j => inf.contains j)).map
      (fun j => (indexOf? inf j).getD 0)), r.length = w := by
    intro r hr
    rw [List.mem_map] at hr
    obtain ⟨row, hrow, rfl⟩ := hr
    rw [List.length_map]
    exact hu row hrow
  rw [hloc, length_flatten_uniform _ w hrows, List.length_map]
  by_cases h0 : catIdx.length = 0
  · have : catIdx = [] := List.length_eq_zero_iff.1 h0
    subst this
    simp [reshapeRows]
  · rw [Nat.mul_div_cancel_left _ (Nat.pos_of_ne_zero h0)]
    have := reshapeRows_flatten _ w hrows
    rwa [List.length_map] at this

end reshape

/-- unfolding `catsUniform`: every strain has a common number of infectious compartments per category -/
theorem catsUniform_spec (b : Backend) (h : catsUniform b = true) (inf : List Nat) (hinf : inf ∈ b.strainInfIdx) :
    ∃ w, ∀ row ∈ b.catIdx, (row.filter (fun j => inf.contains j)).length = w := by
  unfold catsUniform at h
  rw [List.all_eq_true] at h
  have h1 := h inf hinf
  simp only [List.all_eq_true, beq_iff_eq, List.mem_map, forall_exists_index, and_imp,
    forall_apply_eq_imp_iff₂] at h1
  exact ⟨_, h1⟩


/-! ### category populations and infected populations as sums over the compartment list -/
section sums
variable {α : Type} [Field α]

/-- the predicate selecting the compartments of a mixing category -/
def catPred (cat : Strata) (c : Comp) : Bool := cat.all (fun kv => c.hasStratum kv.1 kv.2)

omit [Field α] in
theorem catIdxOf_eq (m : Model α) : catIdxOf m = m.mixingCats.map (fun cat => idxWhere m.comps (catPred cat)) := rfl

/-- population of a category -/
theorem catPop_comps (comps : List Comp) (P : Comp → Bool) (X : Comp → α) :
    sumL (gather (comps.map X) (idxWhere comps P)) = sumL ((comps.filter P).map X) := by
  unfold gather
  rw [idxWhere_eq, idxFrom_map_zip P comps (comps.map X) 0 _ (fun _ v => v) (by simp)
    (fun j h => by
      rw [Nat.zero_add, getD_eq_getElem _ _ _ (by simpa using h)]),
    zip_map_self, List.filter_map, List.map_map]
  rfl

theorem contains_idxWhere (comps : List Comp) (Q : Comp → Bool) (j : Nat) (hj : j < comps.length) :
    (idxWhere comps Q).contains j = Q comps[j] := by
  by_cases hq : Q comps[j] = true
  · rw [hq, List.contains_iff_mem, mem_idxWhere]
    exact ⟨hj, hq⟩
  · have hq' : Q comps[j] = false := by simpa using hq
    rw [hq']
    apply Bool.eq_false_iff.2
    intro hc
    rw [List.contains_iff_mem, mem_idxWhere] at hc
    obtain ⟨_, h⟩ := hc
    exact hq h

/-- infected population of a category (category predicate `P`, infectious predicate `Q`), the
infectiousness being given as a function `CI` of the compartment -/
theorem infPop_cat (comps : List Comp) (P Q : Comp → Bool) (X CI : Comp → α) :
    sumL (gather (vmul (gather (comps.map X) (idxWhere comps Q))
        (gather (comps.map CI) (idxWhere comps Q)))
      (((idxWhere comps P).filter (fun j => (idxWhere comps Q).contains j)).map
        (fun j => (indexOf? (idxWhere comps Q) j).getD 0)))
      = sumL ((comps.filter (fun c => P c && Q c)).map (fun c => X c * CI c)) := by
  unfold gather
  rw [List.map_map]
  have h1 : sumL (((idxWhere comps P).filter (fun j => (idxWhere comps Q).contains j)).map
      ((fun i => (vmul ((idxWhere comps Q).map (fun i => (comps.map X).getD i 0))
          ((idxWhere comps Q).map (fun i => (comps.map CI).getD i 0))).getD i 0) ∘
        (fun j => (indexOf? (idxWhere comps Q) j).getD 0)))
      = sumL (((idxWhere comps P).filter (fun j => (idxWhere comps Q).contains j)).map
          (fun j => (comps.map X).getD j 0 * (comps.map CI).getD j 0)) := by
    apply sumL_map_congr
    intro j hj
    rw [List.mem_filter, List.contains_iff_mem] at hj
    exact infected_local _ _ _ j hj.2
  rw [h1, sumL_filter_map, idxWhere_eq comps P,
    idxFrom_map_zip P comps (comps.map (fun c => X c * CI c)) 0 _ (fun c v => if Q c then v else 0) (by simp)
    (fun j h => by
      rw [Nat.zero_add, contains_idxWhere comps Q j h,
        getD_eq_getElem _ _ _ (by simpa using h), getD_eq_getElem _ _ _ (by simpa using h)]
      simp),
    zip_map_self, List.filter_map, List.map_map]
  have h2 : comps.filter (fun c => P c && Q c) = (comps.filter P).filter Q := by
    rw [List.filter_filter]
    congr 1
    funext c
    exact Bool.and_comm _ _
  rw [h2, sumL_filter_map (comps.filter P) Q (fun c => X c * CI c)]
  rfl

end sums


/-! ### the per-strain force-of-infection vectors with several categories -/
section perstrain
variable {α : Type} [Field α]

/-- the force-of-infection vector from the per-category infected populations `I` and populations `N` -/
def foiVecM (pt : Option Bool) (mix : Matrix α) (I N : List α) : List α :=
  if pt == some true then matVec mix (List.zipWith (· / ·) I N) else matVec mix I

/-- the per-strain force-of-infection vectors of a model whose categories are uniform, at a state and
with a compartment infectiousness given as functions of the compartment -/
theorem perStrain_multi {m : Model α} {b : Backend} (ht : FoiTables m b) (hu : catsUniform b = true)
    (X CI : Comp → α) (mix : Matrix α) :
    (infectiousMultipliers b (m.comps.map X) mix (m.comps.map CI)).2
      = m.strains.map (fun σ => foiVecM b.procType mix
          (m.mixingCats.map (fun cat => sumL ((m.comps.filter (fun c => catPred cat c && infPred m σ c)).map
            (fun c => X c * CI c))))
          (m.mixingCats.map (fun cat => sumL ((m.comps.filter (catPred cat)).map X)))) := by
  have hspec := catsUniform_spec b hu
  rw [ht.strainInfIdx, ht.catIdx] at hspec
  unfold infectiousMultipliers
  simp only
  rw [ht.strainInfIdx, ht.strainCatIdx, zip_map_self, List.map_map, List.map_map, ht.catIdx]
  apply List.map_congr_left
  intro σ hσ
  obtain ⟨w, hw⟩ := hspec (strainInfectiousIdx m σ) (List.mem_map_of_mem hσ)
  simp only [Function.comp]
  have hlen : m.mixingCats.length = (catIdxOf m).length := by simp [catIdxOf]
  rw [hlen, strainCat_uniform (catIdxOf m) _ w hw]
  have hN : (catIdxOf m).map (fun row => sumL (gather (m.comps.map X) row))
      = m.mixingCats.map (fun cat => sumL ((m.comps.filter (catPred cat)).map X)) := by
    rw [catIdxOf_eq, List.map_map]
    apply List.map_congr_left
    intro cat _
    exact catPop_comps m.comps (catPred cat) X
  have hI : ((catIdxOf m).map (fun row => (row.filter (fun j => (strainInfectiousIdx m σ).contains j)).map
        (fun j => (indexOf? (strainInfectiousIdx m σ) j).getD 0))).map
      (fun row => sumL (gather (vmul (gather (m.comps.map X) (strainInfectiousIdx m σ))
        (gather (m.comps.map CI) (strainInfectiousIdx m σ))) row))
      = m.mixingCats.map (fun cat => sumL ((m.comps.filter (fun c => catPred cat c && infPred m σ c)).map
          (fun c => X c * CI c))) := by
    rw [catIdxOf_eq, List.map_map, List.map_map]
    apply List.map_congr_left
    intro cat _
    simp only [Function.comp, strainInfectiousIdx_eq]
    exact infPop_cat m.comps (catPred cat) (infPred m σ) X CI
  unfold foiVecM forceOfInfection
  simp only [hN, hI]
end perstrain


/-! ### children belong to the categories of their parents -/
section cats
variable {α : Type}

theorem catPred_child (cat : Strata) (name st : String) (c : Comp) (hc : noKey c name)
    (hk : ∀ kv ∈ cat, kv.1 ≠ name) : catPred cat (c.stratify name st) = catPred cat c := by
  unfold catPred Comp.hasStratum
  rw [stratify_noKey c name st hc]
  apply all_congr_mem
  intro kv hkv
  simp only
  rw [alookup_append_other _ _ _ _ (hk kv hkv)]

theorem catKeysAvoid_spec (m : Model α) (name : String) (h : catKeysAvoid m name = true) :
    ∀ cat ∈ m.mixingCats, ∀ kv ∈ cat, kv.1 ≠ name := by
  intro cat hcat kv hkv
  unfold catKeysAvoid at h
  rw [List.all_eq_true] at h
  have := List.all_eq_true.1 (h cat hcat) kv hkv
  simpa using this
end cats

section agg
variable {α : Type} [Field α] [LT α] [DecidableLT α]

/-- the per-strain force-of-infection vectors of the stratified model at `x'` are those of the parent at
`agg x'` (any number of mixing categories; the infectiousness of a child is that of its parent) -/
theorem perStrain_agg_multi {m m' : Model α} {s : Strat α} {b b' : Backend} (ok : StratOk m.comps s)
    (ht : FoiTables m b) (ht' : FoiTables m' b') (hu : catsUniform b = true) (hu' : catsUniform b' = true)
    (hkeys : catKeysAvoid m s.name = true)
    (hstr : m'.strats = m.strats ++ [s]) (hstrains : m'.strains = m.strains)
    (hinf : m'.infectious = m.infectious) (hcats : m'.mixingCats = m.mixingCats)
    (hcomps : m'.comps = stratifyComps m.comps s) (extra : List (Flow α))
    (hflows : m'.flows = m.flows.flatMap (copiesA s) ++ extra)
    (hextra : ∀ g ∈ extra, IsSiblingFlow m.comps s g)
    (hne : s.strata ≠ []) (hname : s.name ≠ "strain")
    (x' : List α) (hx : x'.length = m'.comps.length) (mix : Matrix α) (CI CI' : Comp → α)
    (hchild : ∀ c ∈ m.comps, ∀ st, CI' (c.stratify s.name st) = CI c) (hsame : ∀ c ∈ m.comps, CI' c = CI c) :
    (infectiousMultipliers b' x' mix (m'.comps.map CI')).2
      = (infectiousMultipliers b (agg m.comps s x') mix (m.comps.map CI)).2 := by
  have hnd' : m'.comps.Nodup := by
    rw [hcomps]; exact stratifyComps_nodup _ _ ok.fresh ok.nodup ok.strataNodup
  have hx2 : x'.length = (stratifyComps m.comps s).length := by rw [← hcomps]; exact hx
  have hxe : x' = m'.comps.map (fun c => popOf m'.comps x' (some c)) := eq_map_popOf _ hnd' x' hx
  have hae := agg_eq_map ok x' hx2
  have hpt := procType_eq ht ht' hne extra hflows hextra
  have hk := catKeysAvoid_spec m s.name hkeys
  rw [hae]
  conv_lhs => rw [hxe]
  rw [perStrain_multi ht' hu', perStrain_multi ht hu, hstrains, hpt, hcats]
  apply List.map_congr_left
  intro σ _
  congr 1
  · apply List.map_congr_left
    intro cat hcat
    rw [hcomps]
    rw [infSum_agg m.comps s (fun c => catPred cat c && infPred m σ c) (fun c => catPred cat c && infPred m' σ c) _
      (fun c hc st => by
        rw [infPred_child m m' s hstr hinf hname σ c (freshFor_mem ok.fresh c hc) st,
          catPred_child cat s.name st c (freshFor_mem ok.fresh c hc) (hk cat hcat)])
      (fun c _ => by rw [infPred_same m m' s hstr hinf hname σ c])]
    apply sumL_map_congr
    intro c hc
    have hcm : c ∈ m.comps := (List.mem_filter.1 hc).1
    by_cases hp : isStratified s c = true
    · simp only [hp, if_true]
      rw [← sumL_map_mul_right]
      apply sumL_map_congr
      intro st _
      rw [hchild c hcm st]
    · simp only [hp, Bool.false_eq_true, if_false, hsame c hcm]
  · apply List.map_congr_left
    intro cat hcat
    rw [hcomps]
    exact infSum_agg m.comps s (catPred cat) (catPred cat) _
      (fun c hc st => catPred_child cat s.name st c (freshFor_mem ok.fresh c hc) (hk cat hcat))
      (fun c _ => rfl)
end agg


/-! ### the category of an infection flow -/
section lookup
variable {α : Type}

/-- the number of the (last) category a compartment belongs to, `0` when it belongs to none -/
def catNo (cats : List Strata) (c : Comp) : Nat :=
  cats.zipIdx.foldl (fun acc r => if catPred r.1 c then r.2 else acc) 0

theorem catFold_eq (comps : List Comp) (j : Nat) (hj : j < comps.length) :
    ∀ (cats : List Strata) (off acc : Nat),
      ((cats.map (fun cat => idxWhere comps (catPred cat))).zipIdx off).foldl
          (fun acc r => if r.1.contains j then r.2 else acc) acc
        = (cats.zipIdx off).foldl (fun acc r => if catPred r.1 comps[j] then r.2 else acc) acc
  | [], _, _ => rfl
  | cat :: cats, off, acc => by
      simp only [List.map_cons, List.zipIdx_cons, List.foldl_cons, contains_idxWhere comps (catPred cat) j hj]
      exact catFold_eq comps j hj cats (off + 1) _

theorem catFold_congr (c c' : Comp) :
    ∀ (cats : List Strata) (off acc : Nat), (∀ cat ∈ cats, catPred cat c' = catPred cat c) →
      (cats.zipIdx off).foldl (fun acc r => if catPred r.1 c' then r.2 else acc) acc
        = (cats.zipIdx off).foldl (fun acc r => if catPred r.1 c then r.2 else acc) acc
  | [], _, _, _ => rfl
  | cat :: cats, off, acc, h => by
      simp only [List.zipIdx_cons, List.foldl_cons, h cat (by simp)]
      exact catFold_congr c c' cats (off + 1) _ (fun cat' hc => h cat' (by simp [hc]))

theorem catNo_congr (cats : List Strata) (c c' : Comp) (h : ∀ cat ∈ cats, catPred cat c' = catPred cat c) :
    catNo cats c' = catNo cats c := catFold_congr c c' cats 0 0 h

theorem catOf_eq (m : Model α) (f : Flow α) (c : Comp) (hsrc : f.src = some c) (hc : c ∈ m.comps) :
    catOf m f = catNo m.mixingCats c := by
  obtain ⟨j, hj, hl⟩ := indexOf?_mem m.comps c hc
  have hjl : j < m.comps.length := by
    by_contra hcon
    rw [List.getElem?_eq_none (by omega)] at hl
    cases hl
  rw [List.getElem?_eq_getElem hjl] at hl
  simp only [Option.some.injEq] at hl
  unfold catOf
  rw [hsrc]
  simp only [compIdx, hj, Option.getD_some]
  unfold catLookupOf
  rw [getD_eq_getElem _ _ _ (by simpa using hjl)]
  simp only [List.getElem_map, List.getElem_range]
  rw [catIdxOf_eq, catFold_eq m.comps j hjl m.mixingCats 0 0, hl]
  rfl

theorem catOf_none (m : Model α) (f : Flow α) (hsrc : f.src = none) : catOf m f = 0 := by
  unfold catOf; rw [hsrc]
end lookup

section copy
variable {α : Type} [Field α] [LT α] [DecidableLT α]

/-- a copy of a flow belongs to the category of its parent -/
theorem catOf_copy {m m' : Model α} {s : Strat α} (hfresh : freshFor m.comps s = true)
    (hkeys : catKeysAvoid m s.name = true) (hcats : m'.mixingCats = m.mixingCats)
    (f g : Flow α) (hg : g ∈ copiesA s f)
    (hsrc : ∀ d, f.src = some d → d ∈ m.comps) (hsrc' : ∀ d, g.src = some d → d ∈ m'.comps) :
    catOf m' g = catOf m f := by
  have hk := catKeysAvoid_spec m s.name hkeys
  obtain ⟨st, h1, _⟩ := copies_ends s f g hg
  cases hf : f.src with
  | none =>
    have : g.src = none := by
      rcases h1 with h | h
      · rw [h, hf]
      · rw [h, hf]; rfl
    rw [catOf_none m f hf, catOf_none m' g this]
  | some c =>
    have hc := hsrc c hf
    rw [catOf_eq m f c hf hc]
    rcases h1 with h | h
    · rw [hf] at h
      rw [catOf_eq m' g c h (hsrc' c h), hcats]
    · rw [hf] at h
      simp only [childEnd, Option.map_some] at h
      rw [catOf_eq m' g _ h (hsrc' _ h), hcats]
      apply catNo_congr
      intro cat hcat
      exact catPred_child cat s.name st c (freshFor_mem hfresh c hc) (hk cat hcat)

theorem multFn_copy_multi {m m' : Model α} {s : Strat α} (hfresh : freshFor m.comps s = true)
    (hname : s.name ≠ "strain") (hkeys : catKeysAvoid m s.name = true) (hcats : m'.mixingCats = m.mixingCats)
    (hstrains : m'.strains = m.strains) (ps : List (List α)) (f g : Flow α) (hg : g ∈ copiesA s f)
    (hsrc : ∀ d, f.src = some d → d ∈ m.comps) (hdst : ∀ d, f.dst = some d → d ∈ m.comps)
    (hsrc' : ∀ d, g.src = some d → d ∈ m'.comps) : multFn m' ps g = multFn m ps f := by
  unfold multFn
  rw [catOf_copy hfresh hkeys hcats f g hg hsrc hsrc', hstrains, strainOf_copy hfresh hname f g hg hdst]
end copy


/-! ### compartment infectiousness of children -/
section infness
variable {α : Type} [Zero α] [One α] [Add α] [Sub α] [Mul α] [Div α] [LT α] [DecidableLT α]

theorem foldlM_option_congr {β γ} (l : List β) (f g : γ → β → Option γ) (h : ∀ x ∈ l, ∀ a, f a x = g a x) :
    ∀ a, l.foldlM f a = l.foldlM g a := by
  induction l with
  | nil => intro a; rfl
  | cons x xs ih =>
    intro a
    rw [List.foldlM_cons, List.foldlM_cons, h x (by simp) a]
    cases g a x with
    | none => rfl
    | some a' => exact ih (fun y hy => h y (by simp [hy])) a'

theorem infAdjList_stratified (m m' : Model α) (s : Strat α) (hstr : m'.strats = m.strats ++ [s])
    (hia : s.infAdj = []) : infAdjList m' = infAdjList m := by
  unfold infAdjList
  rw [hstr, List.flatMap_append]
  simp [hia]

theorem infAdjList_strat (m : Model α) (e : InfAdjEntry α) (he : e ∈ infAdjList m) :
    ∃ t ∈ m.strats, e.strat = t.name := by
  unfold infAdjList at he
  simp only [List.mem_flatMap, List.mem_map] at he
  obtain ⟨t, ht, ia, _, sa, _, rfl⟩ := he
  exact ⟨t, ht, rfl⟩

theorem targets_child (e : InfAdjEntry α) (name st : String) (c : Comp) (hc : noKey c name) (hne : e.strat ≠ name) :
    e.targets (c.stratify name st) = e.targets c := by
  unfold InfAdjEntry.targets
  rw [stratify_noKey c name st hc]
  simp only
  rw [alookup_append_other _ _ _ _ hne]

/-- the infectiousness of a child is that of its parent: the new stratification has no infectiousness
adjustment and the old adjustments look at old stratifications only -/
theorem infSpec_child (m m' : Model α) (s : Strat α) (hstr : m'.strats = m.strats ++ [s]) (hia : s.infAdj = [])
    (hnames : ∀ t ∈ m.strats, t.name ≠ s.name) (params : List (String × α)) (c : Comp) (hc : noKey c s.name)
    (st : String) : infSpec m' params (c.stratify s.name st) = infSpec m params c := by
  unfold infSpec
  rw [infAdjList_stratified m m' s hstr hia]
  apply foldlM_option_congr
  intro e he a
  obtain ⟨t, ht, hes⟩ := infAdjList_strat m e he
  rw [targets_child e s.name st c hc (by rw [hes]; exact hnames t ht)]

theorem infSpec_same (m m' : Model α) (s : Strat α) (hstr : m'.strats = m.strats ++ [s]) (hia : s.infAdj = [])
    (params : List (String × α)) (c : Comp) : infSpec m' params c = infSpec m params c := by
  unfold infSpec
  rw [infAdjList_stratified m m' s hstr hia]

/-- the compartment infectiousness vector as a function of the compartment -/
theorem compInf_eq_map (m : Model α) (params : List (String × α)) (hnd : m.comps.Nodup) (ci : List α)
    (h : compInfectiousness m params = some ci) :
    ci = m.comps.map (fun c => (infSpec m params c).getD 0) := by
  rw [FOI.compInfectiousness_eq] at h
  have hlen : ci.length = m.comps.length := by
    rw [FOI.mfold_len m params _ _ ci h]; simp
  apply List.ext_getElem
  · simp [hlen]
  · intro i h1 h2
    have hi : i < m.comps.length := by omega
    have := (FOI.mfold_corr m hnd params i hi (infAdjList m) (List.replicate m.comps.length 1) (by simp)).1
    rw [h] at this
    have h1' : (List.replicate m.comps.length (1 : α)).getD i 0 = 1 := by
      simp [List.getD_eq_getElem?_getD, hi]
    rw [h1'] at this
    simp only [Option.map_some, List.getElem_map] at this ⊢
    have e : infSpec m params m.comps[i] = some (ci.getD i 0) := this.symm
    rw [e, Option.getD_some, getD_eq_getElem _ _ _ h1]
end infness

section names
variable {α : Type} [One α] [Div α] [NatCast α]
theorem stratifyWith_newName (m m' : Model α) (s : Strat α) (h : stratifyWith m s = .ok m') :
    ∀ t ∈ m.strats, t.name ≠ s.name := by
  unfold stratifyWith at h
  have h1 := (bind_guardE_ok _ _ _ _ h).1
  intro t ht e
  have : m.strats.any (fun t => t.name == s.name) = true := by
    rw [List.any_eq_true]
    exact ⟨t, ht, by simp [e]⟩
  simp [this] at h1
end names

/-! ### mixing matrices that do not read the state -/
section mixing
variable {α : Type} [Zero α] [One α] [Add α] [Sub α] [Mul α] [Div α] [LT α] [DecidableLT α]

theorem mixingMatrix_stateFree (m : Model α) (p : List (String × α)) (t : α) (x x' : List α)
    (h : mixingStateFree m = true) : mixingMatrix m ⟨p, t, x⟩ = mixingMatrix m ⟨p, t, x'⟩ := by
  unfold mixingStateFree at h
  rw [List.all_eq_true] at h
  unfold mixingMatrix
  have : m.mixingMats.mapM (evalMatrix ⟨p, t, x⟩) = m.mixingMats.mapM (evalMatrix ⟨p, t, x'⟩) := by
    apply mapM_option_congr
    intro mat hmat
    have h1 := List.all_eq_true.1 (h mat hmat)
    unfold evalMatrix
    apply mapM_option_congr
    intro row hrow
    have h2 := List.all_eq_true.1 (h1 row hrow)
    apply mapM_option_congr
    intro e he
    exact eval_stateFree p t x x' e (h2 e he)
  rw [this]
end mixing

/-! ### the main statements -/
section main
variable {α : Type} [Field α] [LinearOrder α] [IsStrictOrderedRing α]

/-- the per-strain force-of-infection vectors, with the compartment infectiousness computed by the runner -/
theorem perStrain_agg_ci {m m' : Model α} {s : Strat α} {b b' : Backend}
    (hsw : stratifyWith m s = .ok m') (hb : prepare m = .ok b) (hb' : prepare m' = .ok b')
    (hfa : s.flowAdj = []) (hia : s.infAdj = []) (hmix : s.mixing = none) (hstrain : s.kind ≠ .strain)
    (hname : s.name ≠ "strain") (ok : StratOk m.comps s) (hne : s.strata ≠ [])
    (hu : catsUniform b = true) (hu' : catsUniform b' = true) (hkeys : catKeysAvoid m s.name = true)
    (params : List (String × α)) (ci ci' : List α)
    (hci : compInfectiousness m params = some ci) (hci' : compInfectiousness m' params = some ci')
    (x' : List α) (hx : x'.length = m'.comps.length) (mix : Matrix α) :
    (infectiousMultipliers b' x' mix ci').2 = (infectiousMultipliers b (agg m.comps s x') mix ci).2 := by
  obtain ⟨hcomps, extra, hflows, hextra, _⟩ := stratifyWith_shape m m' s hsw hfa hmix hstrain ok.fresh
  obtain ⟨hstr, hstrains, hinfs, hcats, _⟩ := stratifyWith_fields m m' s hsw hfa hmix hstrain
  have hnd' : m'.comps.Nodup := by
    rw [hcomps]; exact stratifyComps_nodup _ _ ok.fresh ok.nodup ok.strataNodup
  have hnames := stratifyWith_newName m m' s hsw
  rw [compInf_eq_map m params ok.nodup ci hci, compInf_eq_map m' params hnd' ci' hci']
  exact perStrain_agg_multi ok (foiTables_of_prepare m b hb) (foiTables_of_prepare m' b' hb') hu hu' hkeys hstr
    hstrains hinfs hcats hcomps extra hflows hextra hne hname x' hx mix _ _
    (fun c hc st => by
      rw [infSpec_child m m' s hstr hia hnames params c (freshFor_mem ok.fresh c hc) st])
    (fun c _ => by rw [infSpec_same m m' s hstr hia params c])

/-- **Every copy of an infection flow sees its parent's multiplier** (several mixing categories,
infectiousness adjustments of earlier stratifications allowed): the multipliers computed by the runner
for the stratified model at `x'` and for the parent at `agg x'`, with one and the same mixing matrix. -/
theorem multiplier_agg_core {m m' : Model α} {s : Strat α} {b b' : Backend}
    (hsw : stratifyWith m s = .ok m') (hb : prepare m = .ok b) (hb' : prepare m' = .ok b')
    (hfa : s.flowAdj = []) (hia : s.infAdj = []) (hmix : s.mixing = none) (hstrain : s.kind ≠ .strain)
    (hname : s.name ≠ "strain") (ok : StratOk m.comps s) (hne : s.strata ≠ [])
    (hu : catsUniform b = true) (hu' : catsUniform b' = true) (hkeys : catKeysAvoid m s.name = true)
    (params : List (String × α)) (ci ci' : List α)
    (hci : compInfectiousness m params = some ci) (hci' : compInfectiousness m' params = some ci')
    (x' : List α) (hx : x'.length = m'.comps.length) (mix : Matrix α)
    (i : Nat) (hi : i < m.flows.length) (hinf : isInfection m.flows[i].kind = true)
    (j : Nat) (hj : j < m'.flows.length) (hcopy : m'.flows[j] ∈ copiesA s m.flows[i]) :
    (infectiousMultipliers b' x' mix ci').1.getD (infPos m' j) 1
      = (infectiousMultipliers b (agg m.comps s x') mix ci).1.getD (infPos m i) 1 := by
  obtain ⟨hcomps, extra, hflows, hextra, _⟩ := stratifyWith_shape m m' s hsw hfa hmix hstrain ok.fresh
  obtain ⟨hstr, hstrains, hinfs, hcats, _⟩ := stratifyWith_fields m m' s hsw hfa hmix hstrain
  have hB := backendFor_of_prepare m b hb
  have hB' := backendFor_of_prepare m' b' hb'
  have ht := foiTables_of_prepare m b hb
  have ht' := foiTables_of_prepare m' b' hb'
  have hinf' : isInfection m'.flows[j].kind = true := by rw [copies_kind s _ _ hcopy]; exact hinf
  rw [mults_getD ht' _ _ _ j hj hinf', mults_getD ht _ _ _ i hi hinf,
    perStrain_agg_ci hsw hb hb' hfa hia hmix hstrain hname ok hne hu hu' hkeys params ci ci' hci hci' x' hx mix]
  exact multFn_copy_multi ok.fresh hname hkeys hcats hstrains _ _ _ hcopy
    (ends_of_backendFor hB _ (List.getElem_mem hi)).1 (ends_of_backendFor hB _ (List.getElem_mem hi)).2
    (ends_of_backendFor hB' _ (List.getElem_mem hj)).1

/-- **C03.rates_agg at the level of `rhs`, infection flows included**, for models with any number of
(uniform) mixing categories, mixing matrices that do not read the state, and any infectiousness
adjustments in the earlier stratifications. -/
theorem rhs_agg_multi {m m' : Model α} {s : Strat α} {b b' : Backend}
    (hsw : stratifyWith m s = .ok m') (hb : prepare m = .ok b) (hb' : prepare m' = .ok b')
    (hfa : s.flowAdj = []) (hia : s.infAdj = []) (hmix : s.mixing = none) (hstrain : s.kind ≠ .strain)
    (hage : s.kind = .age → "0" ∈ s.strata) (hname : s.name ≠ "strain")
    (ok : StratOk m.comps s) (hne : s.strata ≠ []) (hs : sourcedOk m = true)
    (hu : catsUniform b = true) (hu' : catsUniform b' = true) (hkeys : catKeysAvoid m s.name = true)
    (hmsf : mixingStateFree m = true)
    (hsf : ∀ g ∈ m'.flows, stateFree (realised g) = true)
    (params : List (String × α)) (t : α) (x' : List α) (hx : x'.length = m'.comps.length)
    (hnn : NN x') (r r' : List α)
    (hr' : rhs m' b' params x' t = some r') (hr : rhs m b params (agg m.comps s x') t = some r) :
    agg m.comps s r' = r := by
  have hn : (s.strata.length : α) ≠ 0 := by
    have : s.strata.length ≠ 0 := fun e => hne (List.length_eq_zero_iff.1 e)
    exact_mod_cast this
  obtain ⟨hcomps, extra, hflows, hextra, _⟩ := stratifyWith_shape m m' s hsw hfa hmix hstrain ok.fresh
  obtain ⟨hstr, hstrains, hinf, hcats, hmats'⟩ := stratifyWith_fields m m' s hsw hfa hmix hstrain
  have hB := backendFor_of_prepare m b hb
  have hB' := backendFor_of_prepare m' b' hb'
  have ht := foiTables_of_prepare m b hb
  have ht' := foiTables_of_prepare m' b' hb'
  obtain ⟨w', mix', ci', hw', hmx', hci', rfl⟩ := rhs_some' m' b' params x' t r' hr'
  obtain ⟨w, mix, ci, hw, hmx, hci, rfl⟩ := rhs_some' m b params _ t r hr
  have hnn2 : NN (agg m.comps s x') := aggBy_NN _ _ _ _ hnn
  rw [cleanV_of_NN x' hnn] at hw' hmx' ⊢
  rw [cleanV_of_NN _ hnn2] at hw hmx ⊢
  -- mixing matrices
  rw [mixingMatrix_congr m m' _ hmats', mixingMatrix_stateFree m params t x' (agg m.comps s x') hmsf, hmx] at hmx'
  simp only [Option.some.injEq] at hmx'
  subst hmx'
  -- weights in one environment
  have hw'' : m'.flows.mapM (fun f => (realised f).eval ⟨params, t, agg m.comps s x'⟩) = some w' := by
    rw [← hw']
    exact mapM_option_congr _ _ _ (fun g hg => (eval_stateFree params t _ _ _ (hsf g hg)).symm)
  rw [mapM_eval_eq_map _ _ _ hw, mapM_eval_eq_map _ _ _ hw'']
  -- multipliers
  have hps := perStrain_agg_ci hsw hb hb' hfa hia hmix hstrain hname ok hne hu hu' hkeys params ci ci' hci hci' x' hx mix
  have hprocM : ∀ i (hi : i < m.flows.length), isInfection m.flows[i].kind = true → b.procType.isSome = true := by
    intro i hi h
    rw [hB.procType, List.any_eq_true]
    exact ⟨_, List.getElem_mem hi, h⟩
  have hprocM' : ∀ i (hi : i < m'.flows.length), isInfection m'.flows[i].kind = true → b'.procType.isSome = true := by
    intro i hi h
    rw [hB'.procType, List.any_eq_true]
    exact ⟨_, List.getElem_mem hi, h⟩
  refine rates_agg_of_shape_mult ok hn hstrain hage extra hcomps hflows hextra hB hB' hs x' hx _ _ _
    (multFn m (infectiousMultipliers b (agg m.comps s x') mix ci).2)
    (multFn m' (infectiousMultipliers b' x' mix ci').2) ?_ ?_ ?_
  · intro i hi h
    rw [hprocM i hi h]
    exact mults_getD ht _ _ _ i hi h
  · intro i hi h
    rw [hprocM' i hi h]
    exact mults_getD ht' _ _ _ i hi h
  · intro f hf _ g hg
    rw [hps]
    have hgm : g ∈ m'.flows := by
      rw [hflows]
      exact List.mem_append_left _ (List.mem_flatMap.2 ⟨f, hf, hg⟩)
    exact multFn_copy_multi ok.fresh hname hkeys hcats hstrains _ f g hg (ends_of_backendFor hB f hf).1
      (ends_of_backendFor hB f hf).2 (ends_of_backendFor hB' g hgm).1
end main

end Summer.Proofs.AggregateMore
