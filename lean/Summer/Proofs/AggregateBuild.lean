import Summer.Proofs.Aggregate
/-
Helper lemmas for property C03, part 3: the shape of the model produced by `stratifyWith` for an
unadjusted stratification — the compartments are `stratifyComps`, the flows are the copiesA of the
parent flows followed (age stratifications) by ageing flows, each of which joins two children of one
parent compartment.
-/
open Summer Summer.Build Summer.Run Summer.Generated Summer.Spec
set_option linter.unusedSectionVars false
set_option linter.unnecessarySeqFocus false

namespace Summer.Proofs

theorem bind_guardE_ok {β} (c : Bool) (msg : String) (k : Unit → Res β) (r : β)
    (h : (guardE c msg >>= k) = .ok r) : c = true ∧ k () = .ok r := by
  cases c with
  | false => simp [guardE, fail, bind, Except.bind] at h
  | true => simpa [guardE, bind, Except.bind, pure, Except.pure] using h

theorem bind_ok {β γ} (x : Res β) (k : β → Res γ) (r : γ) (h : (x >>= k) = .ok r) :
    ∃ v, x = .ok v ∧ k v = .ok r := by
  cases x with
  | error e => simp [bind, Except.bind] at h
  | ok v => exact ⟨v, rfl, by simpa [bind, Except.bind] using h⟩

/-- invariants of a monadic left fold -/
theorem foldlM_inv {β γ} (P : β → Prop) (f : β → γ → Res β) (l : List γ)
    (hstep : ∀ acc x, x ∈ l → P acc → ∀ acc', f acc x = .ok acc' → P acc') :
    ∀ init r, P init → l.foldlM f init = .ok r → P r := by
  induction l with
  | nil =>
    intro init r hP h
    simp only [List.foldlM_nil, pure, Except.pure, Except.ok.injEq] at h
    subst h; exact hP
  | cons x xs ih =>
    intro init r hP h
    rw [List.foldlM_cons] at h
    obtain ⟨v, hv, hk⟩ := bind_ok _ _ _ h
    exact ih (fun acc y hy => hstep acc y (by simp [hy])) v r (hstep init x (by simp) hP v hv) hk

/-! ### association lists -/

theorem alookup_append_last {β} (l : List (String × β)) (k : String) (v : β)
    (h : l.any (fun p => p.1 == k) = false) : alookup (l ++ [(k, v)]) k = some v := by
  unfold alookup
  have : l.find? (fun p => p.1 == k) = none := by
    rw [List.find?_eq_none]
    intro p hp
    have := List.any_eq_false.1 h p hp
    simpa using this
  simp [List.find?_append, this]

theorem alookup_append_other {β} (l : List (String × β)) (k k' : String) (v : β) (h : k' ≠ k) :
    alookup (l ++ [(k, v)]) k' = alookup l k' := by
  unfold alookup
  rw [List.find?_append]
  cases hf : l.find? (fun p => p.1 == k') with
  | some p => simp
  | none =>
    have : (k == k') = false := by simpa using fun e => h e.symm
    simp [this]

theorem alookup_none_of_noKey {β} (l : List (String × β)) (k : String)
    (h : l.any (fun p => p.1 == k) = false) : alookup l k = none := by
  unfold alookup
  have : l.find? (fun p => p.1 == k) = none := by
    rw [List.find?_eq_none]
    intro p hp
    have := List.any_eq_false.1 h p hp
    simpa using this
  simp [this]

/-! ### matching compartments -/

/-- `getMatching` only looks at the compartment list -/
def matching (comps : List Comp) (name : String) (flt : Strata) : List Comp :=
  (comps.filter (fun c => c.name == name)).filter (fun c => flt.all (fun kv => alookup c.strata kv.1 == some kv.2))

theorem getMatching_eq {α} (m : Model α) (name : String) (flt : Strata) :
    getMatching m name flt = matching m.comps name flt := rfl

theorem mem_matching (comps : List Comp) (name : String) (flt : Strata) (c : Comp) :
    c ∈ matching comps name flt ↔ c ∈ comps ∧ c.name = name ∧ ∀ kv ∈ flt, alookup c.strata kv.1 = some kv.2 := by
  unfold matching
  simp only [List.mem_filter, beq_iff_eq, List.all_eq_true, and_assoc]

section sibling
variable {α : Type}

/-- the unique compartments matched by the source and destination filters of an ageing flow are two
children of one parent -/
theorem matching_sibling {comps : List Comp} {s : Strat α} (hfresh : freshFor comps s = true)
    (c : Comp) (hc : c ∈ comps) (a b : String) (c1 c2 : Comp)
    (h1 : matching (stratifyComps comps s) c.name (c.stratify s.name a).strata = [c1])
    (h2 : matching (stratifyComps comps s) c.name (c.stratify s.name b).strata = [c2]) :
    ∃ c0 ∈ comps, c1 = c0.stratify s.name a ∧ c2 = c0.stratify s.name b := by
  have hcK := freshFor_mem hfresh c hc
  rw [stratify_noKey c s.name a hcK] at h1
  rw [stratify_noKey c s.name b hcK] at h2
  simp only at h1 h2
  -- a child matched by the filter `c.strata ++ [(name, v)]` is a child in stratum `v`
  have key : ∀ (v : String) (d : Comp), d ∈ matching (stratifyComps comps s) c.name (c.strata ++ [(s.name, v)]) →
      ∃ c0 ∈ comps, isStratified s c0 = true ∧ v ∈ s.strata ∧ d = c0.stratify s.name v := by
    intro v d hd
    rw [mem_matching] at hd
    obtain ⟨hmem, _, hflt⟩ := hd
    have hv : alookup d.strata s.name = some v := hflt (s.name, v) (by simp)
    rw [mem_stratifyComps] at hmem
    obtain ⟨c0, hc0, hcase⟩ := hmem
    have hc0K := freshFor_mem hfresh c0 hc0
    rcases hcase with ⟨hp0, st0, hst0, rfl⟩ | ⟨_, rfl⟩
    · rw [stratify_noKey c0 s.name st0 hc0K] at hv
      simp only at hv
      rw [alookup_append_last _ _ _ hc0K] at hv
      simp only [Option.some.injEq] at hv
      subst hv
      exact ⟨c0, hc0, hp0, hst0, rfl⟩
    · rw [alookup_none_of_noKey _ _ hc0K] at hv
      cases hv
  obtain ⟨c0, hc0, hp0, ha, hc1⟩ := key a c1 (by rw [h1]; simp)
  obtain ⟨c0', hc0', hp0', hb, hc2⟩ := key b c2 (by rw [h2]; simp)
  have hc0K := freshFor_mem hfresh c0 hc0
  have hc0'K := freshFor_mem hfresh c0' hc0'
  -- the `a`-child of `c0'` also matches the source filter
  have hmem : c0'.stratify s.name a ∈ matching (stratifyComps comps s) c.name (c.strata ++ [(s.name, a)]) := by
    have h2m : c2 ∈ matching (stratifyComps comps s) c.name (c.strata ++ [(s.name, b)]) := by rw [h2]; simp
    rw [mem_matching] at h2m ⊢
    obtain ⟨_, hname, hflt⟩ := h2m
    refine ⟨(mem_stratifyComps comps s _).2 ⟨c0', hc0', Or.inl ⟨hp0', a, ha, rfl⟩⟩, ?_, ?_⟩
    · rw [hc2] at hname; exact hname
    · intro kv hkv
      rw [stratify_noKey c0' s.name a hc0'K]
      simp only
      rw [List.mem_append] at hkv
      rcases hkv with hkv | hkv
      · have hne : kv.1 ≠ s.name := by
          intro e
          have := List.any_eq_false.1 hcK kv hkv
          simp [e] at this
        have := hflt kv (by simp [hkv])
        rw [hc2, stratify_noKey c0' s.name b hc0'K] at this
        simp only at this
        rw [alookup_append_other _ _ _ _ hne] at this
        rw [alookup_append_other _ _ _ _ hne]; exact this
      · simp only [List.mem_singleton] at hkv
        subst hkv
        exact alookup_append_last _ _ _ hc0'K
  rw [h1, List.mem_singleton, hc1] at hmem
  have := (stratify_inj c0' c0 s.name a a hc0'K hc0K hmem).1
  subst this
  exact ⟨c0', hc0', hc1, hc2⟩

end sibling

section
variable {α : Type}

theorem addTransitionCore_one (acc acc' : Model α) (kind : FlowKind) (name : String) (param : Expr α)
    (source dest : String) (ss ds : Strata)
    (h : addTransitionCore acc kind name param source dest ss ds (some 1) = .ok acc') :
    acc'.comps = acc.comps ∧ ∃ c1 c2, matching acc.comps source ss = [c1] ∧ matching acc.comps dest ds = [c2] ∧
      acc'.flows = acc.flows ++ [{ kind := kind, name := name, src := some c1, dst := some c2, param := param, adjs := [] }] := by
  unfold addTransitionCore at h
  replace h := (bind_guardE_ok _ _ _ _ h).2
  replace h := (bind_guardE_ok _ _ _ _ h).2
  replace h := (bind_guardE_ok _ _ _ _ h).2
  have hlen := (bind_guardE_ok _ _ _ _ h).1
  replace h := (bind_guardE_ok _ _ _ _ h).2
  simp only [checkExpected] at h
  have hone := (bind_guardE_ok _ _ _ _ h).1
  replace h := (bind_guardE_ok _ _ _ _ h).2
  simp only [pure, Except.pure, Except.ok.injEq] at h
  subst h
  simp only [getMatching_eq] at hlen hone ⊢
  simp only [beq_iff_eq, List.length_map, List.length_zip] at hlen hone
  refine ⟨trivial, ?_⟩
  generalize matching acc.comps source ss = srcs at hlen hone ⊢
  generalize matching acc.comps dest ds = dests at hlen hone ⊢
  match srcs, dests, hlen, hone with
  | [c1], [c2], _, _ => exact ⟨c1, c2, rfl, rfl, by simp⟩
  | [], _, _, hone => simp at hone
  | _ :: _ :: _, [], hlen, _ => simp at hlen
  | _ :: _ :: _, [_], hlen, _ => simp at hlen
  | _ :: _ :: _, _ :: _ :: _, _, hone => simp at hone
  | [_], [], hlen, _ => simp at hlen
  | [_], _ :: _ :: _, hlen, _ => simp at hlen
end
section
variable {α : Type} [One α] [Div α] [NatCast α]

theorem foldlM_stratifyFlow (s : Strat α) (h : s.flowAdj = []) (flows init : List (Flow α)) :
    flows.foldlM (fun (acc : List (Flow α)) f => do
      let fs ← stratifyFlow f s
      pure (acc ++ fs)) init = (.ok (init ++ flows.flatMap (copiesA s)) : Res _) := by
  induction flows generalizing init with
  | nil => simp [pure, Except.pure]
  | cons f fs ih =>
    simp only [List.foldlM_cons, stratifyFlow_unadj s f h, bind, Except.bind, pure, Except.pure]
    refine (ih _).trans ?_
    simp

/-- the invariant kept by the ageing loop -/
def AgeInv (comps : List Comp) (s : Strat α) (base : List (Flow α)) (acc : Model α) : Prop :=
  acc.comps = stratifyComps comps s ∧
    ∃ extra, acc.flows = base ++ extra ∧ ∀ g ∈ extra, IsSiblingFlow comps s g

theorem stratifyWith_shape (m m' : Model α) (s : Strat α) (h : stratifyWith m s = .ok m')
    (hfa : s.flowAdj = []) (hmix : s.mixing = none) (hk : s.kind ≠ .strain)
    (hfresh : freshFor m.comps s = true) :
    m'.comps = stratifyComps m.comps s ∧ ∃ extra, m'.flows = m.flows.flatMap (copiesA s) ++ extra ∧
      (∀ g ∈ extra, IsSiblingFlow m.comps s g) ∧ (s.kind ≠ .age → extra = []) := by
  have hk' : (s.kind == StratKind.strain) = false := by simpa using hk
  unfold stratifyWith at h
  simp only [hfa, hmix, Strat.isStrain, hk', List.forIn_nil, pure_bind, Bool.false_eq_true, if_false] at h
  replace h := (bind_guardE_ok _ _ _ _ h).2
  replace h := (bind_guardE_ok _ _ _ _ h).2
  replace h := (bind_guardE_ok _ _ _ _ h).2
  replace h := (bind_guardE_ok _ _ _ _ h).2
  rw [foldlM_stratifyFlow s hfa] at h
  obtain ⟨newFlows, hnf, h⟩ := bind_ok _ _ _ h
  simp only [Except.ok.injEq, List.nil_append] at hnf
  subst hnf
  obtain ⟨m4, hm4, h⟩ := bind_ok _ _ _ h
  simp only [pure, Except.pure, Except.ok.injEq] at h
  subst h
  simp only
  by_cases hage : s.isAgeing = true
  · simp only [hage, if_true] at hm4
    replace hm4 := (bind_guardE_ok _ _ _ _ hm4).2
    replace hm4 := (bind_guardE_ok _ _ _ _ hm4).2
    have hinv : AgeInv m.comps s (m.flows.flatMap (copiesA s)) m4 := by
      refine foldlM_inv (AgeInv m.comps s (m.flows.flatMap (copiesA s))) _ _ ?_ _ _ ?_ hm4
      · intro acc ab _ hacc acc' hstep
        refine foldlM_inv (AgeInv m.comps s (m.flows.flatMap (copiesA s))) _ _ ?_ _ _ hacc hstep
        intro acc2 c hc hacc2 acc2' hstep2
        replace hstep2 := (bind_guardE_ok _ _ _ _ hstep2).2
        obtain ⟨hcomps, c1, c2, hm1, hm2, hfl⟩ := addTransitionCore_one _ _ _ _ _ _ _ _ _ hstep2
        obtain ⟨hac, extra, hex, hsib⟩ := hacc2
        refine ⟨hcomps.trans hac, extra ++ [_], by rw [hfl, hex, List.append_assoc], ?_⟩
        intro g hg
        rw [List.mem_append, List.mem_singleton] at hg
        rcases hg with hg | hg
        · exact hsib g hg
        · subst hg
          rw [hac] at hm1 hm2
          obtain ⟨c0, hc0, h1, h2⟩ := matching_sibling hfresh c hc _ _ c1 c2 hm1 hm2
          exact ⟨rfl, c0, hc0, _, _, by rw [h1], by rw [h2]⟩
      · exact ⟨rfl, [], by simp, by simp⟩
    obtain ⟨hc, extra, hex, hsib⟩ := hinv
    refine ⟨hc, extra, hex, hsib, ?_⟩
    intro hna
    simp only [Strat.isAgeing, beq_iff_eq] at hage
    exact absurd hage hna
  · simp only [hage, Bool.false_eq_true, if_false, pure, Except.pure, Except.ok.injEq] at hm4
    subst hm4
    exact ⟨rfl, [], by simp, by simp, fun _ => rfl⟩
end
end Summer.Proofs
