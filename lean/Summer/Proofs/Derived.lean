import Summer.Spec.Derived
import Summer.Proofs.ListLemmas
/-
Lemmas for property C08 (derived outputs).
-/
namespace Summer.Proofs.DerivedL
open Summer Summer.Run Summer.Derived Summer.Spec Summer.Proofs

/-! ### `Option`-valued `mapM` -/

theorem mapM_some_iff {β γ} (g : β → Option γ) :
    ∀ (l : List β) (out : List γ), l.mapM g = some out ↔
      out.length = l.length ∧ ∀ i (h : i < l.length) (h' : i < out.length), g l[i] = some out[i]
  | [], out => by
      simp only [List.mapM_nil, pure, Option.some.injEq]
      constructor
      · intro h; subst h; simp
      · intro h; have := h.1; simp at this; exact this.symm
  | a :: l, out => by
      rw [List.mapM_cons]
      constructor
      · intro h
        cases hga : g a with
        | none => simp [hga] at h
        | some o =>
          cases hl : l.mapM g with
          | none => simp [hga, hl] at h
          | some os =>
            simp only [hga, hl, Option.bind_eq_bind, Option.bind_some, pure, Option.some.injEq] at h
            subst h
            obtain ⟨h1, h2⟩ := (mapM_some_iff g l os).1 hl
            refine ⟨by simp [h1], ?_⟩
            intro i hi hi'
            cases i with
            | zero => simpa using hga
            | succ i => simpa using h2 i (by simpa using hi) (by simpa using hi')
      · rintro ⟨h1, h2⟩
        cases out with
        | nil => simp at h1
        | cons o os =>
          have h0 := h2 0 (by simp) (by simp)
          simp only [List.getElem_cons_zero] at h0
          have hl : l.mapM g = some os := (mapM_some_iff g l os).2
            ⟨by simpa using h1, fun i hi hi' => by
              have := h2 (i + 1) (by simpa using hi) (by simpa using hi')
              simpa using this⟩
          simp [h0, hl]

theorem mapM_isSome {β γ} (g : β → Option γ) :
    ∀ (l : List β), (∀ x ∈ l, (g x).isSome = true) → (l.mapM g).isSome = true
  | [], _ => by simp
  | a :: l, h => by
      rw [List.mapM_cons]
      obtain ⟨o, ho⟩ := Option.isSome_iff_exists.1 (h a (by simp))
      obtain ⟨os, hos⟩ := Option.isSome_iff_exists.1 (mapM_isSome g l (fun x hx => h x (by simp [hx])))
      simp [ho, hos]

/-! ### column sums over selected positions -/

section cols
variable {α : Type}

theorem sumCols_length [Zero α] [Add α] (rows : List (List α)) (idx : List Nat) :
    (sumCols rows idx).length = rows.length := by
  simp [sumCols]

theorem sumCols_getD [Zero α] [Add α] (rows : List (List α)) (idx : List Nat) (i : Nat) (hi : i < rows.length) :
    (sumCols rows idx).getD i 0 = sumL (gather (rows.getD i []) idx) := by
  simp [sumCols, List.getD_eq_getElem?_getD, hi]

theorem sumL_gather_idxWhere [AddMonoid α] {β} (l : List β) (p : β → Bool) (row : List α) :
    sumL (gather row (idxWhere l p)) = sumL (l.zipIdx.map (fun x => if p x.1 then row.getD x.2 0 else 0)) := by
  unfold gather idxWhere
  rw [List.map_map]
  exact sumL_filter_map l.zipIdx (fun x => p x.1) (fun x => row.getD x.2 0)

theorem sumSelected_eq [AddMonoid α] {β} (l : List β) (p : β → Bool) (q : β → Prop) [DecidablePred q]
    (hpq : ∀ x ∈ l, p x = decide (q x)) (row : List α) :
    sumL (gather row (idxWhere l p)) = sumSelected l q row := by
  rw [sumL_gather_idxWhere, sumSelected]
  apply sumL_map_congr
  intro x hx
  have hm : x.1 ∈ l := by
    have := List.mem_zipIdx hx
    simp only [Nat.zero_le, Nat.zero_add, true_and] at this
    rw [this.2]; exact List.getElem_mem _
  rw [hpq x.1 hm]
  by_cases h : q x.1 <;> simp [h]

end cols

/-! ### the selection predicates -/

theorem strataContains_iff (strata flt : Strata) (c : Comp) (h : c.strata = strata) :
    strataContains strata flt = decide (strataSelected flt c) := by
  subst h
  rw [Bool.eq_iff_iff, decide_eq_true_iff]
  simp [strataContains, strataSelected]

theorem hasStrata_eq (c : Comp) (flt : Strata) : c.hasStrata flt = decide (strataSelected flt c) := by
  unfold Comp.hasStrata
  exact strataContains_iff c.strata flt c rfl

theorem compPred_eq (names : List String) (flt : Strata) (c : Comp) :
    (c.hasNameIn names && c.isMatch c.name flt) = decide (compSelected names flt c) := by
  rw [Bool.eq_iff_iff, decide_eq_true_iff]
  simp [Comp.hasNameIn, Comp.isMatch, hasStrata_eq, compSelected]

theorem flowPred_eq {α : Type} (name : String) (ss ds : Strata) (f : Flow α) :
    (f.name == name
      && (match f.src with | none => true | some c => c.hasStrata ss)
      && (match f.dst with | none => true | some c => c.hasStrata ds))
    = decide (flowSelectedD name ss ds f) := by
  rw [Bool.eq_iff_iff, decide_eq_true_iff]
  cases hs : f.src <;> cases hd : f.dst <;>
    simp [flowSelectedD, endSelected, hs, hd, hasStrata_eq, and_assoc]

/-! ### midpoints -/

section mid
variable {α : Type} [Zero α] [One α] [Add α] [Mul α] [Div α]

omit [Zero α] in
theorem midpoint_length (vals : List α) : (midpoint vals).length = vals.length := by
  cases vals with
  | nil => rfl
  | cons v rest => simp [midpoint]

theorem midpoint_getD_zero (vals : List α) : (midpoint vals).getD 0 0 = vals.getD 0 0 := by
  cases vals with
  | nil => rfl
  | cons v rest => simp [midpoint]

theorem midpoint_getD_succ (vals : List α) (i : Nat) (hi : i + 1 < vals.length) :
    (midpoint vals).getD (i + 1) 0 = (vals.getD (i + 1) 0 + vals.getD i 0) * ((1 : α) / two) := by
  cases vals with
  | nil => simp at hi
  | cons v rest =>
    simp only [List.length_cons, Nat.add_lt_add_iff_right] at hi
    have hi' : i < (v :: rest).length := by simp; omega
    rw [midpoint, List.getD_cons_succ, List.getD_cons_succ]
    have hz : i < (List.zipWith (fun a b => (a + b) * ((1 : α) / two)) rest (v :: rest)).length := by
      simp; omega
    rw [getD_eq_getElem _ _ _ hz, List.getElem_zipWith, getD_eq_getElem _ _ _ hi, getD_eq_getElem _ _ _ hi']

theorem midpoint_getD (vals : List α) (i : Nat) (hi : i < vals.length) :
    (midpoint vals).getD i 0 = midpointAt vals i := by
  cases i with
  | zero => exact midpoint_getD_zero vals
  | succ i => rw [midpoint_getD_succ vals i hi]; rfl

end mid

/-! ### cumulative sums -/

section cum
variable {α : Type}

theorem cumsumFrom_length [Add α] (acc : α) (xs : List α) : (cumsumFrom acc xs).length = xs.length := by
  induction xs generalizing acc with
  | nil => rfl
  | cons x xs ih => simp [cumsumFrom, ih]

theorem cumsumFrom_getD [AddMonoid α] (acc : α) (xs : List α) (i : Nat) (hi : i < xs.length) :
    (cumsumFrom acc xs).getD i 0 = acc + sumL (xs.take (i + 1)) := by
  induction xs generalizing acc i with
  | nil => simp at hi
  | cons x xs ih =>
    cases i with
    | zero => simp [cumsumFrom, sumL]
    | succ i =>
      simp only [List.length_cons, Nat.add_lt_add_iff_right] at hi
      simp only [cumsumFrom, List.getD_cons_succ, List.take_succ_cons, sumL]
      rw [ih (acc + x) i hi, add_assoc]

theorem cumsum_length [Add α] [Zero α] (xs : List α) : (cumsum xs).length = xs.length :=
  cumsumFrom_length 0 xs

theorem cumsum_getD [AddMonoid α] (xs : List α) (i : Nat) (hi : i < xs.length) :
    (cumsum xs).getD i 0 = sumFromTo xs 0 i := by
  rw [cumsum, cumsumFrom_getD 0 xs i hi, zero_add]; simp [sumFromTo]

theorem cumFrom_length [Add α] [Zero α] (k : Nat) (src : List α) : (cumFrom k src).length = src.length := by
  simp [cumFrom, cumsum_length]; omega

theorem cumFrom_getD [AddMonoid α] (k : Nat) (src : List α) (i : Nat) (hi : i < src.length) :
    (cumFrom k src).getD i 0 = cumAt src k i := by
  unfold cumFrom cumAt
  by_cases hik : i < k
  · have : i < (List.replicate (min k src.length) (0 : α)).length := by simp; omega
    rw [List.getD_eq_getElem?_getD, List.getElem?_append_left this]
    have hlt : i < min k src.length := by omega
    simp [hik, hlt]
  · have hk : min k src.length = k := by omega
    have : (List.replicate (min k src.length) (0 : α)).length ≤ i := by simp; omega
    rw [List.getD_eq_getElem?_getD, List.getElem?_append_right this, ← List.getD_eq_getElem?_getD]
    simp only [List.length_replicate, hk]
    rw [cumsum_getD _ _ (by simp; omega)]
    simp only [hik, if_false, sumFromTo, List.drop_zero]
    rw [List.drop_take]
    congr 2; omega

end cum

/-! ### locating the start time -/

section start

theorem idxFrom_head?_first {β : Type} (p : β → Bool) (l : List β) (off k : Nat) (hk : k < l.length)
    (hp : p l[k] = true) (hfirst : ∀ j (h : j < k), p (l[j]'(by omega)) = false) :
    (idxFrom p l off).head? = some (off + k) := by
  induction l generalizing off k with
  | nil => simp at hk
  | cons x xs ih =>
    cases k with
    | zero =>
      simp only [List.getElem_cons_zero] at hp
      simp [idxFrom, hp]
    | succ k =>
      have h0 := hfirst 0 (by omega)
      simp only [List.getElem_cons_zero] at h0
      simp only [List.getElem_cons_succ] at hp
      simp only [idxFrom, h0, Bool.false_eq_true, if_false]
      rw [ih (off + 1) k (by simpa using hk) hp (fun j h => by
        have := hfirst (j + 1) (by omega)
        simpa using this)]
      congr 1; omega

theorem idxWhere_head?_first {β : Type} (p : β → Bool) (l : List β) (k : Nat) (hk : k < l.length)
    (hp : p l[k] = true) (hfirst : ∀ j (h : j < k), p (l[j]'(by omega)) = false) :
    (idxWhere l p).head? = some k := by
  rw [idxWhere_eq, idxFrom_head?_first p l 0 k hk hp hfirst]; simp

theorem idxWhere_eq_nil {β : Type} (p : β → Bool) (l : List β) (h : ∀ x ∈ l, p x = false) : idxWhere l p = [] := by
  have := idxWhere_length l p
  have h2 : l.filter p = [] := by
    rw [List.filter_eq_nil_iff]; intro x hx; simp [h x hx]
  rw [h2] at this
  exact List.eq_nil_of_length_eq_zero this

variable {α : Type} [LinearOrder α]

theorem eqTest_iff (st t : α) : (!(decide (t < st)) && !(decide (st < t))) = true ↔ t = st := by
  simp only [Bool.and_eq_true, Bool.not_eq_true', decide_eq_false_iff_not, not_lt]
  constructor
  · rintro ⟨h1, h2⟩; exact le_antisymm h2 h1
  · rintro rfl; exact ⟨le_refl _, le_refl _⟩

/-- in a strictly increasing list of times the `k`-th time is found at index `k` -/
theorem startIdx_of_sorted (times : List α) (hs : times.Pairwise (· < ·)) (k : Nat) (hk : k < times.length) :
    (idxWhere times (fun t => !(decide (t < times[k])) && !(decide (times[k] < t)))).head? = some k := by
  apply idxWhere_head?_first _ times k hk
  · exact (eqTest_iff _ _).2 rfl
  · intro j hj
    have hlt : times[j] < times[k] := (List.pairwise_iff_getElem.1 hs) j k (by omega) hk hj
    cases hb : (!(decide (times[j] < times[k])) && !(decide (times[k] < times[j]))) with
    | false => rfl
    | true => exact absurd ((eqTest_iff _ _).1 hb) (ne_of_lt hlt)

theorem startIdx_none (times : List α) (st : α) (h : st ∉ times) :
    (idxWhere times (fun t => !(decide (t < st)) && !(decide (st < t)))).head? = none := by
  rw [idxWhere_eq_nil]; · rfl
  intro x hx
  cases hb : (!(decide (x < st)) && !(decide (st < x))) with
  | false => rfl
  | true => exact absurd ((eqTest_iff _ _).1 hb ▸ hx) h

theorem le_last_of_sorted (times : List α) (hs : times.Pairwise (· < ·)) (tmax : α)
    (hl : times.getLast? = some tmax) (k : Nat) (hk : k < times.length) : times[k] ≤ tmax := by
  rw [List.getLast?_eq_getElem?] at hl
  have hn : times.length - 1 < times.length := by omega
  rw [List.getElem?_eq_getElem hn] at hl
  simp only [Option.some.injEq] at hl
  subst hl
  by_cases hkl : k = times.length - 1
  · subst hkl; exact le_refl _
  · exact le_of_lt ((List.pairwise_iff_getElem.1 hs) k (times.length - 1) hk hn (by omega))

end start

/-! ### aggregates -/

section agg
variable {α : Type} [AddMonoid α]

theorem vadd_length' (a b : List α) : (vadd a b).length = min a.length b.length := by simp [vadd]

theorem vadd_getD_lt (a b : List α) (i : Nat) (ha : i < a.length) (hb : i < b.length) :
    (vadd a b).getD i 0 = a.getD i 0 + b.getD i 0 := by
  simp [vadd, List.getD_eq_getElem?_getD, ha, hb]

theorem foldl_vadd_spec (n : Nat) (srcs : List (List α)) (h : ∀ s ∈ srcs, s.length = n) (acc : List α)
    (hacc : acc.length = n) :
    (srcs.foldl vadd acc).length = n ∧
      ∀ i, i < n → (srcs.foldl vadd acc).getD i 0 = acc.getD i 0 + sumL (srcs.map (fun s => s.getD i 0)) := by
  induction srcs generalizing acc with
  | nil => simp [hacc, sumL]
  | cons s rest ih =>
    have hs : s.length = n := h s (by simp)
    have hacc' : (vadd acc s).length = n := by rw [vadd_length']; omega
    obtain ⟨h1, h2⟩ := ih (fun t ht => h t (by simp [ht])) (vadd acc s) hacc'
    refine ⟨by simpa using h1, fun i hi => ?_⟩
    simp only [List.foldl_cons, List.map_cons, sumL]
    rw [h2 i hi, vadd_getD_lt acc s i (by omega) (by omega), add_assoc]

theorem aggSeries_spec (n : Nat) (srcs : List (List α)) (h : ∀ s ∈ srcs, s.length = n) :
    (aggSeries n srcs).length = n ∧ ∀ i, i < n → (aggSeries n srcs).getD i 0 = aggAt srcs i := by
  obtain ⟨h1, h2⟩ := foldl_vadd_spec n srcs h (List.replicate n 0) (by simp)
  refine ⟨h1, fun i hi => ?_⟩
  rw [aggSeries, h2 i hi]
  simp [List.getD_eq_getElem?_getD, hi, aggAt]

end agg

/-! ### association lists -/

section alist
variable {β : Type}

theorem alookup_cons (p : String × β) (l : List (String × β)) (k : String) :
    alookup (p :: l) k = if p.1 = k then some p.2 else alookup l k := by
  unfold alookup
  by_cases h : p.1 = k
  · simp [h]
  · have : (p.1 == k) = false := by simpa using h
    simp [this, h]

theorem alookup_mem (l : List (String × β)) (k : String) (v : β) (h : alookup l k = some v) :
    (k, v) ∈ l := by
  induction l with
  | nil => simp [alookup] at h
  | cons p l ih =>
    rw [alookup_cons] at h
    by_cases hk : p.1 = k
    · simp only [hk, if_true, Option.some.injEq] at h
      simp [← hk, ← h]
    · simp only [hk, if_false] at h
      exact List.mem_cons_of_mem _ (ih h)

theorem alookup_eq_none (l : List (String × β)) (k : String) (h : k ∉ l.map (·.1)) : alookup l k = none := by
  induction l with
  | nil => rfl
  | cons p l ih =>
    simp only [List.map_cons, List.mem_cons, not_or] at h
    rw [alookup_cons, if_neg (fun e => h.1 e.symm), ih h.2]

/-- with pairwise distinct keys the lookup of the `j`-th key returns the `j`-th value -/
theorem alookup_nodup (l : List (String × β)) (hnd : (l.map (·.1)).Nodup) (j : Nat) (hj : j < l.length) :
    alookup l l[j].1 = some l[j].2 := by
  induction l generalizing j with
  | nil => simp at hj
  | cons p l ih =>
    simp only [List.map_cons, List.nodup_cons] at hnd
    cases j with
    | zero => simp [alookup_cons]
    | succ j =>
      simp only [List.getElem_cons_succ]
      have hj' : j < l.length := by simpa using hj
      have hne : ¬ p.1 = l[j].1 := fun e => hnd.1 (e ▸ List.mem_map.2 ⟨l[j], List.getElem_mem hj', rfl⟩)
      rw [alookup_cons, if_neg hne, ih hnd.2 j hj']

end alist

/-! ### `evalRequest`, kind by kind -/

section req
variable {α : Type} [Field α] [LinearOrder α]

omit [Field α] [LinearOrder α] in
theorem sourcesAre_iff (done : List (String × List α)) (sources : List String) (srcs : List (List α)) :
    sources.mapM (alookup done) = some srcs ↔ SourcesAre done sources srcs :=
  mapM_some_iff (alookup done) sources srcs

theorem evalRequest_comp (m : Model α) (d : RunData α) (done : List (String × List α)) (names : List String)
    (flt : Strata) :
    evalRequest m d done (.comp names flt) = some (sumCols d.outputs (compIndices m names flt)) := rfl

omit [LinearOrder α] in
theorem sumCols_comp_getD (m : Model α) (rows : List (List α)) (names : List String) (flt : Strata) (i : Nat)
    (hi : i < rows.length) :
    (sumCols rows (compIndices m names flt)).getD i 0 = compOutputAt m names flt (rows.getD i []) := by
  rw [sumCols_getD rows _ i hi, compIndices, compOutputAt]
  exact sumSelected_eq m.comps _ (compSelected names flt) (fun c _ => compPred_eq names flt c) _

omit [LinearOrder α] in
theorem sumCols_flow_getD (m : Model α) (rows : List (List α)) (name : String) (ss ds : Strata) (i : Nat)
    (hi : i < rows.length) :
    (sumCols rows (flowIndices m name ss ds)).getD i 0 = flowOutputAt m name ss ds (rows.getD i []) := by
  rw [sumCols_getD rows _ i hi, flowIndices, flowOutputAt]
  exact sumSelected_eq m.flows _ (flowSelectedD name ss ds) (fun f _ => flowPred_eq name ss ds f) _

theorem evalRequest_flow (m : Model α) (d : RunData α) (done : List (String × List α)) (name : String)
    (ss ds : Strata) (raw : Bool) :
    evalRequest m d done (.flow name ss ds raw) =
      some (if raw then sumCols d.flows (flowIndices m name ss ds)
            else midpoint (sumCols d.flows (flowIndices m name ss ds))) := rfl

theorem evalRequest_agg (m : Model α) (d : RunData α) (done : List (String × List α)) (sources : List String) :
    evalRequest m d done (.agg sources) =
      (sources.mapM (alookup done)).map (aggSeries d.times.length) := by
  simp only [evalRequest]
  cases sources.mapM (alookup done) <;> rfl

/-- the start time the code actually uses -/
def effStart (times : List α) (st : α) : α :=
  match times.getLast? with
  | some tmax => if (decide (st < 0) || decide (0 < st)) && decide (tmax < st) then tmax else st
  | none => st

theorem evalRequest_cum_none (m : Model α) (d : RunData α) (done : List (String × List α)) (source : String) :
    evalRequest m d done (.cum source none) = (alookup done source).map cumsum := by
  simp only [evalRequest]
  cases alookup done source <;> rfl

theorem evalRequest_cum_some (m : Model α) (d : RunData α) (done : List (String × List α)) (source : String)
    (st : α) :
    evalRequest m d done (.cum source (some st)) =
      (alookup done source).bind (fun src =>
        ((idxWhere d.times (fun t => !(decide (t < effStart d.times st)) && !(decide (effStart d.times st < t)))).head?).map
          (fun i => cumFrom i src)) := by
  cases hs : alookup done source with
  | none => simp [evalRequest, hs]
  | some src =>
    simp only [evalRequest, hs, Option.bind_eq_bind, Option.bind_some]
    show (match (idxWhere d.times (fun t => !(decide (t < effStart d.times st))
            && !(decide (effStart d.times st < t)))).head? with
          | some i => pure (cumFrom i src)
          | none => none) = _
    generalize effStart d.times st = st'
    cases (idxWhere d.times (fun t => !(decide (t < st')) && !(decide (st' < t)))).head? <;> rfl

theorem effStart_of_le (times : List α) (st : α) (h : ∀ tmax, times.getLast? = some tmax → ¬ (st ≠ 0 ∧ tmax < st)) :
    effStart times st = st := by
  unfold effStart
  cases hl : times.getLast? with
  | none => rfl
  | some tmax =>
    have := h tmax hl
    simp only
    split
    · rename_i hc
      simp only [Bool.and_eq_true, Bool.or_eq_true, decide_eq_true_eq] at hc
      exact absurd ⟨by rcases hc.1 with h1 | h1 <;> [exact ne_of_lt h1; exact ne_of_gt h1], hc.2⟩ this
    · rfl

theorem effStart_clamp (times : List α) (st tmax : α) (hl : times.getLast? = some tmax) (hnz : st ≠ 0)
    (hgt : tmax < st) : effStart times st = tmax := by
  unfold effStart
  simp only [hl]
  have : st < 0 ∨ 0 < st := lt_or_gt_of_ne hnz
  simp [this, hgt]

theorem evalRequest_func (m : Model α) (d : RunData α) (done : List (String × List α)) (e : Expr α)
    (sources : List String) :
    evalRequest m d done (.func e sources) =
      (sources.mapM (alookup done)).bind (fun srcs =>
        (List.range d.times.length).mapM (fun i => e.eval (funcEnv d srcs i))) := by
  simp only [evalRequest, funcEnv]
  cases sources.mapM (alookup done) <;> rfl

theorem evalRequest_cv (m : Model α) (d : RunData α) (done : List (String × List α)) (name : String) :
    evalRequest m d done (.cv name) = alookup d.computed name := rfl

/-- every derived series has one entry per model time -/
theorem evalRequest_length (m : Model α) (d : RunData α) (hd : RunData.WF d) (done : List (String × List α))
    (hdone : ∀ kv ∈ done, kv.2.length = d.times.length) (r : Request α) (s : List α)
    (h : evalRequest m d done r = some s) : s.length = d.times.length := by
  cases r with
  | flow name ss ds raw =>
    rw [evalRequest_flow] at h
    simp only [Option.some.injEq] at h
    subst h
    cases raw <;> simp [midpoint_length, sumCols_length, hd.flows]
  | comp names flt =>
    rw [evalRequest_comp] at h
    simp only [Option.some.injEq] at h
    subst h
    simp [sumCols_length, hd.outputs]
  | agg sources =>
    rw [evalRequest_agg] at h
    cases hs : sources.mapM (alookup done) with
    | none => simp [hs] at h
    | some srcs =>
      simp only [hs, Option.map_some, Option.some.injEq] at h
      subst h
      refine (aggSeries_spec _ srcs (fun t ht => ?_)).1
      obtain ⟨j, hj, rfl⟩ := List.mem_iff_getElem.1 ht
      obtain ⟨h1, h2⟩ := (sourcesAre_iff done sources srcs).1 hs
      exact hdone _ (alookup_mem _ _ _ (h2 j (by omega) hj))
  | cum source start =>
    cases start with
    | none =>
      rw [evalRequest_cum_none] at h
      cases hs : alookup done source with
      | none => simp [hs] at h
      | some src =>
        simp only [hs, Option.map_some, Option.some.injEq] at h
        subst h
        rw [cumsum_length]; exact hdone _ (alookup_mem _ _ _ hs)
    | some st =>
      rw [evalRequest_cum_some] at h
      cases hs : alookup done source with
      | none => simp [hs] at h
      | some src =>
        simp only [hs, Option.bind_some, Option.map_eq_some_iff] at h
        obtain ⟨i, _, rfl⟩ := h
        rw [cumFrom_length]; exact hdone _ (alookup_mem _ _ _ hs)
  | func e sources =>
    rw [evalRequest_func] at h
    cases hs : sources.mapM (alookup done) with
    | none => simp [hs] at h
    | some srcs =>
      simp only [hs, Option.bind_some] at h
      have := ((mapM_some_iff _ _ _).1 h).1
      simpa using this
  | cv name =>
    rw [evalRequest_cv] at h
    exact hd.computed _ (alookup_mem _ _ _ h)

end req

/-! ### `evalAll`: every request is evaluated on the results of the earlier ones -/

section chain
variable {α : Type} [Field α] [LinearOrder α]

/-- one step of the fold of `evalAll` -/
def evalStep (m : Model α) (d : RunData α) (done : List (String × List α)) (r : ReqEntry α) :
    Option (List (String × List α)) := do
  let v ← evalRequest m d done r.req
  pure (done ++ [(r.name, v)])

theorem evalAll_eq (m : Model α) (d : RunData α) (reqs : List (ReqEntry α)) :
    evalAll m d reqs = reqs.foldlM (evalStep m d) [] := rfl

theorem foldlM_evalStep_iff (m : Model α) (d : RunData α) :
    ∀ (reqs : List (ReqEntry α)) (acc all : List (String × List α)),
      reqs.foldlM (evalStep m d) acc = some all ↔
        ∃ tail, all = acc ++ tail ∧ tail.length = reqs.length ∧
          ∀ k (h : k < reqs.length) (h' : k < tail.length),
            tail[k].1 = reqs[k].name ∧ evalRequest m d (acc ++ tail.take k) reqs[k].req = some tail[k].2
  | [], acc, all => by
      simp only [List.foldlM_nil, pure, Option.some.injEq]
      constructor
      · intro h; exact ⟨[], by simp [h], rfl, fun k h => by simp at h⟩
      · rintro ⟨tail, h1, h2, _⟩
        have : tail = [] := List.eq_nil_of_length_eq_zero h2
        simp [h1, this]
  | r :: rs, acc, all => by
      rw [List.foldlM_cons]
      constructor
      · intro h
        cases hv : evalRequest m d acc r.req with
        | none => simp [evalStep, hv] at h
        | some v =>
          simp only [evalStep, hv, Option.bind_eq_bind, Option.bind_some, pure] at h
          obtain ⟨tail, h1, h2, h3⟩ := (foldlM_evalStep_iff m d rs _ all).1 h
          refine ⟨(r.name, v) :: tail, by simp [h1], by simp [h2], ?_⟩
          intro k hk hk'
          cases k with
          | zero => simp [hv]
          | succ k =>
            have := h3 k (by simpa using hk) (by simpa using hk')
            simpa [List.append_assoc] using this
      · rintro ⟨tail, h1, h2, h3⟩
        cases tail with
        | nil => simp at h2
        | cons t0 tail' =>
          have h0 := h3 0 (by simp) (by simp)
          simp only [List.getElem_cons_zero, List.take_zero, List.append_nil] at h0
          simp only [evalStep, h0.2, Option.bind_eq_bind, Option.bind_some, pure]
          apply (foldlM_evalStep_iff m d rs _ all).2
          refine ⟨tail', ?_, by simpa using h2, ?_⟩
          · rw [h1, ← h0.1]; simp
          · intro k hk hk'
            have := h3 (k + 1) (by simpa using hk) (by simpa using hk')
            rw [← h0.1]
            simpa [List.append_assoc] using this

/-- complete characterisation of `evalAll` -/
theorem evalAll_iff (m : Model α) (d : RunData α) (reqs : List (ReqEntry α)) (all : List (String × List α)) :
    evalAll m d reqs = some all ↔
      all.length = reqs.length ∧
        ∀ k (h : k < reqs.length) (h' : k < all.length),
          all[k].1 = reqs[k].name ∧ evalRequest m d (all.take k) reqs[k].req = some all[k].2 := by
  rw [evalAll_eq, foldlM_evalStep_iff]
  constructor
  · rintro ⟨tail, h1, h2, h3⟩
    simp only [List.nil_append] at h1 h3
    subst h1
    exact ⟨h2, h3⟩
  · rintro ⟨h2, h3⟩
    exact ⟨all, by simp, h2, by simpa using h3⟩

theorem evalAll_names (m : Model α) (d : RunData α) (reqs : List (ReqEntry α)) (all : List (String × List α))
    (h : evalAll m d reqs = some all) : all.map (·.1) = reqs.map (·.name) := by
  obtain ⟨h1, h2⟩ := (evalAll_iff m d reqs all).1 h
  apply List.ext_getElem (by simp [h1])
  intro k hk hk'
  simp only [List.getElem_map]
  exact (h2 k (by simpa using hk') (by simpa using hk)).1

/-- with distinct request names, looking up the name of an earlier request among the earlier results
finds that request's value -/
theorem evalAll_lookup (m : Model α) (d : RunData α) (reqs : List (ReqEntry α)) (all : List (String × List α))
    (h : evalAll m d reqs = some all) (hnd : DistinctNames reqs) (j k : Nat) (hjk : j < k)
    (hj : j < reqs.length) (hj' : j < all.length) :
    alookup (all.take k) reqs[j].name = some all[j].2 := by
  have hn := evalAll_names m d reqs all h
  obtain ⟨h1, h2⟩ := (evalAll_iff m d reqs all).1 h
  have hnd' : ((all.take k).map (·.1)).Nodup := by
    rw [List.map_take, hn]
    exact List.Nodup.sublist (List.take_sublist _ _) hnd
  have hjt : j < (all.take k).length := by simp; omega
  have := alookup_nodup (all.take k) hnd' j hjt
  simp only [List.getElem_take] at this
  rw [(h2 j hj hj').1] at this
  exact this

/-- a name that is not the name of an earlier request is not found -/
theorem evalAll_lookup_none (m : Model α) (d : RunData α) (reqs : List (ReqEntry α))
    (all : List (String × List α)) (h : evalAll m d reqs = some all) (k : Nat) (name : String)
    (hn : name ∉ (reqs.take k).map (·.name)) : alookup (all.take k) name = none := by
  apply alookup_eq_none
  rw [List.map_take, evalAll_names m d reqs all h, ← List.map_take]
  exact hn

/-- all derived series have one entry per model time -/
theorem evalAll_lengths (m : Model α) (d : RunData α) (hd : RunData.WF d) (reqs : List (ReqEntry α))
    (all : List (String × List α)) (h : evalAll m d reqs = some all) :
    ∀ kv ∈ all, kv.2.length = d.times.length := by
  obtain ⟨h1, h2⟩ := (evalAll_iff m d reqs all).1 h
  have key : ∀ n k (hk : k < all.length), k < n → all[k].2.length = d.times.length := by
    intro n
    induction n with
    | zero => intro k _ hn; omega
    | succ n ih =>
      intro k hk hn
      apply evalRequest_length m d hd (all.take k) _ reqs[k].req all[k].2 (h2 k (by omega) hk).2
      intro kv hkv
      obtain ⟨j, hj, rfl⟩ := List.mem_iff_getElem.1 hkv
      simp only [List.length_take] at hj
      simp only [List.getElem_take]
      exact ih j (by omega) (by omega)
  intro kv hkv
  obtain ⟨k, hk, rfl⟩ := List.mem_iff_getElem.1 hkv
  exact key (k + 1) k hk (by omega)

/-! ### saved outputs -/

omit [Field α] [LinearOrder α] in
theorem any_name_save (reqs : List (ReqEntry α)) (hnd : DistinctNames reqs) (k : Nat) (hk : k < reqs.length) :
    reqs.any (fun r => r.name == reqs[k].name && r.save) = reqs[k].save := by
  rw [Bool.eq_iff_iff, List.any_eq_true]
  constructor
  · rintro ⟨r, hr, hp⟩
    simp only [Bool.and_eq_true, beq_iff_eq] at hp
    obtain ⟨j, hj, rfl⟩ := List.mem_iff_getElem.1 hr
    have : j = k := by
      have hj' : j < (reqs.map (fun r => r.name)).length := by simpa using hj
      have hk' : k < (reqs.map (fun r => r.name)).length := by simpa using hk
      exact (List.getElem_inj (h₀ := hj') (h₁ := hk') hnd).1 (by simpa using hp.1)
    subst this; exact hp.2
  · intro hs
    exact ⟨reqs[k], List.getElem_mem hk, by simp [hs]⟩

theorem derivedOutputs_saved (m : Model α) (d : RunData α) (hw : m.whitelist = [])
    (hnd : DistinctNames m.requests) (all : List (String × List α)) (h : evalAll m d m.requests = some all) :
    derivedOutputs m d = some (((m.requests.zip all).filter (fun p => p.1.save)).map (·.2)) := by
  obtain ⟨h1, h2⟩ := (evalAll_iff m d m.requests all).1 h
  simp only [derivedOutputs, hw, List.length_nil, beq_self_eq_true, if_true, h, Option.bind_eq_bind,
    Option.bind_some, pure, Option.some.injEq]
  have hall : all = (m.requests.zip all).map (·.2) := by
    rw [List.map_snd_zip]; omega
  conv_lhs => rw [hall]
  rw [List.filter_map]
  congr 1
  apply List.filter_congr
  intro p hp
  obtain ⟨k, hk, rfl⟩ := List.mem_iff_getElem.1 hp
  simp only [List.length_zip] at hk
  simp only [Function.comp, List.getElem_zip]
  rw [(h2 k (by omega) (by omega)).1]
  exact any_name_save m.requests hnd k (by omega)

end chain

/-! ### `flowsForOutputs` -/

section fo
variable {α : Type} [Field α] [LinearOrder α]

/-- what is computed for one output row -/
def rowOut (m : Model α) (b : Backend) (params : List (String × α)) (ty : α × List α) :
    Option (List α × List α) := do
  let s ← step m b params ty.1 ty.2
  let cvs ← m.computed.mapM (fun kv => kv.2.eval ⟨params, ty.1, cleanV ty.2⟩)
  pure (s.flowRates, cvs)

theorem rowOut_some (m : Model α) (b : Backend) (params : List (String × α)) (ty : α × List α)
    (r : List α × List α) :
    rowOut m b params ty = some r ↔
      ∃ s, step m b params ty.1 ty.2 = some s ∧ r.1 = s.flowRates ∧
        m.computed.mapM (fun kv => kv.2.eval ⟨params, ty.1, cleanV ty.2⟩) = some r.2 := by
  unfold rowOut
  cases hs : step m b params ty.1 ty.2 with
  | none => simp
  | some s =>
    cases hc : m.computed.mapM (fun kv => kv.2.eval ⟨params, ty.1, cleanV ty.2⟩) with
    | none => simp
    | some cvs =>
      simp only [Option.bind_eq_bind, Option.bind_some, pure, Option.some.injEq, exists_eq_left']
      constructor
      · rintro rfl; exact ⟨rfl, rfl⟩
      · rintro ⟨h1, h2⟩; cases r; simp_all

theorem flowsForOutputs_eq (m : Model α) (b : Backend) (params : List (String × α)) (times : List α)
    (outputs : List (List α)) :
    flowsForOutputs m b params times outputs =
      ((times.zip outputs).mapM (rowOut m b params)).map (fun rows =>
        (rows.map (·.1), m.computed.zipIdx.map (fun kv => (kv.1.1, rows.map (fun r => r.2.getD kv.2 0))))) := by
  unfold flowsForOutputs
  show ((times.zip outputs).mapM (rowOut m b params)).bind _ = _
  cases (times.zip outputs).mapM (rowOut m b params) <;> rfl

theorem flowsForOutputs_iff (m : Model α) (b : Backend) (params : List (String × α)) (times : List α)
    (outputs : List (List α)) (res : List (List α) × List (String × List α)) :
    flowsForOutputs m b params times outputs = some res ↔
      ∃ rows : List (List α × List α),
        rows.length = min times.length outputs.length ∧
        (∀ i (ht : i < times.length) (ho : i < outputs.length) (hr : i < rows.length),
          ∃ s, step m b params times[i] outputs[i] = some s ∧ rows[i].1 = s.flowRates ∧
            m.computed.mapM (fun kv => kv.2.eval ⟨params, times[i], cleanV outputs[i]⟩) = some rows[i].2) ∧
        res = (rows.map (·.1), m.computed.zipIdx.map (fun kv => (kv.1.1, rows.map (fun r => r.2.getD kv.2 0)))) := by
  rw [flowsForOutputs_eq, Option.map_eq_some_iff]
  constructor
  · rintro ⟨rows, hm, rfl⟩
    obtain ⟨h1, h2⟩ := (mapM_some_iff _ _ _).1 hm
    simp only [List.length_zip] at h1
    refine ⟨rows, h1, ?_, rfl⟩
    intro i ht ho hr
    have := h2 i (by simp; omega) hr
    simp only [List.getElem_zip] at this
    exact (rowOut_some m b params _ _).1 this
  · rintro ⟨rows, h1, h2, rfl⟩
    refine ⟨rows, ?_, rfl⟩
    apply (mapM_some_iff _ _ _).2
    refine ⟨by simp [h1], ?_⟩
    intro i hi hr
    simp only [List.length_zip] at hi
    simp only [List.getElem_zip]
    exact (rowOut_some m b params _ _).2 (h2 i (by omega) (by omega) hr)

end fo

end Summer.Proofs.DerivedL
