import Summer.Proofs.InvariancePermComps
/-
Helper lemmas for property C03, adaptive solver: a linear map `A` from vectors of length `n'` (the stratified state) to
vectors of length `n` (the unstratified state) that intertwines the two vector fields on a region `Q` commutes with every
Dormand–Prince step (accepted or rejected), with the dense-output fit and its evaluation, and — for two step controllers
that take the same decisions — with the whole adaptive loop, as long as every stage state the stratified run visits lies
in `Q`.  (Adapted from the relabelling lemmas of `InvariancePermComps`, which treat `n' = n`, `Q = everything`.)
-/
open Summer Summer.Solvers Summer.Spec.Solvers Summer.Proofs.Solvers
set_option linter.unusedSectionVars false

namespace Summer.Proofs.AggDopri
section
variable {α : Type} [Field α]

/-- a linear map from vectors of length `n'` to vectors of length `n` -/
structure LinMap (n' n : Nat) (A : List α → List α) : Prop where
  len : ∀ a, a.length = n' → (A a).length = n
  add : ∀ a b, a.length = n' → b.length = n' → A (vadd a b) = vadd (A a) (A b)
  smul : ∀ k a, A (vscale k a) = vscale k (A a)

variable {n' n : Nat} {A : List α → List α}

theorem map_zero (hA : LinMap n' n A) : A (List.replicate n' 0) = List.replicate n 0 := by
  have h := hA.smul 0 (List.replicate n' (0 : α))
  rw [vscale_zero_eq, vscale_zero_eq, List.length_replicate, hA.len _ (by simp)] at h
  exact h

theorem axpy_map (hA : LinMap n' n A) (k : α) (a b : List α) (ha : a.length = n') (hb : b.length = n') :
    A (vadd a (vscale k b)) = vadd (A a) (vscale k (A b)) ∧ (vadd a (vscale k b)).length = n' := by
  refine ⟨?_, by simp [ha, hb]⟩
  rw [hA.add a _ ha (by simp [hb]), hA.smul]

theorem lincomb_foldl_map (hA : LinMap n' n A) (zs : List (α × List α)) (acc : List α)
    (hacc : acc.length = n') (hk : ∀ z ∈ zs, z.2.length = n') :
    A (zs.foldl (fun acc ck => vadd acc (vscale ck.1 ck.2)) acc)
      = (zs.map (fun z => (z.1, A z.2))).foldl (fun acc ck => vadd acc (vscale ck.1 ck.2)) (A acc) := by
  induction zs generalizing acc with
  | nil => rfl
  | cons z zs ih =>
    simp only [List.foldl_cons, List.map_cons]
    obtain ⟨h1, h2⟩ := axpy_map hA z.1 acc z.2 hacc (hk z (by simp))
    rw [ih _ h2 (fun z' hz' => hk z' (by simp [hz'])), h1]

theorem lincomb_map (hA : LinMap n' n A) (c : List α) (ks : List (List α)) (hk : ∀ v ∈ ks, v.length = n') :
    lincomb n c (ks.map A) = A (lincomb n' c ks) := by
  unfold lincomb
  rw [lincomb_foldl_map hA _ _ (by simp) (fun z hz => hk _ (mem_zip_snd hz)), map_zero hA, List.zip_map_right]
  rfl

/-! ### the stage states of one Dormand–Prince step -/

/-- the states at which the stages `i ∈ l` evaluate the vector field, given the slopes `ks` computed so far -/
def stageStatesFrom (tb : Tableau α) (f : List α → α → List α) (y0 : List α) (t0 dt : α) :
    List Nat → List (List α) → List (List α)
  | [], _ => []
  | i :: l, ks =>
    let yi := vadd y0 (vscale dt (lincomb y0.length (tb.beta.getD i []) ks))
    yi :: stageStatesFrom tb f y0 t0 dt l (ks ++ [f yi (t0 + dt * tb.alpha.getD i 0)])

/-- the six states (besides `y0` itself, whose slope `f0` is carried over) at which `runge_kutta_step` evaluates the field -/
def rkStageStates (tb : Tableau α) (f : List α → α → List α) (y0 f0 : List α) (t0 dt : α) : List (List α) :=
  stageStatesFrom tb f y0 t0 dt (List.range 6) [f0]

theorem rkStages_map (hA : LinMap n' n A) (tb : Tableau α) (f f' : List α → α → List α) (Q : List α → Prop)
    (hf' : ∀ y t, y.length = n' → (f' y t).length = n')
    (h : ∀ y t, y.length = n' → Q y → f (A y) t = A (f' y t))
    (y0 f0 : List α) (hy0 : y0.length = n') (hf0 : f0.length = n') (t0 dt : α)
    (hQ : ∀ z ∈ rkStageStates tb f' y0 f0 t0 dt, Q z) :
    rkStages tb f (A y0) (A f0) t0 dt = (rkStages tb f' y0 f0 t0 dt).map A := by
  unfold rkStages
  rw [hA.len y0 hy0, hy0]
  have key : ∀ (l : List Nat) (ks : List (List α)), (∀ v ∈ ks, v.length = n') →
      (∀ z ∈ stageStatesFrom tb f' y0 t0 dt l ks, Q z) →
      l.foldl (fun (ks : List (List α)) i =>
        ks ++ [f (vadd (A y0) (vscale dt (lincomb n (tb.beta.getD i []) ks)))
          (t0 + dt * tb.alpha.getD i 0)]) (ks.map A)
      = (l.foldl (fun (ks : List (List α)) i =>
        ks ++ [f' (vadd y0 (vscale dt (lincomb n' (tb.beta.getD i []) ks)))
          (t0 + dt * tb.alpha.getD i 0)]) ks).map A := by
    intro l
    induction l with
    | nil => intro ks _ _; rfl
    | cons i l ih =>
      intro ks hks hq
      simp only [List.foldl_cons]
      have hL := length_lincomb n' (tb.beta.getD i []) ks hks
      obtain ⟨e1, e2⟩ := axpy_map hA dt y0 _ hy0 hL
      have hqi : Q (vadd y0 (vscale dt (lincomb n' (tb.beta.getD i []) ks))) := by
        apply hq
        simp only [stageStatesFrom, hy0]
        exact List.mem_cons_self
      rw [lincomb_map hA _ ks hks, ← e1, h _ _ e2 hqi, ← ih]
      · simp
      · intro v hv
        rcases List.mem_append.1 hv with hv | hv
        · exact hks v hv
        · rw [List.mem_singleton] at hv
          rw [hv]; exact hf' _ _ e2
      · intro z hz
        apply hq
        simp only [stageStatesFrom, hy0]
        exact List.mem_cons_of_mem _ hz
  have := key (List.range 6) [f0] (by simpa using hf0) (by simpa [rkStageStates] using hQ)
  simpa using this

/-- one Dormand–Prince step (solution, last slope, error estimate, all slopes) commutes with `A` -/
theorem rkStep_map (hA : LinMap n' n A) (tb : Tableau α) (f f' : List α → α → List α) (Q : List α → Prop)
    (hf' : ∀ y t, y.length = n' → (f' y t).length = n')
    (h : ∀ y t, y.length = n' → Q y → f (A y) t = A (f' y t))
    (y0 f0 : List α) (hy0 : y0.length = n') (hf0 : f0.length = n') (t0 dt : α)
    (hQ : ∀ z ∈ rkStageStates tb f' y0 f0 t0 dt, Q z) :
    rkStep tb f (A y0) (A f0) t0 dt
      = (A (rkStep tb f' y0 f0 t0 dt).1, A (rkStep tb f' y0 f0 t0 dt).2.1,
         A (rkStep tb f' y0 f0 t0 dt).2.2.1, (rkStep tb f' y0 f0 t0 dt).2.2.2.map A) := by
  obtain ⟨_, _, _, hst, hlen, _, _⟩ := rkStep_shape tb n' hf' y0 f0 hy0 hf0 t0 dt
  rw [rkStep_eq] at hst hlen
  simp only at hst hlen
  rw [rkStep_eq, rkStep_eq, rkStages_map hA tb f f' Q hf' h y0 f0 hy0 hf0 t0 dt hQ, hA.len y0 hy0, hy0,
    lincomb_map hA _ _ hst, lincomb_map hA _ _ hst]
  have h6 : ((rkStages tb f' y0 f0 t0 dt).map A).getD 6 [] = A ((rkStages tb f' y0 f0 t0 dt).getD 6 []) := by
    have : 6 < (rkStages tb f' y0 f0 t0 dt).length := by omega
    simp [List.getD_eq_getElem?_getD, this]
  have hl1 := length_lincomb n' tb.cSol _ hst
  rw [h6, ← hA.smul, ← hA.smul, ← hA.add _ _ (by simp [hl1]) hy0]

/-- the dense-output fit commutes with `A` -/
theorem interpFit_map (hA : LinMap n' n A) (tb : Tableau α) (y0 y1 : List α) (ks : List (List α)) (dt : α)
    (hy0 : y0.length = n') (hy1 : y1.length = n') (hks : ∀ v ∈ ks, v.length = n') (h7 : ks.length = 7) :
    interpFit tb (A y0) (A y1) (ks.map A) dt = (interpFit tb y0 y1 ks dt).map A := by
  unfold interpFit
  have g0 : (ks.map A).getD 0 [] = A (ks.getD 0 []) := by
    have : 0 < ks.length := by omega
    simp [List.getD_eq_getElem?_getD, this]
  have g6 : (ks.map A).getD 6 [] = A (ks.getD 6 []) := by
    have : 6 < ks.length := by omega
    simp [List.getD_eq_getElem?_getD, this]
  have l0 : (ks.getD 0 []).length = n' := by
    have : 0 < ks.length := by omega
    rw [List.getD_eq_getElem?_getD, List.getElem?_eq_getElem this]
    exact hks _ (List.getElem_mem _)
  have l6 : (ks.getD 6 []).length = n' := by
    have : 6 < ks.length := by omega
    rw [List.getD_eq_getElem?_getD, List.getElem?_eq_getElem this]
    exact hks _ (List.getElem_mem _)
  have hm := length_lincomb n' tb.cMid ks hks
  obtain ⟨_, e2⟩ := axpy_map hA dt y0 _ hy0 hm
  have e1 : A (vadd y0 (vscale dt (lincomb n' tb.cMid ks))) = vadd (A y0) (A (vscale dt (lincomb n' tb.cMid ks))) :=
    hA.add _ _ hy0 (by simp [hm])
  simp only [hA.len y0 hy0, hy0, g0, g6, lincomb_map hA _ ks hks, ← hA.smul, ← e1, List.map_map]
  apply List.map_congr_left
  intro row _
  simp only [Function.comp]
  have := lincomb_map hA row [vscale dt (ks.getD 0 []), vscale dt (ks.getD 6 []), y0, y1,
      vadd y0 (vscale dt (lincomb n' tb.cMid ks))] (by
    intro v hv
    simp only [List.mem_cons, List.not_mem_nil, or_false] at hv
    rcases hv with rfl | rfl | rfl | rfl | rfl
    · rw [length_vscale]; exact l0
    · rw [length_vscale]; exact l6
    · exact hy0
    · exact hy1
    · exact e2)
  exact this

/-- evaluation of the dense-output polynomial commutes with `A` -/
theorem polyval_map (hA : LinMap n' n A) (c : List α) (cs : List (List α)) (x : α)
    (hc : c.length = n') (hcs : ∀ v ∈ cs, v.length = n') :
    polyval ((c :: cs).map A) x = A (polyval (c :: cs) x) := by
  simp only [List.map_cons, polyval, List.foldl_map]
  induction cs generalizing c with
  | nil => rfl
  | cons c' cs ih =>
    simp only [List.foldl_cons]
    have hc' := hcs c' (by simp)
    rw [← hA.smul, ← hA.add _ _ (by simp [hc]) hc']
    exact ih _ (by simp [hc, hc']) (fun v hv => hcs v (by simp [hv]))

/-! ### the adaptive loop -/

/-- the stepping state with its state-valued fields mapped -/
def mapState (A : List α → List α) (s : OdeState α) : OdeState α :=
  { s with y := A s.y, f := A s.f, coeff := s.coeff.map A }

/-- every vector of the stepping state has length `n'`, and there is a dense-output polynomial -/
def OdeLen (n' : Nat) (s : OdeState α) : Prop :=
  s.y.length = n' ∧ s.f.length = n' ∧ (∀ v ∈ s.coeff, v.length = n') ∧ s.coeff ≠ []

/-- the two step controllers take the same decisions: they only differ in how the error ratio is computed, and the
stratified one computes, from the stratified vectors, what the unstratified one computes from their images under `A` -/
structure CtlCompat (ctl' ctl : Control α) (n' : Nat) (A : List α → List α) : Prop where
  ratio : ∀ err y0 y1, err.length = n' → y0.length = n' → y1.length = n' →
    ctl.errorRatio (A err) (A y0) (A y1) = ctl'.errorRatio err y0 y1
  step : ctl.optimalStep = ctl'.optimalStep
  accept : ctl.accept = ctl'.accept
  lt : ctl.lt = ctl'.lt
  pos : ctl.pos = ctl'.pos

theorem stepState_map (hA : LinMap n' n A) (tb : Tableau α) (hfit : tb.fitRows ≠ []) (ctl' ctl : Control α)
    (f f' : List α → α → List α) (Q : List α → Prop)
    (hf' : ∀ y t, y.length = n' → (f' y t).length = n')
    (h : ∀ y t, y.length = n' → Q y → f (A y) t = A (f' y t))
    (hctl : CtlCompat ctl' ctl n' A) (s : OdeState α) (hs : OdeLen n' s)
    (hQ : ∀ z ∈ rkStageStates tb f' s.y s.f s.t s.dt, Q z) :
    stepState tb ctl f (mapState A s) = mapState A (stepState tb ctl' f' s) ∧
      OdeLen n' (stepState tb ctl' f' s) := by
  obtain ⟨hy, hff, hco, hne⟩ := hs
  obtain ⟨r1, r2, r3, r4, r5, _, _⟩ := rkStep_shape tb n' hf' s.y s.f hy hff s.t s.dt
  unfold stepState
  simp only [mapState, rkStep_map hA tb f f' Q hf' h s.y s.f hy hff s.t s.dt hQ, hctl.ratio _ _ _ r3 hy r1,
    interpFit_map hA tb s.y _ _ s.dt hy r1 r4 r5, hctl.step, hctl.accept]
  by_cases hacc : ctl'.accept (ctl'.errorRatio (rkStep tb f' s.y s.f s.t s.dt).2.2.1 s.y
      (rkStep tb f' s.y s.f s.t s.dt).1) = true
  · simp only [hacc, if_true, true_and]
    refine ⟨r1, r2, ?_, ?_⟩
    · intro v hv
      unfold interpFit at hv
      rw [hy] at hv
      obtain ⟨row, _, rfl⟩ := List.mem_map.1 hv
      apply length_lincomb
      intro w hw
      have l0 : ((rkStep tb f' s.y s.f s.t s.dt).2.2.2.getD 0 []).length = n' := by
        have : 0 < (rkStep tb f' s.y s.f s.t s.dt).2.2.2.length := by omega
        rw [List.getD_eq_getElem?_getD, List.getElem?_eq_getElem this]
        exact r4 _ (List.getElem_mem _)
      have l6 : ((rkStep tb f' s.y s.f s.t s.dt).2.2.2.getD 6 []).length = n' := by
        have : 6 < (rkStep tb f' s.y s.f s.t s.dt).2.2.2.length := by omega
        rw [List.getD_eq_getElem?_getD, List.getElem?_eq_getElem this]
        exact r4 _ (List.getElem_mem _)
      have lm := length_lincomb n' tb.cMid _ r4
      simp only [List.mem_cons, List.not_mem_nil, or_false] at hw
      rcases hw with rfl | rfl | rfl | rfl | rfl
      · rw [length_vscale]; exact l0
      · rw [length_vscale]; exact l6
      · exact hy
      · exact r1
      · rw [length_vadd, length_vscale, hy, lm]; exact Nat.min_self n'
    · unfold interpFit
      simpa using hfit
  · simp only [hacc, Bool.false_eq_true, if_false, true_and]
    exact ⟨hy, hff, hco, hne⟩

/-- every Dormand–Prince step the stratified run attempts while advancing to `target` (with the given fuel) evaluates the
stratified vector field only at states in `Q` -/
def AdvanceOK (Q : List α → Prop) (tb : Tableau α) (ctl' : Control α) (f' : List α → α → List α) (target : α) :
    Nat → OdeState α → Prop
  | 0, _ => True
  | fuel + 1, s =>
    contCond ctl' target s = true →
      (∀ z ∈ rkStageStates tb f' s.y s.f s.t s.dt, Q z) ∧ AdvanceOK Q tb ctl' f' target fuel (stepState tb ctl' f' s)

theorem advance_map (hA : LinMap n' n A) (tb : Tableau α) (hfit : tb.fitRows ≠ []) (ctl' ctl : Control α)
    (f f' : List α → α → List α) (Q : List α → Prop)
    (hf' : ∀ y t, y.length = n' → (f' y t).length = n')
    (h : ∀ y t, y.length = n' → Q y → f (A y) t = A (f' y t))
    (hctl : CtlCompat ctl' ctl n' A) (target : α) :
    ∀ (fuel : Nat) (s : OdeState α), OdeLen n' s → AdvanceOK Q tb ctl' f' target fuel s →
      advance tb ctl f target fuel (mapState A s) = mapState A (advance tb ctl' f' target fuel s) ∧
        OdeLen n' (advance tb ctl' f' target fuel s)
  | 0, _, hs, _ => ⟨rfl, hs⟩
  | fuel + 1, s, hs, hok => by
      rw [advance_succ, advance_succ]
      have hc : contCond ctl target (mapState A s) = contCond ctl' target s := by
        simp [contCond, mapState, hctl.lt, hctl.pos]
      rw [hc]
      by_cases hcc : contCond ctl' target s = true
      · obtain ⟨hq, hrest⟩ := hok hcc
        obtain ⟨e1, e2⟩ := stepState_map hA tb hfit ctl' ctl f f' Q hf' h hctl s hs hq
        simp only [hcc, if_true, e1]
        exact advance_map hA tb hfit ctl' ctl f f' Q hf' h hctl target fuel _ e2 hrest
      · rw [if_neg hcc, if_neg hcc]
        exact ⟨rfl, hs⟩

theorem odeRow_map (hA : LinMap n' n A) (s : OdeState α) (hs : OdeLen n' s) (target : α) :
    odeRow (mapState A s) target = A (odeRow s target) := by
  obtain ⟨_, _, hco, hne⟩ := hs
  unfold odeRow
  simp only [mapState]
  cases hcs : s.coeff with
  | nil => exact absurd hcs hne
  | cons c cs =>
    rw [hcs] at hco
    exact polyval_map hA c cs _ (hco c (by simp)) (fun v hv => hco v (by simp [hv]))

/-- the same for the whole scan over the requested times -/
def ScanOK (Q : List α → Prop) (tb : Tableau α) (ctl' : Control α) (f' : List α → α → List α) (fuel : Nat) :
    List α → OdeState α → Prop
  | [], _ => True
  | T :: l, s => AdvanceOK Q tb ctl' f' T fuel s ∧ ScanOK Q tb ctl' f' fuel l (advance tb ctl' f' T fuel s)

theorem scanOut_map (hA : LinMap n' n A) (tb : Tableau α) (hfit : tb.fitRows ≠ []) (ctl' ctl : Control α)
    (f f' : List α → α → List α) (Q : List α → Prop)
    (hf' : ∀ y t, y.length = n' → (f' y t).length = n')
    (h : ∀ y t, y.length = n' → Q y → f (A y) t = A (f' y t))
    (hctl : CtlCompat ctl' ctl n' A) (fuel : Nat) :
    ∀ (l : List α) (s : OdeState α), OdeLen n' s → ScanOK Q tb ctl' f' fuel l s →
      scanOut (fun s target => advance tb ctl f target fuel s) odeRow (mapState A s) l
        = (scanOut (fun s target => advance tb ctl' f' target fuel s) odeRow s l).map A
  | [], _, _, _ => rfl
  | T :: l, s, hs, hok => by
      obtain ⟨e1, e2⟩ := advance_map hA tb hfit ctl' ctl f f' Q hf' h hctl T fuel s hs hok.1
      simp only [scanOut, List.map_cons, e1, odeRow_map hA _ e2,
        scanOut_map hA tb hfit ctl' ctl f f' Q hf' h hctl fuel l _ e2 hok.2]

/-- **Dormand–Prince under a linear map**: for two controllers taking the same decisions, the dense-output rows from `A y0`
under `f` are the images of the rows from `y0` under `f'`, as long as the stratified run stays in `Q` -/
theorem odeint_map (hA : LinMap n' n A) (tb : Tableau α) (hfit : tb.fitRows ≠ []) (ctl' ctl : Control α)
    (f f' : List α → α → List α) (Q : List α → Prop)
    (hf' : ∀ y t, y.length = n' → (f' y t).length = n')
    (h : ∀ y t, y.length = n' → Q y → f (A y) t = A (f' y t))
    (hctl : CtlCompat ctl' ctl n' A) (fuel : Nat) (dt0 : α) (y0 : List α) (hy0 : y0.length = n') (hq0 : Q y0)
    (ts : List α)
    (hok : ScanOK Q tb ctl' f' fuel (ts.drop 1) (odeInit f' dt0 y0 (ts.getD 0 0))) :
    odeint tb ctl f fuel dt0 (A y0) ts = (odeint tb ctl' f' fuel dt0 y0 ts).map A := by
  rw [odeint_eq', odeint_eq']
  have h0 : odeInit f dt0 (A y0) (ts.getD 0 0) = mapState A (odeInit f' dt0 y0 (ts.getD 0 0)) := by
    simp only [odeInit, mapState, h y0 _ hy0 hq0, List.map_replicate]
  have hlen : OdeLen n' (odeInit f' dt0 y0 (ts.getD 0 0)) := by
    refine ⟨hy0, hf' _ _ hy0, ?_, by simp [odeInit]⟩
    intro v hv
    simp only [odeInit, List.mem_replicate] at hv
    rw [hv.2]; exact hy0
  rw [h0, scanOut_map hA tb hfit ctl' ctl f f' Q hf' h hctl fuel _ _ hlen hok, List.map_cons]

end
end Summer.Proofs.AggDopri
