import Summer.Proofs.ModelParams
import Summer.Proofs.Solvers
import Summer.Proofs.Rates
import Summer.Spec.NoStale
/-
Helper lemmas for `Props/C10Solvers.lean`: the ingredients of one evaluation of the right-hand side, the
stage list of one Runge–Kutta step, and the "carried derivative is current" invariant of the adaptive
stepper.
-/
namespace Summer.Proofs.NoStale
open Summer Summer.Run Summer.Spec Summer.Spec.NoStale Summer.Solvers Summer.Spec.Solvers Summer.Proofs.ModelParams

/-! ### one evaluation of the right-hand side -/
section step
variable {α : Type} [Zero α] [One α] [Add α] [Sub α] [Mul α] [Div α] [LT α] [DecidableLT α]

/-- a successful `step` at `(t, x)`: the static stage succeeded, the per-evaluation stage delivered the
weights at `⟨p, t, cleanV x⟩`, mixing matrix and infectiousness are those of this evaluation, and the
remaining fields are computed from them and `cleanV x` -/
theorem step_some (m : Model α) (b : Backend) (p : List (String × α)) (t : α) (x : List α) (s : StepOut α)
    (h : step m b p t x = some s) :
    ∃ static, staticFlowWeights m p = some static ∧
      flowWeights m ⟨p, t, cleanV x⟩ static = some s.weights ∧
      mixingMatrix m ⟨p, t, cleanV x⟩ = some s.mixing ∧
      compInfectiousness m p = some s.compInf ∧
      s = outOf b s.weights (cleanV x) s.mixing s.compInf := by
  unfold step at h
  cases hs : staticFlowWeights m p with
  | none => rw [hs] at h; cases h
  | some st =>
    rw [hs] at h
    simp only [Option.bind_eq_bind, Option.bind_some] at h
    cases hw : flowWeights m ⟨p, t, cleanV x⟩ st with
    | none => rw [hw] at h; cases h
    | some w =>
      rw [hw] at h
      cases hmx : mixingMatrix m ⟨p, t, cleanV x⟩ with
      | none => rw [hmx] at h; cases h
      | some mix =>
        rw [hmx] at h
        cases hci : compInfectiousness m p with
        | none => rw [hci] at h; cases h
        | some ci =>
          rw [hci] at h
          have : s = outOf b w (cleanV x) mix ci := (Option.some.inj h).symm
          subst this
          exact ⟨st, rfl, hw, rfl, rfl, rfl⟩

/-- `EvaluatedAt` pins the record down completely -/
theorem evaluatedAt_unique (m : Model α) (b : Backend) (p : List (String × α)) (t : α) (x : List α)
    (s s' : StepOut α) (h : EvaluatedAt m b p t x s) (h' : EvaluatedAt m b p t x s') : s = s' := by
  have hw : s.weights = s'.weights := by
    apply List.ext_getElem (by rw [h.nWeights, h'.nWeights])
    intro j h1 h2
    have a := h.weights j (by rw [← h.nWeights]; exact h1) h1
    have a' := h'.weights j (by rw [← h.nWeights]; exact h1) h2
    rw [a] at a'
    exact Option.some.inj a'
  have hm : s.mixing = s'.mixing := Option.some.inj (h.mixing.symm.trans h'.mixing)
  have hc : s.compInf = s'.compInf := Option.some.inj (h.compInf.symm.trans h'.compInf)
  have hmu : (s.mults, s.perStrain) = (s'.mults, s'.perStrain) := by
    rw [h.mults, h'.mults, hm, hc]
  have hmu1 : s.mults = s'.mults := congrArg Prod.fst hmu
  have hmu2 : s.perStrain = s'.perStrain := congrArg Prod.snd hmu
  have hf : s.flowRates = s'.flowRates := by rw [h.flowRates, h'.flowRates, hw, hmu1]
  have hr : s.compRates = s'.compRates := by rw [h.compRates, h'.compRates, hf]
  cases s; cases s'
  simp only at hw hm hc hmu1 hmu2 hf hr
  subst hw hm hc hmu1 hmu2 hf hr
  rfl

end step

/-! ### stage lists built by `k ↦ k ++ [g k i]` -/
section stages
variable {β ι : Type}

theorem foldl_snoc_stages (g : List β → ι → β) : ∀ (is : List ι) (k0 : List β),
    (is.foldl (fun k i => k ++ [g k i]) k0).length = k0.length + is.length ∧
    (is.foldl (fun k i => k ++ [g k i]) k0).take k0.length = k0 ∧
    ∀ j (hj : j < is.length), (is.foldl (fun k i => k ++ [g k i]) k0)[k0.length + j]? =
      some (g ((is.foldl (fun k i => k ++ [g k i]) k0).take (k0.length + j)) is[j])
  | [], k0 => by
    refine ⟨by simp, by simp, fun j hj => by cases hj⟩
  | i :: is, k0 => by
    obtain ⟨h1, h2, h3⟩ := foldl_snoc_stages g is (k0 ++ [g k0 i])
    rw [List.foldl_cons]
    simp only [List.length_append, List.length_cons, List.length_nil] at h1 h2 h3
    have htake : (is.foldl (fun k i => k ++ [g k i]) (k0 ++ [g k0 i])).take k0.length = k0 := by
      have := congrArg (List.take k0.length) h2
      rw [List.take_take, Nat.min_eq_left (Nat.le_succ _)] at this
      rw [this, List.take_left']
      rfl
    refine ⟨by simp only [List.length_cons]; omega, htake, ?_⟩
    intro j hj
    cases j with
    | zero =>
      have h0 : (is.foldl (fun k i => k ++ [g k i]) (k0 ++ [g k0 i]))[k0.length]? = some (g k0 i) := by
        have := congrArg (fun l => l[k0.length]?) h2
        simp only [List.getElem?_take, Nat.lt_succ_self, if_true] at this
        rw [this]
        simp
      simp only [Nat.add_zero, List.getElem_cons_zero]
      rw [h0, htake]
    | succ j =>
      have := h3 j (by simpa using hj)
      simp only [List.getElem_cons_succ]
      rw [show k0.length + (j + 1) = k0.length + 1 + j by omega]
      exact this

end stages

section rk
variable {α : Type} [Field α]

/-- the stages of one `rkStep`: 7 of them; stage `0` is the `f0` handed in; stage `i+1` is the rate
function at the stage's own state `y0 + dt·Σ_{j≤i} beta[i][j]·k_j` and own time `t0 + dt·alpha[i]` -/
theorem rkStages_points (tb : Tableau α) (f : List α → α → List α) (y0 f0 : List α) (t0 dt : α) :
    (rkStep tb f y0 f0 t0 dt).2.2.2.length = 7 ∧
    (rkStep tb f y0 f0 t0 dt).2.2.2.getD 0 [] = f0 ∧
    ∀ i, i < 6 → (rkStep tb f y0 f0 t0 dt).2.2.2.getD (i + 1) [] =
      f (vadd y0 (vscale dt (lincomb y0.length (tb.beta.getD i [])
          ((rkStep tb f y0 f0 t0 dt).2.2.2.take (i + 1)))))
        (t0 + dt * tb.alpha.getD i 0) := by
  have hk : (rkStep tb f y0 f0 t0 dt).2.2.2 =
      (List.range 6).foldl (fun (k : List (List α)) i =>
        k ++ [(fun (k : List (List α)) (i : Nat) =>
          f (vadd y0 (vscale dt (lincomb y0.length (tb.beta.getD i []) k))) (t0 + dt * tb.alpha.getD i 0)) k i])
        [f0] := rfl
  obtain ⟨h1, h2, h3⟩ := foldl_snoc_stages (fun (k : List (List α)) (i : Nat) =>
    f (vadd y0 (vscale dt (lincomb y0.length (tb.beta.getD i []) k))) (t0 + dt * tb.alpha.getD i 0))
    (List.range 6) [f0]
  rw [← hk] at h1 h2 h3
  simp only [List.length_cons, List.length_nil, List.length_range] at h1 h2 h3
  refine ⟨by omega, ?_, ?_⟩
  · have := congrArg (fun l => l.getD 0 []) h2
    simpa [List.getD_eq_getElem?_getD, List.getElem?_take] using this
  · intro i hi
    have := h3 i hi
    rw [List.getD_eq_getElem?_getD, show i + 1 = 0 + 1 + i by omega, this]
    simp

/-- one attempted step keeps the invariant "the carried derivative is the rate function at the
carried state and time" (FSAL tableau, length-preserving rate function) -/
theorem stepState_current (tb : Tableau α) (hfsal : FSAL tb) (ctl : Control α) {f : List α → α → List α}
    (n : Nat) (hf : ∀ y t, y.length = n → (f y t).length = n) (s : OdeState α)
    (hy : s.y.length = n) (hcur : s.f = f s.y s.t) :
    (stepState tb ctl f s).y.length = n ∧
      (stepState tb ctl f s).f = f (stepState tb ctl f s).y (stepState tb ctl f s).t := by
  have hf0 : s.f.length = n := by rw [hcur]; exact hf _ _ hy
  unfold stepState
  simp only []
  split
  · exact ⟨(Solvers.rkStep_shape tb n hf s.y s.f hy hf0 s.t s.dt).1,
      Solvers.rkStep_fsal tb hfsal n hf s.y s.f hy hf0 s.t s.dt⟩
  · exact ⟨hy, hcur⟩

theorem advance_current (tb : Tableau α) (hfsal : FSAL tb) (ctl : Control α) {f : List α → α → List α}
    (n : Nat) (hf : ∀ y t, y.length = n → (f y t).length = n) (target : α) :
    ∀ (fuel : Nat) (s : OdeState α), s.y.length = n → s.f = f s.y s.t →
      (advance tb ctl f target fuel s).y.length = n ∧
        (advance tb ctl f target fuel s).f =
          f (advance tb ctl f target fuel s).y (advance tb ctl f target fuel s).t
  | 0, s, hy, hcur => ⟨hy, hcur⟩
  | fuel + 1, s, hy, hcur => by
    rw [Solvers.advance_succ]
    split
    · obtain ⟨h1, h2⟩ := stepState_current tb hfsal ctl n hf s hy hcur
      exact advance_current tb hfsal ctl n hf target fuel _ h1 h2
    · exact ⟨hy, hcur⟩

theorem foldl_advance_current (tb : Tableau α) (hfsal : FSAL tb) (ctl : Control α) {f : List α → α → List α}
    (n : Nat) (hf : ∀ y t, y.length = n → (f y t).length = n) (fuel : Nat) :
    ∀ (ts : List α) (s : OdeState α), s.y.length = n → s.f = f s.y s.t →
      (ts.foldl (fun s target => advance tb ctl f target fuel s) s).y.length = n ∧
        (ts.foldl (fun s target => advance tb ctl f target fuel s) s).f =
          f (ts.foldl (fun s target => advance tb ctl f target fuel s) s).y
            (ts.foldl (fun s target => advance tb ctl f target fuel s) s).t
  | [], s, hy, hcur => ⟨hy, hcur⟩
  | target :: ts, s, hy, hcur => by
    rw [List.foldl_cons]
    obtain ⟨h1, h2⟩ := advance_current tb hfsal ctl n hf target fuel s hy hcur
    exact foldl_advance_current tb hfsal ctl n hf fuel ts _ h1 h2

end rk

end Summer.Proofs.NoStale
