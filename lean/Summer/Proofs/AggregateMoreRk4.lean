import Summer.Proofs.AggregateTraj
import Summer.Spec.AggregateMoreRk4
/-
Helper lemmas for property C03, "rk4_agg": aggregation commutes with the classical RK4 scheme as long
as the four stage states of every step stay in the region where aggregation commutes with the vector
field.
-/
open Summer Summer.Build Summer.Run Summer.Spec Summer.Solvers Summer.Spec.AggregateMoreRk4
set_option linter.unusedSectionVars false

namespace Summer.Proofs.AggregateMoreRk4
section
variable {α : Type} [Field α]

theorem vscale_one (k : List α) : vscale (1 : α) k = k := by
  simp [vscale]

theorem map_div_two_eq_vscale (k : List α) : k.map (· / (two : α)) = vscale ((two : α)⁻¹) k := by
  simp only [vscale]
  exact List.map_congr_left (fun x _ => div_eq_inv_mul x two)

theorem sumL_vscale (h : α) : ∀ (a : List α), sumL (vscale h a) = h * sumL a
  | [] => by simp [vscale, sumL]
  | x :: a => by
      have ih := sumL_vscale h a
      simp only [vscale, List.map_cons, sumL] at ih ⊢
      rw [ih]; ring

/-- aggregation commutes with the (truncating) sum of two vectors of equal length -/
theorem aggBy_vadd (p : Comp → Bool) (n : Nat) (comps : List Comp) (y k : List α) (hl : y.length = k.length) :
    aggBy p n comps (vadd y k) = vadd (aggBy p n comps y) (aggBy p n comps k) := by
  have := Summer.Proofs.aggBy_linear p n (1 : α) comps y k hl
  rwa [vscale_one, vscale_one] at this

/-- aggregation commutes with scaling -/
theorem aggBy_vscale (p : Comp → Bool) (n : Nat) (h : α) (comps : List Comp) :
    ∀ (k : List α), aggBy p n comps (vscale h k) = vscale h (aggBy p n comps k) := by
  induction comps with
  | nil => intro k; simp [aggBy, vscale]
  | cons c cs ih =>
    intro k
    simp only [aggBy]
    have htake : (vscale h k).take n = vscale h (k.take n) := by simp [vscale, List.map_take]
    have hdrop : ∀ j, (vscale h k).drop j = vscale h (k.drop j) := by intro j; simp [vscale, List.map_drop]
    by_cases hp : p c = true
    · simp only [hp, if_true]
      rw [htake, hdrop, ih, sumL_vscale]
      simp [vscale]
    · simp only [hp, Bool.false_eq_true, if_false]
      rw [hdrop, ih]
      cases k with
      | nil => simp [vscale]
      | cons a k' => simp [vscale]

/-- aggregation commutes with halving (`k / 2` as written in `rk4Step`) -/
theorem aggBy_half (p : Comp → Bool) (n : Nat) (comps : List Comp) (k : List α) :
    aggBy p n comps (k.map (· / (two : α))) = (aggBy p n comps k).map (· / (two : α)) := by
  rw [map_div_two_eq_vscale, map_div_two_eq_vscale, aggBy_vscale]

theorem length_vscale (h : α) (k : List α) : (vscale h k).length = k.length := by simp [vscale]
theorem length_vadd (a b : List α) : (vadd a b).length = min a.length b.length := by simp [vadd]

/-- the final RK4 combination commutes with `A` when all increments have the length of the state -/
theorem rk4_comb (A : List α → List α)
    (hadd : ∀ y k, y.length = k.length → A (vadd y k) = vadd (A y) (A k))
    (hsc : ∀ (c : α) k, A (vscale c k) = vscale c (A k))
    (c : α) (y k1 k2 k3 k4 : List α) (l1 : k1.length = y.length) (l2 : k2.length = y.length)
    (l3 : k3.length = y.length) (l4 : k4.length = y.length) :
    A (vadd y (vscale c (vadd (vadd (vadd k1 (vscale two k2)) (vscale two k3)) k4)))
      = vadd (A y) (vscale c (vadd (vadd (vadd (A k1) (vscale two (A k2))) (vscale two (A k3))) (A k4))) := by
  have e1 : (vadd k1 (vscale two k2)).length = y.length := by rw [length_vadd, length_vscale, l1, l2, Nat.min_self]
  have e2 : (vadd (vadd k1 (vscale two k2)) (vscale two k3)).length = y.length := by
    rw [length_vadd, length_vscale, e1, l3, Nat.min_self]
  have e3 : (vadd (vadd (vadd k1 (vscale two k2)) (vscale two k3)) k4).length = y.length := by
    rw [length_vadd, e2, l4, Nat.min_self]
  rw [hadd _ _ (by rw [length_vscale, e3]), hsc, hadd _ _ (by rw [e2, l4]),
    hadd _ _ (by rw [e1, length_vscale, l3]), hadd _ _ (by rw [l1, length_vscale, l2]), hsc, hsc]

/-- if a map `A` commutes with `vadd` (on equal lengths), `vscale` and halving, and intertwines the
vector fields `f'`, `f` on a set `Q` containing the four stage states of the step, then it
intertwines the RK4 steps. -/
theorem rk4Step_map (A : List α → List α) (f f' : List α → α → List α) (h : α) (Q : List α → Prop)
    (hadd : ∀ y k, y.length = k.length → A (vadd y k) = vadd (A y) (A k))
    (hsc : ∀ (c : α) k, A (vscale c k) = vscale c (A k))
    (hhalf : ∀ k, A (k.map (· / (two : α))) = (A k).map (· / (two : α)))
    (hf : ∀ y t, Q y → (f' y t).length = y.length ∧ A (f' y t) = f (A y) t)
    (y : List α) (t : α) (hQ : ∀ z ∈ rk4Stages f' h y t, Q z) :
    A (rk4Step f' h y t) = rk4Step f h (A y) t := by
  -- stage 1
  have q1 : Q y := hQ _ (by simp [rk4Stages])
  obtain ⟨l1, a1⟩ := hf y t q1
  have lk1 : (vscale h (f' y t)).length = y.length := by rw [length_vscale, l1]
  have ak1 : A (vscale h (f' y t)) = vscale h (f (A y) t) := by rw [hsc, a1]
  -- stage 2
  have q2 : Q (vadd y ((vscale h (f' y t)).map (· / (two : α)))) := hQ _ (by simp [rk4Stages])
  have as2 : A (vadd y ((vscale h (f' y t)).map (· / (two : α))))
      = vadd (A y) ((vscale h (f (A y) t)).map (· / (two : α))) := by
    rw [hadd _ _ (by rw [List.length_map, lk1]), hhalf, ak1]
  have ls2 : (vadd y ((vscale h (f' y t)).map (· / (two : α)))).length = y.length := by
    rw [length_vadd, List.length_map, lk1, Nat.min_self]
  obtain ⟨l2, a2⟩ := hf _ (t + h / two) q2
  rw [ls2] at l2
  rw [as2] at a2
  have lk2 : (vscale h (f' (vadd y ((vscale h (f' y t)).map (· / (two : α)))) (t + h / two))).length = y.length := by
    rw [length_vscale, l2]
  have ak2 := congrArg (vscale h) a2
  rw [← hsc] at ak2
  -- stage 3
  have q3 : Q (vadd y ((vscale h (f' (vadd y ((vscale h (f' y t)).map (· / (two : α)))) (t + h / two))).map
      (· / (two : α)))) := hQ _ (by simp [rk4Stages])
  have as3 := hadd y ((vscale h (f' (vadd y ((vscale h (f' y t)).map (· / (two : α)))) (t + h / two))).map
      (· / (two : α))) (by rw [List.length_map, lk2])
  rw [hhalf, ak2] at as3
  have ls3 : (vadd y ((vscale h (f' (vadd y ((vscale h (f' y t)).map (· / (two : α)))) (t + h / two))).map
      (· / (two : α)))).length = y.length := by
    rw [length_vadd, List.length_map, lk2, Nat.min_self]
  obtain ⟨l3, a3⟩ := hf _ (t + h / two) q3
  rw [ls3] at l3
  rw [as3] at a3
  have lk3 := (length_vscale h _).trans l3
  have ak3 := congrArg (vscale h) a3
  rw [← hsc] at ak3
  -- stage 4
  have q4 := hQ (vadd y (vscale h (f' (vadd y ((vscale h (f' (vadd y ((vscale h (f' y t)).map (· / (two : α))))
      (t + h / two))).map (· / (two : α)))) (t + h / two)))) (by simp [rk4Stages])
  have as4 := hadd y _ lk3.symm
  rw [ak3] at as4
  have ls4 := (length_vadd y _).trans (by rw [lk3, Nat.min_self])
  obtain ⟨l4, a4⟩ := hf _ (t + h) q4
  rw [ls4] at l4
  rw [as4] at a4
  have lk4 := (length_vscale h _).trans l4
  have ak4 := congrArg (vscale h) a4
  rw [← hsc] at ak4
  -- the combination
  simp only [rk4Step]
  rw [rk4_comb A hadd hsc _ y _ _ _ _ lk1 lk2 lk3 lk4, ak1, ak2, ak3, ak4]

/-- rows: two lists of states that are generated row by row by `rk4Step` (as `rk4_rows` says of
`Solvers.rk4`) from `y0'` and `A y0'` correspond under `A`, provided the stage states of every
step of the primed list are in `Q`. -/
theorem rows_map (A : List α → List α) (f f' : List α → α → List α) (h : α) (Q : List α → Prop)
    (hadd : ∀ y k, y.length = k.length → A (vadd y k) = vadd (A y) (A k))
    (hsc : ∀ (c : α) k, A (vscale c k) = vscale c (A k))
    (hhalf : ∀ k, A (k.map (· / (two : α))) = (A k).map (· / (two : α)))
    (hf : ∀ y t, Q y → (f' y t).length = y.length ∧ A (f' y t) = f (A y) t)
    (times : List α) (y0' : List α) (L R : List (List α))
    (hL : L.length = times.length ∧ L.getD 0 [] = y0' ∧
      ∀ i, i + 1 < times.length → L.getD (i + 1) [] = rk4Step f' h (L.getD i []) (times.getD i 0))
    (hR : R.length = times.length ∧ R.getD 0 [] = A y0' ∧
      ∀ i, i + 1 < times.length → R.getD (i + 1) [] = rk4Step f h (R.getD i []) (times.getD i 0))
    (hQ : ∀ i, i + 1 < times.length → ∀ z ∈ rk4Stages f' h (L.getD i []) (times.getD i 0), Q z) :
    L.map A = R := by
  obtain ⟨hLl, hL0, hLs⟩ := hL
  obtain ⟨hRl, hR0, hRs⟩ := hR
  have key : ∀ i, i < times.length → A (L.getD i []) = R.getD i [] := by
    intro i
    induction i with
    | zero => intro _; rw [hL0, hR0]
    | succ i ih =>
      intro hi
      rw [hLs i hi, hRs i hi, ← ih (by omega)]
      exact rk4Step_map A f f' h Q hadd hsc hhalf hf _ _ (hQ i hi)
  apply List.ext_getElem
  · rw [List.length_map, hLl, hRl]
  · intro i h1 h2
    rw [List.length_map] at h1
    have := key i (by omega)
    rw [List.getD_eq_getElem?_getD, List.getD_eq_getElem?_getD, List.getElem?_eq_getElem h1,
      List.getElem?_eq_getElem h2] at this
    simpa using this
end
end Summer.Proofs.AggregateMoreRk4
