"""Pipes DSL ops to the compiled Lean driver (lean/.lake/build/bin/driver) and decodes answers."""
import json, os, struct, subprocess
from fractions import Fraction

HERE = os.path.dirname(os.path.abspath(__file__))
DRIVER = os.path.join(HERE, "..", "lean", ".lake", "build", "bin", "driver")


def decode(v):
    """numbers are strings: "n/d" (exact) or "f:<bits>" (IEEE double)"""
    if isinstance(v, str):
        if v.startswith("f:"):
            return struct.unpack("<d", struct.pack("<Q", int(v[2:])))[0]
        if "/" in v and v.replace("/", "").replace("-", "").isdigit():
            return Fraction(v)
        return v
    if isinstance(v, list):
        return [decode(x) for x in v]
    if isinstance(v, dict):
        return {k: decode(x) for k, x in v.items()}
    return v


class LeanDriver:
    def __init__(self, mode="rat"):
        self.mode = mode
        self.p = subprocess.Popen([DRIVER, mode], stdin=subprocess.PIPE, stdout=subprocess.PIPE, text=True, bufsize=1)

    def send(self, op, raw=False):
        self.p.stdin.write(json.dumps(op) + "\n")
        self.p.stdin.flush()
        line = self.p.stdout.readline()
        if not line:
            raise RuntimeError("lean driver died on op %r" % (op,))
        r = json.loads(line)
        return r if raw else decode(r)

    def close(self):
        try:
            self.p.stdin.close()
            self.p.wait(timeout=5)
        except Exception:
            self.p.kill()
