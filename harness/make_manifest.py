#!/venv/bin/python
"""(re)generates /verif/MANIFEST.json from the property modules (run with /venv/bin/python)"""
import json, importlib, sys, os
HERE = os.path.dirname(os.path.abspath(__file__)); ROOT = os.path.dirname(HERE)
sys.path.insert(0, HERE); sys.path.insert(0, os.path.join(HERE, "props"))
props = [json.loads(l) for l in open(os.path.join(ROOT, "properties.jsonl"))]
LEVEL_TEXT = json.load(open(os.path.join(HERE, "level_text.json")))
checks = []
for p in props:
    pid = p["id"]
    mod = importlib.import_module(pid.lower())
    checks.append({
        "property_id": pid,
        "quick_cmd": f"python3 harness/check.py {pid} --tier quick",
        "thorough_cmd": f"python3 harness/check.py {pid} --tier thorough",
        "evidence_file": f"evidence/{pid}.json",
        "replay_cmd_template": f"python3 harness/check.py {pid} --replay {{path}}",
        "engine": "lean4+correspondence",
        "level_claimed": {"category": "proof", "text": LEVEL_TEXT[pid], "design_ref": f"DESIGN.md section 4 ({pid}) and section 8"},
        "level_note": "Trusted base: Lean 4.33 kernel (axioms propext, Classical.choice, Quot.sound only; no native_decide/bv_decide/sorry); the hand-written "
                      "Lean model is tied to /repo by the correspondence (differential testing bounded by the generator; distribution in evidence) and by the "
                      "translators for tables / tableau / solver and interpolation formulas / structural methods (compartment and flow matching, stratify) / right-hand-side array programs (get_flow_rates, multipliers, application matrix) / C19 skeleton; harness/jaxfix.py; float rounding not modelled (1e-9). " + "; ".join(getattr(mod, "ASSUMPTIONS", [])),
        "technique": "Lean 4 theorems (" + ", ".join(mod.THEOREM_FILES) + ") + correspondence / oracle on the real code",
    })
man = {"version": 1,
       "setup_cmd": "cd /verif && python3 harness/translate/gen_tables.py && python3 harness/translate/gen_arith.py && python3 harness/translate/gen_struct.py && python3 harness/translate/gen_rates.py && python3 harness/translate/gen_skeleton.py --lean-root lean && cd lean && lake build Summer driver",
       "hooks": {"guard": "MONASH_EMU_SUMMER2_VERIF",
                 "enable": "no source hooks are needed: the harness reads public attributes (model.flows, model.compartments, runner.impl_dict['one_step']) and loads an external NumPy-2/JAX compat layer (harness/jaxfix.py)",
                 "baseline_off_cmd": "cd /repo && /venv/bin/python -m pytest -ra -q -p no:cacheprovider --timeout=900 --continue-on-collection-errors",
                 "source_commits": [], "add_only": True},
       "engines": [{"name": "lean4+correspondence", "path": "lean/ + harness/", "serves_properties": [p["id"] for p in props],
                    "kind_free_text": "Lean 4 model + theorems (lean/Summer), JSON-lines driver (lean/Driver), Python correspondence harness on the real summer2 running on real JAX (harness/)"}],
       "checks": checks,
       "notes": "fix: commits in /repo: rk4 step size, query_flows destination filter, absolute-flow double split, init_population_with_graphobject finalisation guard, hash-seed dependent set iteration. Known findings: known_findings.json.",
       "not_applicable": []}
json.dump(man, open(os.path.join(ROOT, "MANIFEST.json"), "w"), indent=1)
print("wrote MANIFEST.json with", len(checks), "checks")
