#!/bin/bash
# Exploration run (not a registered check): every property with several seeds (quick) and, optionally, the thorough tier, on the
# unchanged tree.  Any VIOLATION here is a false alarm of the machinery or a genuine defect and must be looked at.
# usage (from a vp run snapshot):  vp run --with-repo --timeout 6h -- bash harness/soak.sh "1 2 3" thorough
SEEDS=${1:-"1 2 3"}
THOROUGH=${2:-}
export SUMMER2_REPO=${VP_RUN_REPO:-/repo}
export VERIF_WORKERS=${VERIF_WORKERS:-8}
python3 harness/translate/gen_tables.py && python3 harness/translate/gen_arith.py && python3 harness/translate/gen_struct.py && python3 harness/translate/gen_skeleton.py --lean-root lean && (cd lean && lake build Summer driver 2>&1 | tail -1)
for s in $SEEDS; do
  for i in 01 02 03 04 05 06 07 08 09 10 11 12 13 14 15 16 17 18 19; do
    VERIF_SEED=$s python3 harness/check.py C$i --tier quick 2>&1 | grep -E "^VIOLATION|^KNOWN|^C$i |INFRA" | sed "s/^/seed=$s /"
  done
done
if [ -n "$THOROUGH" ]; then
  for i in 01 02 03 04 05 06 07 08 09 10 11 12 13 14 15 16 17 18 19; do
    VERIF_SEED=0 python3 harness/check.py C$i --tier thorough 2>&1 | grep -E "^VIOLATION|^KNOWN|^C$i |INFRA" | sed "s/^/thorough /"
  done
fi
echo SOAK-DONE
