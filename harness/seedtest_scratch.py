#!/usr/bin/env python3
"""Exploratory detection runs that leave /repo and /verif alone.
usage: seedtest_scratch.py <seed dir> [<seed dir> ...] [--props Cxx,Cyy]

Takes a copy of /verif (with its Lean build output) under /tmp/vscratch/verif and, for every seeded change, a scratch git
worktree of /repo with the patch applied; runs the property's quick check from the copy with SUMMER2_REPO pointing at the
patched worktree; removes the worktree.  Used while developing (so that Lean work in /verif/lean and other checks on /repo
are not disturbed).  The detection records committed under seeded/<id>/detection.json come from harness/seedtest.py, which
applies the patch to /repo itself and runs the registered command in /verif."""
import sys, os, subprocess, json, shutil
ROOT = os.path.dirname(os.path.dirname(os.path.abspath(__file__)))
SCR = os.environ.get("SEED_SCRATCH", "/tmp/vscratch")


def sh(cmd, **kw):
    return subprocess.run(cmd, shell=True, capture_output=True, text=True, **kw)


def main():
    args = sys.argv[1:]
    props_override = None
    if "--props" in args:
        i = args.index("--props")
        props_override = args[i + 1].split(",")
        args = args[:i] + args[i + 2:]
    os.makedirs(SCR, exist_ok=True)
    copy = os.path.join(SCR, "verif")
    r = sh(f"rsync -a --delete --exclude .git {ROOT}/ {copy}/")
    if r.returncode != 0:
        print("rsync failed", r.stderr); sys.exit(2)
    for d in args:
        d = os.path.abspath(d)
        sid = os.path.basename(d.rstrip("/"))
        if os.path.basename(d) in ("m1", "m2"):
            sid = os.path.basename(os.path.dirname(d)) + "-" + os.path.basename(d)
        meta = json.load(open(os.path.join(d, "meta.json")))
        props = props_override or [meta["property"]]
        wt = os.path.join(SCR, "repo_" + sid)
        sh(f"git -C /repo worktree remove --force {wt}")
        r = sh(f"git -C /repo worktree add -q --detach {wt} HEAD")
        if r.returncode != 0:
            print(sid, "cannot create worktree", r.stderr); continue
        try:
            r = sh(f"git apply {d}/patch.diff", cwd=wt)
            if r.returncode != 0:
                print(sid, "patch does not apply", r.stderr[-300:]); continue
            results = {}
            for p in props:
                env = dict(os.environ, SUMMER2_REPO=wt)
                out = subprocess.run(["python3", os.path.join(copy, "harness", "check.py"), p, "--tier", "quick"], capture_output=True, text=True,
                                     cwd=copy, env=env, timeout=3000)
                lines = [l for l in out.stdout.splitlines() if l.startswith(("VIOLATION", "KNOWN-FINDING")) or l.startswith(p + " ")]
                print(sid, p, "exit", out.returncode, "|", " || ".join(l[:260] for l in lines), flush=True)
                results[p] = {"exit": out.returncode, "lines": lines}
                if out.returncode not in (0, 1):
                    print("   stderr tail:", out.stderr[-600:].replace("\n", " | "))
            if os.environ.get("SEED_RECORD") and os.path.isdir(os.path.join(ROOT, "seeded", sid)) and not props_override:
                head = sh("git -C %s rev-parse --short HEAD" % ROOT).stdout.strip()
                results["_how"] = {"mode": "copy of /verif (working tree at " + head + ") run with SUMMER2_REPO pointing at a scratch worktree of /repo with the patch applied "
                                           "(harness/seedtest_scratch.py); /repo itself untouched"}
                json.dump(results, open(os.path.join(ROOT, "seeded", sid, "detection.json"), "w"), indent=1)
        finally:
            sh(f"git -C /repo worktree remove --force {wt}")


if __name__ == "__main__":
    main()
