#!/bin/bash
# round 2: usage: seed_batch2.sh C01 C02 ...  : confirm each sub-agent change under /tmp/mut2/out/<ID>/m{1,2}, file it as seeded/<ID>-m{3,4},
# run the property's quick check against it
cd /verif
export MUT_ROOT=/tmp/mut2
for id in "$@"; do
  for k in 1 2; do
    src=/tmp/mut2/out/$id/m$k
    sid=$id-m$((k+2))
    [ -f $src/patch.diff ] || { echo "== $sid: no patch"; continue; }
    echo "== $sid confirm"
    python3 harness/confirm_seed.py $src $sid > $src/confirm.log 2>&1
    if [ $? -eq 0 ]; then
      echo "   confirmed; running check"
      python3 harness/seedtest.py seeded/$sid 2>&1 | grep -v Warn | tail -3 | cut -c1-420
    else
      echo "   NOT confirmed"; tail -15 $src/confirm.log
    fi
  done
done
