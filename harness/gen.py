"""Structured generator of model-building programs (DSL of DESIGN §2.5).

Every random choice derives from one `random.Random` instance, so a program is a pure function of
(seed, index, options).  Numeric literals are small dyadic rationals, so the float64 inputs seen by
summer2 are exactly the rationals seen by the Lean model.

The generator tracks an abstract copy of the structure (compartments with strata, flow names with
their ends) only to make *mostly valid* choices; validity itself is decided by the two
implementations under comparison."""
import random
from fractions import Fraction as Fr

COMP_POOL = ["S", "E", "I", "R", "V", "Q"]
STRAT_NAMES = ["loc", "risk", "vac", "sex"]
STRATA_POOL = {"loc": ["urban", "rural", "alpine"], "risk": ["hi", "lo", "mid"], "vac": ["v0", "v1", "v2"], "sex": ["f", "m", "o"]}
STRAIN_STRATA = ["wild", "var", "mut"]
AGE_SETS = [["0", "5"], ["0", "15", "60"], ["0", "10"], ["0", "1", "4"], ["0", "20", "50"]]

def q(x):
    x = Fr(x)
    return f"{x.numerator}/{x.denominator}"

def C(x):
    return {"c": q(x)}

def P(k):
    return {"p": k}

T = {"t": 1}

DYADIC_POS = [Fr(1, 8), Fr(1, 4), Fr(1, 2), Fr(3, 4), Fr(1), Fr(3, 2), Fr(2), Fr(5, 2), Fr(3)]
POP_POOL = [Fr(10), Fr(100), Fr(50), Fr(1000), Fr(1), Fr(25, 2)]
ARR_POOL = [Fr(1), Fr(10), Fr(5, 2), Fr(100)]
SPLIT_PARAM_POOL = [Fr(1, 4), Fr(1, 2), Fr(3, 4), Fr(1, 8)]
HALF_POOL = [Fr(2), Fr(4), Fr(1, 2)]
SMALL_RATES = [Fr(1, 16), Fr(1, 8), Fr(3, 16), Fr(1, 4), Fr(3, 8), Fr(1, 2)]
SPLITS = {1: [[Fr(1)]],
          2: [[Fr(1, 2), Fr(1, 2)], [Fr(1, 4), Fr(3, 4)], [Fr(7, 8), Fr(1, 8)], [Fr(1), Fr(0)]],
          3: [[Fr(1, 2), Fr(1, 4), Fr(1, 4)], [Fr(1, 8), Fr(5, 8), Fr(1, 4)], [Fr(1, 4), Fr(1, 4), Fr(1, 2)]]}


class Opts:
    """knobs a property check uses to focus the generator"""
    def __init__(self, **kw):
        self.max_comps = 4
        self.max_flows = 7
        self.max_strats = 2
        self.max_strata = 3
        self.kinds = ["transition", "death", "universal_death", "crude_birth", "repl_birth", "import", "absolute", "infection"]
        self.allow_time = True
        self.allow_state = True
        self.allow_params = True
        self.allow_adjust = True
        self.allow_inf_adjust = True
        self.allow_mixing = True
        self.allow_age = True
        self.allow_strain = True
        self.allow_partial = True
        self.allow_split = True
        self.allow_param_split = True
        self.allow_rebalance = True
        self.rebalance_prob = 0.4
        self.allow_post_flows = True
        self.allow_requests = True
        self.allow_computed = True
        self.allow_array_pop = False
        self.closed = False           # no entry / exit flows
        self.unadjusted = False       # C03: no flow / infectiousness adjustments, no mixing
        self.positive = True          # non-negative rates everywhere (C18)
        self.max_steps = 5
        self.unit_times = False
        self.negative_start_bias = 0.0   # probability of forcing a time span that starts below zero and contains 0
        self.small_dt = False         # dt in {1/8, 1/16}: explicit stages stay inside the non-negative orthant
        self.n_requests = 5
        self.force_infection = False
        self.force_strat = False
        self.shared_names_bias = 0.0  # probability that a new flow re-uses the NAME of an earlier flow of any kind (names need not be unique)
        self.rebalance_repeat_bias = 0.0  # probability of the sequence A, B, A' of population-split adjustments (A' repeats A's stratification and filter with other proportions; B overlaps A)
        self.strain_bias = 0.0        # probability of choosing a strain stratification whenever one is still possible
        self.shuffle_strat_comps_bias = 0.0  # probability that a stratification lists its compartments in another order than the model does
        self.zero_adjust_bias = 0.0   # probability that a Multiply adjustment is the literal 0 (a stratum that receives / passes nothing)
        self.shared_labels_bias = 0.0  # probability that a later plain stratification reuses the stratum LABELS of an earlier one (yes/no under two different names)
        self.inf_adjust_bias = 0.0     # lower bound on the probability that a stratification adjusts infectiousness
        self.param_split_all_bias = 0.0  # probability that every proportion of a literal split is replaced by a parameter of its own with that value
        self.age_bias = 0.0            # probability of forcing an age stratification when one is still possible
        self.two_infectious = False    # always two infectious compartments
        self.split_bias = 0.0          # lower bound on the probability that a stratification carries a population split
        self.inexact_split_bias = 0.0  # probability that a literal split sums to one only within the API's tolerance (0.01), or that a split of two independent parameters is used (not checked by the API)
        self.shuffle_split_bias = 0.0  # probability that the population split is declared in another order than the strata
        self.chain_adjust_bias = 0.0  # probability that a later stratification re-adjusts a flow an earlier stratification already adjusted (Multiply / Overwrite chains across stratifications)
        self.mixing_pair_bias = 0.0   # probability of forcing two full mixing-carrying stratifications of different flavours (const / param / timevar), in random order
        for k, v in kw.items():
            if not hasattr(self, k):
                raise AttributeError(k)
            setattr(self, k, v)


class Gen:
    def __init__(self, rng: random.Random, opts: Opts = None):
        self.r = rng
        self.o = opts or Opts()
        self.params = {}
        self.param_role = {}
        self.feat = {}

    # ------------------------------------------------------------------ helpers
    def count(self, k, n=1):
        self.feat[k] = self.feat.get(k, 0) + n

    def new_param(self, lo=None):
        k = f"p{len(self.params)}"
        pool = lo or DYADIC_POS
        self.params[k] = self.r.choice(pool)
        self.param_role.setdefault(id(pool), []).append(k)
        return k

    def some_param(self, pool=None):
        """reuse a parameter only in the role (value pool) it was created for"""
        pool = pool or DYADIC_POS
        have = self.param_role.get(id(pool), [])
        if have and self.r.random() < 0.5:
            return self.r.choice(have)
        return self.new_param(pool)

    def rate_expr(self, depth=0, small=True):
        """a non-negative rate expression"""
        r = self.r
        pool = SMALL_RATES if small else DYADIC_POS
        choices = ["const"]
        if self.o.allow_params: choices += ["param", "param_arith"]
        if self.o.allow_time: choices += ["pw", "lin", "time_lin"]
        if self.o.allow_state and self.n_comps_base > 0: choices += ["state"]
        k = r.choice(choices)
        self.count("expr:" + k)
        if k == "const":
            return C(r.choice(pool))
        if k == "param":
            return P(self.some_param(pool))
        if k == "param_arith":
            p = P(self.some_param(pool))
            form = r.randrange(4)
            if form == 0: return {"*": [p, C(r.choice(DYADIC_POS))]}
            if form == 1: return {"+": [p, C(r.choice(pool))]}
            if form == 2: return {"/": [p, C(r.choice([Fr(2), Fr(4), Fr(1, 2)]))]}
            return {"*": [C(r.choice(pool)), {"+": [p, P(self.some_param(pool))]}]}
        if k == "pw":
            n = r.randint(1, 3)
            bps = sorted(r.sample(self.time_points(), n))
            vals = [self.leaf(pool) for _ in range(n + 1)]
            return {"pw": [T, [C(b) for b in bps], vals]}
        if k == "lin":
            n = r.randint(2, 4)
            xs = sorted(r.sample(self.time_points(), n))
            ys = [self.leaf(pool) for _ in range(n)]
            return {"lin": [T, [C(x) for x in xs], ys]}
        if k == "time_lin":
            # a + b * (t - t0) with t >= t0 along the run; keep it non-negative on the time span
            return {"+": [C(r.choice(pool)), {"*": [C(r.choice([Fr(1, 16), Fr(1, 32)])), {"-": [T, C(self.t0)]}]}]}
        if k == "state":
            i = r.randrange(self.n_comps_base)
            self.state_exprs_used = True
            # w * x_i / (total + 1): non-negative, bounded, state dependent
            return {"/": [{"*": [C(r.choice(pool)), {"x": i}]}, {"+": [{"xs": 1}, C(1)]}]}
        raise AssertionError

    def leaf(self, pool):
        if self.o.allow_params and self.r.random() < 0.35:
            return P(self.some_param(pool))
        return C(self.r.choice(pool))

    def static_expr(self, pool):
        """parameters / literals only (sites that do not accept time or state)"""
        r = self.r
        if not self.o.allow_params or r.random() < 0.5:
            return C(r.choice(pool))
        p = P(self.some_param(pool))
        if r.random() < 0.5:
            return p
        return {"*": [p, C(r.choice([Fr(1, 2), Fr(2), Fr(3, 2)]))]}

    def time_points(self):
        """candidate breakpoints / knots: half-grid and quarter-grid points, never an output time itself
        (a switch exactly at an output time is the recorded known finding C10/euler: jnp.linspace differs
        from model.times in the last bit there; rk4's stage times t+h/2 do hit these points)"""
        pts = []
        h = self.dt
        n = self.nsteps
        for i in range(-3, 4 * n + 6):
            if i % 4 != 0:
                pts.append(self.t0 + Fr(i, 4) * h)
        return pts

    # ------------------------------------------------------------------ abstract structure
    def match(self, name, flt):
        return [c for c in self.comps if c[0] == name and all((k, v) in c[1] for k, v in flt)]

    def random_filter(self, name, allow_bad=False):
        """a strata filter drawn from the strata of the compartments with that name"""
        cands = [c for c in self.comps if c[0] == name]
        if not cands or not cands[0][1] or self.r.random() < 0.45:
            return []
        c = self.r.choice(cands)
        k = self.r.randint(1, len(c[1]))
        return self.r.sample(c[1], k)

    # ------------------------------------------------------------------ program
    def program(self):
        r, o = self.r, self.o
        ops = []
        ncomp = r.randint(2, o.max_comps)
        names = r.sample(COMP_POOL, ncomp)
        self.orig = names
        self.n_comps_base = ncomp
        self.state_exprs_used = False
        inf = r.sample(names, r.randint(1, min(2, ncomp)))
        if o.two_infectious and len(inf) == 1:
            inf = inf + [next(n for n in reversed(names) if n not in inf)]      # (listed after the first one although it may come earlier in the model)
        self.inf = inf
        if o.unit_times:
            self.t0, self.dt = Fr(0), Fr(1)
        else:
            self.t0 = r.choice([Fr(0), Fr(1), Fr(-2), Fr(1, 2), Fr(10), Fr(3)])
            self.dt = r.choice([Fr(1), Fr(1, 2), Fr(1, 4), Fr(2), Fr(3, 2), Fr(1)])
            if o.small_dt:
                self.dt = r.choice([Fr(1, 8), Fr(1, 16)])
        self.nsteps = r.randint(2, o.max_steps)
        if not o.unit_times and r.random() < o.negative_start_bias:
            self.dt = r.choice([Fr(1), Fr(1, 2), Fr(2)]) if not o.small_dt else self.dt
            k = r.randint(1, max(1, self.nsteps - 1))
            self.t0 = -k * self.dt
        self.t1 = self.t0 + self.nsteps * self.dt
        ops.append({"op": "model", "t0": q(self.t0), "t1": q(self.t1), "dt": q(self.dt), "comps": names, "inf": inf})
        self.comps = [(n, []) for n in names]
        self.flows = []   # (name, kind, srcname, dstname)
        self.strats = []  # dicts
        self.has_birth = False
        self.inf_kind = r.choice(["inf_freq", "inf_dens"])
        # initial population (before stratification)
        dist = []
        for n in names:
            if r.random() < 0.85:
                e = self.static_expr(POP_POOL)
                if "p" in e or "*" in e:
                    pass
                dist.append([n, e])
        if not dist:
            dist.append([names[0], C(100)])
        ops.append({"op": "init_pop", "dist": dist})
        # state-dependent expressions index compartments of the FINAL model; until the build is
        # finished only index < number of base compartments is safe (the list only grows)
        nflows = r.randint(1, o.max_flows)
        n_pre = r.randint(1, nflows) if o.allow_post_flows else nflows
        for _ in range(n_pre):
            f = self.gen_flow()
            if f: ops.append(f)
        if o.force_infection and not any(f[1] in ("inf_freq", "inf_dens") for f in self.flows):
            f = self.gen_flow(force="infection")
            if f: ops.append(f)
        nstr = r.randint(1 if o.force_strat else 0, o.max_strats)
        self.force_mix = []
        if o.mixing_pair_bias and o.allow_mixing and not o.unadjusted and r.random() < o.mixing_pair_bias:
            self.force_mix = r.sample(["const", "param", "timevar"], 2)
            nstr = max(nstr, 2)
            self.count("mixing_pair:" + ">".join(self.force_mix))
            if not any(f[1] in ("inf_freq", "inf_dens") for f in self.flows):
                f = self.gen_flow(force="infection")
                if f: ops.append(f)
        for i in range(nstr):
            s = self.gen_strat()
            if s:
                ops.append(s)
                # interleave flows added after a stratification
                if o.allow_post_flows and r.random() < 0.5 and len(self.flows) < o.max_flows + 2:
                    f = self.gen_flow(post=True)
                    if f: ops.append(f)
        for _ in range(nflows - n_pre):
            f = self.gen_flow(post=True)
            if f: ops.append(f)
        if o.allow_rebalance and self.strats:
            for _ in range(2):
                if r.random() < o.rebalance_prob:
                    rb = self.gen_rebalance()
                    if rb: ops.append(rb)
        if o.rebalance_repeat_bias > 0 and o.allow_rebalance and self.strats and r.random() < o.rebalance_repeat_bias:
            a = self.gen_rebalance()
            b = self.gen_rebalance(overlap=a)
            if b["filter"] == a["filter"]:
                b["filter"] = []
            ops += [a, b, self.gen_rebalance(like=a)]
        if o.allow_array_pop and r.random() < 0.3:
            ops.append({"op": "init_pop_array", "arr": [self.static_expr(ARR_POOL) for _ in self.comps]})
            self.count("array_pop")
        if o.allow_computed and r.random() < 0.5:
            # names are registered in an order that is NOT alphabetical (cvz, cva, ...)
            for i in range(r.randint(1, 2)):
                cvn = ["cvz", "cva", "cvm"][i]
                ops.append({"op": "computed_value", "name": cvn, "expr": self.rate_expr(small=False)})
                self.count("computed_value")
                if o.allow_requests and r.random() < 0.7:
                    ops.append({"op": "request", "kind": "cv", "name": cvn, "save": True})
                    self.count("req:cv")
        reqs = self.gen_requests([op["name"] for op in ops if op["op"] == "request"]) if o.allow_requests else []
        ops += reqs
        self.count("strats", len(self.strats))
        self.count("comps_final", len(self.comps))
        return {"build": ops, "params": {k: q(v) for k, v in self.params.items()},
                "meta": {"n_comps": len(self.comps), "comps": [[n, [list(kv) for kv in s]] for n, s in self.comps],
                         "t0": q(self.t0), "dt": q(self.dt), "nsteps": self.nsteps, "inf": self.inf,
                         "n_flows_abstract": len(self.flows), "strats": [s["name"] for s in self.strats],
                         "mixing_strats": [s["name"] for s in self.strats if s.get("mixing")],
                         "feat": dict(self.feat)}}

    # ------------------------------------------------------------------ flows
    def gen_flow(self, post=False, force=None):
        r, o = self.r, self.o
        kinds = list(o.kinds)
        if o.closed:
            kinds = [k for k in kinds if k in ("transition", "infection", "absolute")]
        if self.has_birth:
            kinds = [k for k in kinds if k not in ("crude_birth", "repl_birth")]
        if not kinds:
            return None
        kind = force or r.choice(kinds)
        names = self.orig
        idx = len(self.flows)
        use_filter = post and r.random() < 0.6
        op = {"op": "flow"}
        if kind == "infection":
            src = r.choice(names)
            dst = r.choice([n for n in names if n != src] or names)
            op.update(kind=self.inf_kind, name=f"inf{idx}", src=src, dst=dst, param=self.rate_expr(small=True))
            if self.inf_kind == "inf_dens":
                # density-dependent contact rates are small so trajectories stay tame
                op["param"] = {"*": [op["param"], C(Fr(1, 64))]}
            self.fill_filters(op, src, dst, use_filter)
            self.flows.append((op["name"], self.inf_kind, src, dst))
        elif kind in ("transition", "absolute"):
            src = r.choice(names)
            dst = r.choice([n for n in names if n != src] or names)
            if kind == "transition" and r.random() < 0.08:
                dst = src          # a self-flow is legal (e.g. the diagonal of a mobility matrix) and must cancel
                self.count("flow:self_loop")
            rate = self.rate_expr(small=(kind == "transition"))
            if kind == "absolute":
                rate = self.rate_expr(small=False)
            op.update(kind=kind, name=f"{'abs' if kind == 'absolute' else 'tr'}{idx}", src=src, dst=dst, param=rate)
            self.fill_filters(op, src, dst, use_filter)
            self.flows.append((op["name"], kind, src, dst))
        elif kind == "death":
            src = r.choice(names)
            op.update(kind="death", name=f"death{idx}", src=src, param=self.rate_expr(small=True))
            if use_filter:
                op["src_strata"] = self.random_filter(src)
            self.flows.append((op["name"], "death", src, None))
        elif kind == "universal_death":
            op.update(kind="universal_death", name=f"udeath{idx}", param=self.rate_expr(small=True))
            self.flows.append((op["name"], "death", "*", None))
        elif kind in ("crude_birth", "repl_birth"):
            dst = r.choice(names)
            op.update(kind=kind, name=f"birth{idx}", dst=dst)
            if kind == "crude_birth":
                op["param"] = self.rate_expr(small=True)
            if use_filter:
                op["dst_strata"] = self.random_filter(dst)
            self.has_birth = True
            self.flows.append((op["name"], kind, None, dst))
        elif kind == "import":
            dst = r.choice(names)
            op.update(kind="import", name=f"imp{idx}", dst=dst, param=self.rate_expr(small=False), split=r.random() < 0.5)
            if use_filter:
                op["dst_strata"] = self.random_filter(dst)
            self.flows.append((op["name"], "import", None, dst))
        if o.shared_names_bias and kind != "universal_death" and r.random() < o.shared_names_bias:
            cands = [f for f in self.flows[:-1] if not f[0].startswith("udeath")]
            if cands:
                other = r.choice(cands)
                op["name"] = other[0]
                self.flows[-1] = (other[0],) + tuple(self.flows[-1][1:])
                self.count("flow:shared_name")
        self.count("flow:" + op["kind"])
        if post: self.count("flow_post_strat")
        if op.get("src_strata") or op.get("dst_strata"): self.count("flow_with_filter")
        return op

    def fill_filters(self, op, src, dst, use_filter):
        if not use_filter:
            return
        # choose filters so that the numbers of matching sources and destinations are equal:
        # the same filter on both ends when both carry the key, else none
        fs = self.random_filter(src)
        keys_dst = set(k for c in self.comps if c[0] == dst for k, _ in c[1])
        keys_src = set(k for c in self.comps if c[0] == src for k, _ in c[1])
        if keys_dst == keys_src and keys_src and self.r.random() < 0.3:
            # a flow between DIFFERENT strata (migration-like): full filters on both ends give a 1:1 pairing
            s = self.r.choice([c for c in self.comps if c[0] == src])
            d = self.r.choice([c for c in self.comps if c[0] == dst])
            op["src_strata"] = list(s[1])
            op["dst_strata"] = list(reversed(d[1]))      # (a filter is a dict: the order of its keys carries no meaning)
            self.count("flow:cross_strata")
        elif keys_dst == keys_src:
            op["src_strata"] = fs
            op["dst_strata"] = list(fs)
        else:
            # ends stratified differently: only full filters give 1:1
            s = self.r.choice([c for c in self.comps if c[0] == src])
            d = self.r.choice([c for c in self.comps if c[0] == dst])
            op["src_strata"] = list(reversed(s[1]))
            op["dst_strata"] = list(d[1])

    # ------------------------------------------------------------------ stratifications
    def gen_strat(self):
        r, o = self.r, self.o
        kinds = ["plain", "plain"]
        if o.allow_age and not any(s["kind"] == "age" for s in self.strats): kinds.append("age")
        if o.allow_strain and not any(s["kind"] == "strain" for s in self.strats): kinds.append("strain")
        kind = r.choice(kinds)
        if o.strain_bias > 0 and "strain" in kinds and r.random() < o.strain_bias:
            kind = "strain"
        if o.age_bias > 0 and "age" in kinds and r.random() < o.age_bias:
            kind = "age"
        forced_mix = self.force_mix.pop(0) if getattr(self, "force_mix", None) else None
        if forced_mix:
            kind = "plain"
        used = [s["name"] for s in self.strats]
        if kind == "plain":
            avail = [n for n in STRAT_NAMES if n not in used]
            if not avail: return None
            name = r.choice(avail)
            strata = STRATA_POOL[name][: r.randint(1, o.max_strata)]
            if r.random() < 0.3: strata = list(reversed(strata))
            prev_plain = [s_ for s_ in self.strats if s_["kind"] == "plain" and len(s_["strata"]) >= 2]
            if o.shared_labels_bias > 0 and prev_plain and r.random() < o.shared_labels_bias:
                strata = list(r.choice(prev_plain)["strata"])
                if r.random() < 0.5: strata = list(reversed(strata))
                self.count("strat:labels_shared_with_earlier_stratification")
        elif kind == "age":
            name = "age"
            strata = list(r.choice(AGE_SETS))[: max(2, o.max_strata)]
            if r.random() < 0.3: strata = list(reversed(strata))
            elif len(strata) >= 3 and (len(self.strats) + len(self.flows)) % 2 == 0:
                strata = [strata[0]] + list(reversed(strata[1:])); self.count("strat:age_breakpoints_listed_out_of_order")   # "0" first, the others descending
        else:
            name = "strain"
            strata = STRAIN_STRATA[: r.randint(1, min(2, o.max_strata))]
        full = kind == "age" or not o.allow_partial or r.random() < 0.6 or bool(forced_mix)
        if full:
            comps = list(self.orig)
        elif kind == "strain":
            # typically the infected compartments
            comps = [n for n in self.orig if n in self.inf]
            extra = [n for n in self.orig if n not in comps]
            if extra and r.random() < 0.5: comps.append(r.choice(extra))
            comps = [n for n in self.orig if n in comps]
        else:
            comps = [n for n in self.orig if r.random() < 0.6] or [self.orig[0]]
        if o.shuffle_strat_comps_bias > 0 and kind != "age" and not forced_mix and len(comps) >= 2 and r.random() < o.shuffle_strat_comps_bias:
            comps = list(reversed(comps)); self.count("strat:comps_listed_out_of_model_order")
            self._comps_shuffled = True
        op = {"op": "stratify", "kind": kind, "name": name, "strata": strata, "comps": comps}
        strata_final = sorted(strata, key=int) if kind == "age" else strata
        n = len(strata_final)
        if o.allow_split and r.random() < max(0.6, o.split_bias):
            if o.allow_param_split and o.allow_params and n == 2 and r.random() < 0.4:
                p = self.new_param(SPLIT_PARAM_POOL)
                op["split"] = [[strata_final[0], P(p)], [strata_final[1], {"-": [C(1), P(p)]}]]
                self.count("split:param")
            else:
                props = r.choice(SPLITS[n])
                op["split"] = [[s, C(v)] for s, v in zip(strata_final, props)]
                self.count("split:literal")
        if o.inexact_split_bias > 0 and "split" in op and len(op["split"]) >= 2 and r.random() < o.inexact_split_bias:
            if o.allow_params and o.allow_param_split and r.random() < 0.4:
                pa, pb = self.new_param(SPLIT_PARAM_POOL), self.new_param(SPLIT_PARAM_POOL)
                op["split"][0][1] = P(pa); op["split"][1][1] = P(pb)          # two independent parameters: nothing makes them sum to one
                self.count("split:two_independent_params")
            elif all("c" in kv[1] for kv in op["split"]):
                last = Fr(op["split"][-1][1]["c"]) + r.choice([Fr(-1, 256), Fr(1, 256), Fr(-1, 128)])
                if last >= 0:
                    op["split"][-1][1] = C(last)                              # the literal split sums to one only within the tolerance
                    self.count("split:sum_within_tolerance")
        if o.param_split_all_bias > 0 and "split" in op and all("c" in kv[1] for kv in op["split"]) and r.random() < o.param_split_all_bias:
            for kv in op["split"]:
                k_ = f"p{len(self.params)}"; self.params[k_] = Fr(kv[1]["c"]); kv[1] = P(k_)
            self.count("split:every_proportion_a_parameter")
        if o.shuffle_split_bias > 0 and "split" in op and len(op["split"]) > 1 and r.random() < o.shuffle_split_bias:
            op["split"] = list(reversed(op["split"])) if len(op["split"]) == 2 or r.random() < 0.5 else op["split"][1:] + op["split"][:1]
            self.count("split:declared_in_other_order")
        # flow adjustments
        fadj = []
        if o.allow_adjust and not o.unadjusted and self.flows:
            for _ in range(r.randint(0, 3)):
                fname, fkind, fsrc, fdst = r.choice(self.flows)
                chained = False
                if o.chain_adjust_bias > 0 and getattr(self, "adjusted", None) and r.random() < o.chain_adjust_bias:
                    fname, fkind, fsrc, fdst = r.choice(self.adjusted)
                    chained = True
                # birth flows into an age stratification must not be adjusted
                if kind == "age" and fkind in ("crude_birth", "repl_birth"):
                    continue
                adjs = []
                for s in strata_final:
                    z = r.random()
                    if chained:
                        z = 0.1 + 0.9 * z if z < 0.1 else (0.75 + z / 4 if z > 0.5 else z)    # fewer None, more Overwrite
                    if z < 0.2:
                        adjs.append([s, None]); self.count("adj:none")
                    elif z < 0.7:
                        e = self.rate_expr(small=False)
                        if o.zero_adjust_bias > 0 and r.random() < o.zero_adjust_bias:
                            e = C(0); self.count("adj:zero")
                        if o.chain_adjust_bias > 0 and o.allow_params and r.random() < 0.5 and e != C(0):
                            e = P(self.new_param())      # a named multiplier (its literal twin is folded differently by the code)
                        a = ["mul", e]
                        if "c" in e and r.random() < 0.4: a.append("bare")
                        adjs.append([s, a]); self.count("adj:mul")
                    else:
                        adjs.append([s, ["ovr", self.rate_expr(small=(fkind not in ("absolute", "import")))]]); self.count("adj:ovr")
                d = {"flow": fname, "adjs": adjs}
                # strata filters refer to strata of earlier stratifications of the flow's ends
                if self.strats and r.random() < 0.4:
                    if fsrc not in (None, "*"):
                        flt = self.random_filter(fsrc)
                        if flt: d["src"] = flt
                    if fdst not in (None,) and r.random() < 0.5:
                        flt = self.random_filter(fdst)
                        if flt: d["dst"] = flt
                    if d.get("src") or d.get("dst"): self.count("adj:filtered")
                fadj.append(d)
                if o.chain_adjust_bias > 0:
                    if not hasattr(self, "adjusted"): self.adjusted = []
                    self.adjusted.append((fname, fkind, fsrc, fdst))
                    if chained: self.count("adj:chained")
        if fadj: op["flow_adj"] = fadj
        # infectiousness adjustments
        if o.allow_inf_adjust and not o.unadjusted and r.random() < max(0.5, o.inf_adjust_bias):
            ia = []
            for cname in self.inf:
                if cname in comps and r.random() < 0.7:
                    adjs = []
                    for s in strata_final:
                        z = r.random()
                        if z < 0.25: adjs.append([s, None])
                        elif z < 0.75: adjs.append([s, ["mul", self.static_expr(DYADIC_POS)]])
                        else: adjs.append([s, ["ovr", self.static_expr(DYADIC_POS)]])
                    ia.append([cname, adjs]); self.count("inf_adj")
            if ia: op["inf_adj"] = ia
        # mixing matrix (only on full, non-strain stratifications)
        if o.allow_mixing and not o.unadjusted and kind != "strain" and comps == list(self.orig) and (r.random() < 0.6 or forced_mix):
            z = r.random()
            if forced_mix:
                z = {"const": 0.1, "param": 0.5, "timevar": 0.9}[forced_mix]
            mat = []
            for i in range(n):
                row = []
                for j in range(n):
                    if z < 0.4:
                        row.append(C(r.choice(DYADIC_POS)))
                    elif z < 0.7:
                        row.append(self.static_expr(DYADIC_POS))
                    else:
                        row.append(self.rate_expr(small=False) if (i + j) % 2 == 0 else C(r.choice(DYADIC_POS)))
                mat.append(row)
            op["mixing"] = mat
            self.count("mixing:" + ("const" if z < 0.4 else "param" if z < 0.7 else "timevar"))
        # update abstract structure
        new = []
        for c in self.comps:
            if c[0] in comps:
                for s in strata_final:
                    new.append((c[0], c[1] + [(name, s)]))
            else:
                new.append(c)
        self.comps = new
        if kind == "age":
            pass
        self.strats.append(op)
        self.count("strat:" + kind + (":full" if comps == list(self.orig) else ":partial"))
        return op

    def gen_rebalance(self, like=None, overlap=None):
        r = self.r
        if like is not None:
            # same stratification and filter, other proportions
            s = [t for t in self.strats if t["name"] == like["strat"]][0]
            strata = sorted(s["strata"], key=int) if s["kind"] == "age" else s["strata"]
            cands = [p for p in SPLITS[len(strata)] if [C(v) for v in p] != [kv[1] for kv in like["props"]]] or SPLITS[len(strata)]
            props = r.choice(cands)
            self.count("rebalance:repeat")
            return {"op": "adjust_split", "strat": s["name"], "filter": [list(f) for f in like["filter"]], "props": [[k, C(v)] for k, v in zip(strata, props)]}
        s = r.choice(self.strats) if overlap is None else [t for t in self.strats if t["name"] == overlap["strat"]][0]
        strata = sorted(s["strata"], key=int) if s["kind"] == "age" else s["strata"]
        props = r.choice(SPLITS[len(strata)])
        others = [t for t in self.strats if t["name"] != s["name"]]
        flt = []
        if others and r.random() < 0.7:
            # prefer a filter on a PARTIAL stratification: compartments that do not carry its key must not match
            partial = [t for t in others if sorted(t["comps"]) != sorted(self.orig)]
            t = r.choice(partial) if partial and r.random() < 0.7 else r.choice(others)
            ts = sorted(t["strata"], key=int) if t["kind"] == "age" else t["strata"]
            flt = [[t["name"], r.choice(ts)]]
        self.count("rebalance")
        return {"op": "adjust_split", "strat": s["name"], "filter": flt, "props": [[k, C(v)] for k, v in zip(strata, props)]}

    # ------------------------------------------------------------------ derived outputs
    def gen_requests(self, existing=()):
        r, o = self.r, self.o
        reqs = []
        names = list(existing)      # computed-value outputs requested earlier can be sources of aggregate / cumulative / function outputs
        n = r.randint(0, o.n_requests)
        flow_names = sorted(set(f[0] for f in self.flows))
        for i in range(n):
            kinds = ["comp", "comp"]
            if flow_names: kinds += ["flow", "flow"]
            if names: kinds += ["agg", "cum", "func"]
            k = r.choice(kinds)
            nm = f"d{i}"
            op = {"op": "request", "name": nm, "kind": k, "save": r.random() < 0.8}
            if k == "comp":
                cs = r.sample(self.orig, r.randint(1, min(2, len(self.orig))))
                op["comps"] = cs
                cands = [c for c in self.comps if c[0] in cs and c[1]]
                if cands and r.random() < 0.5:
                    c = r.choice(cands)
                    # a filter every selected name can satisfy is not required: some may match nothing
                    op["strata"] = r.sample(c[1], r.randint(1, len(c[1])))
            elif k == "flow":
                fname = r.choice(flow_names)
                op["flow"] = fname
                op["raw"] = r.random() < 0.5
                f = [x for x in self.flows if x[0] == fname][0]
                if r.random() < 0.4 and f[2] not in (None, "*"):
                    op["src_strata"] = self.random_filter(f[2])
                if r.random() < 0.3 and f[3] is not None:
                    op["dst_strata"] = self.random_filter(f[3])
            elif k == "agg":
                op["sources"] = r.sample(names, r.randint(1, min(3, len(names))))
                # a source may be listed more than once (it then counts as often as it is listed); decided without drawing a random number
                if (len(names) + len(op["sources"])) % 4 == 0:
                    op["sources"] = op["sources"] + [op["sources"][0]]
                    self.count("req:agg:repeated_source")
            elif k == "cum":
                op["source"] = r.choice(names)
                z = r.random()
                zero_on_grid = self.t0 < 0 and (-self.t0 / self.dt).denominator == 1 and (-self.t0 / self.dt) <= self.nsteps
                if zero_on_grid and z < 0.5:
                    op["start"] = "0/1"; self.count("req:cum:start0")
                elif z < 0.4: pass
                elif z < 0.6: op["start"] = q(self.t0)
                else: op["start"] = q(self.t0 + r.randint(1, self.nsteps) * self.dt)
            elif k == "func":
                srcs = r.sample(names, r.randint(1, min(2, len(names))))
                e = {"x": 0}
                if len(srcs) > 1:
                    e = {r.choice(["+", "-", "*"]): [e, {"x": 1}]}
                if r.random() < 0.6 and o.allow_params:
                    e = {"*": [e, P(self.some_param(DYADIC_POS))]}
                else:
                    e = {"+": [e, C(r.choice(DYADIC_POS))]}
                op["sources"] = srcs
                op["expr"] = e
            self.count("req:" + k + (":raw" if op.get("raw") else ""))
            reqs.append(op)
            names.append(nm)
            if k == "flow" and (op.get("src_strata") or op.get("dst_strata")) and r.random() < 0.6:
                f = [x for x in self.flows if x[0] == op["flow"]][0]
                if f[2] not in (None, "*") and f[3] is not None:
                    twin = dict(op, name=nm + "t")
                    twin["src_strata"], twin["dst_strata"] = list(op.get("dst_strata") or []), list(op.get("src_strata") or [])
                    reqs.append(twin); names.append(nm + "t"); self.count("req:flow:twin")
        # computed value outputs
        return reqs


def fix_categories(r, x, comps, mixing_strats):
    """make every mixing category's population positive (the property's quantifier): categories are
    the combinations of strata of the stratifications that carry a mixing matrix"""
    cats = {}
    for i, (name, strata) in enumerate(comps):
        key = tuple(v for k, v in strata if k in mixing_strats)
        cats.setdefault(key, []).append(i)
    for key, idx in cats.items():
        if sum(max(x[i], 0) for i in idx) <= 0:
            x[r.choice(idx)] = Fr(r.choice([1, 5, 20]))
    return x


def gen_state(r: random.Random, n: int, mode="interior"):
    """a compartment state: interior (all positive), boundary (some zero), or with tiny negatives"""
    vals = [Fr(1), Fr(3, 2), Fr(10), Fr(25, 2), Fr(100), Fr(7), Fr(1, 4), Fr(40)]
    x = [r.choice(vals) for _ in range(n)]
    if mode == "boundary":
        for i in range(n):
            if r.random() < 0.35: x[i] = Fr(0)
    if mode == "negative":
        for i in range(n):
            z = r.random()
            if z < 0.2: x[i] = Fr(-1, 1024)
            elif z < 0.35: x[i] = Fr(0)
    return x
