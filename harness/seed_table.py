#!/usr/bin/env python3
"""prints the markdown table of seeded changes (DESIGN section 9) from seeded/*/meta.json and detection.json"""
import json, os, glob
ROOT = os.path.dirname(os.path.dirname(os.path.abspath(__file__)))
print("| id | property | what the change does (sub-agent's summary, abridged) | needs to manifest | caught by | how |")
print("|---|---|---|---|---|---|")
for d in sorted(glob.glob(os.path.join(ROOT, "seeded", "*"))):
    try:
        m = json.load(open(os.path.join(d, "meta.json")))
    except Exception:
        continue
    det = {}
    if os.path.exists(os.path.join(d, "detection.json")):
        det = json.load(open(os.path.join(d, "detection.json")))
    caught, how = [], []
    for p, r in det.items():
        if p.startswith("_"):
            continue
        if r["exit"] == 1:
            caught.append(p)
            v = [l for l in r["lines"] if l.startswith("VIOLATION")]
            s = [l for l in r["lines"] if l.startswith(p + " ")]
            kind = "no-failing-input-found" if v and v[0].endswith("no-failing-input-found") else ("diff" if v and "-diff-" in v[0] else "oracle")
            extra = ""
            if s:
                import re
                mm = re.search(r"theorems (\d+)/(\d+)", s[0])
                if mm and mm.group(1) != mm.group(2):
                    extra = f" + broken proof obligations ({mm.group(1)}/{mm.group(2)})"
            how.append({"diff": "correspondence disagreement on a prescribed observable (replay = the input)", "oracle": "direct oracle on the real code (replay = the input)",
                        "no-failing-input-found": "broken obligation / correspondence, no failing input found"}[kind] + extra)
    def short(x, n):
        x = " ".join(str(x).split()).replace("|", "/")
        return x if len(x) <= n else x[:n - 1] + "…"
    print(f"| {os.path.basename(d)} | {m.get('property')} | {short(m.get('summary'), 260)} | {short(m.get('what_it_needs_to_manifest'), 200)} | "
          f"{', '.join(caught) if caught else ('**missed**' if det else 'not run')} | {'; '.join(how)} |")
