#!/usr/bin/env python3
"""Translator for straight-line numeric code: regenerates lean/Summer/Generated/Arith.lean from /repo.

The functions below are *computations*, not data, so they are translated expression by expression with
Python's `ast` (never imported or executed) into Lean definitions over the model's vector vocabulary
(`vadd`, `vsub`, `vscale`, `jget`, `diff`, `lincomb`, …).  `Summer/Props/SourceTie.lean` proves that each
generated definition equals the corresponding definition of the hand-written model, so a change of the
source text of one of these functions changes a definition a theorem is about.

  runner/jax/solvers.py   euler.body, rk4.body (update formulas), the step size, the loop's time / load /
                          store indices and its bound
  runner/jax/ode.py       runge_kutta_step (stage time, stage state, solution, error estimate, f1),
                          interp_fit_dopri (mid point), _odeint.scan_fun (relative output time), body_fun (next_t)
  functions/interpolate.py  _uncorrected_sigmoid, make_norm_sigmoid, _get_linear_curve_at_x,
                          _get_sigmoidal_curve_at_x, interpolate_linear / interpolate_sigmoidal (three-way switch),
                          get_scale_data
  functions/util.py       piecewise_constant
  runner/jax/model_impl.py  clean_compartments, get_force_of_infection

Types: S scalar, V vector, I integer index, B boolean, M list of vectors, SD scale data, F vector field
(V -> S -> V), FS scalar function.  Anything outside the supported subset raises, the site is reported as
untranslatable and nothing is emitted for it (the Lean build then fails on the missing constant)."""
import ast, os, sys, json
from fractions import Fraction

REPO = os.environ.get("SUMMER2_REPO", "/repo")
OUT = os.path.join(os.path.dirname(os.path.abspath(__file__)), "..", "..", "lean", "Summer", "Generated")


class Untranslatable(Exception):
    pass


def parse(rel):
    with open(os.path.join(REPO, rel)) as f:
        return ast.parse(f.read())


def find_func(tree, *path):
    node = tree
    for name in path:
        found = None
        for n in ast.walk(node):
            if isinstance(n, ast.FunctionDef) and n.name == name and n is not node:
                found = n
                break
        if found is None:
            raise Untranslatable("function not found: " + ".".join(path))
        node = found
    return node


def lit(q):
    q = Fraction(q)
    if q < 0:
        return f"(-{lit(-q)})"
    return f"(ratLit {q.numerator} {q.denominator})"


def const_value(n):
    if isinstance(n, ast.Constant) and isinstance(n.value, (int, float)) and not isinstance(n.value, bool):
        return Fraction(repr(n.value)) if isinstance(n.value, float) else Fraction(n.value)
    if isinstance(n, ast.UnaryOp) and isinstance(n.op, ast.USub):
        v = const_value(n.operand)
        return None if v is None else -v
    return None


class Tr:
    """typed expression translator; env: python name -> (lean text, type)"""
    def __init__(self, env, calls=None, n_expr="0"):
        self.env = dict(env)
        self.calls = calls or {}
        self.n_expr = n_expr    # Lean expression for the state dimension (needed by jnp.dot(coeffs, k))

    def as_scalar(self, t):
        s, ty = t
        if ty == "C":
            return lit(s)
        if ty == "S":
            return s
        raise Untranslatable(f"scalar expected, got {ty}: {s}")

    def as_int(self, t):
        s, ty = t
        if ty == "C":
            if s.denominator != 1:
                raise Untranslatable("non-integer index constant")
            return f"({int(s)} : Int)"
        if ty == "I":
            return s
        raise Untranslatable(f"integer expected, got {ty}: {s}")

    def expr(self, n):
        c = const_value(n)
        if c is not None:
            return (c, "C")
        if isinstance(n, ast.Name):
            if n.id in self.env:
                return self.env[n.id]
            raise Untranslatable("unknown name " + n.id)
        if isinstance(n, ast.Attribute):
            if isinstance(n.value, ast.Name) and n.value.id in self.env and self.env[n.value.id][1] == "SD" and n.attr in ("points", "ranges", "bounds"):
                return (f"{self.env[n.value.id][0]}.{n.attr}", "V")
            raise Untranslatable("attribute " + ast.unparse(n))
        if isinstance(n, ast.UnaryOp) and isinstance(n.op, ast.USub):
            s, ty = self.expr(n.operand)
            if ty == "S":
                return (f"(-{s})", "S")
            if ty == "V":
                return (f"(vscale (-(ratLit 1 1)) {s})", "V")
            raise Untranslatable("negation of " + ty)
        if isinstance(n, ast.BinOp):
            return self.binop(n)
        if isinstance(n, ast.Subscript):
            return self.subscript(n)
        if isinstance(n, ast.Call):
            return self.call(n)
        if isinstance(n, ast.Compare) and len(n.ops) == 1:
            a = self.expr(n.left); b = self.expr(n.comparators[0])
            op = n.ops[0]
            if a[1] in ("I", "C") and b[1] in ("I",) or a[1] == "I":
                x, y = self.as_int(a), self.as_int(b)
            elif a[1] == "S" and b[1] == "V" or a[1] == "V":
                # elementwise comparison of a scalar with a vector (only `t > bounds` occurs)
                if a[1] == "S" and isinstance(op, ast.Gt):
                    return (f"({b[0]}.map (fun b_ => decide (b_ < {a[0]})))", "BV")
                raise Untranslatable("vector comparison " + ast.unparse(n))
            else:
                x, y = self.as_scalar(a), self.as_scalar(b)
            if isinstance(op, ast.Lt): return (f"(decide ({x} < {y}))", "B")
            if isinstance(op, ast.Gt): return (f"(decide ({y} < {x}))", "B")
            if isinstance(op, ast.LtE): return (f"(!decide ({y} < {x}))", "B")
            if isinstance(op, ast.GtE): return (f"(!decide ({x} < {y}))", "B")
            raise Untranslatable("comparison " + ast.unparse(n))
        raise Untranslatable("expression " + ast.unparse(n))

    def binop(self, n):
        a = self.expr(n.left); b = self.expr(n.right)
        op = n.op
        sym = {ast.Add: "+", ast.Sub: "-", ast.Mult: "*", ast.Div: "/"}.get(type(op))
        if sym is None:
            raise Untranslatable("operator " + ast.unparse(n))
        ta, tb = a[1], b[1]
        if ta == "C" and tb == "C":
            f = {"+": lambda x, y: x + y, "-": lambda x, y: x - y, "*": lambda x, y: x * y, "/": lambda x, y: x / y}[sym]
            return (f(a[0], b[0]), "C")
        if "I" in (ta, tb) and ta in ("I", "C") and tb in ("I", "C"):
            if sym == "/":
                raise Untranslatable("integer division")
            return (f"({self.as_int(a)} {sym} {self.as_int(b)})", "I")
        if ta in ("S", "C") and tb in ("S", "C"):
            return (f"({self.as_scalar(a)} {sym} {self.as_scalar(b)})", "S")
        if ta == "V" and tb == "V":
            fn = {"+": "vadd", "-": "vsub", "*": "vmul"}.get(sym)
            if fn is None:
                return (f"(List.zipWith (· / ·) {a[0]} {b[0]})", "V")
            return (f"({fn} {a[0]} {b[0]})", "V")
        if ta in ("S", "C") and tb == "V" and sym == "*":
            return (f"(vscale {self.as_scalar(a)} {b[0]})", "V")
        if ta == "V" and tb in ("S", "C") and sym == "*":
            return (f"(vscale {self.as_scalar(b)} {a[0]})", "V")
        if ta == "V" and tb in ("S", "C") and sym == "/":
            return (f"({a[0]}.map (· / {self.as_scalar(b)}))", "V")
        raise Untranslatable(f"operands {ta} {sym} {tb}: " + ast.unparse(n))

    def subscript(self, n):
        base = self.expr(n.value)
        sl = n.slice
        if base[1] == "V":
            return (f"(jget {base[0]} {self.as_int(self.expr(sl))})", "S")
        if base[1] == "M":
            # k[-1] / beta[i - 1, :]  -> a row
            if isinstance(sl, ast.Tuple) and len(sl.elts) == 2 and isinstance(sl.elts[1], ast.Slice) and sl.elts[1].lower is None and sl.elts[1].upper is None:
                sl = sl.elts[0]
            return (f"(jrow {base[0]} {self.as_int(self.expr(sl))})", "V")
        raise Untranslatable("subscript of " + base[1])

    def call(self, n):
        f = n.func
        # x.astype(...) is the identity here
        if isinstance(f, ast.Attribute) and f.attr == "astype":
            return self.expr(f.value)
        # jnp.asarray(x, dtype=float): a dtype conversion to floating point, value preserving in the exact model
        if ast.unparse(f) == "jnp.asarray" and len(n.args) == 1 and all(k.arg == "dtype" and ast.unparse(k.value) == "float" for k in n.keywords):
            return self.expr(n.args[0])
        if isinstance(f, ast.Attribute) and f.attr == "sum" and not n.args:
            v = self.expr(f.value)
            if v[1] == "V":
                return (f"(sumL {v[0]})", "S")
        name = None
        if isinstance(f, ast.Name):
            name = f.id
        elif isinstance(f, ast.Attribute) and isinstance(f.value, ast.Name) and f.value.id in ("jnp", "np", "lax"):
            name = f.value.id + "." + f.attr
        if name is None:
            raise Untranslatable("call " + ast.unparse(n))
        args = []
        for a in n.args:
            try:
                args.append(self.expr(a))
            except Untranslatable:
                args.append(("?", "?"))     # an argument the callee's translation does not use (model_params, model_data)
        if name in self.env and self.env[name][1] == "F":
            return (f"({self.env[name][0]} {args[0][0]} {self.as_scalar(args[1])})", "V")
        if name in self.env and self.env[name][1] == "FS":
            return (f"({self.env[name][0]} {self.as_scalar(args[0])})", "S")
        if name in self.calls:
            return self.calls[name](self, args)
        if name == "jnp.exp":
            return (f"(exp {self.as_scalar(args[0])})", "S")
        if name == "jnp.diff":
            return (f"(diff {args[0][0]})", "V")
        if name == "jnp.sum" and args[0][1] == "V":
            return (f"(sumL {args[0][0]})", "S")
        if name == "sum" and args[0][1] == "BV":
            return (f"(countTrue {args[0][0]})", "N")
        if name == "jnp.array" and isinstance(n.args[0], (ast.List, ast.Tuple)):
            els = [self.as_scalar(self.expr(e)) for e in n.args[0].elts]
            return ("[" + ", ".join(els) + "]", "V")
        if name == "jnp.dot" and args[0][1] == "V" and args[1][1] == "M":
            return (f"(lincomb {self.n_expr} {args[0][0]} {args[1][0]})", "V")
        if name == "jnp.where" and args[0][1] == "BV?":
            raise Untranslatable("where")
        if name == "jnp.polyval" and args[0][1] == "M":
            return (f"(polyval {args[0][0]} {self.as_scalar(args[1])})", "V")
        if name == "binary_search_sum_ge":
            return (f"(TimeFns.binarySearchSumGe {self.as_scalar(args[0])} {args[1][0]})", "I")
        raise Untranslatable("call " + ast.unparse(n))


def body_defs(fn, tr, skip_if_mentions=(), stop_at_return=True, ignore_return=False):
    """translate the assignments of a function body in order; returns (let-lines, return expr)"""
    lets = []
    ret = None
    for st in fn.body:
        if isinstance(st, ast.Expr) and isinstance(st.value, ast.Constant):
            continue      # docstring
        if isinstance(st, ast.FunctionDef):
            continue
        names = {x.id for x in ast.walk(st) if isinstance(x, ast.Name)}
        if names & set(skip_if_mentions):
            continue
        if isinstance(st, ast.Assign) and len(st.targets) == 1 and isinstance(st.targets[0], ast.Name):
            v = tr.expr(st.value)
            tgt = st.targets[0].id
            lean_name = tgt + "'" * sum(1 for l in lets if l[0].rstrip("'") == tgt)
            if tgt in tr.env and not any(l[0].rstrip("'") == tgt for l in lets):
                lean_name = tgt + "'"
            if v[1] == "C":
                v = (lit(v[0]), "S")
            lets.append((lean_name, v[0]))
            tr.env[tgt] = (lean_name, v[1])
            continue
        if isinstance(st, ast.Return):
            if ignore_return:
                break
            ret = tr.expr(st.value)
            break
        raise Untranslatable("statement " + ast.unparse(st)[:80])
    return lets, ret


def render_def(name, params, lets, result, doc):
    L = [f"/-- {doc} -/", f"def {name} {params} :="]
    for n, v in lets:
        L.append(f"  let {n} := {v}")
    L.append(f"  {result}")
    return "\n".join(L)


def index_fn(node, var="i"):
    """Lean function `Int -> Int` for an index expression in the loop counter"""
    tr = Tr({var: ("i", "I")})
    return "fun (i : Int) => " + tr.as_int(tr.expr(node))


def find_subscript(fn, base, attr_at=False):
    """index expression of `base[...]` (or `base.at[...]`) inside fn"""
    for n in ast.walk(fn):
        if isinstance(n, ast.Subscript):
            v = n.value
            if attr_at and isinstance(v, ast.Attribute) and v.attr == "at" and isinstance(v.value, ast.Name) and v.value.id == base:
                return n.slice
            if not attr_at and isinstance(v, ast.Name) and v.id == base:
                return n.slice
    raise Untranslatable(f"no subscript of {base}")


def gen_solvers(out):
    tree = parse("summer2/runner/jax/solvers.py")
    FIELD = {"get_comp_rates": ("f", "F")}
    def field_call(tr, args):
        return (f"(f {args[0][0]} {tr.as_scalar(args[1])})", "V")
    for solver, inner in (("euler", "body"), ("rk4", "body")):
        fn = find_func(tree, solver)
        body = find_func(fn, inner)
        # step size: `timestep = times[1] - times[0]`
        tr = Tr({"times": ("times", "V")})
        ts = None
        for st in fn.body:
            if isinstance(st, ast.Assign) and isinstance(st.targets[0], ast.Name) and st.targets[0].id == "timestep":
                ts = tr.expr(st.value)
        if ts is None:
            raise Untranslatable(solver + ": no timestep assignment")
        out.append(render_def(f"{solver}_timestep", "(times : List α) : α", [], ts[0], f"`solvers.py::{solver}`: the step size"))
        # the grid the loop reads its times from: euler re-generates it with linspace(times[0], times[-1], len(times))
        regrid = any(isinstance(st, ast.Assign) and isinstance(st.targets[0], ast.Name) and st.targets[0].id == "times" for st in fn.body)
        out.append(f"/-- `solvers.py::{solver}` re-generates the time grid with `jnp.linspace` before stepping -/\ndef {solver}_regrids : Bool := {'true' if regrid else 'false'}")
        # update formula
        tr = Tr({"timestep": ("h", "S"), "comp_vals": ("y", "V"), "t": ("t", "S")},
                calls={"get_comp_rates": field_call})
        lets, _ = body_defs(body, tr, skip_if_mentions=("state", "carry", "out_vals", "times"), ignore_return=True)
        res = tr.env["comp_vals"][0]
        out.append(render_def(f"{solver}_body", "(f : List α → α → List α) (h : α) (y : List α) (t : α) : List α", lets, res,
                              f"`solvers.py::{solver}.{inner}`: the update of `comp_vals`"))
        # loop indices and bound
        out.append(f"/-- index of the time the stages are evaluated at: `t = times[·]` -/\ndef {solver}_time_index : Int → Int := {index_fn(find_subscript(body, 'times'))}")
        out.append(f"/-- row the new state is stored into: `out_vals.at[·].set(comp_vals)` -/\ndef {solver}_store_index : Int → Int := {index_fn(find_subscript(body, 'out_vals', attr_at=True))}")
        mx = None
        for st in fn.body:
            if isinstance(st, ast.Assign) and isinstance(st.targets[0], ast.Name) and st.targets[0].id == "max_i":
                v = st.value   # len(times) - 1
                if isinstance(v, ast.BinOp) and isinstance(v.left, ast.Call) and ast.unparse(v.left) == "len(times)":
                    tr2 = Tr({"n": ("n", "I")})
                    mx = tr2.expr(ast.BinOp(left=ast.Name(id="n"), op=v.op, right=v.right))
        if mx is None:
            raise Untranslatable(solver + ": loop bound")
        out.append(f"/-- number of steps as a function of `len(times)` -/\ndef {solver}_max_i : Int → Int := fun (n : Int) => {mx[0]}")
        # where the loop reads the current state from: rk4 re-reads `out_vals[i]`, euler carries it
        try:
            ld = find_subscript(body, "out_vals")
            out.append(f"/-- row the current state is read from: `comp_vals = out_vals[·]` -/\ndef {solver}_load_index : Int → Int := {index_fn(ld)}")
        except Untranslatable:
            out.append(f"/-- the state is carried by the scan (not re-read from `out_vals`) -/\ndef {solver}_load_index : Int → Int := fun (i : Int) => i")


def gen_ode(out):
    tree = parse("summer2/runner/jax/ode.py")
    rk = find_func(tree, "runge_kutta_step")
    bf = find_func(rk, "body_fun")
    env = {"t0": ("t0", "S"), "dt": ("dt", "S"), "y0": ("y0", "V"), "f0": ("f0", "V"), "alpha": ("alpha", "V"), "beta": ("beta", "M"),
           "c_sol": ("cSol", "V"), "c_error": ("cError", "V"), "k": ("k", "M"), "i": ("i", "I")}
    tr = Tr(env, n_expr="y0.length")
    lets, _ = body_defs(bf, tr, skip_if_mentions=("func",), ignore_return=True)
    d = dict(lets)
    if "ti" not in d or "yi" not in d:
        raise Untranslatable("runge_kutta_step.body_fun: ti / yi")
    P = "(alpha : List α) (beta : List (List α)) (y0 : List α) (t0 dt : α) (k : List (List α)) (i : Int)"
    out.append(render_def("rk_stage_time", P + " : α", [], d["ti"], "`ode.py::runge_kutta_step.body_fun`: stage time `ti`"))
    out.append(render_def("rk_stage_state", P + " : List α", [], d["yi"], "`ode.py::runge_kutta_step.body_fun`: stage state `yi`"))
    tr = Tr(env, n_expr="y0.length")
    vals = {}
    for st in rk.body:
        if isinstance(st, ast.Assign) and isinstance(st.targets[0], ast.Name) and st.targets[0].id in ("y1", "y1_error", "f1"):
            vals[st.targets[0].id] = tr.expr(st.value)
    if set(vals) != {"y1", "y1_error", "f1"}:
        raise Untranslatable("runge_kutta_step: y1 / y1_error / f1")
    P2 = "(cSol cError : List α) (y0 : List α) (dt : α) (k : List (List α))"
    out.append(render_def("rk_solution", P2 + " : List α", [], vals["y1"][0], "`ode.py::runge_kutta_step`: `y1`"))
    out.append(render_def("rk_error", P2 + " : List α", [], vals["y1_error"][0], "`ode.py::runge_kutta_step`: `y1_error`"))
    out.append(render_def("rk_f1", "(k : List (List α)) : List α", [], vals["f1"][0], "`ode.py::runge_kutta_step`: `f1` (first same as last)"))
    # loop range of the stages: lax.fori_loop(1, 7, body_fun, k)
    rng = None
    for n in ast.walk(rk):
        if isinstance(n, ast.Call) and ast.unparse(n.func) == "lax.fori_loop":
            rng = (const_value(n.args[0]), const_value(n.args[1]))
    if rng is None or None in rng:
        raise Untranslatable("runge_kutta_step: fori_loop bounds")
    out.append(f"/-- `lax.fori_loop(lo, hi, body_fun, k)` in `runge_kutta_step` -/\ndef rk_stage_range : Nat × Nat := ({int(rng[0])}, {int(rng[1])})")
    # interp_fit_dopri: y_mid
    fi = find_func(tree, "interp_fit_dopri")
    tr = Tr({"y0": ("y0", "V"), "dt": ("dt", "S"), "k": ("k", "M"), "dps_c_mid": ("cMid", "V")}, n_expr="y0.length")
    ym = None
    for st in fi.body:
        if isinstance(st, ast.Assign) and isinstance(st.targets[0], ast.Name) and st.targets[0].id == "y_mid":
            ym = tr.expr(st.value)
    if ym is None:
        raise Untranslatable("interp_fit_dopri: y_mid")
    out.append(render_def("dense_mid", "(cMid : List α) (y0 : List α) (dt : α) (k : List (List α)) : List α", [], ym[0], "`ode.py::interp_fit_dopri`: `y_mid`"))
    # slopes handed to fit_4th_order_polynomial: k[0], k[-1]
    call = None
    for n in ast.walk(fi):
        if isinstance(n, ast.Call) and ast.unparse(n.func) == "fit_4th_order_polynomial":
            call = n
    if call is None:
        raise Untranslatable("interp_fit_dopri: call of fit_4th_order_polynomial")
    argtxt = [ast.unparse(a) for a in call.args]
    if argtxt[:3] != ["y0", "y1", "y_mid"] or argtxt[5] != "dt":
        raise Untranslatable("interp_fit_dopri: argument order " + str(argtxt))
    tr = Tr({"k": ("k", "M")})
    out.append(render_def("dense_slopes", "(k : List (List α)) : List α × List α", [], f"({tr.expr(call.args[3])[0]}, {tr.expr(call.args[4])[0]})",
                          "`ode.py::interp_fit_dopri`: the end slopes `dy0`, `dy1` passed to `fit_4th_order_polynomial`"))
    # _odeint.scan_fun: relative output time and the dense-output evaluation; body_fun: next_t
    od = find_func(tree, "_odeint")
    sf = find_func(od, "scan_fun")
    tr = Tr({"target_t": ("target", "S"), "last_t": ("lastT", "S"), "t": ("t", "S"), "interp_coeff": ("coeff", "M")})
    rel = yt = None
    for st in sf.body:
        if isinstance(st, ast.Assign) and isinstance(st.targets[0], ast.Name):
            if st.targets[0].id == "relative_output_time":
                rel = tr.expr(st.value); tr.env["relative_output_time"] = ("rel", "S")
            if st.targets[0].id == "y_target":
                yt = tr.expr(st.value)
    if rel is None or yt is None:
        raise Untranslatable("_odeint.scan_fun: relative_output_time / y_target")
    out.append(render_def("dense_row", "(coeff : List (List α)) (target lastT t : α) : List α", [("rel", rel[0])], yt[0],
                          "`ode.py::_odeint.scan_fun`: the output row read off the stepping state"))
    bfn = find_func(sf, "body_fun")
    tr = Tr({"t": ("t", "S"), "dt": ("dt", "S")})
    nt = None
    for st in bfn.body:
        if isinstance(st, ast.Assign) and isinstance(st.targets[0], ast.Name) and st.targets[0].id == "next_t":
            nt = tr.expr(st.value)
    if nt is None:
        raise Untranslatable("_odeint.body_fun: next_t")
    out.append(render_def("ode_next_t", "(t dt : α) : α", [], nt[0], "`ode.py::_odeint.body_fun`: `next_t`"))
    # acceptance test: jnp.where(error_ratio <= 1.0, new, old)
    acc = None
    for n in ast.walk(bfn):
        if isinstance(n, ast.Compare) and isinstance(n.left, ast.Name) and n.left.id == "error_ratio":
            acc = Tr({"error_ratio": ("r", "S")}).expr(n)
    if acc is None:
        raise Untranslatable("_odeint.body_fun: acceptance test")
    out.append(render_def("ode_accept", "(r : α) : Bool", [], acc[0], "`ode.py::_odeint.body_fun`: a step is accepted when"))
    # loop condition (t < target_t) & (i < mxstep) & (dt > 0)
    cf = find_func(sf, "cond_fun")
    r = None
    for st in cf.body:
        if isinstance(st, ast.Return):
            r = ast.unparse(st.value)
    out.append(f"/-- `ode.py::_odeint.cond_fun` (source text of the loop condition) -/\ndef ode_cond_text : String := {json.dumps(r)}")


def gen_interpolate(out):
    tree = parse("summer2/functions/interpolate.py")
    us = find_func(tree, "_uncorrected_sigmoid")
    tr = Tr({"x": ("x", "S"), "curvature": ("curvature", "S")})
    lets, ret = body_defs(us, tr)
    out.append(render_def("uncorrected_sigmoid", "(exp : α → α) (x curvature : α) : α", lets, tr.as_scalar(ret), "`interpolate.py::_uncorrected_sigmoid`"))
    def us_call(tr, args):
        return (f"(uncorrected_sigmoid exp {tr.as_scalar(args[0])} {tr.as_scalar(args[1])})", "S")
    mk = find_func(tree, "make_norm_sigmoid")
    tr = Tr({"curvature": ("curvature", "S"), "x": ("x", "S")}, calls={"_uncorrected_sigmoid": us_call})
    lets, _ = body_defs(mk, tr, ignore_return=True)
    sig = find_func(mk, "sig")
    _, ret = body_defs(sig, tr)
    out.append(render_def("norm_sigmoid", "(exp : α → α) (curvature x : α) : α", lets, tr.as_scalar(ret), "`interpolate.py::make_norm_sigmoid(curvature)(x)`"))
    env = {"x": ("x", "S"), "xdata": ("xdata", "SD"), "ydata": ("ydata", "SD")}
    lin = find_func(tree, "_get_linear_curve_at_x")
    tr = Tr(env)
    lets, ret = body_defs(lin, tr)
    out.append(render_def("linear_curve_at_x", "(x : α) (xdata ydata : TimeFns.ScaleData α) : α", lets, tr.as_scalar(ret), "`interpolate.py::_get_linear_curve_at_x`"))
    sg = find_func(tree, "build_sigmoidal_multicurve", "_get_sigmoidal_curve_at_x")
    tr = Tr(dict(env, sig=("sig", "FS")))
    lets, ret = body_defs(sg, tr)
    out.append(render_def("sigmoidal_curve_at_x", "(sig : α → α) (x : α) (xdata ydata : TimeFns.ScaleData α) : α", lets, tr.as_scalar(ret),
                          "`interpolate.py::build_sigmoidal_multicurve._get_sigmoidal_curve_at_x`"))
    # the three-way switch
    for name, fn, curve, extra in (("interpolate_linear", find_func(tree, "interpolate_linear"), "_get_linear_curve_at_x", ""),
                                   ("interpolate_sigmoidal", find_func(tree, "build_sigmoidal_multicurve", "interpolate_sigmoidal"), "_get_sigmoidal_curve_at_x", "sig ")):
        tr = Tr({"t": ("t", "S"), "xdata": ("xdata", "SD"), "ydata": ("ydata", "SD")})
        bs = branches = sw = None
        for st in fn.body:
            if isinstance(st, ast.Assign) and isinstance(st.targets[0], ast.Name) and st.targets[0].id == "bounds_state":
                bs = tr.expr(st.value)
            if isinstance(st, ast.Assign) and isinstance(st.targets[0], ast.Name) and st.targets[0].id == "branches":
                branches = st.value
            if isinstance(st, ast.Return):
                sw = st.value
        if bs is None or bs[1] != "N" or branches is None or not isinstance(branches, ast.List) or len(branches.elts) != 3:
            raise Untranslatable(name + ": bounds_state / branches")
        if ast.unparse(sw) != "lax.switch(bounds_state, branches, t, xdata, ydata)":
            raise Untranslatable(name + ": switch call " + ast.unparse(sw))
        bl = []
        for b in branches.elts:
            if isinstance(b, ast.Lambda):
                bl.append(tr.as_scalar(tr.expr(b.body)))
            elif isinstance(b, ast.Name) and b.id == curve:
                bl.append(f"({'sigmoidal' if extra else 'linear'}_curve_at_x {extra}t xdata ydata)")
            else:
                raise Untranslatable(name + ": branch " + ast.unparse(b))
        params = ("(sig : α → α) " if extra else "") + "(t : α) (xdata ydata : TimeFns.ScaleData α) : α"
        out.append(render_def(name, params, [], f"switch3 {bs[0]} {bl[0]} {bl[1]} {bl[2]}", f"`interpolate.py::{name}`: `lax.switch(sum(t > xdata.bounds), branches, …)`"))
    gs = find_func(tree, "get_scale_data")
    tr = Tr({"points": ("points", "V")})
    lets, _ = body_defs(gs, tr, ignore_return=True)
    ret = None
    for st in gs.body:
        if isinstance(st, ast.Return):
            c = st.value
            if not (isinstance(c, ast.Call) and ast.unparse(c.func) == "InterpolatorScaleData" and len(c.args) == 3):
                raise Untranslatable("get_scale_data: return")
            a = [tr.expr(x) for x in c.args]
            ret = f"{{ points := {a[0][0]}, ranges := {a[1][0]}, bounds := {a[2][0]} }}"
    out.append(render_def("scale_data", "(points : List α) : TimeFns.ScaleData α", lets, ret, "`interpolate.py::get_scale_data`"))
    util = parse("summer2/functions/util.py")
    pc = find_func(util, "piecewise_constant")
    tr = Tr({"x": ("x", "S"), "breakpoints": ("breakpoints", "V"), "values": ("values", "V")})
    lets, ret = body_defs(pc, tr)
    out.append(render_def("piecewise_constant", "(x : α) (breakpoints values : List α) : α", lets, tr.as_scalar(ret), "`util.py::piecewise_constant`"))


HEADER = """-- GENERATED by harness/translate/gen_arith.py from /repo (runner/jax/solvers.py, runner/jax/ode.py, functions/interpolate.py, functions/util.py). Do not edit.
import Summer.Basic
import Summer.Model.Lit
import Summer.Model.TimeFns
import Summer.Model.Solvers
set_option linter.unusedVariables false
namespace Summer.Generated.Arith
open Summer Summer.Solvers

/-- row `i` of a list of vectors with JAX index semantics (negative indices wrap, out of range clamps) -/
def jrow {α : Type} (m : List (List α)) (i : Int) : List α := m.getD (jidx m.length i) []

section
variable {α : Type} [Zero α] [One α] [Add α] [Sub α] [Mul α] [Div α] [Neg α] [LT α] [DecidableLT α]
"""


def main():
    os.makedirs(OUT, exist_ok=True)
    path = os.path.join(OUT, "Arith.lean")
    parts = []
    status = {}
    for name, fn in (("solvers", gen_solvers), ("ode", gen_ode), ("interpolate", gen_interpolate)):
        chunk = []
        try:
            fn(chunk)
            parts += [f"/-! ### {name} -/"] + chunk
            status[name] = "ok"
        except Untranslatable as e:
            status[name] = f"untranslatable: {e}"
        except Exception as e:
            status[name] = f"untranslatable: {type(e).__name__}: {e}"
    text = HEADER + "\n\n".join(parts) + "\n\nend\nend Summer.Generated.Arith\n"
    old = None
    try:
        old = open(path).read()
    except FileNotFoundError:
        pass
    if old != text:
        open(path, "w").write(text)
        status["Arith.lean"] = "changed"
    else:
        status["Arith.lean"] = "unchanged"
    print(json.dumps(status))


if __name__ == "__main__":
    main()
