#!/usr/bin/env python3
"""gen_skeleton.py -- regenerate Summer/Generated/Skeleton.lean (property C19).

Parses (never imports) the run-time functions of summer2 and emits, for each of them, a term of
the taint IR of Summer/Model/Taint.lean: the Python-level control skeleton (if / for / while /
functions traced by lax/jax combinators) over abstract expressions (variables read + what Python
does with them + a representation hint).  The Lean checker `Summer.Taint.ok` then decides, per
function, that no Python-level decision, container index or array shape depends on a run-time
value; `Summer.Taint` proves that this implies trace noninterference.

Plain Python 3, stdlib only.

    SUMMER2_REPO   repo root containing the package `summer2` (default /repo)
    SKELETON_OUT   output file (default <lean-root>/Summer/Generated/Skeleton.lean)
    --lean-root D  Lean project root (default: the parent directory of this script's directory)
    --report       also print the per-function parameter table on stdout

TRUSTED BASE (everything below is part of what C19 assumes; keep it documented):
  1. TARGETS           which functions are the run-time functions;
  2. PARAM_CLASS / STATIC_PARAMS / CONTAINER_NAMES
                       the classification Gamma_0 of their parameters (default: D = run-time
                       dependent device array, i.e. the conservative choice);
  3. free variables of closures are build-time (S; N / J when the enclosing builder assigns them
     from an `np.*` / `jnp.*` call);
  4. the classification of API names (JAX_*, NP_*, BUILTIN_* tables below);
  5. PINNED rules (a documented reason why a value is build-time although name-based dataflow
     says otherwise).
Anything the translator does not understand becomes `Stmt.unknown` / `Shape.unknown`, which the
checker rejects.
"""
import ast
import os
import sys

# --------------------------------------------------------------------------------------------
# 1. the run-time functions (module path relative to the package, qualified name pattern)
#    A qualified name `a.b` is the function `b` defined inside `a` (at any depth of if/else).
#    When several definitions match (same name defined in several branches) all are translated
#    and numbered.  Nested functions of a target (bodies passed to lax combinators) are translated
#    as `hof` statements inside their parent.
# --------------------------------------------------------------------------------------------
TARGETS = [
    ("runner/jax/model_impl.py", [
        "clean_compartments",
        "get_force_of_infection",
        "build_get_infectious_multipliers.get_infectious_multipliers",
        "build_get_flow_weights.get_flow_weights",
        "build_get_flow_rates.get_flow_rates",
        "build_get_compartment_rates.get_compartment_rates",
        "build_get_compartment_rates.get_compartment_rates_mat",
        "build_get_rates.get_rates",
        "build_get_compartment_infectiousness.get_compartment_infectiousness",
        "build_run_model.get_comp_rates",
        "build_run_model.get_ode_solution",      # 4 variants (odeint, rk4, euler, diffrax)
        "build_run_model.get_flows_for_outputs",  # with its inner `f` (lax.scan body)
        "build_run_model.run_model",
        # one_step / get_rates_debug / get_model_data: debug only, excluded
    ]),
    ("runner/jax/solvers.py", ["euler", "rk4"]),   # with body / cond
    ("runner/jax/ode.py", [
        "interp_fit_dopri", "fit_4th_order_polynomial", "initial_step_size",
        "runge_kutta_step", "abs2", "mean_error_ratio", "optimal_step_size",
        "_odeint",          # with scan_fun / cond_fun / body_fun
    ]),
    ("runner/jax/stratify.py", [
        "get_stratify_compartments_func.stratify_compartment_values",
        "get_calculate_initial_pop.calculate_initial_population",   # 2 variants
    ]),
    ("population.py", ["get_rebalanced_population"]),
    ("runner/jax/derived_outputs.py", [
        "build_flow_output.get_flow_output",        # 2 variants
        "build_compartment_output.summed_compartment_outputs",
        "return_agg",
        "build_cumulative_output.get_indexed_cumsum",
    ]),
    ("functions/util.py", [
        "piecewise_constant", "windowed_constant", "binary_search_sum_ge",   # with cond / body
        "capture_array._capture_array_reshape", "capture_array._capture_array",
    ]),
    ("functions/interpolate.py", [
        "_uncorrected_sigmoid", "make_norm_sigmoid.sig",
        "build_sigmoidal_multicurve._get_sigmoidal_curve_at_x",
        "build_sigmoidal_multicurve.interpolate_sigmoidal",
        "_get_linear_curve_at_x", "interpolate_linear", "get_scale_data",
    ]),
    ("functions/derived.py", [
        "get_rolling_diff.rolling_diff", "_rolling_index", "get_rolling_reduction.rolling_func",
    ]),
]

# --------------------------------------------------------------------------------------------
# 2. Gamma_0: classification of PARAMETERS of run-time functions (and of nested traced functions)
#    by name.  Default for a name not listed anywhere: "D" (run-time dependent device array).
#      C = container (dict / tuple / list / namedtuple) whose leaves may be run-time dependent
#      S = build-time Python value (callables, tolerances, static_argnums, model objects)
# --------------------------------------------------------------------------------------------
CONTAINER_PARAMS = {
    "parameters", "static_graph_vals", "static_graph_values", "model_data", "model_params",
    "cur_graph_outputs", "ts_graph_vals", "compartment_infectiousness",
    "carry", "state", "xdata", "ydata", "args", "kwargs", "sources",
}
STATIC_PARAMS = {
    # callables (closures over build-time structures; user functions are assumed traceable)
    "get_comp_rates", "func", "fun",
    # static_argnums / nondiff_argnums of _odeint and Python-number tolerances
    "rtol", "atol", "mxstep", "max_step", "order", "safety", "ifactor", "dfactor",
    # model objects and user-facing build-time arguments of get_rebalanced_population
    "model", "strat", "dest_filter", "proportions",
    # Python ints fixed when the derived-output function is built (get_rolling_reduction)
    "window", "periods",
}
# per-function overrides: (function simple name, parameter) -> class
PARAM_OVERRIDE = {
    # in get_infectious_multipliers it is the dict {strain: array}; in
    # get_force_of_infection `strain_compartment_infectiousness` is an array (default D)
    ("optimal_step_size", "mean_error_ratio"): "D",
}
# Names which, when they are LOCAL variables (or unpacking targets), hold containers rather than
# arrays.  Only used for the representation hint of components: a component of a run-time
# container is a device array (JAX pytree leaves are arrays) unless its name is listed here.
CONTAINER_NAMES = CONTAINER_PARAMS | {
    "cur_cv", "cvals", "cv_out", "out_cv", "strain_values", "model_variables",
    "proportions", "population_split", "init_carry", "new", "old", "branches",
    "output_dict", "derived_outputs", "do_full_params", "strain_comp_inf", "computed_values",
    "per_strain_out", "infection_frequency", "infection_density", "solver_args",
}
# 5. PINNED: (function simple name, variable) -> reason.  The variable keeps depending only on
#    ITSELF when it is re-assigned (other reads of the right-hand side are dropped).
PINNED = {
    ("get_rebalanced_population", "proportions"):
        "CompartmentalModel.adjust_population_split evaluates "
        "np.testing.assert_allclose(sum(proportions.values()), 1.0) at BUILD time, which raises "
        "TypeError for graph objects; hence the proportions are Python numbers and "
        "get_static_param_value passes them through unchanged",
}
# representation of the result of calls to run-time functions by simple name
CALL_RETURNS = {
    # tuples / dicts
    "get_flow_rates": "cont", "get_rates": "cont", "get_force_of_infection": "cont",
    "get_compartment_infectiousness": "cont", "get_flows_for_outputs": "cont",
    "ts_graph_func": "cont", "static_graph_func": "cont", "calc_derived_outputs": "cont",
    "runge_kutta_step": "cont", "fit_4th_order_polynomial": "cont",
    "get_static_param_value": "py",
    # arrays
    "get_comp_rates": "dev", "func": "dev", "func_": "dev", "fun": "dev",
    "clean_compartments": "dev", "get_flow_weights": "dev", "get_infectious_multipliers": "dev",
    "get_compartment_rates": "dev", "calc_initial_pop": "dev", "get_ode_solution": "dev",
    "get_rebalanced_population": "dev", "binary_search_sum_ge": "dev", "sig": "dev",
    "_uncorrected_sigmoid": "dev", "_rolling_index": "dev", "mean_error_ratio": "dev",
    "optimal_step_size": "dev", "interp_fit_dopri": "dev", "initial_step_size": "dev",
    "abs2": "dev", "piecewise_constant": "dev",
}

# --------------------------------------------------------------------------------------------
# 4. API classification
# --------------------------------------------------------------------------------------------
JAX_COMBINATORS = {"cond", "switch", "while_loop", "scan", "fori_loop", "map", "vmap", "jit",
                   "pmap", "grad", "value_and_grad", "checkpoint", "remat", "custom_vjp",
                   "custom_jvp", "associative_scan"}
# array constructors: which arguments are SHAPES (positional indices, keyword names)
JAX_SHAPE_CTORS = {
    "zeros": ([0], ["shape"]), "ones": ([0], ["shape"]), "empty": ([0], ["shape"]),
    "full": ([0], ["shape"]), "eye": ([0, 1], ["N", "M"]), "identity": ([0], ["n"]),
    "tri": ([0, 1], ["N", "M"]), "arange": ([0, 1, 2], ["start", "stop", "step"]),
    "linspace": ([2], ["num"]), "logspace": ([2], ["num"]), "geomspace": ([2], ["num"]),
    "reshape": ([1], ["shape", "newshape"]), "broadcast_to": ([1], ["shape"]),
    "tile": ([1], ["reps"]), "repeat": ([1], ["repeats", "total_repeat_length"]),
    "iota": ([1], ["size"]), "full_like": ([], ["shape"]), "zeros_like": ([], ["shape"]),
    "ones_like": ([], ["shape"]), "empty_like": ([], ["shape"]),
    "resize": ([1], ["new_shape"]), "dynamic_slice": ([2], ["slice_sizes"]),
    "indices": ([0], ["dimensions"]), "nonzero": ([], ["size"]), "where": ([], ["size"]),
    "unique": ([], ["size"]), "argwhere": ([], ["size"]), "flatnonzero": ([], ["size"]),
    "split": ([1], ["indices_or_sections"]), "array_split": ([1], ["indices_or_sections"]),
    "roll": ([], []), "expand_dims": ([1], ["axis"]),
}
# jnp functions whose result SHAPE depends on the values of their arguments (unless `size=`)
JAX_VALUE_SHAPED = {"nonzero", "flatnonzero", "argwhere", "unique", "unique_values",
                    "unique_counts", "unique_all", "unique_inverse", "compress", "extract",
                    "setdiff1d", "union1d", "intersect1d", "setxor1d", "trim_zeros", "bincount"}
# jnp / jax functions whose result only depends on shape / dtype
JAX_STATIC_FUNCS = {"iscomplexobj", "isrealobj", "issubdtype", "shape", "ndim", "size",
                    "result_type", "dtype", "isscalar", "iinfo", "finfo", "can_cast",
                    "promote_types"}
# attributes which only depend on the trace-time-visible part
STATIC_ATTRS = {"shape", "dtype", "ndim", "size", "itemsize", "nbytes", "weak_type", "aval"}
# array methods which need a concrete value
CONCRETIZING_METHODS = {"item", "tolist", "tobytes", "tostring", "tofile", "dump", "dumps",
                        "block_until_ready", "__bool__", "__int__", "__float__", "__index__",
                        "__complex__"}
# methods whose (positional) arguments are shapes
SHAPE_METHODS = {"reshape": None, "repeat": [0], "resize": None}
# methods mutating their receiver (as expression statements)
MUTATORS = {"append", "extend", "update", "add", "insert", "pop", "remove", "clear",
            "setdefault", "popitem", "sort", "reverse", "discard"}
BUILTIN_STATIC = {"len", "isinstance", "issubclass", "type", "hasattr", "callable", "id",
                  "getattr"}
BUILTIN_CONCRETIZE = {"int", "float", "bool", "complex", "str", "repr", "range", "min", "max",
                      "sorted", "all", "any", "round", "divmod", "hash", "format", "bin", "hex",
                      "oct", "chr", "ord", "print", "frozenset", "set", "bytes", "pow_"}
BUILTIN_PURE = {"sum", "abs", "list", "tuple", "dict", "enumerate", "zip", "reversed", "map",
                "filter", "partial", "iter", "next", "pow", "slice", "super", "vars"}
PY_BUILTIN_NAMES = BUILTIN_STATIC | BUILTIN_CONCRETIZE | BUILTIN_PURE | {
    "True", "False", "None", "NotImplementedError", "TypeError", "ValueError", "Exception",
    "AssertionError", "KeyError", "IndexError", "RuntimeError", "object", "Ellipsis",
    "NotImplemented", "__name__"}


class Ex:
    """abstract expression of the IR"""
    def __init__(self, eid, reads, shape=("pure",), rep="py"):
        self.id = eid
        self.reads = list(dict.fromkeys(reads))
        self.shape = shape
        self.rep = rep


class AE:
    """result of translating a Python expression: variables read + representation hint"""
    def __init__(self, reads=(), rep="py", names=None):
        self.reads = list(dict.fromkeys(reads))
        self.rep = rep


def rep_like(vs):
    vs = list(dict.fromkeys(vs))
    return ("like", vs) if vs else "py"


def combine_rep(aes):
    """representation of an arithmetic combination"""
    like = []
    kinds = set()
    for a in aes:
        r = a.rep
        if isinstance(r, tuple):
            like += r[1]
        else:
            kinds.add(r)
    if "dev" in kinds:
        return "dev"
    if like:
        return rep_like(like)
    for k in ("cont", "np"):
        if k in kinds:
            return k
    return "py"


class ModuleInfo:
    def __init__(self, path, relpath):
        self.path = path
        self.relpath = relpath
        self.src = open(path).read()
        self.tree = ast.parse(self.src, filename=path)
        # alias -> dotted module path (for `import x as y`, `from a import b as c`)
        self.alias = {}
        self.module_names = set()   # all names bound at module level (functions, classes, ...)
        for node in ast.walk(self.tree):
            if isinstance(node, ast.Import):
                for a in node.names:
                    self.alias[a.asname or a.name.split(".")[0]] = a.name if a.asname else a.name.split(".")[0]
            elif isinstance(node, ast.ImportFrom):
                for a in node.names:
                    self.alias[a.asname or a.name] = (node.module or "") + "." + a.name
        for node in self.tree.body:
            for n in ast.walk(node) if not isinstance(node, (ast.FunctionDef, ast.ClassDef)) else [node]:
                if isinstance(n, (ast.FunctionDef, ast.ClassDef)):
                    self.module_names.add(n.name)
                elif isinstance(n, ast.Name) and isinstance(n.ctx, ast.Store):
                    self.module_names.add(n.id)

    def family(self, name):
        """'jax' | 'np' | 'math' | None for a global name"""
        p = self.alias.get(name)
        if p is None:
            return None
        if p == "jax" or p.startswith("jax."):
            return "jax"
        if p == "numpy" or p.startswith("numpy.") or p == "scipy" or p.startswith("scipy.") \
                or p == "pandas" or p.startswith("pandas."):
            return "np"
        if p == "math" or p.startswith("math."):
            return "math"
        return None


def find_defs(tree, qual):
    """all FunctionDef nodes matching the qualified name, with their chain of enclosing defs"""
    parts = qual.split(".")
    out = []

    def walk(node, chain):
        for child in ast.iter_child_nodes(node):
            if isinstance(child, (ast.FunctionDef, ast.AsyncFunctionDef)):
                names = [c.name for c in chain] + [child.name]
                if names == parts:
                    out.append((child, list(chain)))
                walk(child, chain + [child])
            elif isinstance(child, ast.ClassDef):
                continue
            elif isinstance(child, ast.Lambda):
                continue
            else:
                walk(child, chain)
    walk(tree, [])
    return out


def own_nodes(fn):
    """nodes of the body of `fn` excluding nested function / lambda / class bodies"""
    stack = list(fn.body)
    while stack:
        n = stack.pop()
        yield n
        if isinstance(n, (ast.FunctionDef, ast.AsyncFunctionDef, ast.Lambda, ast.ClassDef)):
            continue
        stack.extend(ast.iter_child_nodes(n))


def param_names(fn):
    a = fn.args
    names = [x.arg for x in a.posonlyargs + a.args]
    if a.vararg:
        names.append(a.vararg.arg)
    names += [x.arg for x in a.kwonlyargs]
    if a.kwarg:
        names.append(a.kwarg.arg)
    return names


def assigned_names(fn):
    out = set()
    for n in own_nodes(fn):
        if isinstance(n, ast.Name) and isinstance(n.ctx, (ast.Store, ast.Del)):
            out.add(n.id)
        elif isinstance(n, (ast.FunctionDef, ast.AsyncFunctionDef)):
            out.add(n.name)
        elif isinstance(n, (ast.Import, ast.ImportFrom)):
            pass
    return out


def local_imports(fn):
    out = set()
    for n in own_nodes(fn):
        if isinstance(n, (ast.Import, ast.ImportFrom)):
            for a in n.names:
                out.add(a.asname or a.name.split(".")[0])
    return out


class Translator:
    def __init__(self, mod, fn, chain, lean_name):
        self.mod = mod
        self.fn = fn
        self.chain = chain
        self.lean_name = lean_name
        self.simple = fn.name
        self.ntemp = 0
        self.line_counter = {}
        self.blocks = [[]]
        self.notes = []
        # ---- variables in scope
        self.gamma0 = []          # [(name, class, origin)]
        self.vars = set()
        # free variables: from the enclosing builder functions (build-time); only those the
        # function mentions are listed
        used = set(x.id for x in ast.walk(fn) if isinstance(x, ast.Name))
        self.used_names = used
        for enc in chain:
            imps = local_imports(enc)
            for p in param_names(enc):
                self._declare_free(p, "S", "parameter of builder %s" % enc.name)
            for n in sorted(assigned_names(enc)):
                if n in imps:
                    continue
                self._declare_free(n, self._classify_builder_assignment(enc, n),
                                   "assigned in builder %s" % enc.name)
        # parameters of the run-time function itself (shadow free variables)
        for p in param_names(fn):
            cls = self.param_class(p)
            self.gamma0 = [g for g in self.gamma0 if g[0] != p]
            self.gamma0.append((p, cls, "parameter"))
            self.vars.add(p)
        self.scopes = [set(param_names(fn)) | assigned_names(fn)]
        self.local_imports = local_imports(fn)
        self.bound = set(g[0] for g in self.gamma0)
        self.cont_params = set(g[0] for g in self.gamma0 if g[1] == "C")

    # ------------------------------------------------------------------ Gamma_0
    def _declare_free(self, name, cls, origin):
        self.gamma0 = [g for g in self.gamma0 if g[0] != name]
        self.vars.add(name)
        if name in self.used_names:
            self.gamma0.append((name, cls, origin))

    def _classify_builder_assignment(self, enc, name):
        """class of a build-time variable of a builder: J if (always) assigned from a jnp call,
        N if from an np call, S otherwise"""
        kinds = set()
        for n in own_nodes(enc):
            if isinstance(n, ast.Assign):
                for t in n.targets:
                    if isinstance(t, ast.Name) and t.id == name:
                        kinds.add(self._call_family(n.value))
                    elif any(isinstance(x, ast.Name) and x.id == name for x in ast.walk(t)):
                        kinds.add(None)
            elif isinstance(n, (ast.AugAssign, ast.AnnAssign, ast.For, ast.comprehension,
                                ast.With, ast.NamedExpr)):
                tgt = getattr(n, "target", None)
                if tgt is not None and any(isinstance(x, ast.Name) and x.id == name
                                           for x in ast.walk(tgt)):
                    kinds.add(None)
            elif isinstance(n, (ast.FunctionDef, ast.AsyncFunctionDef)) and n.name == name:
                kinds.add(None)
        if kinds == {"jax"}:
            return "J"
        if kinds == {"np"}:
            return "N"
        return "S"

    def _call_family(self, v):
        if isinstance(v, ast.Call):
            f = v.func
            while isinstance(f, ast.Attribute):
                f = f.value
            if isinstance(f, ast.Name):
                return self.mod.family(f.id)
        return None

    def param_class(self, p, fn=None):
        key = ((fn or self.fn).name, p)
        if key in PARAM_OVERRIDE:
            return PARAM_OVERRIDE[key]
        a = (fn or self.fn).args
        if (a.vararg and a.vararg.arg == p) or (a.kwarg and a.kwarg.arg == p):
            return "C"
        if p in CONTAINER_PARAMS:
            return "C"
        if p in STATIC_PARAMS:
            return "S"
        return "D"

    # ------------------------------------------------------------------ emission helpers
    def emit(self, st):
        self.blocks[-1].append(st)

    def new_id(self, node):
        line = getattr(node, "lineno", 0) or 0
        k = self.line_counter.get(line, 0)
        self.line_counter[line] = k + 1
        return line * 1000 + min(k, 999)

    def mk(self, node, reads, shape=("pure",), rep="py"):
        return Ex(self.new_id(node), reads, shape, rep)

    def temp(self, node, reads, shape=("pure",), rep="py"):
        self.ntemp += 1
        t = "$t%d" % self.ntemp
        self.emit(("assign", t, self.mk(node, reads, shape, rep)))
        self.bound.add(t)
        return t

    def unknown(self, node, what):
        msg = "%s:%s %s" % (self.mod.relpath, getattr(node, "lineno", "?"), what)
        self.notes.append("UNKNOWN " + msg)
        self.emit(("unknown", msg))

    def unknown_ex(self, node, what, reads=()):
        msg = "%s:%s %s" % (self.mod.relpath, getattr(node, "lineno", "?"), what)
        self.notes.append("UNKNOWN-EXPR " + msg)
        t = self.temp(node, list(reads), ("unknown",), "py")
        return AE([t], rep_like([t]))

    def is_var(self, name):
        if name in self.local_imports:
            return False
        for sc in self.scopes:
            if name in sc:
                return True
        return name in self.vars

    def is_cont_name(self, name):
        return name in CONTAINER_NAMES or name in self.cont_params

    def is_cont_node(self, node):
        return isinstance(node, ast.Name) and self.is_var(node.id) and self.is_cont_name(node.id)

    def as_var(self, ae, node):
        """a variable holding the value of `node`"""
        if isinstance(node, ast.Name) and self.is_var(node.id):
            return node.id
        if len(ae.reads) == 1 and ae.reads[0].startswith("$t") and ae.rep == rep_like(ae.reads):
            return ae.reads[0]
        return self.temp(node, ae.reads, ("pure",), ae.rep)

    # ------------------------------------------------------------------ expressions
    def tr(self, n):
        m = getattr(self, "tr_" + type(n).__name__, None)
        if m is None:
            reads = [x.id for x in ast.walk(n) if isinstance(x, ast.Name) and self.is_var(x.id)]
            return self.unknown_ex(n, "expression " + type(n).__name__, reads)
        return m(n)

    def tr_many(self, nodes):
        return [self.tr(x) for x in nodes if x is not None]

    def union(self, aes):
        reads = []
        for a in aes:
            reads += a.reads
        return reads

    def tr_Constant(self, n):
        return AE()

    def tr_JoinedStr(self, n):
        aes = self.tr_many([v.value for v in n.values if isinstance(v, ast.FormattedValue)])
        # formatting a tracer prints its abstract value: no concretisation
        return AE(self.union(aes), "py")

    def tr_Name(self, n):
        if self.is_var(n.id):
            if self.is_cont_name(n.id):
                return AE([n.id], "cont")
            return AE([n.id], rep_like([n.id]))
        return AE()   # module-level name / builtin: build-time constant

    def tr_Starred(self, n):
        return self.tr(n.value)

    def tr_Slice(self, n):
        aes = self.tr_many([n.lower, n.upper, n.step])
        return AE(self.union(aes), "py")

    def tr_Tuple(self, n):
        aes = self.tr_many(n.elts)
        return AE(self.union(aes), "cont")

    tr_List = tr_Tuple

    def tr_Set(self, n):
        aes = self.tr_many(n.elts)
        t = self.temp(n, self.union(aes), ("concretize",), "py")   # elements are hashed
        return AE([t], "cont")

    def tr_Dict(self, n):
        keys = self.tr_many([k for k in n.keys if k is not None])
        kreads = self.union(keys)
        if kreads:
            # keys are hashed by Python: need concrete values
            self.temp(n, kreads, ("concretize",), "py")
        vals = self.tr_many(n.values)
        return AE(kreads + self.union(vals), "cont")

    def tr_BinOp(self, n):
        aes = self.tr_many([n.left, n.right])
        return AE(self.union(aes), combine_rep(aes))

    def tr_UnaryOp(self, n):
        a = self.tr(n.operand)
        if isinstance(n.op, ast.Not):
            t = self.temp(n, a.reads, ("concretize",), "py")   # bool(x)
            return AE([t], "py")
        return AE(a.reads, combine_rep([a]))

    def tr_BoolOp(self, n):
        # `a and b` / `a or b` call bool() on all operands but the last
        aes = self.tr_many(n.values)
        t = self.temp(n, self.union(aes[:-1]), ("concretize",), "py")
        return AE([t] + aes[-1].reads, combine_rep([aes[-1]]))

    def tr_Compare(self, n):
        aes = self.tr_many([n.left] + n.comparators)
        reads = self.union(aes)
        if all(isinstance(o, (ast.Is, ast.IsNot)) for o in n.ops):
            t = self.temp(n, reads, ("staticOf",), "py")     # identity: no value needed
            return AE([t], "py")
        if any(isinstance(o, (ast.In, ast.NotIn)) for o in n.ops) or len(n.ops) > 1:
            # membership compares/hashes values; a chain `a < b < c` calls bool()
            t = self.temp(n, reads, ("concretize",), "py")
            return AE([t], "py")
        return AE(reads, combine_rep(aes))

    def tr_IfExp(self, n):
        c = self.test_ex(n.test)
        self.ntemp += 1
        t = "$t%d" % self.ntemp
        self.blocks.append([])
        a = self.tr(n.body)
        self.emit(("assign", t, self.mk(n, a.reads, ("pure",), a.rep)))
        b1 = self.blocks.pop()
        self.blocks.append([])
        b = self.tr(n.orelse)
        self.emit(("assign", t, self.mk(n, b.reads, ("pure",), b.rep)))
        b2 = self.blocks.pop()
        self.emit(("ite", c, b1, b2))
        self.bound.add(t)
        return AE([t], rep_like([t]))

    def tr_Lambda(self, n, k="lambda"):
        free = self.free_reads(n)
        self.emit_hof(n, k, n.args, [ast.Return(value=n.body, lineno=n.lineno)], n)
        return AE(free, "py")

    def comp_generic(self, n, elts):
        """list / set / dict comprehension, generator expression: a Python-level loop"""
        self.ntemp += 1
        acc = "$t%d" % self.ntemp
        self.emit(("assign", acc, self.mk(n, [], ("pure",), "cont")))
        self.bound.add(acc)
        self.scopes.append(set(x.id for g in n.generators for x in ast.walk(g.target)
                               if isinstance(x, ast.Name)))

        def gen(i):
            if i == len(n.generators):
                aes = self.tr_many(elts)
                self.emit(("assign", acc, self.mk(n, [acc] + self.union(aes), ("pure",), "cont")))
                return
            g = n.generators[i]
            if g.is_async:
                self.unknown(n, "async comprehension")
                return

            def body():
                def conds(j):
                    if j == len(g.ifs):
                        gen(i + 1)
                        return
                    c = self.test_ex(g.ifs[j])
                    self.blocks.append([])
                    conds(j + 1)
                    b = self.blocks.pop()
                    self.emit(("ite", c, b, []))
                conds(0)
            self.for_loop(n, g.target, g.iter, body)
        gen(0)
        self.scopes.pop()
        return AE([acc], "cont")

    def tr_ListComp(self, n):
        return self.comp_generic(n, [n.elt])

    tr_GeneratorExp = tr_ListComp

    def tr_SetComp(self, n):
        a = self.comp_generic(n, [n.elt])
        t = self.temp(n, a.reads, ("concretize",), "py")   # elements are hashed
        return AE([t], "cont")

    def tr_DictComp(self, n):
        ks = [x.id for x in ast.walk(n.key) if isinstance(x, ast.Name)]
        a = self.comp_generic(n, [n.key, n.value])
        return a

    def tr_Attribute(self, n):
        root = n
        while isinstance(root, ast.Attribute):
            root = root.value
        if isinstance(root, ast.Name) and not self.is_var(root.id):
            return AE()    # jnp.inf, SolverType.ODE_INT, np.float64, ...: build-time constant
        if n.attr in STATIC_ATTRS:
            a = self.tr(n.value)
            t = self.temp(n, a.reads, ("staticOf",), "py")
            return AE([t], "py")
        a = self.tr(n.value)
        if n.attr in ("T", "real", "imag", "mT", "flat", "at"):
            return AE(a.reads, a.rep if a.rep != "cont" else "py")
        # a component of an object
        if self.is_cont_node(n.value):
            return AE(a.reads, "cont" if n.attr in CONTAINER_NAMES else "dev")
        return AE(a.reads, a.rep if a.rep != "cont" else "py")

    def tr_Subscript(self, n):
        base_node = n.value
        if isinstance(base_node, ast.Attribute) and base_node.attr == "at":
            base_node = base_node.value      # x.at[idx]
        b = self.tr(base_node)
        s = self.tr(n.slice)
        # the bounds of a slice determine the SHAPE of the result
        parts = list(n.slice.elts) if isinstance(n.slice, ast.Tuple) else [n.slice]
        bounds = []
        for prt in parts:
            if isinstance(prt, ast.Slice):
                bounds += self.tr_Slice(prt).reads
        if bounds:
            bounds = list(dict.fromkeys(bounds))
            sh = self.temp(n, bounds, ("shapeArg", bounds), "py")
            s = AE([r for r in s.reads if r not in bounds] + [sh], "py")
        if isinstance(base_node, ast.Name) and not self.is_var(base_node.id):
            # subscript of a module-level object (typing generics, constants)
            bv = self.temp(n, [], ("pure",), "py")
        else:
            bv = self.as_var(b, base_node)
        if self.is_cont_node(base_node):
            rep = "dev"
        else:
            rep = rep_like([bv])
        t = self.temp(n, [bv] + s.reads, ("index", bv, s.reads), rep)
        return AE([t], rep_like([t]))

    def tr_Index(self, n):   # python < 3.9
        return self.tr(n.value)

    def call_args(self, n):
        """[(position or None, keyword or None, node)]"""
        out = []
        for i, a in enumerate(n.args):
            out.append((i, None, a))
        for k in n.keywords:
            out.append((None, k.arg, k.value))
        return out

    def tr_Call(self, n):
        f = n.func
        args = self.call_args(n)
        # ---------------- plain names
        if isinstance(f, ast.Name) and not self.is_var(f.id):
            name = f.id
            fam = self.mod.family(name)
            if fam == "jax":
                return self.jax_call(n, name, args)
            if fam in ("np", "math"):
                return self.np_call(n, args, fam)
            if name in BUILTIN_STATIC:
                aes = self.tr_many([a for _, _, a in args])
                t = self.temp(n, self.union(aes), ("staticOf",), "py")
                return AE([t], "py")
            if name in ("set", "frozenset") and len(n.args) == 1 and self.is_cont_node(n.args[0]):
                # the keys of a container (elements of a run-time container can not be hashed)
                a = self.tr(n.args[0])
                t = self.temp(n, a.reads, ("staticOf",), "py")
                return AE([t], "py")
            if name in BUILTIN_CONCRETIZE:
                aes = self.tr_many([a for _, _, a in args])
                t = self.temp(n, self.union(aes), ("concretize",), "py")
                return AE([t], "py")
            if name in ("sum", "list", "tuple") and len(n.args) >= 1 and not n.keywords \
                    and not isinstance(n.args[0], ast.Starred):
                return self.builtin_iter(n, name)
            if name in BUILTIN_PURE:
                aes = self.tr_many([a for _, _, a in args])
                if name in ("sum", "abs", "pow"):
                    return AE(self.union(aes), combine_rep(
                        [AE(a.reads, "dev" if self.is_cont_node(x) else a.rep)
                         for a, x in zip(aes, [a for _, _, a in args])]))
                return AE(self.union(aes), "cont" if name not in ("partial", "next") else "py")
            # a module-level function / class of the package or of another library
            aes = self.tr_many([a for _, _, a in args])
            return AE(self.union(aes), CALL_RETURNS.get(name, "py"))
        # ---------------- local callables
        if isinstance(f, ast.Name):
            aes = self.tr_many([a for _, _, a in args])
            return AE([f.id] + self.union(aes), CALL_RETURNS.get(f.id, "py"))
        # ---------------- attribute calls
        if isinstance(f, ast.Attribute):
            root = f
            while isinstance(root, ast.Attribute):
                root = root.value
            if isinstance(root, ast.Name) and not self.is_var(root.id):
                fam = self.mod.family(root.id)
                if fam == "jax":
                    return self.jax_call(n, f.attr, args)
                if fam in ("np", "math"):
                    return self.np_call(n, args, fam)
                aes = self.tr_many([a for _, _, a in args])
                return AE(self.union(aes), CALL_RETURNS.get(f.attr, "py"))
            return self.method_call(n, f, args)
        # ---------------- anything else, e.g. strat_funcs[strat](...)
        fa = self.tr(f)
        aes = self.tr_many([a for _, _, a in args])
        return AE(fa.reads + self.union(aes), "py")

    def builtin_iter(self, n, name):
        """sum(xs[, start]) / list(xs) / tuple(xs): Python iterates over xs.  The trip count is
        len(xs) (static also for a device array); the elements are components."""
        src = n.args[0]
        a = self.tr(src)
        cont = self.is_cont_node(src) or (
            isinstance(src, ast.Call) and isinstance(src.func, ast.Attribute)
            and src.func.attr == "values" and self.is_cont_node(src.func.value))
        erep = "dev" if cont else (a.rep if a.rep != "cont" else "py")
        start = self.tr_many(n.args[1:])
        acc = self.temp(n, self.union(start), ("pure",), "py" if name == "sum" else "cont")
        el = self._fresh()
        itex = self.mk(n, a.reads, ("pure",), erep)
        rep = rep_like([acc, el]) if name == "sum" else "cont"
        self.emit(("for", el, itex, [("assign", acc, self.mk(n, [acc, el], ("pure",), rep))]))
        return AE([acc], rep_like([acc]) if name == "sum" else "cont")

    def shape_split(self, n, args, pos, kws):
        """translate call arguments, separating shape arguments"""
        shape_reads, other = [], []
        for i, k, a in args:
            if isinstance(a, ast.Lambda):
                ae = self.tr_Lambda(a, "arg")
            else:
                ae = self.tr(a)
            if (i is not None and i in pos) or (k is not None and k in kws):
                shape_reads += ae.reads
            else:
                other.append(ae)
        return list(dict.fromkeys(shape_reads)), other

    def jax_call(self, n, name, args):
        if name in JAX_STATIC_FUNCS:
            aes = self.tr_many([a for _, _, a in args])
            t = self.temp(n, self.union(aes), ("staticOf",), "py")
            return AE([t], "py")
        has_size = any(k in ("size", "length", "minlength") for _, k, _ in args)
        if (name in JAX_VALUE_SHAPED or (name == "where" and len(n.args) == 1 and not n.keywords)) \
                and not has_size:
            aes = self.tr_many([a for _, _, a in args])
            t = self.temp(n, self.union(aes), ("concretize",), "dev")
            return AE([t], "dev")
        if name in JAX_COMBINATORS:
            aes = []
            static_kw = []
            for i, k, a in args:
                if isinstance(a, ast.Lambda):
                    aes.append(self.tr_Lambda(a, name))
                elif k in ("length", "unroll", "static_argnums", "static_argnames", "in_axes",
                           "out_axes", "axis_size", "reverse"):
                    static_kw += self.tr(a).reads
                else:
                    aes.append(self.tr(a))
            if static_kw:
                t = self.temp(n, static_kw, ("shapeArg", list(dict.fromkeys(static_kw))), "py")
                aes.append(AE([t], "py"))
            return AE(self.union(aes), "dev")
        if name in JAX_SHAPE_CTORS:
            pos, kws = JAX_SHAPE_CTORS[name]
            sh, other = self.shape_split(n, args, pos, kws)
            if sh:
                t = self.temp(n, sh + self.union(other), ("shapeArg", sh), "dev")
                return AE([t], "dev")
            return AE(self.union(other), "dev")
        aes = []
        for i, k, a in args:
            aes.append(self.tr_Lambda(a, name) if isinstance(a, ast.Lambda) else self.tr(a))
        return AE(self.union(aes), "dev")

    def np_call(self, n, args, fam):
        aes = self.tr_many([a for _, _, a in args])
        t = self.temp(n, self.union(aes), ("concretize",), "np" if fam == "np" else "py")
        return AE([t], "np" if fam == "np" else "py")

    def method_call(self, n, f, args):
        recv = f.value
        meth = f.attr
        r = self.tr(recv)
        if meth in CONCRETIZING_METHODS:
            aes = self.tr_many([a for _, _, a in args])
            t = self.temp(n, r.reads + self.union(aes), ("concretize",), "py")
            return AE([t], "py")
        if meth in SHAPE_METHODS:
            pos = SHAPE_METHODS[meth]
            pos = list(range(len(n.args))) if pos is None else pos
            sh, other = self.shape_split(n, args, pos, ["shape", "newshape", "repeats", "new_shape"])
            rep = r.rep if r.rep != "cont" else "py"
            if sh:
                t = self.temp(n, sh + r.reads + self.union(other), ("shapeArg", sh), rep)
                return AE([t], rep_like([t]))
            return AE(r.reads + self.union(other), rep)
        if meth in ("keys",) and not args:
            t = self.temp(n, r.reads, ("staticOf",), "py")
            return AE([t], "py")
        if meth in ("get",) and self.is_cont_node(recv) and args:
            # dict.get(key[, default]) is a container lookup
            rv = self.as_var(r, recv)
            k = self.tr(args[0][2])
            rest = self.tr_many([a for _, _, a in args[1:]])
            t = self.temp(n, [rv] + k.reads + self.union(rest), ("index", rv, k.reads), "dev")
            return AE([t], rep_like([t]))
        aes = []
        for i, k, a in args:
            aes.append(self.tr_Lambda(a, meth) if isinstance(a, ast.Lambda) else self.tr(a))
        if self.is_cont_node(recv):
            rep = "cont" if meth in ("copy", "items", "values") else "py"
            if meth == "values":
                rep = "cont"
            return AE(r.reads + self.union(aes), rep)
        rep = r.rep if r.rep != "cont" else "py"
        return AE(r.reads + self.union(aes), rep)

    # ------------------------------------------------------------------ nested functions
    def free_reads(self, fnode):
        """outer variables read by the body of a nested def / lambda"""
        a = fnode.args
        own = set(x.arg for x in a.posonlyargs + a.args + a.kwonlyargs)
        if a.vararg:
            own.add(a.vararg.arg)
        if a.kwarg:
            own.add(a.kwarg.arg)
        if isinstance(fnode, ast.Lambda):
            body_nodes = list(ast.walk(fnode.body))
            assigned = set()
        else:
            body_nodes = [x for s in fnode.body for x in ast.walk(s)]
            assigned = set(x.id for x in body_nodes
                           if isinstance(x, ast.Name) and isinstance(x.ctx, ast.Store))
            assigned |= set(x.name for x in body_nodes if isinstance(x, ast.FunctionDef))
        inner_params = set()
        for x in body_nodes:
            if isinstance(x, (ast.Lambda, ast.FunctionDef)):
                inner_params |= set(param_names(x))
            if isinstance(x, ast.comprehension):
                inner_params |= set(y.id for y in ast.walk(x.target) if isinstance(y, ast.Name))
        out = []
        for x in body_nodes:
            if isinstance(x, ast.Name) and isinstance(x.ctx, ast.Load) and self.is_var(x.id) \
                    and x.id not in own and x.id not in assigned and x.id not in inner_params:
                out.append(x.id)
        return list(dict.fromkeys(out))

    def emit_hof(self, node, k, arguments, body_stmts, fnode):
        """a function traced by a combinator: parameters are fresh tracers"""
        names = []
        a = arguments
        for x in a.posonlyargs + a.args + a.kwonlyargs:
            names.append((x.arg, False))
        if a.vararg:
            names.append((a.vararg.arg, True))
        if a.kwarg:
            names.append((a.kwarg.arg, True))
        params = []
        for p, star in names:
            rep = "cont" if (star or p in CONTAINER_NAMES) else "dev"
            if p in STATIC_PARAMS:
                self.notes.append("note: parameter %s of traced function at line %s treated as tracer"
                                  % (p, getattr(node, "lineno", "?")))
            params.append((p, self.mk(node, [], ("tracer",), rep)))
        late = [v for v in self.free_reads(fnode) if v not in self.bound]
        self.blocks.append([])
        own = set(p for p, _ in names)
        if not isinstance(fnode, ast.Lambda):
            own |= assigned_names(fnode)
        self.scopes.append(own)
        saved_bound = set(self.bound)
        saved_cont = set(self.cont_params)
        self.bound |= own
        self.cont_params |= set(p for (p, star) in names if star)
        if late:
            self.unknown(node, "closure reads variables bound later: %s" % ", ".join(late))
        self.block(body_stmts, in_loop=False)
        self.scopes.pop()
        self.bound = saved_bound
        self.cont_params = saved_cont
        body = self.blocks.pop()
        self.emit(("hof", k, params, body))

    def combinator_of(self, fname, owner):
        """name of the jax combinator a nested function is passed to (documentation only)"""
        for n in ast.walk(owner):
            if isinstance(n, ast.Call):
                f = n.func
                nm = f.attr if isinstance(f, ast.Attribute) else (f.id if isinstance(f, ast.Name) else None)
                if nm in JAX_COMBINATORS:
                    for a in list(n.args) + [k.value for k in n.keywords]:
                        for x in ast.walk(a):
                            if isinstance(x, ast.Name) and x.id == fname:
                                return nm
        return "def"

    # ------------------------------------------------------------------ statements
    def test_ex(self, node):
        a = self.tr(node)
        return self.mk(node, a.reads, ("pure",), "py")

    @staticmethod
    def terminates(stmts):
        if not stmts:
            return False
        last = stmts[-1]
        if isinstance(last, (ast.Return, ast.Raise)):
            return True
        if isinstance(last, ast.If):
            return Translator.terminates(last.body) and Translator.terminates(last.orelse)
        return False

    def block(self, stmts, in_loop):
        for i, s in enumerate(stmts):
            if isinstance(s, ast.If):
                tb, te = self.terminates(s.body), self.terminates(s.orelse)
                rest = stmts[i + 1:]
                if (tb or te) and rest:
                    if in_loop:
                        self.unknown(s, "return / raise inside a loop body")
                    # code after an `if` one of whose branches returns belongs to the other branch
                    c = self.test_ex(s.test)
                    self.blocks.append([])
                    self.block(list(s.body) + ([] if tb else rest), in_loop)
                    b1 = self.blocks.pop()
                    self.blocks.append([])
                    self.block(list(s.orelse) + ([] if te else rest), in_loop)
                    b2 = self.blocks.pop()
                    self.emit(("ite", c, b1, b2))
                    return
            self.stmt(s, in_loop)
            if isinstance(s, (ast.Return, ast.Raise)):
                if in_loop:
                    self.unknown(s, "return / raise inside a loop body")
                return

    def stmt(self, s, in_loop):
        m = getattr(self, "st_" + type(s).__name__, None)
        if m is None:
            self.unknown(s, "statement " + type(s).__name__)
            return
        m(s, in_loop)

    def st_Pass(self, s, in_loop):
        pass

    def st_Import(self, s, in_loop):
        pass

    st_ImportFrom = st_Import

    def st_Expr(self, s, in_loop):
        v = s.value
        if isinstance(v, ast.Constant):
            return     # docstring
        if isinstance(v, ast.Call) and isinstance(v.func, ast.Attribute) \
                and v.func.attr in MUTATORS and isinstance(v.func.value, ast.Name) \
                and self.is_var(v.func.value.id):
            recv = v.func.value.id
            aes = self.tr_many(list(v.args) + [k.value for k in v.keywords])
            self.assign_name(v, recv, AE([recv] + self.union(aes), "cont"))
            return
        a = self.tr(v)
        self.emit(("assign", "$_", self.mk(s, a.reads, ("pure",), a.rep)))

    def assign_name(self, node, name, ae):
        rep = ae.rep
        if self.is_cont_name(name):
            rep = "cont"
        reads = ae.reads
        pin = PINNED.get((self.simple, name))
        if pin is not None and name in self.bound:
            dropped = [r for r in reads if r != name]
            reads = [name]
            self.notes.append("PINNED %s.%s (line %s): dropped reads %s -- %s"
                              % (self.simple, name, getattr(node, "lineno", "?"), dropped, pin))
        self.emit(("assign", name, self.mk(node, reads, ("pure",), rep)))
        self.bound.add(name)

    def unpack(self, node, target, src, src_is_cont):
        """assign the components of the variable `src` to the target pattern"""
        if isinstance(target, ast.Name):
            rep = "dev" if src_is_cont else rep_like([src])
            self.assign_name(node, target.id, AE([src], rep))
        elif isinstance(target, ast.Starred):
            if isinstance(target.value, ast.Name):
                self.assign_name(node, target.value.id, AE([src], "cont"))
            else:
                self.unknown(node, "starred target")
        elif isinstance(target, (ast.Tuple, ast.List)):
            for e in target.elts:
                if isinstance(e, (ast.Tuple, ast.List)):
                    t = self.temp(node, [src], ("pure",), "cont")
                    self.unpack(node, e, t, src_is_cont)
                else:
                    self.unpack(node, e, src, src_is_cont)
        elif isinstance(target, ast.Subscript):
            self.store_subscript(node, target, AE([src], rep_like([src])))
        elif isinstance(target, ast.Attribute):
            self.store_attribute(node, target, AE([src], rep_like([src])))
        else:
            self.unknown(node, "assignment target " + type(target).__name__)

    def store_subscript(self, node, target, val):
        base = target.value
        s = self.tr(target.slice)
        if isinstance(base, ast.Name) and self.is_var(base.id):
            rep = "cont" if self.is_cont_name(base.id) else rep_like([base.id])
            self.emit(("assign", base.id, self.mk(node, [base.id] + s.reads + val.reads,
                                                  ("index", base.id, s.reads), rep)))
            self.bound.add(base.id)
        else:
            self.unknown(node, "store into a subscript of a non-variable")

    def store_attribute(self, node, target, val):
        base = target.value
        if isinstance(base, ast.Name) and self.is_var(base.id):
            self.emit(("assign", base.id, self.mk(node, [base.id] + val.reads, ("pure",),
                                                  rep_like([base.id]))))
        else:
            self.unknown(node, "store into an attribute of a non-variable")

    def value_is_cont(self, vnode, ae):
        """is the value a container whose components are device arrays (pytree leaves)?"""
        if self.is_cont_node(vnode):
            return True
        if isinstance(vnode, ast.Call):
            f = vnode.func
            nm = f.attr if isinstance(f, ast.Attribute) else (f.id if isinstance(f, ast.Name) else None)
            if CALL_RETURNS.get(nm) == "cont":
                return True
            root = f
            while isinstance(root, ast.Attribute):
                root = root.value
            if isinstance(root, ast.Name) and not self.is_var(root.id) \
                    and self.mod.family(root.id) == "jax":
                return True
        return False

    def assign_to(self, node, target, vnode, ae):
        if isinstance(target, ast.Name):
            self.assign_name(node, target.id, ae)
        elif isinstance(target, (ast.Tuple, ast.List)):
            if isinstance(vnode, (ast.Tuple, ast.List)) and len(vnode.elts) == len(target.elts) \
                    and not any(isinstance(e, ast.Starred) for e in list(vnode.elts) + list(target.elts)):
                # pairwise (all right-hand sides are evaluated first)
                tmps = []
                for e in vnode.elts:
                    a = self.tr(e)
                    tmps.append((e, self.temp(node, a.reads, ("pure",), a.rep)))
                for t, (e, tv) in zip(target.elts, tmps):
                    self.assign_to(node, t, ast.Name(id=tv, ctx=ast.Load()), AE([tv], rep_like([tv])))
                return
            src = self.as_var(ae, vnode)
            self.unpack(node, target, src, self.value_is_cont(vnode, ae))
        elif isinstance(target, ast.Subscript):
            self.store_subscript(node, target, ae)
        elif isinstance(target, ast.Attribute):
            self.store_attribute(node, target, ae)
        else:
            self.unknown(node, "assignment target " + type(target).__name__)

    def st_Assign(self, s, in_loop):
        if isinstance(s.value, ast.Lambda) and len(s.targets) == 1 and isinstance(s.targets[0], ast.Name):
            k = self.combinator_of(s.targets[0].id, self.fn)
            ae = self.tr_Lambda(s.value, k if k != "def" else "lambda")
        else:
            ae = self.tr(s.value)
        for t in s.targets:
            self.assign_to(s, t, s.value, ae)

    def st_AnnAssign(self, s, in_loop):
        if s.value is None:
            return
        ae = self.tr(s.value)
        self.assign_to(s, s.target, s.value, ae)

    def st_AugAssign(self, s, in_loop):
        v = self.tr(s.value)
        if isinstance(s.target, ast.Name):
            cur = self.tr(ast.Name(id=s.target.id, ctx=ast.Load()))
            self.assign_name(s, s.target.id, AE(cur.reads + v.reads, combine_rep([cur, v])))
        elif isinstance(s.target, ast.Subscript):
            self.store_subscript(s, s.target, v)
        elif isinstance(s.target, ast.Attribute):
            self.store_attribute(s, s.target, v)
        else:
            self.unknown(s, "augmented assignment target")

    def st_Return(self, s, in_loop):
        if s.value is None:
            self.emit(("ret", self.mk(s, [], ("pure",), "py")))
            return
        a = self.tr(s.value)
        self.emit(("ret", self.mk(s, a.reads, ("pure",), a.rep)))

    def st_Raise(self, s, in_loop):
        aes = self.tr_many([s.exc, s.cause])
        self.emit(("ret", self.mk(s, self.union(aes), ("pure",), "py")))

    def st_Assert(self, s, in_loop):
        aes = self.tr_many([s.test])
        # `assert c` calls bool(c)
        self.emit(("assign", "$_", self.mk(s, self.union(aes), ("concretize",), "py")))
        if s.msg is not None:
            self.tr(s.msg)

    def st_If(self, s, in_loop):
        c = self.test_ex(s.test)
        saved = set(self.bound)
        self.blocks.append([])
        self.block(s.body, in_loop)
        b1 = self.blocks.pop()
        bound1 = self.bound
        self.bound = set(saved)
        self.blocks.append([])
        self.block(s.orelse, in_loop)
        b2 = self.blocks.pop()
        self.bound = bound1 | self.bound
        self.emit(("ite", c, b1, b2))

    def for_loop(self, node, target, it, body_fn):
        """Python-level iteration `for target in it`"""
        def run_body(prefix):
            self.blocks.append([])
            prefix()
            body_fn()
            return self.blocks.pop()

        def is_call(x, name, nargs=None):
            return isinstance(x, ast.Call) and isinstance(x.func, ast.Name) and x.func.id == name \
                and not self.is_var(name) and (nargs is None or len(x.args) in nargs) and not x.keywords

        def is_meth(x, name):
            return isinstance(x, ast.Call) and isinstance(x.func, ast.Attribute) \
                and x.func.attr == name and not x.args and not x.keywords

        # ---- for k, v in d.items(): the keys are static, the values are components
        if is_meth(it, "items") and isinstance(target, (ast.Tuple, ast.List)) and len(target.elts) == 2:
            d = self.tr(it.func.value)
            dv = self.as_var(d, it.func.value)
            cont = self.is_cont_node(it.func.value)
            ktgt, vtgt = target.elts
            kv = ktgt.id if isinstance(ktgt, ast.Name) else self._fresh()
            itex = self.mk(node, [dv], ("staticOf",), "py")

            def prefix():
                self.bound.add(kv)
                if not isinstance(ktgt, ast.Name):
                    self.unpack(node, ktgt, kv, False)
                t = self.temp(node, [dv, kv], ("index", dv, [kv]), "dev" if cont else rep_like([dv]))
                self.assign_to(node, vtgt, ast.Name(id=t, ctx=ast.Load()), AE([t], rep_like([t])))
            self.emit(("for", kv, itex, run_body(prefix)))
            return
        # ---- for k in d.keys()
        if is_meth(it, "keys"):
            d = self.tr(it.func.value)
            itex = self.mk(node, d.reads, ("staticOf",), "py")
            self._for_target(node, target, itex, run_body, False)
            return
        # ---- for i, x in enumerate(xs): the index is static, the element is a component
        if is_call(it, "enumerate", (1, 2)) and isinstance(target, (ast.Tuple, ast.List)) \
                and len(target.elts) == 2 and isinstance(target.elts[0], ast.Name):
            xs = self.tr(it.args[0])
            xv = self.as_var(xs, it.args[0])
            cont = self.is_cont_node(it.args[0])
            extra = self.tr(it.args[1]).reads if len(it.args) == 2 else []
            n_t = self.temp(node, [xv], ("staticOf",), "py")              # len(xs)
            itex = self.mk(node, [n_t] + extra, ("concretize",), "py")    # range(len(xs))
            iv = target.elts[0].id

            def prefix():
                self.bound.add(iv)
                t = self.temp(node, [xv, iv], ("index", xv, [iv]), "dev" if cont else rep_like([xv]))
                self.assign_to(node, target.elts[1], ast.Name(id=t, ctx=ast.Load()), AE([t], rep_like([t])))
            self.emit(("for", iv, itex, run_body(prefix)))
            return
        # ---- for i in range(...)
        if is_call(it, "range", (1, 2, 3)):
            aes = self.tr_many(it.args)
            itex = self.mk(node, self.union(aes), ("concretize",), "py")
            self._for_target(node, target, itex, run_body, False)
            return
        # ---- generic: elements of the iterable
        a = self.tr(it)
        cont = self.is_cont_node(it) or (is_meth(it, "values") and self.is_cont_node(it.func.value))
        erep = "dev" if cont else (a.rep if a.rep != "cont" else "py")
        itex = self.mk(node, a.reads, ("pure",), erep)
        self._for_target(node, target, itex, run_body, cont)

    def _fresh(self):
        self.ntemp += 1
        return "$t%d" % self.ntemp

    def _for_target(self, node, target, itex, run_body, cont):
        if isinstance(target, ast.Name):
            def prefix():
                self.bound.add(target.id)
            self.emit(("for", target.id, itex, run_body(prefix)))
        else:
            ev = self._fresh()

            def prefix():
                self.bound.add(ev)
                self.unpack(node, target, ev, cont)
            self.emit(("for", ev, itex, run_body(prefix)))

    def st_For(self, s, in_loop):
        if s.orelse:
            self.unknown(s, "for ... else")
        self.for_loop(s, s.target, s.iter, lambda: self.block(s.body, True))

    def st_While(self, s, in_loop):
        if s.orelse:
            self.unknown(s, "while ... else")
        # the test may need temporaries: they are recomputed at the end of the body
        c = self.test_ex(s.test)
        self.blocks.append([])
        self.block(s.body, True)
        self.test_ex(s.test)
        body = self.blocks.pop()
        self.emit(("while", c, body))

    def st_FunctionDef(self, s, in_loop):
        k = self.combinator_of(s.name, self.fn)
        if s.decorator_list:
            self.unknown(s, "decorated nested function")
        self.emit_hof(s, "%s:%s" % (k, s.name), s.args, s.body, s)
        # the closure value carries the taint of the variables it captures
        self.emit(("assign", s.name, self.mk(s, self.free_reads(s), ("pure",), "py")))
        self.bound.add(s.name)

    def run(self):
        self.block(self.fn.body, False)
        return self.blocks[0]


# --------------------------------------------------------------------------------------------
# Lean rendering
# --------------------------------------------------------------------------------------------
def lstr(s):
    return '"' + s.replace("\\", "\\\\").replace('"', '\\"') + '"'


def lean_list(items):
    return "[" + ", ".join(items) + "]"


def lean_rep(r):
    if isinstance(r, tuple):
        return "(.like %s)" % lean_list([lstr(v) for v in r[1]])
    return "." + r


def lean_shape(sh):
    k = sh[0]
    if k == "shapeArg":
        return "(.shapeArg %s)" % lean_list([lstr(v) for v in sh[1]])
    if k == "index":
        return "(.index %s %s)" % (lstr(sh[1]), lean_list([lstr(v) for v in sh[2]]))
    return "." + k


def lean_ex(e):
    return "⟨%d, %s, %s, %s⟩" % (e.id, lean_list([lstr(v) for v in e.reads]),
                                 lean_shape(e.shape), lean_rep(e.rep))


def lean_block(stmts, ind):
    pad = "  " * ind
    if not stmts:
        return pad + ".skip"
    if len(stmts) == 1:
        return lean_stmt(stmts[0], ind)
    return pad + "(.seq\n" + lean_stmt(stmts[0], ind + 1) + "\n" + lean_block(stmts[1:], ind) + ")"


def lean_stmt(s, ind):
    pad = "  " * ind
    k = s[0]
    if k == "assign":
        return pad + "(.assign %s %s)" % (lstr(s[1]), lean_ex(s[2]))
    if k == "ret":
        return pad + "(.ret %s)" % lean_ex(s[1])
    if k == "unknown":
        return pad + "(.unknown %s)" % lstr(s[1])
    if k == "ite":
        return pad + "(.ite %s\n%s\n%s)" % (lean_ex(s[1]), lean_block(s[2], ind + 1), lean_block(s[3], ind + 1))
    if k == "for":
        return pad + "(.forS %s %s\n%s)" % (lstr(s[1]), lean_ex(s[2]), lean_block(s[3], ind + 1))
    if k == "while":
        return pad + "(.whileS %s\n%s)" % (lean_ex(s[1]), lean_block(s[2], ind + 1))
    if k == "hof":
        ps = lean_list(["(%s, %s)" % (lstr(p), lean_ex(e)) for p, e in s[2]])
        return pad + "(.hof %s %s\n%s)" % (lstr(s[1]), ps, lean_block(s[3], ind + 1))
    raise ValueError(k)


def lean_ident(s):
    return "".join(c if (c.isalnum() or c == "_") else "_" for c in s)


def main(argv):
    here = os.path.dirname(os.path.abspath(__file__))
    lean_root = os.path.normpath(os.path.join(here, ".."))
    report = False
    i = 1
    while i < len(argv):
        if argv[i] == "--lean-root":
            lean_root = argv[i + 1]
            i += 2
        elif argv[i] == "--report":
            report = True
            i += 1
        else:
            sys.stderr.write("unknown argument %s\n" % argv[i])
            return 2
    repo = os.environ.get("SUMMER2_REPO", "/repo")
    out = os.environ.get("SKELETON_OUT") or os.path.join(lean_root, "Summer", "Generated", "Skeleton.lean")
    pkg = os.path.join(repo, "summer2")

    funcs = []   # (lean name, display name, gamma0, stmts, notes)
    problems = []
    for rel, quals in TARGETS:
        path = os.path.join(pkg, rel)
        if not os.path.exists(path):
            problems.append("missing file " + rel)
            funcs.append((lean_ident(rel.replace("/", "_").replace(".py", "")) + "__missing",
                          rel + " (missing)", [], [("unknown", "missing file " + rel)], [], rel, 0))
            continue
        mod = ModuleInfo(path, "summer2/" + rel)
        modid = lean_ident(os.path.basename(rel).replace(".py", ""))
        for q in quals:
            defs = find_defs(mod.tree, q)
            if not defs:
                problems.append("missing function %s in %s" % (q, rel))
                funcs.append(("%s__%s__missing" % (modid, lean_ident(q.split(".")[-1])),
                              "%s::%s (missing)" % (rel, q), [],
                              [("unknown", "missing function %s in %s" % (q, rel))], [], rel, 0))
                continue
            for j, (fn, chain) in enumerate(defs):
                suffix = "" if len(defs) == 1 else "_%d" % (j + 1)
                lname = "%s__%s%s" % (modid, lean_ident(q.split(".")[-1]), suffix)
                tr = Translator(mod, fn, chain, lname)
                try:
                    stmts = tr.run()
                except Exception as exc:   # never skip silently
                    stmts = [("unknown", "translator error in %s: %r" % (q, exc))]
                    tr.notes.append("ERROR %r" % (exc,))
                if fn.decorator_list and q not in ("_odeint",):
                    stmts = [("unknown", "decorated function %s" % q)] + stmts
                funcs.append((lname, "summer2/%s::%s%s" % (rel, q, suffix), tr.gamma0, stmts,
                              tr.notes, rel, fn.lineno))

    lines = []
    w = lines.append
    w("-- GENERATED by harness/translate/gen_skeleton.py from the summer2 sources (property C19).")
    w("-- Do not edit.  Expression ids are `line * 1000 + k` (k-th abstract expression of that line).")
    w("import Summer.Model.Taint")
    w("namespace Summer.Generated.Skeleton")
    w("open Summer.Taint")
    w("")
    for lname, disp, gamma0, stmts, notes, rel, lineno in funcs:
        w("/-- %s (line %d) -/" % (disp, lineno))
        w("def %s : Stmt :=" % lname)
        w(lean_block(stmts, 1))
        for nt in notes:
            w("-- " + nt.replace("\n", " "))
        w("")
        w("/-- classes of the parameters and free variables of `%s` -/" % lname)
        w("def %s_ctx : Ctx :=" % lname)
        w("  " + lean_list(["(%s, .%s)" % (lstr(n), c) for n, c, _ in gamma0]))
        w("")
    w("/-- every translated run-time function -/")
    w("def allFunctions : List (String × Stmt) :=")
    w("  " + lean_list(["(%s, %s)" % (lstr(l), l) for l, *_ in funcs]))
    w("")
    w("/-- Γ₀: which parameters / free variables of which function carry run-time values -/")
    w("def Γ₀ : List (String × Ctx) :=")
    w("  " + lean_list(["(%s, %s_ctx)" % (lstr(l), l) for l, *_ in funcs]))
    w("")
    w("def ctxOf (f : String) : Ctx :=")
    w("  match Γ₀.find? (fun p => p.1 == f) with")
    w("  | some p => p.2")
    w("  | none => []")
    w("")
    w("/-- source location of each function (documentation / reports) -/")
    w("def sources : List (String × String) :=")
    w("  " + lean_list(["(%s, %s)" % (lstr(l), lstr("%s:%d" % (d, ln))) for l, d, _, _, _, _, ln in funcs]))
    w("")
    w("end Summer.Generated.Skeleton")
    os.makedirs(os.path.dirname(out), exist_ok=True)
    with open(out, "w") as f:
        f.write("\n".join(lines) + "\n")
    if report:
        for lname, disp, gamma0, stmts, notes, rel, lineno in funcs:
            print("%s  [%s]" % (lname, disp))
            for n, c, o in gamma0:
                print("    %-36s %s   (%s)" % (n, c, o))
            for nt in notes:
                print("    ! " + nt)
    for p in problems:
        sys.stderr.write("gen_skeleton: " + p + "\n")
    sys.stderr.write("gen_skeleton: wrote %d functions to %s\n" % (len(funcs), out))
    return 0


if __name__ == "__main__":
    sys.exit(main(sys.argv))
