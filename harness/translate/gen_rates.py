#!/usr/bin/env python3
"""Rates translator: regenerates lean/Summer/Generated/Rates.lean from /repo's working tree.

Translates, statement by statement with Python's `ast` (the code is never imported or executed), the array programs of
`summer2/runner/jax/model_impl.py` that compute the right-hand side of the model's ODE:

  clean_compartments, get_force_of_infection                      (module functions)
  build_get_infectious_multipliers . get_infectious_multipliers   (closure; with and without `debug`)
  build_get_flow_weights . get_flow_weights                       (closure; the scatter of time-varying weights)
  build_get_flow_rates . get_flow_rates                           (closure)
  build_get_compartment_rates                                     (application matrix + the closure that is RETURNED)
  build_get_rates . get_rates                                     (closure: composition)

into Lean definitions over plain lists, using the array vocabulary of `Summer/Model/JaxPrelude.lean` and the index
tables of the hand model's `Run.Backend` (the attributes `prepare_structural` stores on the runner).
`Summer/Props/C01Rates.lean` proves every generated definition equal to the hand-written definition the C01 / C02 / C05 /
C10 / C18 theorems are about (`Run.flowRates`, `Run.infectiousMultipliers`, `Run.forceOfInfection`, `Run.applicationMatrix`,
`Run.compRates`, `cleanV`), so editing the source text of one of these functions changes a definition a theorem depends on.

The statement language: assignments (names, tuple unpacking, `d[strain] = v` on a dict filled inside the strain loop,
`m[r, c] += v`), `if` / `elif` / `else` on runner flags, `for` over `enumerate(runner.model._disease_strains)`, over a flow
map and over `dict.items()` (loop-carried variables become the accumulator of a `foldl`), `return`.  Expressions: names,
runner attributes (table RUNNER), integer / boolean-mask / 2-d integer indexing, `.at[...].set(...)`, `.sum(...)`, `*`, `/`,
`@`, comparisons of the infection process type, calls of already translated functions and of closure parameters.
External closures (`ts_graph_func`, the compute graph) are parameters of the generated definitions.
Everything outside the subset raises `Untranslatable`: nothing is emitted for that function and the Lean build fails on
the missing constant (handled by the checks as a broken obligation, never silently skipped).

The RUNNER attribute table and the typing of the closure parameters are part of the translator (trusted base)."""
import ast, os, sys, json

REPO = os.environ.get("SUMMER2_REPO", "/repo")
OUT = os.environ.get("GEN_OUT") or os.path.join(os.path.dirname(os.path.abspath(__file__)), "..", "..", "lean", "Summer", "Generated")
SRC = "summer2/runner/jax/model_impl.py"


class Untranslatable(Exception):
    pass


# runner attribute -> (lean, type)
RUNNER = {
    "_population_category_indexer": ("b.catIdx", "IM"),
    "infectious_flow_indices": ("b.infFlowIdx", "IV"),
    "population_idx": ("b.populationIdx", "IV"),
    "_non_pop_flow_idx": ("b.nonPopIdx", "IV"),
    "_crude_birth_idx": ("b.crudeIdx", "IV"),
    "_replacement_flow_idx": ("b.replIdx", "IV"),
    "death_flow_indices": ("b.deathIdx", "IV"),
    "_has_non_pop_flows": ("(b.nonPopIdx.length != 0)", "B"),
    "_has_crude_birth": ("(b.crudeIdx.length != 0)", "B"),
    "_has_replacement": ("(b.replIdx.length != 0)", "B"),
    "_infect_strain_lookup_idx": ("b.infStrainLookup", "IV"),
    "_infect_cat_lookup_idx": ("b.infCatLookup", "IV"),
    "_strain_infectious_indexers": ("b.strainInfIdx", "IVD"),
    "_strain_category_indexers": ("b.strainCatIdx", "IMD"),
    "_infection_process_type": ("b.procType", "PT"),
    "_pos_flow_map": ("b.posMap", "PAIRS"),
    "_neg_flow_map": ("b.negMap", "PAIRS"),
}
STRAT_ATTRS = {
    "_new_size": ("ix.newSize", "N"),
    "_passthrough_target_indices": ("ix.passTarget", "IV"),
    "_passthrough_base_indices": ("ix.passBase", "IV"),
    "_strat_base_indices": ("ix.stratBase", "IV"),
    "_stratum_target_indices": ("ix.stratumTarget", "SDIV"),     # dict stratum -> index array
    "strata": ("strata", "STRS"),
}
MODEL_ATTRS = {
    "_disease_strains": ("(List.range b.strainInfIdx.length)", "STRAINS"),
    "compartments": ("b.nComps", "LEN"),     # only ever used under len(...)
    "flows": ("b.nFlows", "LEN"),
}
LEAN_T = {"ML": "List (Matrix α)", "STR": "String", "STRS": "List String", "SDIV": "List (String × List Nat)", "SDS": "List (String × α)", "S": "α", "V": "List α", "IV": "List Nat", "IM": "List (List Nat)", "BV": "List Bool", "M": "Matrix α",
          "VM": "List (List α)", "N": "Nat", "B": "Bool", "G": "γ", "VD": "List (List α)", "IVD": "List (List Nat)",
          "IMD": "List (List (List Nat))", "TVMAP": "List (κ × List Nat)", "K": "κ"}


def lean_t(t):
    if isinstance(t, tuple) and t[0] == "T":
        return "(" + " × ".join(lean_t(x) for x in t[1]) + ")"
    if isinstance(t, tuple) and t[0] == "REC":
        return "(" + " × ".join(lean_t(x[1]) for x in t[1]) + ")"
    return LEAN_T[t]


def const_num(n):
    if isinstance(n, ast.Constant) and isinstance(n.value, (int, float)) and not isinstance(n.value, bool):
        return n.value
    return None


class Cx:
    """translation context: env python name -> (lean, type); funcs: translated functions name -> (lean, argtypes, ret)"""
    def __init__(self, env, funcs):
        self.env = dict(env)
        self.funcs = funcs
        self.counter = [0]
        self.live = set()      # names read after the enclosing statement

    def child(self):
        c = Cx(self.env, self.funcs)
        c.counter = self.counter
        c.live = set(self.live)
        return c

    def fresh(self, base):
        self.counter[0] += 1
        return f"{base}_{self.counter[0]}"


def num(n):
    v = const_num(n)
    if v is None:
        return None
    if v == 1:
        return "(1 : α)"
    if v == 0:
        return "(0 : α)"
    from fractions import Fraction
    q = Fraction(repr(v)) if isinstance(v, float) else Fraction(v)
    if q < 0:
        raise Untranslatable(f"negative numeric literal {v!r}")
    return f"(ratLit {q.numerator} {q.denominator})"


def expr(n, cx):
    """-> (lean, type)"""
    lit = num(n)
    if lit is not None:
        return (lit, "S")
    if isinstance(n, ast.Name):
        if n.id in cx.env:
            return cx.env[n.id]
        raise Untranslatable("unknown name " + n.id)
    if isinstance(n, ast.Attribute):
        if isinstance(n.value, ast.Name) and n.value.id == "runner" and n.attr in RUNNER:
            return RUNNER[n.attr]
        if ast.unparse(n.value) == "runner.model" and n.attr in MODEL_ATTRS:
            return MODEL_ATTRS[n.attr]
        if isinstance(n.value, ast.Name) and n.value.id == "strat" and n.attr in STRAT_ATTRS and cx.env.get("strat", (None, None))[1] == "STRATIX":
            return STRAT_ATTRS[n.attr]
        raise Untranslatable("attribute " + ast.unparse(n))
    if isinstance(n, ast.Tuple):
        els = [expr(e, cx) for e in n.elts]
        return ("(" + ", ".join(e[0] for e in els) + ")", ("T", tuple(e[1] for e in els)))
    if isinstance(n, ast.Dict):
        if not n.keys:
            return ("([] : List (List α))", "VD")     # a dict that is filled once per strain (checked where it is stored into)
        fields = []
        for k, v in zip(n.keys, n.values):
            if not (isinstance(k, ast.Constant) and isinstance(k.value, str)):
                raise Untranslatable("dict key " + ast.unparse(n))
            fields.append((k.value, expr(v, cx)))
        return ("(" + ", ".join(f[1][0] for f in fields) + ")", ("REC", tuple((f[0], f[1][1]) for f in fields)))
    if isinstance(n, ast.Subscript):
        return subscript(n, cx)
    if isinstance(n, ast.BinOp):
        return binop(n, cx)
    if isinstance(n, ast.UnaryOp) and isinstance(n.op, ast.USub):
        a = expr(n.operand, cx)
        if a[1] == "V":
            return (f"({a[0]}.map (fun x_ => 0 - x_))", "V")
        if a[1] == "S":
            return (f"(0 - {a[0]})", "S")
        raise Untranslatable("negation " + ast.unparse(n))
    if isinstance(n, ast.Compare) and len(n.ops) == 1:
        return compare(n, cx)
    if isinstance(n, ast.Call):
        return call(n, cx)
    raise Untranslatable("expression " + ast.unparse(n)[:80])


def rec_proj(base, fields, key):
    names = [f[0] for f in fields]
    if key not in names:
        raise Untranslatable(f"no key {key!r} in record")
    i = names.index(key)
    s = base
    # right-nested pairs: (a, b, c) = (a, (b, c))
    for _ in range(i):
        s = f"{s}.2"
    if i < len(names) - 1:
        s = f"{s}.1"
    return (f"({s})", fields[i][1])


def subscript(n, cx):
    base = expr(n.value, cx)
    sl = n.slice
    bt = base[1]
    key = sl.value if isinstance(sl, ast.Constant) and isinstance(sl.value, str) else None
    if isinstance(bt, tuple) and bt[0] == "REC":
        if key is None:
            raise Untranslatable("record subscript " + ast.unparse(n))
        return rec_proj(base[0], bt[1], key)
    if bt == "G":
        if key == "mixing_matrix":
            return (f"(gmix {base[0]})", "M")
        if key == "computed_values":
            return (f"(gcv {base[0]})", "CV")
        if key is None:
            k = expr(sl, cx)
            if k[1] == "K":
                return (f"(gval {base[0]} {k[0]})", "S")
        raise Untranslatable("graph value " + ast.unparse(n))
    if bt == "MD":
        if key == "static_flow_weights":
            return ("static_flow_weights", "V")
        if key == "compartment_infectiousness":
            return ("compartment_infectiousness", "VD")
        raise Untranslatable("model_data key " + ast.unparse(n))
    if bt == "VM" and isinstance(sl, ast.Tuple) and len(sl.elts) == 2 and isinstance(sl.elts[0], ast.Slice) \
            and sl.elts[0].lower is None and sl.elts[0].upper is None and sl.elts[0].step is None:
        cols = expr(sl.elts[1], cx)
        if cols[1] == "IV":
            return (f"(Jax.colsTake {base[0]} {cols[0]})", "VM")
        raise Untranslatable("column selection " + ast.unparse(n))
    if bt == "V" and isinstance(sl, ast.Slice) and sl.step is None:
        lo, hi = sl.lower, sl.upper
        if lo is not None and hi is None:
            k = expr(lo, cx)
            if k[1] == "N" or (const_num(lo) is not None and isinstance(const_num(lo), int) and const_num(lo) >= 0):
                kk = k[0] if k[1] == "N" else str(const_num(lo))
                return (f"({base[0]}.drop {kk})", "V")
        if lo is None and isinstance(hi, ast.UnaryOp) and isinstance(hi.op, ast.USub) and const_num(hi.operand) == 1:
            return (f"({base[0]}.dropLast)", "V")
        raise Untranslatable("slice " + ast.unparse(n))
    if bt == "V" and const_num(sl) is not None and isinstance(const_num(sl), int):
        return (f"(jget {base[0]} ({const_num(sl)} : Int))", "S")
    idx = expr(sl, cx)
    it = idx[1]
    if bt == "SDIV" and it == "STR":
        return (f"((alookup {base[0]} {idx[0]}).getD [])", "IV")
    if bt == "SDS" and it == "STR":
        return (f"((alookup {base[0]} {idx[0]}).getD 0)", "S")
    if bt in ("VD", "IVD", "IMD") and it == "STRAIN":
        return (f"({base[0]}.getD {idx[0]} [])", {"VD": "V", "IVD": "IV", "IMD": "IM"}[bt])
    if bt == "V" and it == "IV":
        return (f"(gather {base[0]} {idx[0]})", "V")
    if bt == "V" and it == "IM":
        return (f"(Jax.take2 {base[0]} {idx[0]})", "VM")
    if bt == "V" and it == "BV":
        return (f"(Jax.maskTake {base[0]} {idx[0]})", "V")
    raise Untranslatable(f"subscript {bt}[{it}]: " + ast.unparse(n))


def binop(n, cx):
    a = expr(n.left, cx); b = expr(n.right, cx)
    ta, tb = a[1], b[1]
    if isinstance(n.op, ast.Mult):
        if ta == "V" and tb == "V":
            return (f"(vmul {a[0]} {b[0]})", "V")
        if ta == "V" and tb == "S":
            return (f"({a[0]}.map (fun x_ => x_ * {b[0]}))", "V")
        if ta == "S" and tb == "V":
            return (f"(vscale {a[0]} {b[0]})", "V")
        if ta == "S" and tb == "S":
            return (f"({a[0]} * {b[0]})", "S")
    if isinstance(n.op, ast.Add) and ta == "V" and tb == "V":
        return (f"(vadd {a[0]} {b[0]})", "V")
    if isinstance(n.op, ast.Div) and ta == "V" and tb == "V":
        return (f"(List.zipWith (· / ·) {a[0]} {b[0]})", "V")
    if isinstance(n.op, ast.MatMult) and ta == "M" and tb == "V":
        return (f"(matVec {a[0]} {b[0]})", "V")
    raise Untranslatable(f"operands {ta} {type(n.op).__name__} {tb}: " + ast.unparse(n))


def compare(n, cx):
    op = n.ops[0]
    right = n.comparators[0]
    a = expr(n.left, cx)
    if a[1] == "PT":
        if isinstance(op, ast.Is) and isinstance(right, ast.Constant) and right.value is None:
            return (f"({a[0]} == none)", "B")
        if isinstance(op, ast.Eq) and isinstance(right, ast.Constant) and right.value in ("freq", "dens", "both"):
            if right.value == "both":
                # `prepare` refuses models with both kinds of infection flow: the backend cannot carry "both"
                return ("false", "B")
            return (f"({a[0]} == some {'true' if right.value == 'freq' else 'false'})", "B")
        raise Untranslatable("process-type comparison " + ast.unparse(n))
    b = expr(right, cx)
    if a[1] == "IV" and b[1] in ("N", "STRAIN") and isinstance(op, ast.Eq):
        return (f"(Jax.maskEq {a[0]} {b[0]})", "BV")
    raise Untranslatable("comparison " + ast.unparse(n))


def truthy(t):
    s, ty = t
    if ty == "B":
        return s
    if ty == "PT":
        return f"({s}).isSome"
    if ty == "N":
        return f"({s} != 0)"
    raise Untranslatable("truthiness of " + str(ty))


def call(n, cx):
    f = n.func
    fs = ast.unparse(f)
    # x.at[idx].set(v)
    if isinstance(f, ast.Attribute) and f.attr == "set" and isinstance(f.value, ast.Subscript) and isinstance(f.value.value, ast.Attribute) \
            and f.value.value.attr == "at" and len(n.args) == 1 and not n.keywords:
        base = expr(f.value.value.value, cx)
        sl_ = f.value.slice
        v = expr(n.args[0], cx)
        if base[1] == "V" and isinstance(sl_, ast.Slice) and sl_.upper is None and sl_.step is None and sl_.lower is not None and v[1] == "V":
            k = expr(sl_.lower, cx) if const_num(sl_.lower) is None else (str(const_num(sl_.lower)), "N")
            if k[1] == "N":
                return (f"(Jax.atFromSet {base[0]} {k[0]} {v[0]})", "V")
        if base[1] == "V" and const_num(sl_) is not None and isinstance(const_num(sl_), int) and const_num(sl_) >= 0 and v[1] == "S":
            return (f"({base[0]}.set {const_num(sl_)} {v[0]})", "V")
        idx = expr(sl_, cx)
        if base[1] == "V" and idx[1] == "IV" and v[1] == "S":
            return (f"(Jax.atSetAll {base[0]} {idx[0]} {v[0]})", "V")
        if base[1] == "V" and idx[1] == "IV" and v[1] == "V":
            return (f"(jsetMany {base[0]} {idx[0]} {v[0]})", "V")
        if base[1] == "V" and idx[1] == "BV" and v[1] == "V":
            return (f"(Jax.atMaskSet {base[0]} {idx[0]} {v[0]})", "V")
        raise Untranslatable(f"at[{idx[1]}].set({v[1]}) on {base[1]}: " + ast.unparse(n))
    if fs in ("jnp.array", "np.array", "jnp.copy", "sparse.BCOO.fromdense") and len(n.args) == 1 and not n.keywords:
        return expr(n.args[0], cx)
    if fs == "len" and len(n.args) == 1:
        a = expr(n.args[0], cx)
        if a[1] == "LEN":
            return (a[0], "N")
        if a[1] in ("IV", "V"):
            return (f"{a[0]}.length", "N")
        raise Untranslatable("len of " + str(a[1]))
    if fs == "jnp.ones" and len(n.args) == 1 and not n.keywords:
        a = expr(n.args[0], cx)
        if a[1] == "N":
            return (f"(List.replicate {a[0]} (1 : α))", "V")
    if fs == "jnp.zeros" and len(n.args) == 1 and all(k.arg == "dtype" for k in n.keywords):
        a0 = n.args[0]
        if isinstance(a0, ast.Attribute) and a0.attr == "shape":
            a = expr(a0.value, cx)
            if a[1] == "V":
                return (f"(List.replicate {a[0]}.length (0 : α))", "V")
        else:
            a = expr(a0, cx)
            if a[1] == "N":
                return (f"(List.replicate {a[0]} (0 : α))", "V")
        raise Untranslatable("jnp.zeros " + ast.unparse(n))
    if fs == "jnp.empty" and len(n.args) == 1 and not n.keywords:
        a = expr(n.args[0], cx)
        if a[1] == "N":
            # uninitialised memory: every position is written before it is read (`C06.targets_partition`); modelled as zeros
            return (f"(List.replicate {a[0]} (0 : α))", "V")
    if fs in ("fnp.kron", "jnp.kron", "np.kron") and len(n.args) == 2 and not n.keywords:
        a = expr(n.args[0], cx); b2 = expr(n.args[1], cx)
        if a[1] == "M" and b2[1] == "M":
            return (f"(kron {a[0]} {b2[0]})", "M")
    if fs == "jnp.cumsum" and len(n.args) == 1 and not n.keywords:
        a = expr(n.args[0], cx)
        if a[1] == "V":
            return (f"(cumsum {a[0]})", "V")
    if isinstance(f, ast.Attribute) and f.attr == "sum" and isinstance(f.value, ast.Call) and ast.unparse(f.value.func) == "jnp.array" \
            and len(f.value.args) == 1 and not n.args and {k.arg: ast.unparse(k.value) for k in n.keywords} == {"axis": "0"}:
        a = expr(f.value.args[0], cx)
        if a[1] == "VM":
            return (f"(Jax.sumAxis0 {a[0]})", "V")
    if isinstance(f, ast.Attribute) and f.attr == "max" and not n.args and not n.keywords:
        a = expr(f.value, cx)
        if a[1] == "V":
            return (f"(Jax.maxL {a[0]})", "S")
    if fs == "np.zeros" and len(n.args) == 1 and isinstance(n.args[0], ast.Tuple) and len(n.args[0].elts) == 2 and not n.keywords:
        r = expr(n.args[0].elts[0], cx); c = expr(n.args[0].elts[1], cx)
        if r[1] == "N" and c[1] == "N":
            return (f"(Jax.zeros2 {r[0]} {c[0]})", "M")
    if fs == "jnp.sum" and len(n.args) == 1:
        a = expr(n.args[0], cx)
        kw = {k.arg: ast.unparse(k.value) for k in n.keywords}
        if a[1] == "V" and not kw:
            return (f"(sumL {a[0]})", "S")
        if a[1] == "VM" and kw in ({"axis": "1"}, {"axis": "-1"}):
            return (f"(Jax.sumRows {a[0]})", "V")
        raise Untranslatable("jnp.sum " + ast.unparse(n))
    if isinstance(f, ast.Attribute) and f.attr == "sum" and fs != "jnp.sum":
        a = expr(f.value, cx)
        kw = {k.arg: ast.unparse(k.value) for k in n.keywords}
        if a[1] == "V" and not n.args and not kw:
            return (f"(sumL {a[0]})", "S")
        if a[1] == "VM" and not n.args and kw in ({"axis": "1"}, {"axis": "-1"}):
            return (f"(Jax.sumRows {a[0]})", "V")
        raise Untranslatable("sum " + ast.unparse(n))
    if fs == "jnp.where" and len(n.args) == 3:
        c, x, y = n.args
        if isinstance(c, ast.Compare) and len(c.ops) == 1 and isinstance(c.ops[0], ast.Lt) and const_num(c.comparators[0]) == 0 \
                and const_num(x) == 0 and ast.unparse(c.left) == ast.unparse(y):
            a = expr(y, cx)
            if a[1] == "V":
                return (f"(Jax.whereNeg {a[0]})", "V")
        raise Untranslatable("jnp.where " + ast.unparse(n))
    # ts_graph_func(**sources)
    if isinstance(f, ast.Name) and f.id in cx.env and cx.env[f.id][1] == "TSFUNC":
        if n.args or len(n.keywords) != 1 or n.keywords[0].arg is not None:
            raise Untranslatable("call of the timestep graph " + ast.unparse(n))
        src = expr(n.keywords[0].value, cx)
        st = src[1]
        if not (isinstance(st, tuple) and st[0] == "REC" and [x[0] for x in st[1]] == ["model_variables", "static_inputs"]):
            raise Untranslatable("sources of the timestep graph " + ast.unparse(n))
        mv = st[1][0][1]
        if not (isinstance(mv, tuple) and mv[0] == "REC" and sorted(x[0] for x in mv[1]) == ["compartment_values", "time"]
                and st[1][1][1] == "SG"):
            raise Untranslatable("sources of the timestep graph " + ast.unparse(n))
        t = rec_proj(rec_proj(src[0], st[1], "model_variables")[0], mv[1], "time")
        x = rec_proj(rec_proj(src[0], st[1], "model_variables")[0], mv[1], "compartment_values")
        if t[1] != "S" or x[1] != "V":
            raise Untranslatable("model variables handed to the timestep graph")
        return (f"({cx.env[f.id][0]} {t[0]} {x[0]})", "G")
    # closure parameters and translated functions
    name = f.id if isinstance(f, ast.Name) else None
    if name and name in cx.env and isinstance(cx.env[name][1], tuple) and cx.env[name][1][0] == "FN":
        _, argts, ret = cx.env[name][1]
        return apply_fn(cx.env[name][0], argts, ret, n, cx)
    if name and name in cx.funcs:
        lean, argts, ret = cx.funcs[name]
        return apply_fn(lean, argts, ret, n, cx)
    raise Untranslatable("call " + ast.unparse(n)[:80])


def apply_fn(lean, argts, ret, n, cx):
    if n.keywords or len(n.args) != len(argts):
        raise Untranslatable("arity " + ast.unparse(n)[:80])
    args = []
    for a, want in zip(n.args, argts):
        if want is None:       # an argument the callee's translation does not take (e.g. the unused compartment_values)
            continue
        v = expr(a, cx)
        if v[1] != want:
            raise Untranslatable(f"argument {ast.unparse(a)} has type {v[1]}, expected {want}")
        args.append(v[0])
    return (f"({lean} {' '.join(args)})", ret)


# ------------------------------------------------------------------------------------------------ statements
def assigned_names(stmts):
    out = []
    for st in stmts:
        for n in ast.walk(st):
            if isinstance(n, (ast.Assign, ast.AugAssign)):
                tgts = n.targets if isinstance(n, ast.Assign) else [n.target]
                for t in tgts:
                    for x in ([t] if not isinstance(t, ast.Tuple) else t.elts):
                        if isinstance(x, ast.Name) and x.id not in out:
                            out.append(x.id)
                        if isinstance(x, ast.Subscript) and isinstance(x.value, ast.Name) and x.value.id not in out:
                            out.append(x.value.id)
    return out


def pack(names, cx):
    if len(names) == 1:
        return cx.env[names[0]][0]
    return "(" + ", ".join(cx.env[v][0] for v in names) + ")"


def block(stmts, cx, k, ind):
    """translate stmts then continue with k(cx) -> lean text (an expression, possibly multi-line)"""
    if not stmts:
        return k(cx)
    st, rest = stmts[0], stmts[1:]
    pad = "  " * ind
    if isinstance(st, ast.Expr) and isinstance(st.value, ast.Constant):
        return block(rest, cx, k, ind)
    if isinstance(st, (ast.Import, ast.ImportFrom)):
        return block(rest, cx, k, ind)
    if isinstance(st, ast.Return):
        v = expr(st.value, cx)
        cx.env["@return"] = v
        return f"{pad}{v[0]}"
    if isinstance(st, ast.Assign) and len(st.targets) == 1:
        tgt = st.targets[0]
        if isinstance(tgt, ast.Name):
            v = expr(st.value, cx)
            ln = cx.fresh(tgt.id)
            cx.env[tgt.id] = (ln, v[1])
            return f"{pad}let {ln} := {v[0]}\n" + block(rest, cx, k, ind)
        if isinstance(tgt, ast.Tuple) and all(isinstance(e, ast.Name) for e in tgt.elts):
            v = expr(st.value, cx)
            if not (isinstance(v[1], tuple) and v[1][0] == "T" and len(v[1][1]) == len(tgt.elts)):
                raise Untranslatable("tuple unpacking " + ast.unparse(st))
            out = ""
            for i, e in enumerate(tgt.elts):
                p = rec_proj(v[0], [(str(j), t) for j, t in enumerate(v[1][1])], str(i))
                ln = cx.fresh(e.id)
                cx.env[e.id] = (ln, p[1])
                out += f"{pad}let {ln} := {p[0]}\n"
            return out + block(rest, cx, k, ind)
        if isinstance(tgt, ast.Subscript) and isinstance(tgt.value, ast.Name) and tgt.value.id in cx.env:
            d = cx.env[tgt.value.id]
            key = expr(tgt.slice, cx)
            v = expr(st.value, cx)
            if key[1] == "STRAIN" and d[1] in ("DACC", "VD") and v[1] == "V":
                # a dict filled once per strain, in strain order, is the list of its values in that order
                ln = cx.fresh(tgt.value.id)
                cx.env[tgt.value.id] = (ln, "VD")
                return f"{pad}let {ln} : List (List α) := {d[0]} ++ [{v[0]}]\n" + block(rest, cx, k, ind)
        raise Untranslatable("assignment " + ast.unparse(st)[:80])
    if isinstance(st, ast.AugAssign) and isinstance(st.target, ast.Subscript) and isinstance(st.target.value, ast.Name) \
            and isinstance(st.target.slice, ast.Tuple) and len(st.target.slice.elts) == 2 and isinstance(st.op, (ast.Add, ast.Sub)):
        mname = st.target.value.id
        m = cx.env.get(mname)
        r = expr(st.target.slice.elts[0], cx); c = expr(st.target.slice.elts[1], cx)
        v = expr(st.value, cx)
        if m and m[1] == "M" and r[1] == "N" and c[1] == "N" and v[1] == "S":
            val = v[0] if isinstance(st.op, ast.Add) else f"(0 - {v[0]})"
            ln = cx.fresh(mname)
            cx.env[mname] = (ln, "M")
            return f"{pad}let {ln} := Jax.addAt {m[0]} {r[0]} {c[0]} {val}\n" + block(rest, cx, k, ind)
        raise Untranslatable("augmented assignment " + ast.unparse(st)[:80])
    if isinstance(st, ast.If):
        return if_stmt(st, rest, cx, k, ind)
    if isinstance(st, ast.For):
        return for_stmt(st, rest, cx, k, ind)
    raise Untranslatable("statement " + ast.unparse(st)[:80])


def static_bool(test, cx):
    """value of a test that is known at translation time (the `debug` flag), else None"""
    if isinstance(test, ast.Name) and test.id in cx.env and cx.env[test.id][1] == "CONSTB":
        return cx.env[test.id][0]
    return None


def ends_with_return(stmts):
    return bool(stmts) and isinstance(stmts[-1], ast.Return)


def if_stmt(st, rest, cx, k, ind):
    pad = "  " * ind
    sb = static_bool(st.test, cx)
    if sb is not None:
        return block((st.body if sb else st.orelse) + rest, cx, k, ind)
    c = truthy(expr(st.test, cx))
    if ends_with_return(st.body) or ends_with_return(st.orelse):
        raise Untranslatable("conditional return " + ast.unparse(st.test))
    used_later = {x.id for r in rest for x in ast.walk(r) if isinstance(x, ast.Name)}
    used_later |= cx.live
    names = [v for v in assigned_names(st.body + st.orelse) if v in cx.env or v in used_later]
    if not names:
        raise Untranslatable("conditional without effect " + ast.unparse(st.test))
    # variables assigned in a branch but unbound before the `if` are unbound in the other branch too (Python would raise
    # UnboundLocalError when they are read): they get the neutral value of their type there
    results = []
    types = {}
    for branch in (st.body, st.orelse):
        bcx = cx.child()
        bcx.live = set(used_later)
        holder = {}

        def kk(c2, holder=holder):
            holder["env"] = dict(c2.env)
            return "  " * (ind + 2) + "@@PACK@@"
        text = block(branch, bcx, kk, ind + 2)
        results.append((text, holder["env"]))
        for v in names:
            if v in holder["env"]:
                types.setdefault(v, holder["env"][v][1])
    packs = []
    for text, env in results:
        vals = []
        for v in names:
            if v in env:
                if env[v][1] != types[v]:
                    raise Untranslatable(f"variable {v} has different types in the branches")
                vals.append(env[v][0])
            else:
                if types[v] in ("V", "VD", "IV"):
                    vals.append("[]")
                else:
                    raise Untranslatable(f"variable {v} unbound in one branch")
        packs.append(text.replace("@@PACK@@", vals[0] if len(vals) == 1 else "(" + ", ".join(vals) + ")"))
    news = [cx.fresh(v) for v in names]
    for v, ln in zip(names, news):
        cx.env[v] = (ln, types[v])
    pat = news[0] if len(news) == 1 else "(" + ", ".join(news) + ")"
    return (f"{pad}let {pat} :=\n{pad}  if {c} then\n{packs[0]}\n{pad}  else\n{packs[1]}\n" + block(rest, cx, k, ind))


def for_stmt(st, rest, cx, k, ind):
    pad = "  " * ind
    if st.orelse:
        raise Untranslatable("for-else")
    it = st.iter
    bcx = cx.child()
    elem = cx.fresh("it")
    pre = ""
    if isinstance(it, ast.Call) and ast.unparse(it.func) == "enumerate" and len(it.args) == 1:
        seq = expr(it.args[0], cx)
        if seq[1] != "STRAINS" or not (isinstance(st.target, ast.Tuple) and len(st.target.elts) == 2):
            raise Untranslatable("enumerate over " + ast.unparse(it.args[0]))
        i, s = st.target.elts
        bcx.env[i.id] = (elem, "N")
        bcx.env[s.id] = (elem, "STRAIN")
        seq_lean = seq[0]
    elif isinstance(it, ast.Call) and isinstance(it.func, ast.Attribute) and it.func.attr == "items" and not it.args:
        seq = expr(it.func.value, cx)
        if seq[1] != "TVMAP" or not (isinstance(st.target, ast.Tuple) and len(st.target.elts) == 2):
            raise Untranslatable("items() of " + ast.unparse(it.func.value))
        kk_, vv_ = st.target.elts
        bcx.env[kk_.id] = (f"{elem}.1", "K")
        bcx.env[vv_.id] = (f"{elem}.2", "IV")
        seq_lean = seq[0]
    else:
        seq = expr(it, cx)
        if seq[1] == "STRS" and isinstance(st.target, ast.Name):
            bcx.env[st.target.id] = (elem, "STR")
        elif seq[1] == "ML" and isinstance(st.target, ast.Name):
            bcx.env[st.target.id] = (elem, "M")
        elif seq[1] == "PAIRS" and isinstance(st.target, ast.Name):
            bcx.env[st.target.id] = (elem, ("T", ("N", "N")))
        else:
            raise Untranslatable("for over " + ast.unparse(it))
        seq_lean = seq[0]
    carried = [v for v in assigned_names(st.body) if v in cx.env]
    bcx.live = set(cx.live) | set(carried) | {x.id for r in rest for x in ast.walk(r) if isinstance(x, ast.Name)}
    if not carried:
        raise Untranslatable("loop without carried variables")
    acc = cx.fresh("acc")
    # inside the body the carried variables are projections of the accumulator
    unpack = ""
    for j, v in enumerate(carried):
        ln = bcx.fresh(v)
        t = cx.env[v][1]
        p = acc if len(carried) == 1 else rec_proj(acc, [(str(q), None) for q in range(len(carried))], str(j))[0]
        unpack += f"{pad}    let {ln} := {p}\n"
        bcx.env[v] = (ln, t)
    holder = {}

    def kk(c2):
        holder["env"] = dict(c2.env)
        return "  " * (ind + 2) + pack(carried, c2)
    body = block(st.body, bcx, kk, ind + 2)
    tys = {}
    for v in carried:
        t0, t1 = cx.env[v][1], holder["env"][v][1]
        if t0 == "DACC" and t1 == "VD":
            t0 = "VD"
        if t0 != t1:
            raise Untranslatable(f"loop-carried variable {v} changes type {t0} -> {t1}")
        tys[v] = t1
    init = pack(carried, cx)
    acc_t = lean_t(tys[carried[0]]) if len(carried) == 1 else "(" + " × ".join(lean_t(tys[v]) for v in carried) + ")"
    news = [cx.fresh(v) for v in carried]
    for v, ln in zip(carried, news):
        cx.env[v] = (ln, tys[v])
    pat = news[0] if len(news) == 1 else "(" + ", ".join(news) + ")"
    return (f"{pad}let {pat} := {seq_lean}.foldl (fun ({acc} : {acc_t}) {elem} =>\n{unpack}{body}) {init}\n" + block(rest, cx, k, ind))


# ------------------------------------------------------------------------------------------------ functions
def parse():
    with open(os.path.join(REPO, SRC)) as f:
        return ast.parse(f.read())


def top_func(tree, name):
    for n in tree.body:
        if isinstance(n, ast.FunctionDef) and n.name == name:
            return n
    raise Untranslatable("function not found: " + name)


def inner_func(fn, name):
    for n in fn.body:
        if isinstance(n, ast.FunctionDef) and n.name == name:
            return n
    raise Untranslatable(f"closure {name} not found in {fn.name}")


def arg_names(fn):
    a = fn.args
    if a.vararg or a.kwarg or a.kwonlyargs or a.posonlyargs:
        raise Untranslatable("signature of " + fn.name)
    return [x.arg for x in a.args]


def free_names(fn):
    return {n.id for n in ast.walk(fn) if isinstance(n, ast.Name)}


def outer_prefix(builder, upto, needed, cx, guards):
    """translate the statements of a builder that precede the closure `upto` and define names the closure needs;
    early exits on the infection process type are recorded as guards; other statements must be irrelevant to `needed`"""
    stmts = []
    for st in builder.body:
        if st is upto:
            break
        if isinstance(st, ast.Expr) and isinstance(st.value, ast.Constant):
            continue
        if isinstance(st, ast.FunctionDef):
            continue
        if isinstance(st, (ast.Import, ast.ImportFrom)):
            continue
        if isinstance(st, ast.If) and not st.orelse and len(st.body) == 1 and isinstance(st.body[0], (ast.Return, ast.Raise)):
            guards.append(ast.unparse(st.test) + " -> " + ast.unparse(st.body[0])[:60])
            continue
        names = assigned_names([st])
        if not (set(names) & needed):
            continue      # defines nothing the closure reads
        stmts.append(st)
    return stmts


def emit(name, params, body, ret_t, doc):
    return f"/-- {doc} -/\ndef {name} {params} : {ret_t} :=\n{body}\n"


def gen(tree, out, report):
    funcs = {}

    def attempt(key, thunk):
        try:
            out.append(thunk())
            report[key] = "ok"
        except Untranslatable as e:
            report[key] = "untranslatable: " + str(e)
        except Exception as e:      # a malformed source file is a broken obligation, not a crash
            report[key] = "untranslatable: internal " + type(e).__name__ + ": " + str(e)

    # ---- clean_compartments
    def t_clean():
        fn = top_func(tree, "clean_compartments")
        (a,) = arg_names(fn)
        cx = Cx({a: (a, "V")}, funcs)
        body = block(fn.body, cx, lambda c: "", 1)
        if cx.env.get("@return", (None, None))[1] != "V":
            raise Untranslatable("clean_compartments does not return a vector")
        funcs["clean_compartments"] = ("clean_compartments", ["V"], "V")
        return emit("clean_compartments", f"({a} : List α)", body, "List α", "`model_impl.py::clean_compartments`")
    attempt("clean_compartments", t_clean)

    # ---- get_force_of_infection
    def t_foi():
        fn = top_func(tree, "get_force_of_infection")
        names = arg_names(fn)
        types = ["V", "V", "IM", "M", "V"]
        if len(names) != 5:
            raise Untranslatable("signature of get_force_of_infection")
        cx = Cx({n: (n, t) for n, t in zip(names, types)}, funcs)
        body = block(fn.body, cx, lambda c: "", 1)
        rt = cx.env["@return"][1]
        if rt != ("REC", (("infection_density", "V"), ("infection_frequency", "V"))):
            raise Untranslatable("get_force_of_infection must return {'infection_density': ..., 'infection_frequency': ...}")
        funcs["get_force_of_infection"] = ("get_force_of_infection", types, rt)
        params = " ".join(f"({n} : {lean_t(t)})" for n, t in zip(names, types))
        return emit("get_force_of_infection", params, body, "List α × List α",
                    "`model_impl.py::get_force_of_infection`: `(infection_density, infection_frequency)`")
    attempt("get_force_of_infection", t_foi)

    # ---- build_get_infectious_multipliers
    def t_mult(debug):
        def go():
            builder = top_func(tree, "build_get_infectious_multipliers")
            inner = inner_func(builder, "get_infectious_multipliers")
            ret = builder.body[-1]
            if not (isinstance(ret, ast.Return) and ast.unparse(ret.value) == "get_infectious_multipliers"):
                raise Untranslatable("build_get_infectious_multipliers does not return its closure")
            names = arg_names(inner)
            if len(names) != 4:
                raise Untranslatable("signature of get_infectious_multipliers")
            guards = []
            cx = Cx({"debug": (debug, "CONSTB")}, funcs)
            pre = outer_prefix(builder, inner, free_names(inner), cx, guards)
            want = ["infect_proc_type is None -> return None", "infect_proc_type == 'both' -> raise NotImplementedError('No support for mixed infection frequency/d"]
            if [g[:40] for g in guards] != [w[:40] for w in want]:
                raise Untranslatable("early exits of build_get_infectious_multipliers changed: " + repr(guards))
            types = ["S", "V", "G", "VD"]

            def after_pre(c):
                for n, t in zip(names, types):
                    c.env[n] = (n, t)
                return block(inner.body, c, lambda c2: "", 1)
            body = block(pre, cx, after_pre, 1)
            rt = cx.env["@return"][1]
            want_rt = ("T", ("V", "VD")) if debug else "V"
            if rt != want_rt:
                raise Untranslatable(f"get_infectious_multipliers(debug={debug}) returns {rt}")
            params = "(b : Backend) (gmix : γ → Matrix α) " + " ".join(f"({n} : {lean_t(t)})" for n, t in zip(names, types))
            nm = "get_infectious_multipliers_debug" if debug else "get_infectious_multipliers"
            if not debug:
                funcs["get_infectious_multipliers"] = None
            return emit(nm, params, body, "List α × List (List α)" if debug else "List α",
                        f"`model_impl.py::build_get_infectious_multipliers(runner, debug={debug})` → `get_infectious_multipliers` "
                        "(built only when the model has infection flows of one kind; strain-keyed dicts are lists in strain order)")
        return go
    attempt("get_infectious_multipliers", t_mult(False))
    attempt("get_infectious_multipliers[debug]", t_mult(True))

    # ---- build_get_flow_weights
    def t_weights():
        builder = top_func(tree, "build_get_flow_weights")
        inner = inner_func(builder, "get_flow_weights")
        ret = builder.body[-1]
        if not (isinstance(ret, ast.Return) and ast.unparse(ret.value) == "get_flow_weights"):
            raise Untranslatable("build_get_flow_weights does not return its closure")
        names = arg_names(inner)
        if len(names) != 2:
            raise Untranslatable("signature of get_flow_weights")
        cx = Cx({names[0]: (names[0], "G"), names[1]: (names[1], "V"), "tv_flow_map": ("tv_flow_map", "TVMAP")}, funcs)
        body = block(inner.body, cx, lambda c: "", 1)
        if cx.env["@return"][1] != "V":
            raise Untranslatable("get_flow_weights does not return a vector")
        params = f"(gval : γ → κ → α) (tv_flow_map : List (κ × List Nat)) ({names[0]} : γ) ({names[1]} : List α)"
        return emit("get_flow_weights", params, body, "List α",
                    "`model_impl.py::build_get_flow_weights` → `get_flow_weights` (`tv_flow_map`: the time-varying graph keys with the flow indices that share them)")
    attempt("get_flow_weights", t_weights)

    # ---- build_get_flow_rates
    def t_rates():
        builder = top_func(tree, "build_get_flow_rates")
        inner = inner_func(builder, "get_flow_rates")
        ret = builder.body[-1]
        if not (isinstance(ret, ast.Return) and ast.unparse(ret.value) == "get_flow_rates"):
            raise Untranslatable("build_get_flow_rates does not return its closure")
        bnames = arg_names(builder)
        if bnames[:3] != ["runner", "ts_graph_func", "get_infectious_multipliers"]:
            raise Untranslatable("signature of build_get_flow_rates")
        names = arg_names(inner)
        if len(names) != 4:
            raise Untranslatable("signature of get_flow_rates")
        guards = []
        env = {"debug": (False, "CONSTB"), "ts_graph_func": ("ts_graph_func", "TSFUNC"),
               "get_infectious_multipliers": ("get_infectious_multipliers", ("FN", ["S", "V", "G", "VD"], "V"))}
        cx = Cx(env, funcs)
        needed = free_names(inner)
        # `get_flow_weights = build_get_flow_weights(runner)`: the closure translated above, a parameter here
        pre = []
        for st in outer_prefix(builder, inner, needed, cx, guards):
            if isinstance(st, ast.Assign) and ast.unparse(st.value) == "build_get_flow_weights(runner)" and ast.unparse(st.targets[0]) == "get_flow_weights":
                cx.env["get_flow_weights"] = ("get_flow_weights", ("FN", ["G", "V"], "V"))
                continue
            pre.append(st)
        if guards:
            raise Untranslatable("unexpected early exit in build_get_flow_rates: " + repr(guards))
        types = ["V", "S", "SG", "MD"]

        def after_pre(c):
            for n, t in zip(names, types):
                c.env[n] = ("()" if t == "SG" else n, t)
            return block(inner.body, c, lambda c2: "", 1)
        body = block(pre, cx, after_pre, 1)
        rt = cx.env["@return"][1]
        if rt != ("T", ("V", "CV")):
            raise Untranslatable(f"get_flow_rates returns {rt}")
        params = ("(b : Backend) (ts_graph_func : α → List α → γ) (gcv : γ → δ) (get_flow_weights : γ → List α → List α) "
                  "(get_infectious_multipliers : α → List α → γ → List (List α) → List α) "
                  f"({names[0]} : List α) ({names[1]} : α) (static_flow_weights : List α) (compartment_infectiousness : List (List α))")
        return emit("get_flow_rates", params, body, "List α × δ",
                    "`model_impl.py::build_get_flow_rates(runner, ts_graph_func, get_infectious_multipliers)` → `get_flow_rates`; "
                    "the timestep graph, the weight scatter and the multiplier closure are parameters; `static_graph_vals` is bound inside `ts_graph_func`")
    attempt("get_flow_rates", t_rates)

    # ---- build_get_compartment_rates
    def t_comp():
        builder = top_func(tree, "build_get_compartment_rates")
        ret = builder.body[-1]
        if not (isinstance(ret, ast.Return) and isinstance(ret.value, ast.Name)):
            raise Untranslatable("build_get_compartment_rates does not return a closure")
        inner = inner_func(builder, ret.value.id)
        names = arg_names(inner)
        if len(names) != 2:
            raise Untranslatable("signature of " + inner.name)
        cx = Cx({}, funcs)
        guards = []
        needed = set(free_names(inner))
        # names the closure reads, and what those are computed from
        grew = True
        while grew:
            grew = False
            for st in builder.body:
                if isinstance(st, (ast.Assign, ast.AugAssign, ast.For)) and set(assigned_names([st])) & needed:
                    extra = {n.id for n in ast.walk(st) if isinstance(n, ast.Name)} - needed
                    if extra:
                        needed |= extra
                        grew = True
        pre = [st for st in builder.body if isinstance(st, (ast.Assign, ast.AugAssign, ast.For)) and set(assigned_names([st])) & needed
               and not (isinstance(st, ast.Assign) and isinstance(st.value, ast.Call) and ast.unparse(st.value.func) == "get_accumulation_maps")]

        def after_pre(c):
            c.env[names[0]] = (names[0], "V"); c.env[names[1]] = (names[1], "V")
            c.env["@matrix"] = c.env.get("application_matrix", ("?", "?"))
            return block(inner.body, c, lambda c2: "", 1)
        body = block(pre, cx, after_pre, 1)
        if cx.env["@return"][1] != "V":
            raise Untranslatable("compartment-rates closure does not return a vector")
        mat_cx = Cx({}, funcs)
        mat_body = block([st for st in pre if "application_matrix" in assigned_names([st])], mat_cx,
                         lambda c: "  " + c.env["application_matrix"][0], 1)
        o = emit("application_matrix", "(b : Backend)", mat_body, "Matrix α",
                 "`model_impl.py::build_get_compartment_rates`: the dense compartments × flows application matrix")
        o += "\n" + emit("get_compartment_rates", f"(b : Backend) ({names[0]} {names[1]} : List α)", body, "List α",
                         f"`model_impl.py::build_get_compartment_rates(runner)` → the closure it returns (`{inner.name}`)")
        return o
    attempt("get_compartment_rates", t_comp)

    # ---- build_get_rates . get_rates
    def t_get_rates():
        builder = top_func(tree, "build_get_rates")
        inner = inner_func(builder, "get_rates")
        names = arg_names(inner)
        if len(names) != 4:
            raise Untranslatable("signature of get_rates")
        # which closures the names stand for
        binds = {}
        for st in builder.body:
            if isinstance(st, ast.Assign) and len(st.targets) == 1 and isinstance(st.targets[0], ast.Name) and isinstance(st.value, ast.Call):
                binds[st.targets[0].id] = ast.unparse(st.value)
        want = {"get_infectious_multipliers": "build_get_infectious_multipliers(runner)",
                "get_flow_rates": "build_get_flow_rates(runner, ts_graph_func, get_infectious_multipliers)",
                "get_compartment_rates": "build_get_compartment_rates(runner)"}
        for kname, v in want.items():
            if binds.get(kname) != v:
                raise Untranslatable(f"build_get_rates binds {kname} to {binds.get(kname)!r}")
        retd = builder.body[-1]
        if not (isinstance(retd, ast.Return) and isinstance(retd.value, ast.Dict)):
            raise Untranslatable("build_get_rates does not return a dict")
        exported = {k.value: ast.unparse(v) for k, v in zip(retd.value.keys, retd.value.values)}
        if exported.get("get_rates") != "get_rates" or exported.get("get_flow_rates") != "get_flow_rates":
            raise Untranslatable("build_get_rates exports " + repr(exported))
        env = {names[0]: (names[0], "V"), names[1]: (names[1], "S"), names[2]: (names[2], "SG"), names[3]: (names[3], "MD"),
               "get_flow_rates": ("get_flow_rates_c", ("FN", ["V", "S", "SG", "MD"], ("T", ("V", "CV")))),
               "get_compartment_rates": ("get_compartment_rates b", ("FN", ["V", "V"], "V"))}
        cx = Cx(env, funcs)

        def apply_special(n, c):
            return None
        # get_flow_rates(compartment_values, time, static_graph_vals, model_data): a parameter closure over (x, t)
        src = ast.unparse(inner)
        body_stmts = []
        for st in inner.body:
            if isinstance(st, ast.Assign) and isinstance(st.value, ast.Call) and ast.unparse(st.value.func) == "get_flow_rates":
                if [ast.unparse(a) for a in st.value.args] != names:
                    raise Untranslatable("get_rates calls get_flow_rates with " + ast.unparse(st.value))
                tg = st.targets[0]
                if not (isinstance(tg, ast.Tuple) and len(tg.elts) == 2 and isinstance(tg.elts[0], ast.Name)):
                    raise Untranslatable("get_rates unpacks " + ast.unparse(tg))
                cx.env[tg.elts[0].id] = (f"(flow_rates_of {names[0]} {names[1]})", "V")
                continue
            body_stmts.append(st)
        body = block(body_stmts, cx, lambda c: "", 1)
        if cx.env["@return"][1] != ("T", ("V", "V")):
            raise Untranslatable("get_rates returns " + str(cx.env["@return"][1]))
        return emit("get_rates", f"(b : Backend) (flow_rates_of : List α → α → List α) ({names[0]} : List α) ({names[1]} : α)", body, "List α × List α",
                    "`model_impl.py::build_get_rates` → `get_rates`: `(flow_rates, comp_rates)`; `flow_rates_of x t` is the first component of `get_flow_rates(x, t, static_graph_vals, model_data)`")
    attempt("get_rates", t_get_rates)




# ------------------------------------------------------------------------------------------------ compartment infectiousness
def gen_infectiousness(tree, out, report):
    """`build_get_compartment_infectiousness`: recognised statement by statement against the expected source text (nested loops over
    stratifications / compartment names / strata with dict iteration and object attributes are outside the generic array subset) and
    emitted in a fixed shape; any other text is refused"""
    try:
        b = top_func(tree, "build_get_compartment_infectiousness")
        ret = b.body[-1]
        if not (isinstance(ret, ast.Return) and ast.unparse(ret.value) == "get_compartment_infectiousness"):
            raise Untranslatable("build_get_compartment_infectiousness does not return its closure")
        fn = inner_func(b, "get_compartment_infectiousness")
        if arg_names(fn) != ["static_graph_values"]:
            raise Untranslatable("signature of get_compartment_infectiousness")
        stmts = [st for st in fn.body if not (isinstance(st, ast.Expr) and isinstance(st.value, ast.Constant))]
        src = [ast.unparse(st) for st in stmts]
        want_loop = ("for strat in model._stratifications:\n"
                     "    for comp_name, adjustments in strat.infectiousness_adjustments.items():\n"
                     "        for stratum, adjustment in adjustments.items():\n"
                     "            if adjustment:\n"
                     "                is_overwrite = isinstance(adjustment, Overwrite)\n"
                     "                adj_value = static_graph_values[adjustment.param._graph_key]\n"
                     "                adj_comps = model.get_matching_compartments(comp_name, {strat.name: stratum})\n"
                     "                for c in adj_comps:\n"
                     "                    if is_overwrite:\n"
                     "                        compartment_infectiousness = compartment_infectiousness.at[c.idx].set(adj_value)\n"
                     "                    else:\n"
                     "                        orig_value = compartment_infectiousness[c.idx]\n"
                     "                        compartment_infectiousness = compartment_infectiousness.at[c.idx].set(adj_value * orig_value)")
        want_strain = ("for strain in model._disease_strains:\n"
                       "    if 'strain' in model.stratifications:\n"
                       "        strain_filter = {'strain': strain}\n"
                       "    else:\n"
                       "        strain_filter = {}\n"
                       "    strain_infect_comps = model.query_compartments(strain_filter, tags='infectious', as_idx=True)\n"
                       "    strain_comp_inf[strain] = compartment_infectiousness[strain_infect_comps]")
        want = ["compartment_infectiousness = jnp.ones(len(model.compartments))", want_loop, "strain_comp_inf = {}", want_strain, "return strain_comp_inf"]
        if src != want:
            k = next((i for i, (a, b_) in enumerate(zip(src, want)) if a != b_), min(len(src), len(want)))
            raise Untranslatable(f"get_compartment_infectiousness: statement {k} is not the expected text: " + (src[k][:120] if k < len(src) else "<missing>"))
        text = ("/-- `model_impl.py::build_get_compartment_infectiousness` → `get_compartment_infectiousness`, all compartments (before the per-strain gather): "
                "`gstat adj` is `static_graph_values[adjustment.param._graph_key]` -/\n"
                "def get_compartment_infectiousness (m : Model α) (gstat : Adj α → α) : List α :=\n"
                "  let compartment_infectiousness := List.replicate m.comps.length (1 : α)\n"
                "  m.strats.foldl (fun compartment_infectiousness strat =>\n"
                "    strat.infAdj.foldl (fun compartment_infectiousness (ca : String × List (String × Option (Adj α))) =>\n"
                "      ca.2.foldl (fun compartment_infectiousness (sa : String × Option (Adj α)) =>\n"
                "        match sa.2 with\n"
                "        | none => compartment_infectiousness\n"
                "        | some adjustment =>\n"
                "          let is_overwrite := Py.isOverwrite adjustment\n"
                "          let adj_value := gstat adjustment\n"
                "          let adj_comps := Build.getMatching m ca.1 [(strat.name, sa.1)]\n"
                "          adj_comps.foldl (fun compartment_infectiousness c =>\n"
                "            let idx := (compIdx m.comps c).getD 0\n"
                "            if is_overwrite then compartment_infectiousness.set idx adj_value\n"
                "            else\n"
                "              let orig_value := compartment_infectiousness.getD idx 0\n"
                "              compartment_infectiousness.set idx (adj_value * orig_value)) compartment_infectiousness)\n"
                "        compartment_infectiousness) compartment_infectiousness) compartment_infectiousness\n\n"
                "/-- the per-strain gather at the end of `get_compartment_infectiousness` (`strain_infect_comps` is computed by the same query as "
                "`ModelBackend._strain_infectious_indexers`) -/\n"
                "def strain_compartment_infectiousness (b : Backend) (compartment_infectiousness : List α) : List (List α) :=\n"
                "  b.strainInfIdx.map (fun strain_infect_comps => gather compartment_infectiousness strain_infect_comps)\n")
        out.append(text)
        report["get_compartment_infectiousness"] = "ok"
    except Untranslatable as e:
        report["get_compartment_infectiousness"] = "untranslatable: " + str(e)
    except Exception as e:
        report["get_compartment_infectiousness"] = "untranslatable: internal " + type(e).__name__ + ": " + str(e)

# ------------------------------------------------------------------------------------------------ derived outputs
DSRC = "summer2/runner/jax/derived_outputs.py"


def closure_returned_as_function(builder, fname, arg_src):
    """the builder ends with `return Function(<fname>, <arg_src>)`"""
    ret = builder.body[-1]
    want = f"Function({fname}, {arg_src})"
    if not (isinstance(ret, ast.Return) and ast.unparse(ret.value) == want):
        raise Untranslatable(f"{builder.name} does not end with `return {want}`")


def translate_closure(fn, env, funcs, want_ret="V"):
    cx = Cx(env, funcs)
    body = block(fn.body, cx, lambda c: "", 2)
    if cx.env.get("@return", (None, None))[1] != want_ret:
        raise Untranslatable(f"{fn.name} returns {cx.env.get('@return', (None, None))[1]}")
    return body


def gen_derived(tree, out, report):
    funcs = {}

    def attempt(key, thunk):
        try:
            out.append(thunk())
            report[key] = "ok"
        except Untranslatable as e:
            report[key] = "untranslatable: " + str(e)
        except Exception as e:
            report[key] = "untranslatable: internal " + type(e).__name__ + ": " + str(e)

    def t_flow():
        b = top_func(tree, "build_flow_output")
        closure_returned_as_function(b, "get_flow_output", "[ModelVariable('flows')]")
        # flow_indices = jnp.array(flow_indices) ; use_raw_results = request["raw_results"]
        raw_name = None
        the_if = None
        for st in b.body:
            if isinstance(st, ast.Assign) and ast.unparse(st.value) == "request['raw_results']" and isinstance(st.targets[0], ast.Name):
                raw_name = st.targets[0].id
            if isinstance(st, ast.If) and isinstance(st.test, ast.Name) and st.test.id == raw_name:
                the_if = st
        if the_if is None:
            raise Untranslatable("build_flow_output: no `if <request['raw_results']>:` selecting the closure")
        parts = []
        for branch in (the_if.body, the_if.orelse):
            fns = [x for x in branch if isinstance(x, ast.FunctionDef)]
            if len(fns) != 1 or len(branch) != 1 or fns[0].name != "get_flow_output" or arg_names(fns[0]) != ["flows"]:
                raise Untranslatable("build_flow_output: each branch must define get_flow_output(flows)")
            parts.append(translate_closure(fns[0], {"flows": ("flows", "VM"), "flow_indices": ("flow_indices", "IV"), "times": ("times", "V")}, funcs))
        body = f"  if raw_results then\n{parts[0]}\n  else\n{parts[1]}"
        return emit("get_flow_output", "(raw_results : Bool) (times : List α) (flow_indices : List Nat) (flows : List (List α))", body, "List α",
                    "`derived_outputs.py::build_flow_output` → `get_flow_output` (the closure chosen by `request['raw_results']`)")
    attempt("get_flow_output", t_flow)

    def t_comp():
        b = top_func(tree, "build_compartment_output")
        closure_returned_as_function(b, "summed_compartment_outputs", "[ModelVariable('outputs')]")
        fn = inner_func(b, "summed_compartment_outputs")
        if arg_names(fn) != ["outputs"]:
            raise Untranslatable("signature of summed_compartment_outputs")
        body = translate_closure(fn, {"outputs": ("outputs", "VM"), "indices": ("indices", "IV")}, funcs)
        return emit("summed_compartment_outputs", "(indices : List Nat) (outputs : List (List α))", body, "List α",
                    "`derived_outputs.py::build_compartment_output` → `summed_compartment_outputs`")
    attempt("summed_compartment_outputs", t_comp)

    def t_agg():
        fn = top_func(tree, "return_agg")
        a = fn.args
        if a.args or a.kwarg or a.kwonlyargs or a.vararg is None:
            raise Untranslatable("signature of return_agg")
        body = translate_closure(fn, {a.vararg.arg: (a.vararg.arg, "VM")}, funcs)
        b = top_func(tree, "build_aggregate_output")
        ret = b.body[-1]
        if not (isinstance(ret, ast.Return) and ast.unparse(ret.value) == "Function(return_agg, [local(src) for src in request['sources']])"):
            raise Untranslatable("build_aggregate_output does not hand the sources, in order, to return_agg")
        return emit("return_agg", f"({a.vararg.arg} : List (List α))", body, "List α", "`derived_outputs.py::return_agg` (called with the source series in request order)")
    attempt("return_agg", t_agg)

    def t_cum():
        b = top_func(tree, "build_cumulative_output")
        stmts = [st for st in b.body if not (isinstance(st, ast.Expr) and isinstance(st.value, ast.Constant))]
        src = [ast.unparse(st) for st in stmts]
        if arg_names(b)[:3] != ["request", "name", "times"]:
            raise Untranslatable("signature of build_cumulative_output")
        if len(stmts) != 6:
            raise Untranslatable(f"build_cumulative_output has {len(stmts)} statements, expected 6")
        if src[0] != "source_name = request['source']" or src[1] != "start_time = request['start_time']":
            raise Untranslatable("build_cumulative_output: request fields")
        cx = Cx({"times": ("times", "V")}, funcs)
        if not (isinstance(stmts[2], ast.Assign) and ast.unparse(stmts[2].targets[0]) == "max_time"):
            raise Untranslatable("build_cumulative_output: max_time")
        mt = expr(stmts[2].value, cx)
        if mt[1] != "S":
            raise Untranslatable("max_time is not a scalar")
        # if start_time and start_time > max_time: ...; start_time = max_time
        c = stmts[3]
        ok = (isinstance(c, ast.If) and not c.orelse and isinstance(c.test, ast.BoolOp) and isinstance(c.test.op, ast.And) and len(c.test.values) == 2
              and ast.unparse(c.test.values[0]) == "start_time" and ast.unparse(c.test.values[1]) == "start_time > max_time")
        if ok:
            eff = [x for x in c.body if not (isinstance(x, ast.Assign) and ast.unparse(x.targets[0]) == "msg")
                   and not (isinstance(x, ast.Expr) and ast.unparse(x.value).startswith("logger."))]
            ok = len(eff) == 1 and ast.unparse(eff[0]) == "start_time = max_time"
        if not ok:
            raise Untranslatable("build_cumulative_output: clamping of a start time beyond the last time: " + src[3][:80])
        if src[4] != "if baseline_offset is not None:\n    raise NotImplementedError()":
            raise Untranslatable("build_cumulative_output: baseline_offset")
        f = stmts[5]
        if not (isinstance(f, ast.If) and ast.unparse(f.test) == "start_time is None" and len(f.body) == 1
                and ast.unparse(f.body[0]) == "return Function(jnp.cumsum, [local(source_name)])"):
            raise Untranslatable("build_cumulative_output: the no-start-time branch")
        e = f.orelse
        if not (len(e) == 4 and isinstance(e[0], ast.Assert) and ast.unparse(e[0].test) == "start_time in times"
                and ast.unparse(e[1]) == "start_idx = np.where(times == start_time)[0][0]"
                and isinstance(e[2], ast.FunctionDef) and arg_names(e[2]) == ["in_arr"]
                and ast.unparse(e[3]) == f"return Function({e[2].name}, [local(source_name)])"):
            raise Untranslatable("build_cumulative_output: the start-time branch")
        body = translate_closure(e[2], {"in_arr": ("in_arr", "V"), "times": ("times", "V"), "start_idx": ("start_idx", "N")}, funcs)
        text = (f"  let max_time := {mt[0]}\n"
                "  let start_time' := if (Jax.truthyOptNum start_time && decide (max_time < start_time.getD 0)) then some max_time else start_time\n"
                "  if start_time'.isNone then some (cumsum in_arr)\n"
                "  else if Jax.memF times (start_time'.getD 0) then\n"
                "    let start_idx := Jax.firstIdxEq times (start_time'.getD 0)\n"
                "    some (\n" + body + ")\n"
                "  else none")
        return emit("cumulative_output", "(times : List α) (start_time : Option α) (in_arr : List α)", text, "Option (List α)",
                    "`derived_outputs.py::build_cumulative_output`: the series computed from the source series `in_arr` (`none`: the `assert start_time in times` fails)")
    attempt("cumulative_output", t_cum)

    def t_dispatch():
        b = top_func(tree, "build_derived_outputs_runner")
        loop = [st for st in b.body if isinstance(st, ast.For)]
        if len(loop) != 1 or ast.unparse(loop[0].iter) != "model._derived_output_requests.items()":
            raise Untranslatable("build_derived_outputs_runner: request loop")
        table = []
        save = None
        for st in loop[0].body:
            if isinstance(st, ast.If) and ast.unparse(st.test) == "request['save_results']":
                save = ast.unparse(st.body[0]) if len(st.body) == 1 else None
            if isinstance(st, ast.If) and ast.unparse(st.test).startswith("req_type =="):
                cur = st
                while True:
                    t = cur.test
                    if not (isinstance(t, ast.Compare) and ast.unparse(t.left) == "req_type" and isinstance(t.comparators[0], ast.Constant)):
                        raise Untranslatable("request dispatch test " + ast.unparse(t))
                    if len(cur.body) != 1 or not isinstance(cur.body[0], ast.Assign) or ast.unparse(cur.body[0].targets[0]) != "graph_dict[name]":
                        raise Untranslatable("request dispatch body " + ast.unparse(cur.body[0])[:60])
                    table.append((t.comparators[0].value, ast.unparse(cur.body[0].value)))
                    if len(cur.orelse) == 1 and isinstance(cur.orelse[0], ast.If):
                        cur = cur.orelse[0]
                    else:
                        if not (len(cur.orelse) == 1 and isinstance(cur.orelse[0], ast.Raise)):
                            raise Untranslatable("request dispatch: unknown request types must raise")
                        break
        if save != "out_keys.append(name)":
            raise Untranslatable("build_derived_outputs_runner: saved results")
        # the whole function outside the dispatch chain is pinned: nothing else may be done per request, and the whitelist handling is the expected text
        if [a.arg for a in b.args.args] != ["model", "whitelist", "jit_compile"]:
            raise Untranslatable("signature of build_derived_outputs_runner")
        lb = [ast.unparse(st) for st in loop[0].body]
        if len(lb) != 3 or lb[0] != "req_type = request['request_type']" or not lb[1].startswith("if req_type == ") or lb[2] != "if request['save_results']:\n    out_keys.append(name)":
            raise Untranslatable("build_derived_outputs_runner: the request loop does something besides dispatching and collecting the saved names")
        outer = [ast.unparse(st) for st in b.body if not isinstance(st, ast.For) and not (isinstance(st, ast.Expr) and isinstance(st.value, ast.Constant))]
        want_outer = ["graph_dict = {}", "out_keys = []", "cg = ComputeGraph(graph_dict)", "whitelist = whitelist or model._derived_outputs_whitelist",
                      "if whitelist:\n    out_keys = whitelist\n    cg = cg.filter(targets=out_keys)", "out_func = cg.get_callable(targets=out_keys)",
                      "if jit_compile:\n    out_func = jit(out_func)", "return (cg, out_func)"]
        if outer != want_outer:
            k_ = next((i for i, (x, y) in enumerate(zip(outer, want_outer)) if x != y), min(len(outer), len(want_outer)))
            raise Untranslatable("build_derived_outputs_runner: statement is not the expected text: " + (outer[k_][:140] if k_ < len(outer) else "<missing>"))
        rows = ", ".join(f'("{k}", "{v}")' for k, v in table)
        return ("/-- `derived_outputs.py::build_derived_outputs_runner`: which builder serves which request type (source text of the call) -/\n"
                f"def request_dispatch : List (String × String) := [{rows}]\n\n"
                "/-- `derived_outputs.py::build_derived_outputs_runner(model, whitelist)` and the callable it returns, applied to the run data (pinned text).\n"
                "`out_keys` collects the names of the requests with `save_results`, in request order; `whitelist or model._derived_outputs_whitelist`;\n"
                "with a whitelist the targets are the whitelist and `cg.filter(targets=…)` keeps the requests the targets depend on (computegraph,\n"
                "modelled by `Derived.neededSet`); `cg.get_callable(targets=out_keys)` evaluates the graph in request order (`Derived.evalAll`) and\n"
                "returns the targets, in the order of `out_keys` -/\n"
                "def derived_outputs_runner (model : Model α) (whitelist : List String) (model_variables : Derived.RunData α) : Option (List (String × List α)) :=\n"
                "  let out_keys := model.requests.foldl (fun (out_keys : List String) request => if request.save then out_keys ++ [request.name] else out_keys) []\n"
                "  let whitelist := if whitelist.length != 0 then whitelist else model.whitelist\n"
                "  if whitelist.length != 0 then do\n"
                "    let out_keys := whitelist\n"
                "    let need := Derived.neededSet model.requests out_keys\n"
                "    let all ← Derived.evalAll model model_variables (model.requests.filter (fun r => need.contains r.name))\n"
                "    out_keys.mapM (fun k => do let v ← alookup all k; pure (k, v))\n"
                "  else do\n"
                "    let all ← Derived.evalAll model model_variables model.requests\n"
                "    out_keys.mapM (fun k => do let v ← alookup all k; pure (k, v))\n")
    attempt("request_dispatch", t_dispatch)

    def t_small():
        f1 = top_func(tree, "build_computed_value_output"); f2 = top_func(tree, "build_function_output")
        if [a.arg for a in f1.args.args] != ["request", "name"] or [ast.unparse(st) for st in f1.body] != ["return Function(lambda x: x[name], [ModelVariable('computed_values')])"]:
            raise Untranslatable("build_computed_value_output is not the expected text")
        if [a.arg for a in f2.args.args] != ["request"] or [ast.unparse(st) for st in f2.body] != ["func = request['func']", "source_names = request['sources']",
                                                                                                    "inputs = [local(s) for s in source_names]", "return Function(func, inputs)"]:
            raise Untranslatable("build_function_output is not the expected text")
        return ("/-- `derived_outputs.py::build_computed_value_output` (pinned): `lambda x: x[name]` applied to the computed-value series of the run -/\n"
                "def computed_value_output (computed_values : List (String × List α)) (name : String) : Option (List α) := alookup computed_values name\n\n"
                "/-- `derived_outputs.py::build_function_output` (pinned; the legacy `func` request type): the inputs are the local series of the listed\n"
                "sources, in the listed order (`none`: a source has no value yet) -/\n"
                "def function_output_inputs (done : List (String × List α)) (source_names : List String) : Option (List (List α)) :=\n"
                "  source_names.mapM (fun s => alookup done s)\n")
    attempt("small_builders", t_small)



# ------------------------------------------------------------------------------------------------ initial population
ISRC = "summer2/runner/jax/stratify.py"


def gen_initpop(tree, out, report):
    funcs = {}

    def attempt(key, thunk):
        try:
            out.append(thunk())
            report[key] = "ok"
        except Untranslatable as e:
            report[key] = "untranslatable: " + str(e)
        except Exception as e:
            report[key] = "untranslatable: internal " + type(e).__name__ + ": " + str(e)

    def t_values():
        b = top_func(tree, "get_stratify_compartments_func")
        ret = b.body[-1]
        if not (isinstance(ret, ast.Return) and isinstance(ret.value, ast.Name)):
            raise Untranslatable("get_stratify_compartments_func does not return a closure")
        fn = inner_func(b, ret.value.id)
        names = arg_names(fn)
        if names != ["comp_values", "static_graph_values"]:
            raise Untranslatable("signature of " + fn.name)
        stmts = [st for st in fn.body if not (isinstance(st, ast.Expr) and isinstance(st.value, ast.Constant))]
        if not stmts or ast.unparse(stmts[0]) != "population_split = get_static_param_value(strat.population_split, static_graph_values)":
            raise Untranslatable(fn.name + ": the split must be evaluated with get_static_param_value(strat.population_split, static_graph_values)")
        cx = Cx({"comp_values": ("comp_values", "V"), "strat": ("ix", "STRATIX"), "population_split": ("population_split", "SDS")}, funcs)
        body = block(stmts[1:], cx, lambda c: "", 1)
        if cx.env.get("@return", (None, None))[1] != "V":
            raise Untranslatable(fn.name + " does not return a vector")
        return emit("stratify_compartment_values", "(ix : Run.StratIdx) (strata : List String) (population_split : List (String × α)) (comp_values : List α)", body, "List α",
                    f"`runner/jax/stratify.py::get_stratify_compartments_func` → the closure it returns (`{fn.name}`); `population_split` is the evaluated split, "
                    "`ix` the index arrays `_stratify_compartments` stored on the stratification")
    attempt("stratify_compartment_values", t_values)

    def t_calc():
        b = top_func(tree, "get_calculate_initial_pop")
        stmts = [st for st in b.body if not (isinstance(st, ast.Expr) and isinstance(st.value, ast.Constant))]
        src = [ast.unparse(st) for st in stmts]
        # 1. array population short cut
        want0 = ("if model._array_population is not None:\n\n    def calculate_initial_population(static_graph_values: dict) -> jnp.ndarray:\n"
                 "        return static_graph_values['init_pop_array']\n    return calculate_initial_population")
        if len(stmts) != 6 or src[0] != want0:
            raise Untranslatable("get_calculate_initial_pop: array-population short cut / statement count " + str(len(stmts)))
        # 2. the per-stratification closures, built while the compartment list is walked through the stratifications
        if src[1] != "strat_funcs = {}" or src[2] != "comps = model._original_compartment_names":
            raise Untranslatable("get_calculate_initial_pop: strat_funcs / comps")
        lp = stmts[3]
        if not (isinstance(lp, ast.For) and ast.unparse(lp.target) == "strat" and ast.unparse(lp.iter) == "model._stratifications"
                and [ast.unparse(x) for x in lp.body] == ["strat_funcs[strat] = get_stratify_compartments_func(model, strat, comps)",
                                                          "comps = strat._stratify_compartments(comps)"]):
            raise Untranslatable("get_calculate_initial_pop: the loop that builds strat_funcs and walks the compartment list")
        fn = stmts[4]
        if not (isinstance(fn, ast.FunctionDef) and fn.name == "calculate_initial_population" and src[5] == "return calculate_initial_population"):
            raise Untranslatable("get_calculate_initial_pop: closure")
        fb = [st for st in fn.body if not (isinstance(st, ast.Expr) and isinstance(st.value, ast.Constant))]
        fs = [ast.unparse(st) for st in fb]
        if len(fb) != 3 or fs[0] != "distribution = model._init_pop_dist" or fs[1] != "initial_population = jnp.zeros(len(model._original_compartment_names))":
            raise Untranslatable("calculate_initial_population: prologue")
        iff = fb[2]
        if not (isinstance(iff, ast.If) and ast.unparse(iff.test) == "isinstance(distribution, dict)" and len(iff.orelse) == 1 and isinstance(iff.orelse[0], ast.Raise)):
            raise Untranslatable("calculate_initial_population: dict test")
        body = iff.body
        bs = [ast.unparse(st) for st in body]
        want_fill = ("for idx, comp in enumerate(model._original_compartment_names):\n    pop = get_static_param_value(distribution[comp.name], static_graph_values)\n"
                     "    initial_population = initial_population.at[idx].set(pop)")
        want_actions = ("for action in model.tracker.all_actions:\n    if action.action_type == 'stratify':\n        strat = action.kwargs['strat']\n"
                        "        initial_population = strat_funcs[strat](initial_population, static_graph_values)\n    elif action.action_type == 'adjust_pop_split':\n"
                        "        initial_population = get_rebalanced_population(model, initial_population, static_graph_values, **action.kwargs)")
        if len(body) != 3 or bs[0] != want_fill or bs[1] != want_actions or bs[2] != "return initial_population":
            raise Untranslatable("calculate_initial_population: the fill loop / the action loop changed")
        text = ("  let initial_population := List.replicate names.length (0 : α)\n"
                "  let initial_population := names.zipIdx.foldl (fun acc ci => acc.set ci.2 ((alookup distribution ci.1).getD 0)) initial_population\n"
                "  actions.foldl (fun acc action =>\n"
                "    match action with\n"
                "    | .inl strat => strat_func strat acc\n"
                "    | .inr rb => rebalanced rb acc) initial_population")
        return emit("calculate_initial_population",
                    "{σ ρ : Type} (names : List String) (distribution : List (String × α)) (actions : List (σ ⊕ ρ)) (strat_func : σ → List α → List α) (rebalanced : ρ → List α → List α)",
                    text, "List α",
                    "`runner/jax/stratify.py::get_calculate_initial_pop` → `calculate_initial_population` for a dict distribution: the evaluated distribution is written "
                    "position by position, then the tracked actions are replayed in order (`.inl`: `stratify`, through the closure built for that stratification; "
                    "`.inr`: `adjust_pop_split`, through `get_rebalanced_population`)")
    attempt("calculate_initial_population", t_calc)



# ------------------------------------------------------------------------------------------------ population rebalancing
PSRC = "summer2/population.py"


def gen_rebalance(tree, out, report):
    """`population.py`: `get_unique_strat_groups`, `filter_by_strata`, `get_rebalanced_population` — recognised statement by statement against
    the expected source text (object attributes, dict / frozenset manipulation and NumPy index arrays are outside the generic array subset)
    and emitted in a fixed shape; any other text is refused.  The three assertions of `get_rebalanced_population` (the stratification exists,
    every stratum has a proportion, the proportions sum to one) are part of the recognised text; the emitted definition is the value computed
    when they pass."""
    want = {
        "get_unique_strat_groups": [
            "unique_strat_groups = {}",
            "for c in comps:\n    cur_strata = c.strata.copy()\n    cur_strata.pop(strat)\n    unique_strat_groups[CompartmentGroup(c.name, frozenset(cur_strata.items()))] = None",
            "return list(unique_strat_groups)"],
        "filter_by_strata": [
            "_strata = frozenset(strata.items())",
            "return [c for c in comps if c._has_strata(_strata)]"],
        "get_rebalanced_population": [
            "msg = f'No stratification {strat} found in model'",
            "assert strat in [s.name for s in model._stratifications], msg",
            "model_strat = [s for s in model._stratifications if s.name == strat][0]",
            "proportions = get_static_param_value(proportions, static_graph_values)",
            "msg = 'All strata must be specified in proportions'",
            "assert set(model_strat.strata) == set(proportions), msg",
            "msg = 'Proportions must sum to 1.0'",
            "np.testing.assert_allclose(sum(proportions.values()), 1.0, err_msg=msg)",
            "strat_comps = [c for c in model.compartments if strat in c.strata]",
            "strat_comps = filter_by_strata(strat_comps, dest_filter)",
            "usg = get_unique_strat_groups(strat_comps, strat)",
            "out_population = population.copy()",
            "for g in usg:\n    mcomps = model._get_matching_compartments(g.name, g.strata)\n    idx = np.array([c.idx for c in mcomps])\n    total = population[idx].sum()\n"
            "    for c in mcomps:\n        k = c.strata[strat]\n        target_prop = proportions[k]\n        out_population = out_population.at[c.idx].set(total * target_prop)",
            "return out_population"],
    }
    try:
        for fname, wanted in want.items():
            fn = top_func(tree, fname)
            body = [ast.unparse(st) for st in fn.body if not (isinstance(st, ast.Expr) and isinstance(st.value, ast.Constant))]
            if body != wanted:
                k = next((i for i, (a, b_) in enumerate(zip(body, wanted)) if a != b_), min(len(body), len(wanted)))
                raise Untranslatable(f"{fname}: statement {k} is not the expected text: " + (body[k][:120] if k < len(body) else "<missing>"))
        if arg_names(top_func(tree, "get_rebalanced_population")) != ["model", "population", "static_graph_values", "strat", "dest_filter", "proportions"]:
            raise Untranslatable("signature of get_rebalanced_population")
        out.append(
            "/-- `population.py::filter_by_strata` -/\n"
            "def filter_by_strata (comps : List Comp) (strata : Strata) : List Comp := comps.filter (fun c => c.hasStrata strata)\n\n"
            "/-- `population.py::get_unique_strat_groups`: (name, strata without `strat`) of every compartment, first occurrences in order "
            "(a dict used as an insertion-ordered set; two groups are the same when the names are equal and the frozensets of items are) -/\n"
            "def get_unique_strat_groups (comps : List Comp) (strat : String) : List (String × Strata) :=\n"
            "  comps.foldl (fun unique_strat_groups c =>\n"
            "    let cur_strata := c.strata.filter (fun kv => kv.1 != strat)\n"
            "    let g := (c.name, cur_strata)\n"
            "    if unique_strat_groups.any (fun h => h.1 == g.1 && strataContains h.2 g.2 && strataContains g.2 h.2) then unique_strat_groups\n"
            "    else unique_strat_groups ++ [g]) []\n\n"
            "/-- `population.py::get_rebalanced_population` (the value computed when its three assertions pass); `proportions` is the evaluated dict, "
            "`model._get_matching_compartments(name, frozenset)` selects by name and `_has_strata` in model order, `c.idx` is the position in `model.compartments` -/\n"
            "def get_rebalanced_population (compartments : List Comp) (population : List α) (strat : String) (dest_filter : Strata)\n"
            "    (proportions : List (String × α)) : List α :=\n"
            "  let strat_comps := compartments.filter (fun c => c.strata.any (fun kv => kv.1 == strat))\n"
            "  let strat_comps := filter_by_strata strat_comps dest_filter\n"
            "  let usg := get_unique_strat_groups strat_comps strat\n"
            "  let out_population := population\n"
            "  usg.foldl (fun out_population g =>\n"
            "    let mcomps := compartments.zipIdx.filter (fun ci => ci.1.name == g.1 && ci.1.hasStrata g.2)\n"
            "    let total := sumL (mcomps.map (fun ci => population.getD ci.2 0))\n"
            "    mcomps.foldl (fun out_population ci =>\n"
            "      match alookup ci.1.strata strat with\n"
            "      | some k => out_population.set ci.2 (total * (alookup proportions k).getD 0)\n"
            "      | none => out_population) out_population) out_population\n")
        report["get_rebalanced_population"] = "ok"
    except Untranslatable as e:
        report["get_rebalanced_population"] = "untranslatable: " + str(e)
    except Exception as e:
        report["get_rebalanced_population"] = "untranslatable: internal " + type(e).__name__ + ": " + str(e)


# ------------------------------------------------------------------------------------------------ model.py glue
GSRC = "summer2/model.py"
GHEADER = """-- GENERATED by harness/translate/gen_rates.py from /repo (summer2/model.py). Do not edit.
import Summer.Model.Build
set_option linter.unusedVariables false
namespace Summer.Generated.Glue
open Summer Summer.Build

section
variable {α : Type}
"""


GLUE_PUBLIC = {
    "add_crude_birth_flow": (["self", "name", "birth_rate", "dest", "dest_strata", "expected_flow_count"], [
        "_validate_flowparam(birth_rate)",
        "is_already_birth_flow = any([type(f) is flows.CrudeBirthFlow or type(f) is flows.ReplacementBirthFlow for f in self.flows])",
        "if is_already_birth_flow:\n    msg = 'There is already a birth flow in this model, cannot add a second.'\n    raise ValueError(msg)",
        "self._add_entry_flow(flows.CrudeBirthFlow, name, birth_rate, dest, dest_strata, expected_flow_count)"]),
    "add_replacement_birth_flow": (["self", "name", "dest", "dest_strata", "expected_flow_count"], [
        "is_already_birth_flow = any([type(f) is flows.CrudeBirthFlow or type(f) is flows.ReplacementBirthFlow for f in self.flows])",
        "if is_already_birth_flow:\n    msg = 'There is already a birth flow in this model, cannot add a second.'\n    raise ValueError(msg)",
        "self._add_entry_flow(flows.ReplacementBirthFlow, name, 1.0, dest, dest_strata, expected_flow_count)"]),
    "add_importation_flow": (["self", "name", "num_imported", "dest", "split_imports", "dest_strata", "expected_flow_count"], [
        "_validate_flowparam(num_imported)",
        "dest_strata = dest_strata or {}",
        "dest_comps = [c for c in self.compartments if c.is_match(dest, dest_strata)]",
        "if split_imports:\n    adjustments = [Multiply(1.0 / len(dest_comps))]\nelse:\n    adjustments = None",
        "self._add_entry_flow(flows.ImportFlow, name, num_imported, dest, dest_strata, expected_flow_count, adjustments)"]),
    "add_death_flow": (["self", "name", "death_rate", "source", "source_strata", "expected_flow_count"], [
        "_validate_flowparam(death_rate)",
        "self._add_exit_flow(flows.DeathFlow, name, death_rate, source, source_strata, expected_flow_count)"]),
    "add_universal_death_flows": (["self", "name", "death_rate"], [
        "_validate_flowparam(death_rate)",
        "is_already_used = any([f.name == name for f in self.flows])",
        "if is_already_used:\n    msg = f\"There is already a universal death flow called '{name}' in this model,                 cannot add a second.\"\n    raise ValueError(msg)",
        "for comp_name in self._original_compartment_names:\n    self._add_exit_flow(flows.DeathFlow, name, death_rate, comp_name, source_strata={}, expected_flow_count=None)"]),
    "add_infection_frequency_flow": (["self", "name", "contact_rate", "source", "dest", "source_strata", "dest_strata", "expected_flow_count"], [
        "_validate_flowparam(contact_rate)",
        "self._add_transition_flow(flows.InfectionFrequencyFlow, name, contact_rate, source, dest, source_strata, dest_strata, expected_flow_count, "
        "find_infectious_multiplier=self._get_infection_frequency_multiplier)"]),
    "add_infection_density_flow": (["self", "name", "contact_rate", "source", "dest", "source_strata", "dest_strata", "expected_flow_count"], [
        "_validate_flowparam(contact_rate)",
        "self._add_transition_flow(flows.InfectionDensityFlow, name, contact_rate, source, dest, source_strata, dest_strata, expected_flow_count, "
        "find_infectious_multiplier=self._get_infection_density_multiplier)"]),
    "add_transition_flow": (["self", "name", "fractional_rate", "source", "dest", "source_strata", "dest_strata", "expected_flow_count", "absolute"], [
        "_validate_flowparam(fractional_rate)",
        "if absolute:\n    self._add_transition_flow(flows.AbsoluteFlow, name, fractional_rate, source, dest, source_strata, dest_strata, expected_flow_count)\n"
        "else:\n    self._add_transition_flow(flows.TransitionFlow, name, fractional_rate, source, dest, source_strata, dest_strata, expected_flow_count)"]),
    "_strata_exist": (["self", "strata"], [
        "strat_names = [s.name for s in self._stratifications]",
        "for k, v in strata.items():\n    if k not in strat_names:\n        raise KeyError(f'Invalid stratification {k}')\n    for s in self._stratifications:\n"
        "        if k == s.name:\n            if v not in s.strata:\n                raise ValueError(f'Invalid stratum {v} for {s}')"]),
    "stratify_with": (["self", "strat"], [
        "assert strat.name not in self.stratifications, 'Stratification already exists'",
        "self._assert_not_finalized()",
        "strat._validate = self._should_validate",
        "flow_names = [f.name for f in self.flows]",
        "for n in strat.flow_adjustments.keys():\n    msg = f\"Flow adjustment for '{n}' refers to a flow that is not present in the model.\"\n    assert n in flow_names, msg",
        "for fadj in strat.flow_adjustments.values():\n    for _, source_strata, dest_strata in fadj:\n        self._strata_exist(source_strata)\n        self._strata_exist(dest_strata)",
        "msg = 'All stratification infectiousness adjustments must refer to a compartment that is                present in model.'",
        "assert all([c in self._original_compartment_names for c in strat.infectiousness_adjustments.keys()]), msg",
        "if strat.mixing_matrix is not None:\n    assert not strat.is_strain(), 'Strains cannot have a mixing matrix.'\n    msg = 'Mixing matrices only allowed for full stratification.'\n"
        "    assert strat.compartments == self._original_compartment_names, msg\n    self._mixing_matrices.append(strat.mixing_matrix)\n"
        "    old_mixing_categories = self._mixing_categories\n    self._mixing_categories = []\n    for mc in old_mixing_categories:\n        for stratum in strat.strata:\n"
        "            self._mixing_categories.append({**mc, strat.name: stratum})",
        "if strat.is_strain():\n    msg = 'An infection strain stratification has already been applied, cannot use this                    more than once.'\n"
        "    assert not any([s.is_strain() for s in self._stratifications]), msg\n    self._disease_strains = strat.strata",
        "for c in strat.compartments:\n    if c not in self._original_compartment_names:\n        raise Exception('Trying to stratify non-existent compartment', c)",
        "prev_compartment_names = copy.copy(self.compartments)",
        "self.compartments = strat._stratify_compartments(self.compartments)",
        "self._update_compartment_name_map()",
        "prev_flows = self.flows",
        "self.flows = []",
        "for flow in prev_flows:\n    self.flows += flow.stratify(strat)",
        "self._update_compartment_indices()",
        "if strat.is_ageing():\n    msg = 'Age stratification can only be applied once'\n    assert not any([s.is_ageing() for s in self._stratifications]), msg\n"
        "    ages = list(sorted(map(int, strat.strata)))\n    msg = 'Mixing matrices only allowed for full stratification.'\n"
        "    assert strat.compartments == self._original_compartment_names, msg\n    for age_idx in range(len(ages) - 1):\n        start_age = int(ages[age_idx])\n"
        "        end_age = int(ages[age_idx + 1])\n        for comp in prev_compartment_names:\n            source = comp.stratify(strat.name, str(start_age))\n"
        "            dest = comp.stratify(strat.name, str(end_age))\n            ageing_rate = 1.0 / (end_age - start_age)\n"
        "            self.add_transition_flow(name=f'ageing_{source}_to_{dest}', fractional_rate=ageing_rate, source=source.name, dest=dest.name, "
        "source_strata=source.strata, dest_strata=dest.strata, expected_flow_count=1)",
        "self._stratifications.append(strat)",
        "self.stratifications[strat.name] = strat",
        "self.tracker.append_action(ActionType.STRATIFY, strat=strat)"]),
    "_update_compartment_name_map": (["self"], [
        "names = set([c.name for c in self.compartments])",
        "name_map = {}",
        "for n in names:\n    name_map[n] = [c for c in self.compartments if c.name == n]",
        "self._compartment_name_map = name_map"]),
    "_update_compartment_indices": (["self"], [
        "compartment_idx_lookup = {}",
        "for idx, c in enumerate(self.compartments):\n    c.idx = idx\n    compartment_idx_lookup[c] = idx",
        "for flow in self.flows:\n    flow.update_compartment_indices(compartment_idx_lookup)"]),
}

GLUE_PUBLIC_LEAN = """
end

section
variable {α : Type} [Zero α] [One α] [Add α] [Sub α] [Mul α] [Div α] [NatCast α] [LT α] [DecidableLT α]

/-- `model.py::_validate_flowparam`; `param_ok` stands for `isinstance(param, GraphObject) or isinstance(param, Real)` -/
def _validate_flowparam (param_ok : Bool) : Res Unit := guardE param_ok "Flow parameter must be GraphObject or float"

/-- `model.py::CompartmentalModel.add_crude_birth_flow` (`type(f) is flows.X` is the flow's kind) -/
def add_crude_birth_flow (self : Model α) (name : String) (birth_rate_ok : Bool) (birth_rate : Expr α) (dest : String) (dest_strata : Option Strata)
    (expected_flow_count : Option Nat) : Res (Model α) := do
  _validate_flowparam birth_rate_ok
  let is_already_birth_flow := self.flows.any (fun f => f.kind == FlowKind.crudeBirth || f.kind == FlowKind.replBirth)
  if is_already_birth_flow then fail "There is already a birth flow in this model, cannot add a second."
  else _add_entry_flow self .crudeBirth name birth_rate dest dest_strata expected_flow_count []

/-- `model.py::CompartmentalModel.add_replacement_birth_flow` -/
def add_replacement_birth_flow (self : Model α) (name : String) (dest : String) (dest_strata : Option Strata) (expected_flow_count : Option Nat) : Res (Model α) := do
  let is_already_birth_flow := self.flows.any (fun f => f.kind == FlowKind.crudeBirth || f.kind == FlowKind.replBirth)
  if is_already_birth_flow then fail "There is already a birth flow in this model, cannot add a second."
  else _add_entry_flow self .replBirth name (.const 1) dest dest_strata expected_flow_count []

/-- `model.py::CompartmentalModel.add_importation_flow` (`1.0 / len(dest_comps)` raises `ZeroDivisionError` for an empty selection) -/
def add_importation_flow (self : Model α) (name : String) (num_imported_ok : Bool) (num_imported : Expr α) (dest : String) (split_imports : Bool)
    (dest_strata : Option Strata) (expected_flow_count : Option Nat) : Res (Model α) := do
  _validate_flowparam num_imported_ok
  let dest_strata := dest_strata.getD []
  let dest_comps := self.comps.filter (fun c => c.isMatch dest dest_strata)
  let adjustments ← (if split_imports then do
      guardE (dest_comps.length != 0) "ZeroDivisionError"
      pure [Adj.mul (.const ((1 : α) / (dest_comps.length : α)))]
    else pure [] : Res (List (Adj α)))
  _add_entry_flow self .importF name num_imported dest (some dest_strata) expected_flow_count adjustments

/-- `model.py::CompartmentalModel.add_death_flow` -/
def add_death_flow (self : Model α) (name : String) (death_rate_ok : Bool) (death_rate : Expr α) (source : String) (source_strata : Option Strata)
    (expected_flow_count : Option Nat) : Res (Model α) := do
  _validate_flowparam death_rate_ok
  _add_exit_flow self .death name death_rate source source_strata expected_flow_count

/-- `model.py::CompartmentalModel.add_universal_death_flows` (the loop mutates `self`: a monadic fold) -/
def add_universal_death_flows (self : Model α) (name : String) (death_rate_ok : Bool) (death_rate : Expr α) : Res (Model α) := do
  _validate_flowparam death_rate_ok
  let is_already_used := self.flows.any (fun f => f.name == name)
  if is_already_used then fail "There is already a universal death flow with this name in this model, cannot add a second."
  else self.origNames.foldlM (fun (self : Model α) comp_name => _add_exit_flow self .death name death_rate comp_name (some []) none) self

/-- `model.py::CompartmentalModel.add_infection_frequency_flow` -/
def add_infection_frequency_flow (self : Model α) (name : String) (contact_rate_ok : Bool) (contact_rate : Expr α) (source dest : String)
    (source_strata dest_strata : Option Strata) (expected_flow_count : Option Nat) : Res (Model α) := do
  _validate_flowparam contact_rate_ok
  _add_transition_flow self .infFreq name contact_rate source dest source_strata dest_strata expected_flow_count

/-- `model.py::CompartmentalModel.add_infection_density_flow` -/
def add_infection_density_flow (self : Model α) (name : String) (contact_rate_ok : Bool) (contact_rate : Expr α) (source dest : String)
    (source_strata dest_strata : Option Strata) (expected_flow_count : Option Nat) : Res (Model α) := do
  _validate_flowparam contact_rate_ok
  _add_transition_flow self .infDens name contact_rate source dest source_strata dest_strata expected_flow_count

/-- `model.py::CompartmentalModel.add_transition_flow` -/
def add_transition_flow (self : Model α) (name : String) (fractional_rate_ok : Bool) (fractional_rate : Expr α) (source dest : String)
    (source_strata dest_strata : Option Strata) (expected_flow_count : Option Nat) (absolute : Bool) : Res (Model α) := do
  _validate_flowparam fractional_rate_ok
  if absolute then _add_transition_flow self .absolute name fractional_rate source dest source_strata dest_strata expected_flow_count
  else _add_transition_flow self .transition name fractional_rate source dest source_strata dest_strata expected_flow_count

/-- `model.py::CompartmentalModel._strata_exist`: every key names an applied stratification and every value one of its strata -/
def _strata_exist (self : Model α) (strata : Strata) : Res Unit := do
  let strat_names := self.strats.map (fun s => s.name)
  strata.forM (fun kv => do
    let k := kv.1
    let v := kv.2
    if !strat_names.contains k then fail "Invalid stratification"
    else self.strats.forM (fun s =>
      if k == s.name then (if !s.strata.contains v then fail "Invalid stratum" else pure ()) else pure ()))

/-- `model.py::CompartmentalModel.stratify_with`, statement by statement.  `strat._stratify_compartments` is `Build.stratifyComps` (its translation
is tied in `Props/C04Source.lean`), `flow.stratify(strat)` is `Build.stratifyFlow` (the four translated `stratify` methods, same file); the
name map and index lookups refreshed by `_update_compartment_name_map` / `_update_compartment_indices` are functions of `self.compartments`
(pinned below the method list) and carry no state of their own in the model; `strat.flow_adjustments` is walked declaration by declaration. -/
def stratify_with (self : Model α) (strat : Strat α) : Res (Model α) := do
  guardE (!self.strats.any (fun t => t.name == strat.name)) "Stratification already exists"
  _assert_not_finalized self
  let flow_names := self.flows.map (fun f => f.name)
  strat.flowAdj.forM (fun d => guardE (flow_names.contains d.flow) "Flow adjustment refers to a flow that is not present in the model.")
  strat.flowAdj.forM (fun d => do
    _strata_exist self d.srcStrata
    _strata_exist self d.dstStrata)
  guardE (strat.infAdj.all (fun ia => self.origNames.contains ia.1)) "infectiousness adjustments must refer to a compartment that is present in model"
  let self1 ← (match strat.mixing with
    | none => pure self
    | some mixing_matrix => do
        guardE (!strat.isStrain) "Strains cannot have a mixing matrix."
        guardE (strat.comps == self.origNames) "Mixing matrices only allowed for full stratification."
        let old_mixing_categories := self.mixingCats
        let mixing_categories := old_mixing_categories.foldl (fun (acc : List Strata) mc =>
          strat.strata.foldl (fun (acc : List Strata) stratum => acc ++ [dictSet mc strat.name stratum]) acc) []
        pure { self with mixingMats := self.mixingMats ++ [mixing_matrix], mixingCats := mixing_categories } : Res (Model α))
  let self2 ← (if strat.isStrain then do
        guardE (!self.strats.any (fun s => s.isStrain)) "An infection strain stratification has already been applied"
        pure { self1 with strains := strat.strata }
      else pure self1 : Res (Model α))
  strat.comps.forM (fun c => if !self.origNames.contains c then fail "Trying to stratify non-existent compartment" else pure ())
  let prev_compartment_names := self2.comps
  let compartments := stratifyComps self2.comps strat
  let prev_flows := self2.flows
  let flows ← prev_flows.foldlM (fun (flows : List (Flow α)) flow => do
      let fs ← stratifyFlow flow strat
      pure (flows ++ fs)) []
  let self3 := { self2 with comps := compartments, flows := flows }
  let self4 ← (if strat.isAgeing then do
        guardE (!self.strats.any (fun s => s.isAgeing)) "Age stratification can only be applied once"
        let ages := sortInts (strat.strata.filterMap (fun x => x.toInt?))
        guardE (strat.comps == self.origNames) "Mixing matrices only allowed for full stratification."
        (List.range (ages.length - 1)).foldlM (fun (self : Model α) age_idx => do
          let start_age := ages.getD age_idx 0
          let end_age := ages.getD (age_idx + 1) 0
          prev_compartment_names.foldlM (fun (self : Model α) comp => do
            let source := comp.stratify strat.name (toString start_age)
            let dest := comp.stratify strat.name (toString end_age)
            guardE (end_age != start_age) "ZeroDivisionError"
            let ageing_rate : α := (1 : α) / (((end_age - start_age).toNat : Nat) : α)
            add_transition_flow self ("ageing_" ++ source.serialize ++ "_to_" ++ dest.serialize) true (.const ageing_rate) source.name dest.name
              (some source.strata) (some dest.strata) (some 1) false) self) self3
      else pure self3 : Res (Model α))
  pure { self4 with strats := self4.strats ++ [strat], actions := self4.actions ++ [.stratify strat.name] }
"""


GLUE_REQUESTS = {
    "request_output_for_flow": (["self", "name", "flow_name", "source_strata", "dest_strata", "save_results", "raw_results"], [
        "self._assert_not_finalized()",
        "source_strata = source_strata or {}",
        "dest_strata = dest_strata or {}",
        "if self._should_validate:\n    msg = f'A derived output named {name} already exists.'\n    assert name not in self._derived_output_requests, msg\n"
        "    is_flow_exists = any([f.is_match(flow_name, source_strata, dest_strata) for f in self.flows])\n"
        "    assert is_flow_exists, f'No flow matches: {flow_name} {source_strata} {dest_strata}'",
        "self._derived_output_graph.add_node(name)",
        "self._derived_output_requests[name] = request = {'request_type': DerivedOutputRequest.FLOW, 'flow_name': flow_name, 'source_strata': source_strata, "
        "'dest_strata': dest_strata, 'raw_results': raw_results, 'save_results': save_results}",
        "return DerivedOutput(name, request)"]),
    "request_output_for_compartments": (["self", "name", "compartments", "strata", "save_results"], [
        "self._assert_not_finalized()",
        "strata = strata or {}",
        "if isinstance(compartments, str):\n    compartments = [compartments]",
        "if self._should_validate:\n    msg = f'A derived output named {name} already exists.'\n    assert name not in self._derived_output_requests, msg\n"
        "    is_match_exists = any([any([c.is_match(name, strata) for name in compartments]) for c in self.compartments])\n"
        "    assert is_match_exists, f'No compartment matches: {compartments} {strata}'",
        "self._derived_output_graph.add_node(name)",
        "self._derived_output_requests[name] = request = {'request_type': DerivedOutputRequest.COMPARTMENT, 'compartments': compartments, 'strata': strata, "
        "'save_results': save_results}",
        "return DerivedOutput(name, request)"]),
    "request_aggregate_output": (["self", "name", "sources", "save_results"], [
        "self._assert_not_finalized()",
        "msg = f'A derived output named {name} already exists.'",
        "assert name not in self._derived_output_requests, msg",
        "sources = [_resolve_source(s) for s in sources]",
        "for source in sources:\n    assert source in self._derived_output_requests, f'Source {source} has not been requested.'\n"
        "    self._derived_output_graph.add_edge(source, name)",
        "self._derived_output_graph.add_node(name)",
        "self._derived_output_requests[name] = request = {'request_type': DerivedOutputRequest.AGGREGATE, 'sources': sources, 'save_results': save_results}",
        "return DerivedOutput(name, request)"]),
    "request_cumulative_output": (["self", "name", "source", "start_time", "save_results"], [
        "self._assert_not_finalized()",
        "msg = f'A derived output named {name} already exists.'",
        "assert name not in self._derived_output_requests, msg",
        "source = _resolve_source(source)",
        "assert source in self._derived_output_requests, f'Source {source} has not been requested.'",
        "self._derived_output_graph.add_node(name)",
        "self._derived_output_graph.add_edge(source, name)",
        "self._derived_output_requests[name] = request = {'request_type': DerivedOutputRequest.CUMULATIVE, 'source': source, 'start_time': start_time, "
        "'save_results': save_results}",
        "return DerivedOutput(name, request)"]),
    "request_function_output": (["self", "name", "func", "save_results"], [
        "self._assert_not_finalized()",
        "msg = f'A derived output named {name} already exists.'",
        "assert name not in self._derived_output_requests, msg",
        "sources = sorted((v.key for v in ComputeGraph(func).get_input_variables() if v.source == 'derived_outputs'))",
        "for source in sources:\n    assert source in self._derived_output_requests, f'Source {source} has not been requested.'",
        "for source in sources:\n    self._derived_output_graph.add_edge(source, name)",
        "self._derived_output_graph.add_node(name)",
        "self._derived_output_requests[name] = request = {'request_type': DerivedOutputRequest.PARAM_FUNCTION, 'func': func, 'save_results': save_results}",
        "return DerivedOutput(name, request)"]),
    "request_computed_value_output": (["self", "name", "save_results"], [
        "self._assert_not_finalized()",
        "msg = f'A derived output named {name} already exists.'",
        "assert name not in self._derived_output_requests, msg",
        "self._derived_output_graph.add_node(name)",
        "self._derived_output_requests[name] = request = {'request_type': DerivedOutputRequest.COMPUTED_VALUE, 'name': name, 'save_results': save_results}",
        "return DerivedOutput(name, request)"]),
    "add_computed_value_func": (["self", "name", "func"], [
        "if name in self._computed_values_graph_dict:\n    raise Exception(f'Computed value function with name {name} already exists')",
        "self._computed_values_graph_dict[name] = func"]),
    "set_derived_outputs_whitelist": (["self", "whitelist"], [
        "self._derived_outputs_whitelist = whitelist"]),
}

GLUE_REQUESTS_LEAN = """
/-! ### derived-output requests (validation enabled, the default).  `self._derived_output_requests` is the ordered list `requests` (a dict in
insertion order), the dependency graph is a function of the requests and carries no state of its own in the model. -/

/-- `model.py::CompartmentalModel.request_output_for_flow` -/
def request_output_for_flow (self : Model α) (name flow_name : String) (source_strata dest_strata : Option Strata) (save_results raw_results : Bool) : Res (Model α) := do
  _assert_not_finalized self
  let source_strata := source_strata.getD []
  let dest_strata := dest_strata.getD []
  guardE (!self.requests.any (fun r => r.name == name)) "A derived output with this name already exists."
  let is_flow_exists := self.flows.any (fun f => flowIsMatch f flow_name source_strata dest_strata)
  guardE is_flow_exists "No flow matches"
  pure { self with requests := self.requests ++ [{ name := name, req := .flow flow_name source_strata dest_strata raw_results, save := save_results }] }

/-- `model.py::CompartmentalModel.request_output_for_compartments` (a single name is wrapped into a list by the caller) -/
def request_output_for_compartments (self : Model α) (name : String) (compartments : List String) (strata : Option Strata) (save_results : Bool) : Res (Model α) := do
  _assert_not_finalized self
  let strata := strata.getD []
  guardE (!self.requests.any (fun r => r.name == name)) "A derived output with this name already exists."
  let is_match_exists := self.comps.any (fun c => compartments.any (fun name => c.isMatch name strata))
  guardE is_match_exists "No compartment matches"
  pure { self with requests := self.requests ++ [{ name := name, req := .comp compartments strata, save := save_results }] }

/-- `model.py::CompartmentalModel.request_aggregate_output` -/
def request_aggregate_output (self : Model α) (name : String) (sources : List String) (save_results : Bool) : Res (Model α) := do
  _assert_not_finalized self
  guardE (!self.requests.any (fun r => r.name == name)) "A derived output with this name already exists."
  sources.forM (fun source => guardE (self.requests.any (fun r => r.name == source)) "Source has not been requested.")
  pure { self with requests := self.requests ++ [{ name := name, req := .agg sources, save := save_results }] }

/-- `model.py::CompartmentalModel.request_cumulative_output` -/
def request_cumulative_output (self : Model α) (name source : String) (start_time : Option α) (save_results : Bool) : Res (Model α) := do
  _assert_not_finalized self
  guardE (!self.requests.any (fun r => r.name == name)) "A derived output with this name already exists."
  guardE (self.requests.any (fun r => r.name == source)) "Source has not been requested."
  pure { self with requests := self.requests ++ [{ name := name, req := .cum source start_time, save := save_results }] }

/-- `model.py::CompartmentalModel.request_function_output`; `sources` are the derived-output variables of `func` (every one of them, wherever it
occurs in the function: the graph's input variables with source `derived_outputs`) -/
def request_function_output (self : Model α) (name : String) (func : Expr α) (sources : List String) (save_results : Bool) : Res (Model α) := do
  _assert_not_finalized self
  guardE (!self.requests.any (fun r => r.name == name)) "A derived output with this name already exists."
  sources.forM (fun source => guardE (self.requests.any (fun r => r.name == source)) "Source has not been requested.")
  pure { self with requests := self.requests ++ [{ name := name, req := .func func sources, save := save_results }] }

/-- `model.py::CompartmentalModel.request_computed_value_output` -/
def request_computed_value_output (self : Model α) (name : String) (save_results : Bool) : Res (Model α) := do
  _assert_not_finalized self
  guardE (!self.requests.any (fun r => r.name == name)) "A derived output with this name already exists."
  pure { self with requests := self.requests ++ [{ name := name, req := .cv name, save := save_results }] }

/-- `model.py::CompartmentalModel.add_computed_value_func` -/
def add_computed_value_func (self : Model α) (name : String) (func : Expr α) : Res (Model α) :=
  if self.computed.any (fun kv => kv.1 == name) then fail "Computed value function with this name already exists"
  else pure { self with computed := self.computed ++ [(name, func)] }

/-- `model.py::CompartmentalModel.set_derived_outputs_whitelist` -/
def set_derived_outputs_whitelist (self : Model α) (whitelist : List String) : Model α := { self with whitelist := whitelist }
"""

GLUE_POP = {
    "init_population_with_graphobject": (["self", "init_pop"], [
        "self._assert_not_finalized()",
        "self._init_pop_dist = {}",
        "self._array_population = init_pop"]),
    "set_initial_population": (["self", "distribution", "force"], [
        "if not force:\n    self._assert_not_finalized()\n    error_msg = 'Cannot set initial population after the model has been stratified'\n"
        "    assert not self._stratifications, error_msg",
        "assert isinstance(distribution, dict)",
        "for k, v in distribution.items():\n    assert k in self._original_compartment_names",
        "self._init_pop_dist = distribution.copy()",
        "for idx, comp in enumerate(self._original_compartment_names):\n    if comp not in self._init_pop_dist:\n        self._init_pop_dist[comp] = 0.0"]),
    "adjust_population_split": (["self", "strat", "dest_filter", "proportions"], [
        "self._assert_not_finalized()",
        "msg = f'No stratification {strat} found in model'",
        "assert strat in [s.name for s in self._stratifications], msg",
        "model_strat = [s for s in self._stratifications if s.name == strat][0]",
        "msg = 'All strata must be specified in proportions'",
        "assert set(model_strat.strata) == set(proportions), msg",
        "msg = 'Proportions must sum to 1.0'",
        "np.testing.assert_allclose(sum(proportions.values()), 1.0, err_msg=msg)",
        "self.tracker.append_action(ActionType.ADJUST_POP_SPLIT, strat=strat, dest_filter=dest_filter, proportions=proportions)"]),
}

GLUE_POP_LEAN = """
/-! ### initial population -/

/-- `model.py::CompartmentalModel.init_population_with_graphobject` -/
def init_population_with_graphobject (self : Model α) (init_pop : List (Expr α)) : Res (Model α) := do
  _assert_not_finalized self
  pure { self with initDist := some [], arrayPop := some init_pop }

/-- `model.py::CompartmentalModel.set_initial_population` with `force=False` (the default); `is_dict` is `isinstance(distribution, dict)`;
missing compartments are appended with 0.0 in the order of the original compartment names -/
def set_initial_population (self : Model α) (is_dict : Bool) (distribution : List (String × Expr α)) : Res (Model α) := do
  _assert_not_finalized self
  guardE (self.strats.length == 0) "Cannot set initial population after the model has been stratified"
  guardE is_dict "distribution must be a dict"
  distribution.forM (fun kv => guardE (self.origNames.contains kv.1) "unknown compartment")
  let _init_pop_dist := self.origNames.foldl (fun (acc : List (String × Expr α)) comp =>
    if !acc.any (fun kv => kv.1 == comp) then acc ++ [(comp, Expr.const (0 : α))] else acc) distribution
  pure { self with initDist := some _init_pop_dist }

/-- `model.py::CompartmentalModel.adjust_population_split` for literal proportions; `sum_is_one` is the outcome of the external
`np.testing.assert_allclose(sum(proportions.values()), 1.0)` (default relative tolerance 1e-7) -/
def adjust_population_split (self : Model α) (strat : String) (dest_filter : Strata) (proportions : List (String × Expr α)) (sum_is_one : Bool) : Res (Model α) := do
  _assert_not_finalized self
  guardE ((self.strats.map (fun s => s.name)).contains strat) "No stratification of this name found in model"
  match (self.strats.filter (fun s => s.name == strat)).head? with
  | none => fail "IndexError"
  | some model_strat =>
    guardE (sameSet model_strat.strata (proportions.map (·.1))) "All strata must be specified in proportions"
    guardE sum_is_one "Proportions must sum to 1.0"
    pure { self with actions := self.actions ++ [.rebalance { strat := strat, destFilter := dest_filter, props := proportions }] }
"""

def gen_glue_public(tree, methods, out):
    """the public flow-adding methods, `_strata_exist` and `stratify_with` of `CompartmentalModel` and the module function `_validate_flowparam`:
    pinned text, fixed rendering (see `gen_glue`)"""
    for fname, (args, wanted) in GLUE_PUBLIC.items():
        fn = methods.get(fname)
        if fn is None:
            raise Untranslatable(f"CompartmentalModel.{fname} not found")
        if [a.arg for a in fn.args.args] != args:
            raise Untranslatable(f"signature of {fname}: " + str([a.arg for a in fn.args.args]))
        body = [ast.unparse(st) for st in fn.body if not (isinstance(st, ast.Expr) and isinstance(st.value, ast.Constant))]
        if body != wanted:
            k = next((i for i, (a, b_) in enumerate(zip(body, wanted)) if a != b_), min(len(body), len(wanted)))
            raise Untranslatable(f"{fname}: statement {k} is not the expected text: " + (body[k][:160] if k < len(body) else "<missing>"))
    vf = [n for n in tree.body if isinstance(n, ast.FunctionDef) and n.name == "_validate_flowparam"]
    want_vf = ["if not (isinstance(param, GraphObject) or isinstance(param, Real)):\n    raise TypeError(f'Flow parameter must be GraphObject or float, not {type(param)}')"]
    if len(vf) != 1 or [a.arg for a in vf[0].args.args] != ["param"] or [ast.unparse(st) for st in vf[0].body] != want_vf:
        raise Untranslatable("_validate_flowparam is not the expected text")
    out.append(GLUE_PUBLIC_LEAN)
    for fname, (args, wanted) in GLUE_REQUESTS.items():
        fn = methods.get(fname)
        if fn is None:
            raise Untranslatable(f"CompartmentalModel.{fname} not found")
        if [a.arg for a in fn.args.args] != args:
            raise Untranslatable(f"signature of {fname}: " + str([a.arg for a in fn.args.args]))
        body = [ast.unparse(st) for st in fn.body if not (isinstance(st, ast.Expr) and isinstance(st.value, ast.Constant))]
        if body != wanted:
            k = next((i for i, (a, b_) in enumerate(zip(body, wanted)) if a != b_), min(len(body), len(wanted)))
            raise Untranslatable(f"{fname}: statement {k} is not the expected text: " + (body[k][:160] if k < len(body) else "<missing>"))
    out.append(GLUE_REQUESTS_LEAN)
    for fname, (args, wanted) in GLUE_POP.items():
        fn = methods.get(fname)
        if fn is None:
            raise Untranslatable(f"CompartmentalModel.{fname} not found")
        if [a.arg for a in fn.args.args] != args:
            raise Untranslatable(f"signature of {fname}: " + str([a.arg for a in fn.args.args]))
        body = [ast.unparse(st) for st in fn.body if not (isinstance(st, ast.Expr) and isinstance(st.value, ast.Constant))]
        if body != wanted:
            k = next((i for i, (a, b_) in enumerate(zip(body, wanted)) if a != b_), min(len(body), len(wanted)))
            raise Untranslatable(f"{fname}: statement {k} is not the expected text: " + (body[k][:160] if k < len(body) else "<missing>"))
    out.append(GLUE_POP_LEAN)


def gen_glue(tree, out, report):
    """the private flow-adding methods of `CompartmentalModel` (`_assert_not_finalized`, `_validate_expected_flow_count`, `_add_entry_flow`,
    `_add_exit_flow`, `_add_transition_flow`): recognised statement by statement against the expected source text and emitted in a fixed
    shape (object construction through a class argument, `self` mutation); any other text is refused"""
    want = {
        "_assert_not_finalized": (["self"], [
            "error_msg = 'Cannot make changes to model that is already finalized'",
            "assert not self._finalized, error_msg"]),
        "_validate_expected_flow_count": (["expected_count", "new_flows"], [
            "if expected_count is not None:\n    actual_count = len(new_flows)\n    msg = f'Expected to add {expected_count} flows but added {actual_count}'\n"
            "    assert actual_count == expected_count, msg"]),
        "_add_entry_flow": (["self", "flow_cls", "name", "param", "dest", "dest_strata", "expected_flow_count", "adjustments"], [
            "self._assert_not_finalized()",
            "dest_strata = dest_strata or {}",
            "dest_comps = [c for c in self.compartments if c.is_match(dest, dest_strata)]",
            "new_flows = []",
            "for dest_comp in dest_comps:\n    flow = flow_cls(name, dest_comp, param, adjustments=adjustments)\n    new_flows.append(flow)",
            "self._validate_expected_flow_count(expected_flow_count, new_flows)",
            "self.flows += new_flows"]),
        "_add_exit_flow": (["self", "flow_cls", "name", "param", "source", "source_strata", "expected_flow_count"], [
            "self._assert_not_finalized()",
            "source_strata = source_strata or {}",
            "source_comps = [c for c in self.compartments if c.is_match(source, source_strata)]",
            "new_flows = []",
            "for source_comp in source_comps:\n    flow = flow_cls(name, source_comp, param)\n    new_flows.append(flow)",
            "self._validate_expected_flow_count(expected_flow_count, new_flows)",
            "self.flows += new_flows"]),
        "_add_transition_flow": (["self", "flow_cls", "name", "param", "source", "dest", "source_strata", "dest_strata", "expected_flow_count", "find_infectious_multiplier"], [
            "self._assert_not_finalized()",
            "source_strata = source_strata or {}",
            "dest_strata = dest_strata or {}",
            "dest_comps = self.get_matching_compartments(dest, dest_strata)",
            "source_comps = self.get_matching_compartments(source, source_strata)",
            "num_dest = len(dest_comps)",
            "num_source = len(source_comps)",
            "msg = f'Expected equal number of source and dest compartments, but got {num_source} source                 and {num_dest} dest.'",
            "assert num_dest == num_source, msg",
            "new_flows = []",
            "for source_comp, dest_comp in zip(source_comps, dest_comps):\n    if find_infectious_multiplier:\n"
            "        flow = flow_cls(name, source_comp, dest_comp, param, find_infectious_multiplier=find_infectious_multiplier)\n    else:\n"
            "        flow = flow_cls(name, source_comp, dest_comp, param)\n    new_flows.append(flow)",
            "self._validate_expected_flow_count(expected_flow_count, new_flows)",
            "self.flows += new_flows"]),
    }
    try:
        cls = [n for n in tree.body if isinstance(n, ast.ClassDef) and n.name == "CompartmentalModel"]
        if not cls:
            raise Untranslatable("class CompartmentalModel not found")
        methods = {n.name: n for n in cls[0].body if isinstance(n, ast.FunctionDef)}
        for fname, (args, wanted) in want.items():
            fn = methods.get(fname)
            if fn is None:
                raise Untranslatable(f"CompartmentalModel.{fname} not found")
            if [a.arg for a in fn.args.args] != args:
                raise Untranslatable(f"signature of {fname}: " + str([a.arg for a in fn.args.args]))
            body = [ast.unparse(st) for st in fn.body if not (isinstance(st, ast.Expr) and isinstance(st.value, ast.Constant))]
            if body != wanted:
                k = next((i for i, (a, b_) in enumerate(zip(body, wanted)) if a != b_), min(len(body), len(wanted)))
                raise Untranslatable(f"{fname}: statement {k} is not the expected text: " + (body[k][:120] if k < len(body) else "<missing>"))
        out.append(
            "/-- `model.py::CompartmentalModel._assert_not_finalized` -/\n"
            "def _assert_not_finalized (self : Model α) : Res Unit := guardE (!self.finalized) \"finalized\"\n\n"
            "/-- `model.py::CompartmentalModel._validate_expected_flow_count` -/\n"
            "def _validate_expected_flow_count (expected_count : Option Nat) (new_flows : List (Flow α)) : Res Unit :=\n"
            "  match expected_count with\n  | none => pure ()\n  | some expected_count =>\n    let actual_count := new_flows.length\n"
            "    guardE (actual_count == expected_count) \"expected flow count not met\"\n\n"
            "/-- `self.get_matching_compartments(name, strata)` as `_add_transition_flow` uses it: an unknown compartment name raises (`KeyError` from the "
            "name map), otherwise the selection of `Build.getMatching` (tied to `query_compartments` by C13) -/\n"
            "def get_matching_compartments (self : Model α) (name : String) (strata : Strata) : Res (List Comp) := do\n"
            "  guardE (self.origNames.contains name) \"unknown compartment\"\n  pure (getMatching self name strata)\n\n"
            "/-- `model.py::CompartmentalModel._add_entry_flow` (`flow_cls` is the flow class, i.e. its kind; `x or {}` on an optional dict) -/\n"
            "def _add_entry_flow (self : Model α) (flow_cls : FlowKind) (name : String) (param : Expr α) (dest : String) (dest_strata : Option Strata)\n"
            "    (expected_flow_count : Option Nat) (adjustments : List (Adj α)) : Res (Model α) := do\n"
            "  _assert_not_finalized self\n"
            "  let dest_strata := dest_strata.getD []\n"
            "  let dest_comps := self.comps.filter (fun c => c.isMatch dest dest_strata)\n"
            "  let new_flows := dest_comps.foldl (fun (new_flows : List (Flow α)) dest_comp =>\n"
            "    new_flows ++ [{ kind := flow_cls, name := name, src := none, dst := some dest_comp, param := param, adjs := adjustments }]) []\n"
            "  _validate_expected_flow_count expected_flow_count new_flows\n"
            "  pure { self with flows := self.flows ++ new_flows }\n\n"
            "/-- `model.py::CompartmentalModel._add_exit_flow` -/\n"
            "def _add_exit_flow (self : Model α) (flow_cls : FlowKind) (name : String) (param : Expr α) (source : String) (source_strata : Option Strata)\n"
            "    (expected_flow_count : Option Nat) : Res (Model α) := do\n"
            "  _assert_not_finalized self\n"
            "  let source_strata := source_strata.getD []\n"
            "  let source_comps := self.comps.filter (fun c => c.isMatch source source_strata)\n"
            "  let new_flows := source_comps.foldl (fun (new_flows : List (Flow α)) source_comp =>\n"
            "    new_flows ++ [{ kind := flow_cls, name := name, src := some source_comp, dst := none, param := param, adjs := [] }]) []\n"
            "  _validate_expected_flow_count expected_flow_count new_flows\n"
            "  pure { self with flows := self.flows ++ new_flows }\n\n"
            "/-- `model.py::CompartmentalModel._add_transition_flow` (the infectious-multiplier callback is not part of the flow's rate law in the JAX runner: "
            "both branches construct the same flow) -/\n"
            "def _add_transition_flow (self : Model α) (flow_cls : FlowKind) (name : String) (param : Expr α) (source dest : String)\n"
            "    (source_strata dest_strata : Option Strata) (expected_flow_count : Option Nat) : Res (Model α) := do\n"
            "  _assert_not_finalized self\n"
            "  let source_strata := source_strata.getD []\n"
            "  let dest_strata := dest_strata.getD []\n"
            "  let dest_comps ← get_matching_compartments self dest dest_strata\n"
            "  let source_comps ← get_matching_compartments self source source_strata\n"
            "  let num_dest := dest_comps.length\n"
            "  let num_source := source_comps.length\n"
            "  guardE (num_dest == num_source) \"Expected equal number of source and dest compartments\"\n"
            "  let new_flows := (source_comps.zip dest_comps).foldl (fun (new_flows : List (Flow α)) sd =>\n"
            "    new_flows ++ [{ kind := flow_cls, name := name, src := some sd.1, dst := some sd.2, param := param, adjs := [] }]) []\n"
            "  _validate_expected_flow_count expected_flow_count new_flows\n"
            "  pure { self with flows := self.flows ++ new_flows }\n")
        gen_glue_public(tree, methods, out)
        report["model.py glue"] = "ok"
    except Untranslatable as e:
        report["model.py glue"] = "untranslatable: " + str(e)
    except Exception as e:
        report["model.py glue"] = "untranslatable: internal " + type(e).__name__ + ": " + str(e)


# ------------------------------------------------------------------------------------------------ inspect.py: queries
QSRC = "summer2/inspect.py"
QHEADER = """-- GENERATED by harness/translate/gen_rates.py from /repo (summer2/inspect.py, summer2/model.py). Do not edit.
import Summer.Model.Build
set_option linter.unusedVariables false
namespace Summer.Generated.Inspect
open Summer Summer.Build

section
variable {α : Type}
"""

INSPECT_WANT = {
    "query_compartments": (["model", "query", "tags", "as_idx"], [
        "query = query or {}",
        "tags = tags or []",
        "if isinstance(tags, str):\n    tags = [tags]",
        "if 'name' in query:\n    query = query.copy()\n    name = query.pop('name')\n    if isinstance(name, str):\n        compartments = model._compartment_name_map[name]\n"
        "    elif isinstance(name, Callable):\n        match_lists = [model._compartment_name_map[n] for n in model._original_compartment_names if name(n)]\n"
        "        compartments = list(itertools.chain.from_iterable(match_lists))\n    elif isinstance(name, Iterable):\n"
        "        match_lists = [model._compartment_name_map[n] for n in name]\n        compartments = list(itertools.chain.from_iterable(match_lists))\n"
        "    else:\n        raise TypeError()\nelse:\n    compartments = model.compartments",
        "def get_equals(x):\n\n    def equals(y):\n        return y == x\n    return equals",
        "def get_isin(x):\n\n    def isin(y):\n        return y in x\n    return isin",
        "actual_q = {}",
        "for k, v in query.items():\n    if isinstance(v, Callable):\n        actual_q[k] = v\n    elif isinstance(v, str):\n        actual_q[k] = get_equals(v)\n"
        "    elif isinstance(v, Iterable):\n        actual_q[k] = get_isin(v)\n    else:\n        raise TypeError()",
        "matched_comps = []",
        "for c in compartments:\n    cur_match = True\n    for stratification, qfunc in actual_q.items():\n        if stratification in c.strata:\n"
        "            cur_match = cur_match and qfunc(c.strata[stratification])\n        else:\n            cur_match = False\n    if cur_match:\n"
        "        matched_comps.append(c)",
        "if len(tags):\n    matched_comps = [c for c in matched_comps if all([t in c.tags for t in tags])]",
        "if as_idx:\n    return np.array([c.idx for c in matched_comps], dtype=int)\nelse:\n    return matched_comps"]),
    "query_flows": (["m", "flow_name", "source", "dest", "tags"], [
        "if flow_name is not None:\n    if isinstance(flow_name, re.Pattern):\n        flows = [f for f in m.flows if flow_name.match(f.name)]\n"
        "    elif isinstance(flow_name, str):\n        flows = [f for f in m.flows if flow_name == f.name]\n    else:\n        flows = flow_name\nelse:\n    flows = m.flows",
        "if source:\n    source = source.copy()\n    name = source.pop('name', None)\n    if name is not None:\n"
        "        flows = [f for f in flows if f.source and f.source.name == name]\n    source = frozenset(source.items())\n"
        "    flows = [f for f in flows if not f.source or f.source._has_strata(source)]",
        "if dest:\n    dest = dest.copy()\n    name = dest.pop('name', None)\n    if name is not None:\n"
        "        flows = [f for f in flows if f.dest and f.dest.name == name]\n    dest = frozenset(dest.items())\n"
        "    flows = [f for f in flows if not f.dest or f.dest._has_strata(dest)]",
        "if tags:\n    if isinstance(tags, str):\n        tags = [tags]\n    flows = [f for f in flows if all([t in f.tags for t in tags])]",
        "return flows"]),
}
INSPECT_MODEL_WANT = {
    "query_compartments": (["self", "query", "tags", "as_idx"], ["from summer2.inspect import query_compartments", "return query_compartments(self, query, tags, as_idx)"]),
    "query_flows": (["self", "flow_name", "source", "dest", "tags"], ["from summer2.inspect import query_flows", "return query_flows(self, flow_name, source, dest, tags)"]),
    "get_matching_compartments": (["self", "name", "strata"], ["return self.query_compartments({'name': name} | strata)",
        # (unreachable statements after the return, kept in the source)
        "if isinstance(name, str):\n    name_query = self._compartment_name_map[name]",
        "if isinstance(name, Callable):\n    match_lists = [self._compartment_name_map[n] for n in self._original_compartment_names if name(n)]\n"
        "    name_query = list(itertools.chain.from_iterable(match_lists))\nelse:\n    match_lists = [self._compartment_name_map[n] for n in name]\n"
        "    name_query = list(itertools.chain.from_iterable(match_lists))",
        "if not len(strata):\n    return name_query\nelse:\n    _strata = frozenset(strata.items())\n    return [c for c in name_query if c._has_strata(_strata)]"]),
}

INSPECT_LEAN = """
/-- `inspect.py::query_compartments(model, {"name": name, **query})` / `(model, query)` for a string `name` (or none) and string-valued
filters, no tags, `as_idx=False` (pinned text; the callable / iterable forms of the text are not rendered).  `model._compartment_name_map[name]`
is the list of the model's compartments of that name, in model order (`_update_compartment_name_map`, pinned in the model.py glue);
`actual_q[k] = get_equals(v)`; the nested loop keeps `cur_match`, a missing key makes it `False`. -/
def query_compartments (model : Model α) (name : Option String) (query : Strata) : List Comp :=
  let compartments := match name with
    | some name => model.comps.filter (fun (c : Comp) => c.name == name)
    | none => model.comps
  compartments.foldl (fun (matched_comps : List Comp) (c : Comp) =>
    let cur_match := query.foldl (fun (cur_match : Bool) (kv : String × String) =>
      if c.strata.any (fun p => p.1 == kv.1) then cur_match && (alookup c.strata kv.1 == some kv.2) else false) true
    if cur_match then matched_comps ++ [c] else matched_comps) []

/-- `inspect.py::query_flows(m, flow_name, source, dest)` for a string `flow_name` (or none) and dict filters, no tags (pinned text; the
`re.Pattern` and list forms of `flow_name` are not rendered).  Flows are carried with their position in `m.flows` so that the selection can
be reported as indices.  `if source:` is dict truthiness; `source.pop('name', None)` takes the reserved key `name` out of the filter (a
present end must then carry that compartment name, a flow without that end is dropped); the remaining keys are a strata filter for which a
flow WITHOUT that end is kept (`not f.source or …`). -/
def query_flows (m : Model α) (flow_name : Option String) (source dest : Strata) : List (Flow α × Nat) :=
  let flows : List (Flow α × Nat) := match flow_name with
    | some flow_name => m.flows.zipIdx.filter (fun f => flow_name == f.1.name)
    | none => m.flows.zipIdx
  let flows : List (Flow α × Nat) := if source.length != 0 then
      let name := alookup source "name"
      let source := source.filter (fun p => p.1 != "name")
      let flows := match name with
        | some name => flows.filter (fun (f : Flow α × Nat) => match f.1.src with | some c => c.name == name | none => false)
        | none => flows
      flows.filter (fun f => match f.1.src with | none => true | some c => c.hasStrata source)
    else flows
  let flows : List (Flow α × Nat) := if dest.length != 0 then
      let name := alookup dest "name"
      let dest := dest.filter (fun p => p.1 != "name")
      let flows := match name with
        | some name => flows.filter (fun (f : Flow α × Nat) => match f.1.dst with | some c => c.name == name | none => false)
        | none => flows
      flows.filter (fun f => match f.1.dst with | none => true | some c => c.hasStrata dest)
    else flows
  flows
"""


def gen_inspect(itree, mtree, out, report):
    try:
        funcs = {n.name: n for n in itree.body if isinstance(n, ast.FunctionDef)}
        def check(fn, fname, args, wanted, where):
            if fn is None:
                raise Untranslatable(f"{where}{fname} not found")
            if [a.arg for a in fn.args.args] != args:
                raise Untranslatable(f"signature of {where}{fname}: " + str([a.arg for a in fn.args.args]))
            body = [ast.unparse(st) for st in fn.body if not (isinstance(st, ast.Expr) and isinstance(st.value, ast.Constant))]
            if body != wanted:
                k = next((i for i, (a, b_) in enumerate(zip(body, wanted)) if a != b_), min(len(body), len(wanted)))
                raise Untranslatable(f"{where}{fname}: statement {k} is not the expected text: " + (body[k][:160] if k < len(body) else "<missing>"))
        for fname, (args, wanted) in INSPECT_WANT.items():
            check(funcs.get(fname), fname, args, wanted, "inspect.")
        cls = [n for n in mtree.body if isinstance(n, ast.ClassDef) and n.name == "CompartmentalModel"]
        methods = {n.name: n for n in cls[0].body if isinstance(n, ast.FunctionDef)} if cls else {}
        for fname, (args, wanted) in INSPECT_MODEL_WANT.items():
            check(methods.get(fname), fname, args, wanted, "CompartmentalModel.")
        out.append(INSPECT_LEAN)
        report["inspect.py queries"] = "ok"
    except Untranslatable as e:
        report["inspect.py queries"] = "untranslatable: " + str(e)
    except Exception as e:
        report["inspect.py queries"] = "untranslatable: internal " + type(e).__name__ + ": " + str(e)


# ------------------------------------------------------------------------------------------------ stratification.py: constructor and setters
SSRC = "summer2/stratification.py"
SHEADER = """-- GENERATED by harness/translate/gen_rates.py from /repo (summer2/stratification.py). Do not edit.
import Summer.Model.Build
set_option linter.unusedVariables false
namespace Summer.Generated.StratApi
open Summer Summer.Build Summer.Generated

section
variable {α : Type} [Zero α] [One α] [Add α] [Sub α] [Mul α] [Div α] [NatCast α] [LT α] [DecidableLT α]
"""

STRATAPI_WANT = {
    ("Stratification", "__init__"): (["self", "name", "strata", "compartments"], [
        "self.name = name",
        "self.strata = list(map(str, strata))",
        "self.compartments = [Compartment(c) if type(c) is str else c for c in compartments]",
        "num_strata = len(self.strata)",
        "self.population_split = {s: 1 / num_strata for s in self.strata}",
        "self.flow_adjustments = {}",
        "self.infectiousness_adjustments = {}",
        "self._flow_adjustments_fs = {}",
        "self.mixing_matrix = None",
        "self._validate = True"]),
    ("Stratification", "set_population_split"): (["self", "proportions"], [
        "if all([isinstance(v, Real) for v in proportions.values()]):\n    self.validate_population_split(proportions)",
        "self.population_split = proportions"]),
    ("Stratification", "validate_population_split"): (["self", "proportions"], [
        "msg = f'All strata must be specified when setting population split: {proportions}'",
        "assert set(list(proportions.keys())) == set(self.strata), msg",
        "msg = f'All proportions must be >= 0 when setting population split: {proportions}'",
        "assert all([v >= 0 for v in proportions.values()]), msg",
        "msg = f'All proportions sum to 1+/-{COMP_SPLIT_REQUEST_ERROR} when setting             population split: {proportions}'",
        "assert abs(1 - sum(proportions.values())) < COMP_SPLIT_REQUEST_ERROR, msg"]),
    ("Stratification", "set_flow_adjustments"): (["self", "flow_name", "adjustments", "source_strata", "dest_strata"], [
        "source_strata = source_strata or {}",
        "dest_strata = dest_strata or {}",
        "msg = 'You must specify all strata when adding flow adjustments.'",
        "assert set(adjustments.keys()) == set(self.strata), msg",
        "adjustments = {k: enforce_multiply(v) for k, v in adjustments.items()}",
        "msg = 'All flow adjustments must be Multiply, Overwrite or None.'",
        "assert all([type(adj) is Overwrite or type(adj) is Multiply or adj is None for adj in adjustments.values()]), msg",
        "msg = 'Cannot add new flow adjustments after stratification has already been applied'",
        "assert len(self._flow_adjustments_fs) == 0, msg",
        "if flow_name not in self.flow_adjustments:\n    self.flow_adjustments[flow_name] = []",
        "self.flow_adjustments[flow_name].append((adjustments, source_strata, dest_strata))"]),
    ("Stratification", "add_infectiousness_adjustments"): (["self", "compartment_name", "adjustments"], [
        "msg = 'You must specify all strata when adding infectiousness adjustments.'",
        "assert set(adjustments.keys()) == set(self.strata), msg",
        "adjustments = {k: enforce_multiply(v) for k, v in adjustments.items()}",
        "msg = 'All infectiousness adjustments must be Multiply, Overwrite or None.'",
        "assert all([type(a) is Overwrite or type(a) is Multiply or a is None for a in adjustments.values()]), msg",
        "msg = f'An infectiousness adjustment for {compartment_name}                 already exists for strat {self.name}'",
        "assert compartment_name not in self.infectiousness_adjustments, msg",
        "self.infectiousness_adjustments[compartment_name] = adjustments"]),
    ("Stratification", "set_mixing_matrix"): (["self", "mixing_matrix"], [
        "msg = 'Strain stratifications cannot have a mixing matrix.'",
        "assert not self.is_strain(), msg",
        "self.mixing_matrix = mixing_matrix"]),
    ("AgeStratification", "__init__"): (["self", "name", "strata", "compartments"], [
        "try:\n    _strata = sorted(map(int, strata))\nexcept Exception:\n    raise AssertionError('Strata must be in an int-compatible format')",
        "assert _strata[0] == 0, 'First age strata must be 0'",
        "_strata = map(str, _strata)",
        "super().__init__(name, _strata, compartments)"]),
}

STRATAPI_LEAN = """
/-- `stratification.py::Stratification.__init__` (`kind` is the class: `Stratification`, `AgeStratification` through `super().__init__`,
`StrainStratification`); `1 / num_strata` raises `ZeroDivisionError` for an empty strata list; the dict comprehension keeps the first
position of a repeated key and its last value -/
def strat_init (kind : StratKind) (name : String) (strata : List String) (compartments : List String) : Res (Strat α) := do
  let num_strata := strata.length
  guardE (num_strata != 0) "ZeroDivisionError"
  let population_split : List (String × Expr α) := strata.foldl (fun acc s => dictSet acc s (.const ((1 : α) / (num_strata : α)))) []
  pure { kind := kind, name := name, strata := strata, comps := compartments, split := population_split, flowAdj := [], infAdj := [], mixing := none }

/-- `stratification.py::AgeStratification.__init__` (`sorted(map(int, strata))`; `_strata[0]` of an empty list raises) -/
def age_strat_init (name : String) (strata : List String) (compartments : List String) : Res (Strat α) := do
  let ints ← strata.mapM (fun s => match s.toInt? with | some i => pure i | none => (fail "age strata must be int-compatible" : Res Int))
  let _strata := sortInts ints
  guardE (_strata.head? == some 0) "First age strata must be 0"
  strat_init .age name (_strata.map toString) compartments

/-- `stratification.py::Stratification.validate_population_split` for literal proportions (`keys` in the caller's order, `values` the numbers);
`abs(1 - s) < c` is rendered as `1 - s < c` and `s - 1 < c` -/
def validate_population_split (self : Strat α) (keys : List String) (values : List α) : Res Unit := do
  guardE (sameSet keys self.strata) "All strata must be specified when setting population split"
  guardE (values.all (fun v => !(decide (v < 0)))) "All proportions must be >= 0 when setting population split"
  let s := sumL values
  let tol : α := (1 : α) / (splitTolDen : α)
  guardE (decide ((1 : α) - s < tol) && decide (s - 1 < tol)) "All proportions sum to 1 when setting population split"

/-- `stratification.py::Stratification.set_population_split`: validated only when EVERY proportion is a plain number -/
def set_population_split (self : Strat α) (proportions : List (String × Expr α)) : Res (Strat α) := do
  let lits := proportions.filterMap (fun kv => Expr.isConst kv.2)
  if lits.length == proportions.length then
    validate_population_split self (proportions.map (·.1)) lits
  pure { self with split := proportions }

/-- `stratification.py::Stratification.set_flow_adjustments`.  `enforce_multiply` and the type assertion have no counterpart: an adjustment is a
`Multiply`, an `Overwrite` or `None` by its type in the model; `len(self._flow_adjustments_fs) == 0` (the stratification has not been applied:
that cache is filled by `get_flow_adjustment`) holds of every `Strat` under construction; the per-name lists of the dict are kept as ONE list
in call order (`get_flow_adjustment` reads the declarations of one name, in that order) -/
def set_flow_adjustments (self : Strat α) (flow_name : String) (adjustments : List (String × Option (Adj α))) (source_strata dest_strata : Option Strata) : Res (Strat α) := do
  let source_strata := source_strata.getD []
  let dest_strata := dest_strata.getD []
  guardE (sameSet (adjustments.map (·.1)) self.strata) "You must specify all strata when adding flow adjustments."
  pure { self with flowAdj := self.flowAdj ++ [{ flow := flow_name, adjs := adjustments, srcStrata := source_strata, dstStrata := dest_strata }] }

/-- `stratification.py::Stratification.add_infectiousness_adjustments` -/
def add_infectiousness_adjustments (self : Strat α) (compartment_name : String) (adjustments : List (String × Option (Adj α))) : Res (Strat α) := do
  guardE (sameSet (adjustments.map (·.1)) self.strata) "You must specify all strata when adding infectiousness adjustments."
  guardE (!self.infAdj.any (fun ia => ia.1 == compartment_name)) "An infectiousness adjustment for this compartment already exists"
  pure { self with infAdj := self.infAdj ++ [(compartment_name, adjustments)] }

/-- `stratification.py::Stratification.set_mixing_matrix` -/
def set_mixing_matrix (self : Strat α) (mixing_matrix : Matrix (Expr α)) : Res (Strat α) := do
  guardE (!self.isStrain) "Strain stratifications cannot have a mixing matrix."
  pure { self with mixing := some mixing_matrix }
"""


def gen_stratapi(tree, out, report):
    try:
        classes = {n.name: {m.name: m for m in n.body if isinstance(m, ast.FunctionDef)} for n in tree.body if isinstance(n, ast.ClassDef)}
        for (cname, fname), (args, wanted) in STRATAPI_WANT.items():
            fn = classes.get(cname, {}).get(fname)
            if fn is None:
                raise Untranslatable(f"{cname}.{fname} not found")
            if [a.arg for a in fn.args.args] != args:
                raise Untranslatable(f"signature of {cname}.{fname}: " + str([a.arg for a in fn.args.args]))
            body = [ast.unparse(st) for st in fn.body if not (isinstance(st, ast.Expr) and isinstance(st.value, ast.Constant))]
            if body != wanted:
                k = next((i for i, (a, b_) in enumerate(zip(body, wanted)) if a != b_), min(len(body), len(wanted)))
                raise Untranslatable(f"{cname}.{fname}: statement {k} is not the expected text: " + (body[k][:160] if k < len(body) else "<missing>"))
        # StrainStratification must not override the constructor or the setters
        for fname in ("__init__", "set_population_split", "set_flow_adjustments", "add_infectiousness_adjustments", "set_mixing_matrix"):
            if fname in classes.get("StrainStratification", {}):
                raise Untranslatable(f"StrainStratification overrides {fname}")
        for fname in ("set_population_split", "set_flow_adjustments", "add_infectiousness_adjustments", "set_mixing_matrix", "validate_population_split"):
            if fname in classes.get("AgeStratification", {}):
                raise Untranslatable(f"AgeStratification overrides {fname}")
        out.append(STRATAPI_LEAN)
        report["stratification.py api"] = "ok"
    except Untranslatable as e:
        report["stratification.py api"] = "untranslatable: " + str(e)
    except Exception as e:
        report["stratification.py api"] = "untranslatable: internal " + type(e).__name__ + ": " + str(e)


# ------------------------------------------------------------------------------------------------ model.py: run / get_runner / defaults (session)
SESS_HEADER = """-- GENERATED by harness/translate/gen_rates.py from /repo (summer2/model.py: run, get_runner, defaults, ModelResults). Do not edit.
import Summer.Model.Session
set_option linter.unusedVariables false
namespace Summer.Generated.SessionSrc
open Summer.Session

section
variable {δ ν σ : Type}
"""

SESS_WANT = {
    ("CompartmentalModel", "finalize"): (["self"], None, [
        "if not self._finalized:\n    finalize_parameters(self)\n    self._finalized = True\n    if self.builder:\n        self._type_validators = self.builder.get_param_validators()"]),
    ("CompartmentalModel", "get_runner"): (["self", "parameters", "dyn_params", "jit", "include_full_outputs"], "backend_args", [
        "self._update_compartment_indices()",
        "self.finalize()",
        "self._set_backend('jax')",
        "self._backend.prepare_structural()",
        "from summer2.runner.jax.model_impl import build_run_model",
        "parameters = expand_nested_dict(parameters)",
        "input_params = self.get_input_parameters()",
        "parameters = {k: v for k, v in parameters.items() if k in input_params}",
        "if self.builder:\n    parameters = {k: self._type_validators[k](v) for k, v in parameters.items()}",
        "jax_run_func, jax_runner_dict = build_run_model(self._backend, base_params=parameters, dyn_params=dyn_params, include_full_outputs=include_full_outputs, **backend_args)",
        "if jit:\n    from jax import jit as jjit\n    jax_run_func = jjit(jax_run_func)",
        "return ModelResults(self, jax_run_func, jax_runner_dict)"]),
    ("CompartmentalModel", "run"): (["self", "parameters", "solver", "backend_args", "rebuild"], "kwargs", [
        "parameters = parameters or {}",
        "if rebuild:\n    self._runner = None",
        "if self._runner is None:\n    self._update_compartment_indices()\n    self.finalize()\n    self._set_backend('jax', backend_args)\n"
        "    self._backend.prepare_structural()\n    self._runner = self.get_runner(parameters, solver=solver, **kwargs)",
        "self._runner.run(parameters=parameters)"]),
    ("CompartmentalModel", "get_input_parameters"): (["self"], None, [
        "self.finalize()",
        "all_in_var = set(self.graph.get_input_variables())",
        "all_in_var = all_in_var.union(set(self._do_tracker_graph.get_input_variables()))",
        "return set([v.key for v in all_in_var if v.source == 'parameters'])"]),
    ("CompartmentalModel", "set_default_parameters"): (["self", "parameters"], None, [
        "self._runner = None",
        "self._default_parameters = parameters"]),
    ("CompartmentalModel", "get_default_parameters"): (["self"], None, [
        "return self._default_parameters"]),
    ("ModelResults", "__init__"): (["self", "model", "run_func", "runner_dict"], None, [
        "self.model = model",
        "self._run_func = run_func",
        "self.function = run_func",
        "self._input_params = model.get_input_parameters()",
        "self._derived_outputs_idx_cache = None",
        "self._runner_dict = runner_dict",
        "self.impl_dict = runner_dict",
        "self.default_parameters = model.get_default_parameters() or {}",
        "self.ref_idx = model._get_ref_idx()"]),
    ("ModelResults", "run"): (["self", "parameters", "filter", "expand", "ret_raw"], None, [
        "if expand:\n    parameters = expand_nested_dict(parameters)",
        "if filter:\n    parameters = {k: v for k, v in parameters.items() if k in self._input_params}\n    if self.model.builder:\n"
        "        parameters = {k: self.model._type_validators[k](v) for k, v in parameters.items()}",
        "base_params = self.default_parameters.copy()",
        "base_params.update(parameters)",
        "results = self._run_func(parameters=base_params)",
        "self.outputs = np.array(results['outputs'])",
        "self.derived_outputs = {k: np.array(v) for k, v in results['derived_outputs'].items()}",
        "self.model.outputs = self.outputs",
        "self.model.derived_outputs = self.derived_outputs",
        "if ret_raw:\n    return results"]),
}

SESS_LEAN = """
/-- what the closure returned by `model_impl.py::build_run_model(backend, base_params, dyn_params, solver=…)` captures (the statements that
compute `dyn_params`, call `graph.freeze`, merge the default solver arguments, dispatch on the solver and capture `do_base_params` are
pinned as an ordered subsequence of the function; `graph.freeze` itself — computegraph — is modelled, see `Model/Session.lean`): the non-dynamic main-graph parameters evaluated by `graph.freeze` (`none`: a value is missing), the dynamic
main-graph parameters, and `do_base_params` -/
def build_run_model (defn : Definition δ) (base_params : Dict ν) (dyn_params : Option (List String)) : Option (Dict ν × List String × Dict ν) :=
  match collect base_params.get (frozenKeys defn dyn_params) with
  | none => none
  | some fr => some (fr, dynMain defn dyn_params, Dict.filterKeys defn.doParams base_params)

/-- the closure `run_model(parameters)` (its parameter-handling statements are pinned, see above): dynamic inputs from the call's parameters, the others frozen;
`do_full_params = do_base_params.copy(); do_full_params.update(parameters)` -/
def run_func (defn : Definition δ) (r : Runner ν σ) (base_params : Dict ν) : Outcome ν σ :=
  let mainF := fun k => if r.dyn.contains k then base_params.get k else r.frozen.get k
  let doFull := Dict.update r.doBase base_params
  match collect mainF defn.mainParams with
  | none => .error .mainKey
  | some m =>
    match collect doFull.get defn.doParams with
    | none => .error .doKey
    | some d => .ok { main := m, dos := d, solver := r.solver }

/-- `model.py::CompartmentalModel.set_default_parameters` -/
def set_default_parameters (self : Session δ ν σ) (parameters : Dict ν) : Session δ ν σ :=
  { self with cached := none, defaults := some parameters }

/-- `model.py::ModelResults.__init__`: `self.default_parameters = model.get_default_parameters() or {}` is a snapshot taken now -/
def model_results_init (model : Session δ ν σ) (closure : Dict ν × List String × Dict ν) (solver : σ) : Runner ν σ :=
  { frozen := closure.1, dyn := closure.2.1, doBase := closure.2.2, defaultsSnap := model.defaults.getD [], solver := solver }

/-- `model.py::CompartmentalModel.get_runner(parameters, dyn_params, solver=…)`: finalises the model first, filters the parameters to the
input parameters, builds the closure, wraps it in a `ModelResults`; `self._runner` is not touched.  Returns the model and the runner
(`none`: building raised) -/
def get_runner (self : Session δ ν σ) (parameters : Dict ν) (dyn_params : Option (List String)) (solver : σ) : Session δ ν σ × Option (Runner ν σ) :=
  let input_params := self.defn.inputParams
  let parameters := Dict.filterKeys input_params parameters
  match build_run_model self.defn parameters dyn_params with
  | none => ({ self with finalized := true }, none)
  | some closure => ({ self with finalized := true }, some (model_results_init self closure solver))

/-- `model.py::ModelResults.run(parameters)` (defaults `filter=True`): filter, infill from the snapshot of the defaults, call the closure,
publish the results on the model when it returns -/
def model_results_run (model : Session δ ν σ) (self : Runner ν σ) (parameters : Dict ν) : Session δ ν σ × Outcome ν σ :=
  let parameters := Dict.filterKeys model.defn.inputParams parameters
  let base_params := Dict.update self.defaultsSnap parameters
  let results := run_func model.defn self base_params
  (model.record results, results)

/-- `model.py::CompartmentalModel.run(parameters, solver, rebuild)`: the `solver` argument is looked at only when a runner is built -/
def run (self : Session δ ν σ) (parameters : Dict ν) (solver : σ) (rebuild : Bool) : Session δ ν σ × Outcome ν σ :=
  let self := if rebuild then { self with cached := none } else self
  match self.cached with
  | none =>
    match get_runner self parameters none solver with
    | (self, none) => (self, .error .build)
    | (self, some runner) =>
      let self := { self with cached := some runner }
      model_results_run self runner parameters
  | some runner => model_results_run self runner parameters
"""


PIPE_OUT = []
PIPE_HEADER = """-- GENERATED by harness/translate/gen_rates.py from /repo (summer2/runner/jax/model_impl.py: build_run_model.run_model). Do not edit.
import Summer.Model.Pipeline
set_option linter.unusedVariables false
namespace Summer.Generated.PipelineSrc
open Summer Summer.Run Summer.Derived Summer.Pipeline

section
variable {α : Type} [Zero α] [One α] [Add α] [Sub α] [Mul α] [Div α] [NatCast α] [LT α] [DecidableLT α]
"""
PIPE_LEAN = """
/-- the closure `run_model(parameters)` of `model_impl.py::build_run_model`, statement by statement (its statements are pinned as an ordered
subsequence of `build_run_model`, see `gen_session`).  `static_graph_func(parameters=parameters)` is the evaluation of the frozen static graph
under this call's parameters: the values read from it (initial population, static weights, infectiousness) are computed under `parameters`,
and it raises when a parameter is missing (the definedness test at the initial state); `get_ode_solution` is the solver closure chosen by the
dispatch, integrating `get_comp_rates` (the model's right-hand side under `static_graph_vals`) from the initial population over `times`;
`do_full_params = do_base_params.copy(); do_full_params.update(parameters)`: this call's values take precedence -/
def run_model (m : Model α) (b : Backend) (get_ode_solution : (List α → α → List α) → List α → List α → List (List α))
    (do_base_params parameters : List (String × α)) : Option (List (List α) × List (String × List α)) := do
  let initial_population ← initialPopulation m parameters
  let times := modelTimes m
  let _static_graph_vals ← step m b parameters (times.getD 0 0) initial_population
  let outputs := get_ode_solution (fieldFn m b parameters) initial_population times
  let (out_flows, out_cv) ← flowsForOutputs m b parameters times outputs
  let do_full_params := parameters ++ do_base_params
  let model_variables : RunData α := { times := times, outputs := outputs, flows := out_flows, computed := out_cv, params := do_full_params }
  let derived_outputs ← derivedOutputs m model_variables
  pure (outputs, derived_outputs)

/-- the closure `one_step(parameters, t, comp_vals)` of `build_run_model` (pinned the same way): `t` defaults to the first model time, the
state to the initial population under these parameters; `get_rates_debug(comp_vals, t, static_graph_vals, model_data)` is the rate pipeline
whose translation `Props/C01Rates.generated_rates_eq_step` proves equal to `Run.step` -/
def one_step (m : Model α) (b : Backend) (parameters : List (String × α)) (t : Option α) (comp_vals : Option (List α)) : Option (StepOut α) := do
  let t := match t with
    | none => (modelTimes m).getD 0 0
    | some t => t
  let comp_vals ← (match comp_vals with
    | none => initialPopulation m parameters
    | some x => some x)
  step m b parameters t comp_vals
"""

def gen_session(tree, out, report):
    try:
        classes = {n.name: {m.name: m for m in n.body if isinstance(m, ast.FunctionDef)} for n in tree.body if isinstance(n, ast.ClassDef)}
        for (cname, fname), (args, kwarg, wanted) in SESS_WANT.items():
            fn = classes.get(cname, {}).get(fname)
            if fn is None:
                raise Untranslatable(f"{cname}.{fname} not found")
            if [a.arg for a in fn.args.args] != args or (fn.args.kwarg.arg if fn.args.kwarg else None) != kwarg:
                raise Untranslatable(f"signature of {cname}.{fname}: " + str([a.arg for a in fn.args.args]))
            body = [ast.unparse(st) for st in fn.body if not (isinstance(st, ast.Expr) and isinstance(st.value, ast.Constant))]
            if body != wanted:
                k = next((i for i, (a, b_) in enumerate(zip(body, wanted)) if a != b_), min(len(body), len(wanted)))
                raise Untranslatable(f"{cname}.{fname}: statement {k} is not the expected text: " + (body[k][:160] if k < len(body) else "<missing>"))
        # model_impl.py::build_run_model: the statements that decide which parameters are dynamic, frozen, or captured for the derived outputs,
        # the merge of the default solver arguments and the solver dispatch must be present, in this order (a subsequence of the function's
        # statements, nested closures included)
        with open(os.path.join(REPO, "summer2/runner/jax/model_impl.py")) as f_:
            itree = ast.parse(f_.read())
        brm = [n for n in itree.body if isinstance(n, ast.FunctionDef) and n.name == "build_run_model"]
        if not brm:
            raise Untranslatable("model_impl.build_run_model not found")
        if [a.arg for a in brm[0].args.args] != ["runner", "base_params", "dyn_params", "solver", "solver_args", "derived_outputs", "include_full_outputs"]:
            raise Untranslatable("signature of build_run_model")
        flat = []
        def walk(stmts):
            for st in stmts:
                if isinstance(st, ast.Expr) and isinstance(st.value, ast.Constant): continue
                if isinstance(st, (ast.If,)):
                    flat.append("if " + ast.unparse(st.test) + ":"); walk(st.body)
                    if st.orelse: flat.append("else:"); walk(st.orelse)
                elif isinstance(st, ast.FunctionDef):
                    flat.append("def " + st.name + "(" + ", ".join(a.arg for a in st.args.args) + "):"); walk(st.body)
                elif isinstance(st, ast.For):
                    flat.append("for " + ast.unparse(st.target) + " in " + ast.unparse(st.iter) + ":"); walk(st.body)
                else:
                    flat.append(ast.unparse(st))
        walk(brm[0].body)
        want_seq = [
            "if dyn_params is None:",
            "dyn_params = runner.model.get_input_parameters()",
            "dyn_params = [f'parameters.{p}' if not p.startswith('parameters.') else p for p in dyn_params]",
            "model_graph_keys = set(runner.model.graph.dag)",
            "dyn_params = [k for k in dyn_params if k in model_graph_keys]",
            "if base_params is None:",
            "base_params = {}",
            "source_inputs = {'parameters': base_params}",
            "ts_vars = runner.model.graph.query('model_variables')",
            "dyn_params = set(dyn_params).union(set(ts_vars))",
            "param_frozen_cg, _ = runner.model.graph.freeze(dyn_params, source_inputs)",
            "timestep_cg, static_cg = param_frozen_cg.freeze(ts_vars)",
            "timestep_graph_func = timestep_cg.get_callable()",
            "static_graph_func = static_cg.get_callable()",
            "if solver is None or solver == SolverType.SOLVE_IVP:",
            "solver = SolverType.ODE_INT",
            "if solver == SolverType.ODE_INT:",
            "if solver_args is None:",
            "solver_args = {}",
            "solver_args = SolverArgs.DEFAULT | solver_args",
            "def get_ode_solution(initial_population, times, static_graph_vals, model_data):",
            "return ode.odeint(get_comp_rates, initial_population, times, static_graph_vals, model_data, **solver_args)",
            "if solver == SolverType.RUNGE_KUTTA:",
            "return solvers.rk4(get_comp_rates, initial_population, times, static_graph_vals, model_data)",
            "if solver == SolverType.EULER:",
            "return solvers.euler(get_comp_rates, initial_population, times, static_graph_vals, model_data)",
            "do_cg, calc_derived_outputs = build_derived_outputs_runner(runner.model, whitelist=derived_outputs)",
            "do_params = set([v.key for v in m._do_tracker_graph.get_input_variables() if v.source == 'parameters'])",
            "do_base_params = {k: v for k, v in base_params.items() if k in do_params}",
            "def run_model(parameters):",
            "static_graph_vals = static_graph_func(parameters=parameters)",
            "initial_population = calc_initial_pop(static_graph_vals)",
            "static_flow_weights = jnp.zeros(len(runner.model.flows))",
            "for (k, v) in static_flow_map.items():",
            "compartment_infectiousness = get_compartment_infectiousness(static_graph_vals)",
            "model_data = {'compartment_infectiousness': compartment_infectiousness, 'static_flow_weights': static_flow_weights}",
            "outputs = get_ode_solution(initial_population, times, static_graph_vals, model_data)",
            "out_flows, out_cv = get_flows_for_outputs(outputs, static_graph_vals, model_data)",
            "model_variables = {'outputs': outputs, 'flows': out_flows, 'computed_values': out_cv}",
            "do_full_params = do_base_params.copy()",
            "do_full_params.update(parameters)",
            "derived_outputs = calc_derived_outputs(parameters=do_full_params, model_variables=model_variables)",
        ]
        pos = 0
        for w in want_seq:
            try:
                pos = flat.index(w, pos) + 1
            except ValueError:
                raise Untranslatable("build_run_model: expected statement not found (in order): " + w[:140])
        # the names these statements define must not be rebound anywhere else in the function
        for nm in ("dyn_params", "base_params", "do_base_params", "do_full_params", "solver_args", "solver"):
            n_bind = sum(1 for x in flat if x.startswith(nm + " = ") or x.startswith(nm + ", "))
            n_want = sum(1 for x in want_seq if x.startswith(nm + " = ") or x.startswith(nm + ", "))
            extra_ok = {"solver_args": 1}.get(nm, 0)      # the diffrax branch has its own `solver_args = {}` default
            if n_bind > n_want + extra_ok:
                raise Untranslatable(f"build_run_model: `{nm}` is assigned in a statement that is not pinned")
        # the closure one_step (the observation point of C01 / C02 / C05 / C10 / C18), pinned the same way
        want_one = [
            "def one_step(parameters, t, comp_vals):",
            "static_graph_vals = static_graph_func(parameters=parameters)",
            "if t is None:",
            "t = runner.model.times[0]",
            "if comp_vals is None:",
            "comp_vals = calc_initial_pop(static_graph_vals)",
            "initial_population = comp_vals",
            "static_flow_weights = jnp.zeros(len(runner.model.flows))",
            "for (k, v) in static_flow_map.items():",
            "compartment_infectiousness = get_compartment_infectiousness(static_graph_vals)",
            "model_data = {'compartment_infectiousness': compartment_infectiousness, 'static_flow_weights': static_flow_weights}",
            "flow_rates, comp_rates, ts_graph_vals = get_rates_debug(comp_vals, t, static_graph_vals, model_data)",
        ]
        pos = 0
        for w in want_one:
            try:
                pos = flat.index(w, pos) + 1
            except ValueError:
                raise Untranslatable("build_run_model.one_step: expected statement not found (in order): " + w[:140])
        out.append(SESS_LEAN)
        report["model.py session"] = "ok"
        PIPE_OUT.append(PIPE_LEAN)
    except Untranslatable as e:
        report["model.py session"] = "untranslatable: " + str(e)
    except Exception as e:
        report["model.py session"] = "untranslatable: internal " + type(e).__name__ + ": " + str(e)


# ------------------------------------------------------------------------------------------------ model.py / utils.py: time grid and dates
DATES_HEADER = """-- GENERATED by harness/translate/gen_rates.py from /repo (summer2/model.py __init__ / _get_ref_idx / get_epoch, summer2/utils.py). Do not edit.
import Summer.Model.Dates
set_option linter.unusedVariables false
namespace Summer.Generated.DatesSrc
open Summer Summer.Dates
"""

INIT_PREFIX = [
    "self.ref_date = ref_date",
    "if all([isinstance(t, datetime) for t in times]):\n    if (epoch := self.get_epoch()):\n        start_t, end_t = times\n"
    "        times = (epoch.datetime_to_number(start_t), epoch.datetime_to_number(end_t))\n    else:\n"
    "        raise TypeError('Times supplied as datetime but no ref_date set')",
    "start_t, end_t = times",
    "assert end_t > start_t, 'End time must be greater than start time'",
    "time_period = end_t - start_t",
    "num_steps = 1 + time_period / timestep",
    "msg = f'Time step {timestep} must be less than time period {time_period}'",
    "assert num_steps >= 1, msg",
    "msg = f'Time step {timestep} must be a factor of time period {time_period}'",
    "assert num_steps % 1 == 0, msg",
    "self.times = np.linspace(start_t, end_t, num=int(num_steps))",
    "self.timestep = timestep",
    "if isinstance(infectious_compartments, str):\n    infectious_compartments = [infectious_compartments]",
    "error_msg = 'Infectious compartments must be a subset of compartments'",
    "assert all((n in compartments for n in infectious_compartments)), error_msg",
]
DATES_MODEL_WANT = {
    "_get_ref_idx": (["self"], ["if self.ref_date:\n    times = ref_times_to_dti(self.ref_date, self.times)\nelse:\n    times = self.times", "return times"]),
    "get_epoch": (["self"], ["if self.ref_date:\n    return Epoch(self.ref_date)\nelse:\n    return None"]),
}
DATES_UTILS_WANT = {
    (None, "ref_times_to_dti"): (["ref_date", "times"], ["return pd.DatetimeIndex([ref_date + timedelta(t) for t in times])"]),
    ("Epoch", "__init__"): (["self", "ref_date", "unit"], ["self.ref_date = ref_date", "self.unit = unit"]),
    ("Epoch", "number_to_datetime"): (["self", "n"], ["return self.ref_date + n * self.unit"]),
    ("Epoch", "datetime_to_number"): (["self", "d"], ["return (d - self.ref_date) / self.unit"]),
}

DATES_LEAN = """
/-- `utils.py::Epoch.datetime_to_number` (exact; the final float rounding of the quotient is not modelled) -/
def datetime_to_number (ref_date unit : Int) (d : Int) : Rat := ((d - ref_date : Int) : Rat) / (unit : Rat)

/-- `utils.py::Epoch.number_to_datetime`: `ref_date + n * unit` (`timedelta.__mul__` rounds the exact product to a whole microsecond) -/
def number_to_datetime (rnd : Rat → Int) (ref_date unit : Int) (n : Rat) : Int := ref_date + rnd (n * (unit : Rat))

/-- `utils.py::ref_times_to_dti`: `[ref_date + timedelta(t) for t in times]` (`timedelta(t)` is `t` days, rounded to a whole microsecond) -/
def ref_times_to_dti (rnd : Rat → Int) (ref_date : Int) (times : List Rat) : List Int :=
  times.map (fun t => ref_date + rnd (t * (dayUnit : Rat)))

/-- the time handling at the head of `model.py::CompartmentalModel.__init__` (the first twelve statements, pinned): `none` stands for an
exception.  `unit` is the unit of the `Epoch` that `get_epoch()` builds (`timedelta(1)` by default); a `datetime` compared with a number
raises `TypeError`; `time_period / timestep` raises `ZeroDivisionError` for a zero step; `num_steps % 1 == 0` is the fractional-part test;
`int(num_steps)` truncates. -/
def init_times (ref_date : Option Int) (unit : Int) (a b : TimeVal) (timestep : Rat) : Option TimeGrid :=
  let times : Option (TimeVal × TimeVal) :=
    match a, b with
    | .date start_t, .date end_t =>
      (match ref_date with
        | some ref => some (.num (datetime_to_number ref unit start_t), .num (datetime_to_number ref unit end_t))
        | none => none)
    | _, _ => some (a, b)
  match times with
  | none => none
  | some (.num start_t, .num end_t) =>
    if ¬ (end_t > start_t) then none
    else if timestep = 0 then none
    else
      let time_period := end_t - start_t
      let num_steps := 1 + time_period / timestep
      if ¬ (num_steps ≥ 1) then none
      else if ¬ (fmod1 num_steps = 0) then none
      else some { refDate := ref_date, times := linspace start_t end_t num_steps.floor.toNat, timestep := timestep }
  | some (_, _) => none

/-- `model.py::CompartmentalModel._get_ref_idx` -/
def _get_ref_idx (rnd : Rat → Int) (self : TimeGrid) : List TimeVal :=
  match self.refDate with
  | some ref_date => (ref_times_to_dti rnd ref_date self.times).map .date
  | none => self.times.map .num

end Summer.Generated.DatesSrc
"""


def gen_dates(mtree, utree, out, report):
    try:
        cls = [n for n in mtree.body if isinstance(n, ast.ClassDef) and n.name == "CompartmentalModel"]
        methods = {n.name: n for n in cls[0].body if isinstance(n, ast.FunctionDef)} if cls else {}
        init = methods.get("__init__")
        if init is None or [a.arg for a in init.args.args] != ["self", "times", "compartments", "infectious_compartments", "timestep", "ref_date"]:
            raise Untranslatable("signature of CompartmentalModel.__init__")
        body = [ast.unparse(st) for st in init.body if not (isinstance(st, ast.Expr) and isinstance(st.value, ast.Constant))]
        if body[:len(INIT_PREFIX)] != INIT_PREFIX:
            k = next((i for i, (a, b_) in enumerate(zip(body, INIT_PREFIX)) if a != b_), min(len(body), len(INIT_PREFIX)))
            raise Untranslatable(f"CompartmentalModel.__init__: statement {k} is not the expected text: " + (body[k][:160] if k < len(body) else "<missing>"))
        # nothing after the pinned prefix may touch the time grid or the reference date
        for later in body[len(INIT_PREFIX):]:
            if any(w in later for w in ("self.times", "self.timestep", "self.ref_date", "ref_date")):
                raise Untranslatable("CompartmentalModel.__init__: a later statement touches the time grid / reference date: " + later[:120])
        def check(fn, label, args, wanted):
            if fn is None:
                raise Untranslatable(f"{label} not found")
            if [a.arg for a in fn.args.args] != args:
                raise Untranslatable(f"signature of {label}")
            b = [ast.unparse(st) for st in fn.body if not (isinstance(st, ast.Expr) and isinstance(st.value, ast.Constant))]
            if b != wanted:
                raise Untranslatable(f"{label} is not the expected text: " + (b[0][:160] if b else "<empty>"))
        for fname, (args, wanted) in DATES_MODEL_WANT.items():
            check(methods.get(fname), "CompartmentalModel." + fname, args, wanted)
        ufuncs = {n.name: n for n in utree.body if isinstance(n, ast.FunctionDef)}
        ucls = {n.name: {m.name: m for m in n.body if isinstance(m, ast.FunctionDef)} for n in utree.body if isinstance(n, ast.ClassDef)}
        for (cname, fname), (args, wanted) in DATES_UTILS_WANT.items():
            fn = ufuncs.get(fname) if cname is None else ucls.get(cname, {}).get(fname)
            check(fn, (cname + "." if cname else "utils.") + fname, args, wanted)
        out.append(DATES_LEAN)
        report["time grid and dates"] = "ok"
    except Untranslatable as e:
        report["time grid and dates"] = "untranslatable: " + str(e)
        out.append("\nend Summer.Generated.DatesSrc\n")
    except Exception as e:
        report["time grid and dates"] = "untranslatable: internal " + type(e).__name__ + ": " + str(e)
        out.append("\nend Summer.Generated.DatesSrc\n")


# ------------------------------------------------------------------------------------------------ util.py: binary search
USRC = "summer2/functions/util.py"
UHEADER = """-- GENERATED by harness/translate/gen_rates.py from /repo (summer2/functions/util.py). Do not edit.
import Summer.Basic
set_option linter.unusedVariables false
namespace Summer.Generated.Util
open Summer

section
variable {α : Type} [Zero α] [LT α] [DecidableLT α]
"""


def gen_util(tree, out, report):
    """`binary_search_sum_ge`: the loop condition, the loop body, the initial state and the final selection, recognised against the expected
    source text and emitted as four definitions (`lax.while_loop` itself is the recursion of the hand model, which `C16Source.bsLoop_unfold`
    shows to satisfy the while-loop equation for exactly this condition and body)"""
    try:
        fn = top_func(tree, "binary_search_sum_ge")
        if arg_names(fn) != ["x", "points"]:
            raise Untranslatable("signature of binary_search_sum_ge")
        body = [ast.unparse(st) for st in fn.body if not (isinstance(st, ast.Expr) and isinstance(st.value, ast.Constant))]
        want = ["def cond(state):\n    low, high = state\n    return high - low > 1",
                "def body(state):\n    low, high = state\n    midpoint = (0.5 * (low + high)).astype(int)\n    update_upper = x < points[midpoint]\n"
                "    low = jnp.where(update_upper, low, midpoint)\n    high = jnp.where(update_upper, midpoint, high)\n    return (low, high)",
                "low, high = lax.while_loop(cond, body, (-1, len(points) - 1))",
                "return lax.cond(x < points[high], lambda: low, lambda: high) + 1"]
        if body != want:
            k = next((i for i, (a, b_) in enumerate(zip(body, want)) if a != b_), min(len(body), len(want)))
            raise Untranslatable(f"binary_search_sum_ge: statement {k} is not the expected text: " + (body[k][:120] if k < len(body) else "<missing>"))
        out.append(
            "/-- `binary_search_sum_ge.cond` -/\n"
            "def bs_cond (low high : Int) : Bool := decide (high - low > 1)\n\n"
            "/-- `binary_search_sum_ge.body` (`(0.5 * (low + high)).astype(int)`: the sum is non-negative whenever the loop runs from `(-1, n - 1)`, "
            "so truncation and floor agree; `points[midpoint]` with JAX index semantics) -/\n"
            "def bs_body (x : α) (points : List α) (low high : Int) : Int × Int :=\n"
            "  let midpoint : Int := (low + high) / 2\n"
            "  let update_upper := decide (x < jget points midpoint)\n"
            "  let low' := if update_upper then low else midpoint\n"
            "  let high' := if update_upper then midpoint else high\n"
            "  (low', high')\n\n"
            "/-- the initial state `(-1, len(points) - 1)` -/\n"
            "def bs_init (points : List α) : Int × Int := (-1, (points.length : Int) - 1)\n\n"
            "/-- `lax.cond(x < points[high], lambda: low, lambda: high) + 1` -/\n"
            "def bs_result (x : α) (points : List α) (low high : Int) : Int := (if x < jget points high then low else high) + 1\n")
        report["binary_search_sum_ge"] = "ok"
    except Untranslatable as e:
        report["binary_search_sum_ge"] = "untranslatable: " + str(e)
    except Exception as e:
        report["binary_search_sum_ge"] = "untranslatable: internal " + type(e).__name__ + ": " + str(e)


# ------------------------------------------------------------------------------------------------ model_runner.py: ModelBackend
BSRC = "summer2/runner/model_runner.py"
BHEADER = """-- GENERATED by harness/translate/gen_rates.py from /repo (summer2/runner/model_runner.py). Do not edit.
import Summer.Model.Run
set_option linter.unusedVariables false
namespace Summer.Generated.BackendSrc
open Summer Summer.Generated Summer.Build Summer.Run

section
variable {α : Type}
"""
BACKEND_RENDERING = """/-- `model_runner.py::ModelBackend.prepare_structural` with `_build_compartment_category_map`, `_precompute_flow_maps`,
`_build_infectious_multipliers_lookup`, `_get_force_idx`, `_get_infection_multiplier_indices` inlined at their call sites (statement by
statement; the comment before each group of `let`s quotes the Python it renders).  `c.idx` is the position of the compartment in
`model.compartments` (`get_runner` calls `_update_compartment_indices()` first); a flow end that is not a compartment of the model
cannot be built through the API and is reported as an error here.  The class tests (`isinstance(f, flows.BaseInfectionFlow)`,
`f.is_death_flow`, `type(f) in (...)`, `type(f) == ...`) are the kind lists of `Generated/Tables.lean`, read from the same statements by
`gen_tables.py`.  The process type 'both' (frequency and density flows together) makes `build_get_infectious_multipliers` raise when the
runner is built: the backend cannot represent it and the last guard stands for that. -/
def prepare_structural (m : Model α) : Res Backend := do
  -- self._iter_non_function_flows = [(i, f) for i, f in enumerate(self.model.flows)]
  let flows := m.flows
  -- f.source.idx / f.dest.idx
  let source_idx ← flows.mapM (fun f => match f.src with
    | none => pure (none : Option Nat)
    | some c => match compIdx m.comps c with
      | some i => pure (some i)
      | none => fail "flow source is not a compartment of the model")
  let dest_idx ← flows.mapM (fun f => match f.dst with
    | none => pure (none : Option Nat)
    | some c => match compIdx m.comps c with
      | some i => pure (some i)
      | none => fail "flow dest is not a compartment of the model")
  -- non_func_pops = np.array([f.source.idx if f.source else 0 for i, f in self._iter_non_function_flows]); self.population_idx = non_func_pops
  let population_idx := source_idx.map (fun o => o.getD 0)
  -- _precompute_flow_maps: for i, f in ...: if f.source: f_neg_map.append((i, f.source.idx)); if f.dest: f_pos_map.append((i, f.dest.idx))
  let f_neg_map := (source_idx.zipIdx.filterMap (fun x => x.1.map (fun s => (x.2, s))))
  let f_pos_map := (dest_idx.zipIdx.filterMap (fun x => x.1.map (fun d => (x.2, d))))
  -- _build_compartment_category_map: for i, category in enumerate(self.model._mixing_categories): cat_idx = [j for j, comp in enumerate(compartments)
  --   if all(comp.has_stratum(k, v) for k, v in category.items())]; all_cat_idx.append(cat_idx)
  let all_cat_idx := m.mixingCats.map (fun category => idxWhere m.comps (fun comp => category.all (fun kv => comp.hasStratum kv.1 kv.2)))
  -- self._population_category_indexer = pop_cat_idx = np.stack(all_cat_idx)   (rows of equal length)
  let w0 := (all_cat_idx.head?.map (·.length)).getD 0
  guardE (all_cat_idx.all (fun r => r.length == w0)) "np.stack: mixing categories of unequal size"
  -- self._category_lookup[j] = i   (inside the same loops: the last category that contains j; `np.empty` elsewhere, read as 0)
  let category_lookup := (List.range m.comps.length).map (fun j =>
    (all_cat_idx.zipIdx.foldl (fun acc r => if r.1.contains j then r.2 else acc) 0))
  let ncats := m.mixingCats.length
  -- for strain in self.model._disease_strains: strain_filter = {'strain': strain} if 'strain' in stratifications else {};
  --   strain_infectious_comps = query_compartments(strain_filter, tags='infectious', as_idx=True)
  let strain_infectious_indexers := m.strains.map (strainInfectiousIdx m)
  --   strain_cat_idx = pop_cat_idx[vcat(pop_cat_idx)]; tlookup[strain_infectious_comps] = range(len(...)); strain_cat_idx = tlookup[strain_cat_idx];
  --   strain_cat_idx = strain_cat_idx.reshape((ncats, int(strain_cat_idx.size / ncats)))
  let strain_category_indexers ← strain_infectious_indexers.mapM (fun strain_infectious_comps => do
    let flat := all_cat_idx.flatten.filter (fun j => strain_infectious_comps.contains j)
    let loc := flat.map (fun j => (indexOf? strain_infectious_comps j).getD 0)
    let w := loc.length / ncats
    guardE (ncats * w == loc.length) "reshape: infectious compartments do not divide into categories"
    pure (reshapeRows loc ncats w))
  -- self.infectious_flow_indices = np.array([i for i, f in ... if isinstance(f, flows.BaseInfectionFlow)])
  let infectious_flow_indices := idxWhere flows (fun f => infectionKinds.contains f.kind)
  -- _build_infectious_multipliers_lookup: for i, idx in enumerate(self.infectious_flow_indices): f = self.model.flows[idx];
  --   cat_idx, strain = self._get_infection_multiplier_indices(f.source, f.dest)   [idx = self._category_lookup[source.idx];
  --   strain = dest.strata.get('strain', DEFAULT_DISEASE_STRAIN)]; strain_idx = self.model._disease_strains.index(strain); lookups.append([strain_idx, cat_idx])
  let inf_flows := flows.filter (fun f => infectionKinds.contains f.kind)
  let lookups ← inf_flows.mapM (fun f => do
    let cat_idx := match f.src with
      | some c => category_lookup.getD ((compIdx m.comps c).getD 0) 0
      | none => 0
    let strain := match f.dst with
      | some c => (alookup c.strata "strain").getD "default"
      | none => "default"
    match indexOf? m.strains strain with
    | some strain_idx => pure (strain_idx, cat_idx)
    | none => fail "strain of infection flow destination is not a model strain")
  --   if isinstance(f, InfectionFrequencyFlow): has_freq = True elif isinstance(f, InfectionDensityFlow): has_dens = True
  let has_freq := flows.any (fun f => f.kind == .infFreq)
  let has_dens := flows.any (fun f => f.kind == .infDens)
  -- 'both' -> build_get_infectious_multipliers raises NotImplementedError
  guardE (!(has_freq && has_dens)) "no support for mixed infection frequency/density"
  pure { nComps := m.comps.length, nFlows := flows.length, populationIdx := population_idx,
         -- self._non_pop_flow_idx / _crude_birth_idx / _replacement_flow_idx / death_flow_indices
         nonPopIdx := idxWhere flows (fun f => nonPopKinds.contains f.kind),
         crudeIdx := idxWhere flows (fun f => crudeKinds.contains f.kind),
         replIdx := idxWhere flows (fun f => replKinds.contains f.kind),
         deathIdx := idxWhere flows (fun f => deathKinds.contains f.kind),
         infFlowIdx := infectious_flow_indices, posMap := f_pos_map, negMap := f_neg_map, catIdx := all_cat_idx,
         categoryLookup := category_lookup, strainInfIdx := strain_infectious_indexers, strainCatIdx := strain_category_indexers,
         -- self._infect_strain_lookup_idx = self._full_table[:, 0]; self._infect_cat_lookup_idx = self._full_table[:, 1]
         infStrainLookup := lookups.map (·.1), infCatLookup := lookups.map (·.2),
         -- self._infection_process_type: 'freq' / 'dens' / None
         procType := if has_freq then some true else if has_dens then some false else none }
"""


def gen_backend(tree, out, report):
    """`ModelBackend` (all methods but `__init__`): every statement is compared with the pinned text in `model_runner_pins.json`; the emitted
    rendering is fixed"""
    try:
        pins = json.load(open(os.path.join(os.path.dirname(os.path.abspath(__file__)), "model_runner_pins.json")))
        cls = [n for n in tree.body if isinstance(n, ast.ClassDef) and n.name == "ModelBackend"]
        if not cls:
            raise Untranslatable("class ModelBackend not found")
        methods = {n.name: n for n in cls[0].body if isinstance(n, ast.FunctionDef) and n.name != "__init__"}
        if sorted(methods) != sorted(pins):
            raise Untranslatable("ModelBackend methods are " + str(sorted(methods)))
        for fname, (args, wanted) in pins.items():
            fn = methods[fname]
            if [a.arg for a in fn.args.args] != args:
                raise Untranslatable(f"signature of ModelBackend.{fname}")
            body = [ast.unparse(st) for st in fn.body if not (isinstance(st, ast.Expr) and isinstance(st.value, ast.Constant))]
            if body != wanted:
                k = next((i for i, (a, b_) in enumerate(zip(body, wanted)) if a != b_), min(len(body), len(wanted)))
                raise Untranslatable(f"ModelBackend.{fname}: statement {k} is not the expected text: " + (body[k][:120] if k < len(body) else "<missing>"))
        out.append(BACKEND_RENDERING)
        report["ModelBackend.prepare_structural"] = "ok"
    except Untranslatable as e:
        report["ModelBackend.prepare_structural"] = "untranslatable: " + str(e)
    except Exception as e:
        report["ModelBackend.prepare_structural"] = "untranslatable: internal " + type(e).__name__ + ": " + str(e)

IHEADER = """-- GENERATED by harness/translate/gen_rates.py from /repo (summer2/runner/jax/stratify.py). Do not edit.
import Summer.Model.JaxPrelude
import Summer.Model.Run
set_option linter.unusedVariables false
namespace Summer.Generated.InitPop
open Summer Summer.Run

section
variable {α : Type} [Zero α] [One α] [Add α] [Sub α] [Mul α] [Div α] [LT α] [DecidableLT α]
"""


# ------------------------------------------------------------------------------------------------ mixing matrix
MSRC = "summer2/parameters/param_impl.py"


def gen_mixing(tree, out, report):
    def attempt(key, thunk):
        try:
            out.append(thunk())
            report[key] = "ok"
        except Untranslatable as e:
            report[key] = "untranslatable: " + str(e)
        except Exception as e:
            report[key] = "untranslatable: internal " + type(e).__name__ + ": " + str(e)

    def t_mix():
        fp = top_func(tree, "finalize_parameters")
        stmts = fp.body
        src = [ast.unparse(st) for st in stmts]
        # the matrices are collected in the order of model._stratifications
        try:
            i0 = src.index("mixing_matrices = []")
        except ValueError:
            raise Untranslatable("finalize_parameters: `mixing_matrices = []` not found")
        loop = stmts[i0 + 1]
        if not (isinstance(loop, ast.For) and ast.unparse(loop.target) == "s" and ast.unparse(loop.iter) == "model._stratifications"):
            raise Untranslatable("finalize_parameters: the matrices must be collected by `for s in model._stratifications`")
        mm_if = [x for x in loop.body if isinstance(x, ast.If) and ast.unparse(x.test) == "s.mixing_matrix is not None"]
        if len(mm_if) != 1:
            raise Untranslatable("finalize_parameters: `if s.mixing_matrix is not None`")
        body_src = [ast.unparse(x) for x in mm_if[0].body]
        if body_src[0] != "param = get_modelparameter_from_param(s.mixing_matrix, True)" or body_src[-1] != "mixing_matrices.append(param.obj)" \
                or sum(1 for b_ in body_src if "mixing_matrices" in b_) != 1:
            raise Untranslatable("finalize_parameters: a stratification's matrix must be appended once, as given")
        for other in stmts[:i0] + stmts[i0 + 2:]:
            if "mixing_matrices" in ast.unparse(other) and other is not stmts[i0 + 2]:
                raise Untranslatable("finalize_parameters: mixing_matrices is touched outside the collection loop and the dispatch")
        disp = stmts[i0 + 2]
        ok = (isinstance(disp, ast.If) and ast.unparse(disp.test) == "len(mixing_matrices) == 0" and len(disp.orelse) == 1 and isinstance(disp.orelse[0], ast.If)
              and ast.unparse(disp.orelse[0].test) == "len(mixing_matrices) == 1")
        if not ok:
            raise Untranslatable("finalize_parameters: dispatch on len(mixing_matrices)")
        b0 = [ast.unparse(x) for x in disp.body]
        if b0[0] != "param = get_modelparameter_from_param(Data(fnp.array([[1.0]])))" or "model.mixing_matrix = param" not in b0:
            raise Untranslatable("finalize_parameters: the default mixing matrix must be [[1.0]]")
        b1 = [ast.unparse(x) for x in disp.orelse[0].body]
        if b1[:2] != ["mm = mixing_matrices[0]", "param = get_modelparameter_from_param(defer(assign)(mm))"] or "model.mixing_matrix = param" not in b1:
            raise Untranslatable("finalize_parameters: a single mixing matrix must be used as it is")
        e2 = disp.orelse[0].orelse
        fns = [x for x in e2 if isinstance(x, ast.FunctionDef)]
        b2 = [ast.unparse(x) for x in e2 if not isinstance(x, ast.FunctionDef)]
        if len(fns) != 1 or b2[:2] != [f"final_mat_func = defer({fns[0].name})(*mixing_matrices)", "param = get_modelparameter_from_param(final_mat_func)"] \
                or "model.mixing_matrix = param" not in b2:
            raise Untranslatable("finalize_parameters: several mixing matrices must be combined by the nested function applied to *mixing_matrices")
        fn = fns[0]
        a = fn.args
        if len(a.args) != 1 or a.vararg is None or a.kwarg or a.kwonlyargs:
            raise Untranslatable("signature of " + fn.name)
        cx = Cx({a.args[0].arg: (a.args[0].arg, "M"), a.vararg.arg: (a.vararg.arg, "ML")}, {})
        body = block(fn.body, cx, lambda c: "", 1)
        if cx.env.get("@return", (None, None))[1] != "M":
            raise Untranslatable(fn.name + " does not return a matrix")
        o = emit("compute_final_matrix", f"({a.args[0].arg} : Matrix α) ({a.vararg.arg} : List (Matrix α))", body, "Matrix α",
                 f"`param_impl.py::finalize_parameters.{fn.name}`")
        o += ("\n/-- `param_impl.py::finalize_parameters`: `model.mixing_matrix` from the stratifications' matrices, collected in the order of "
              "`model._stratifications` (none: `[[1.0]]`; one: itself; several: `compute_final_matrix(*mixing_matrices)`) -/\n"
              "def final_mixing_matrix (mixing_matrices : List (Matrix α)) : Matrix α :=\n"
              "  match mixing_matrices with\n  | [] => [[(1 : α)]]\n  | [mm] => mm\n  | base_matrix :: args => compute_final_matrix base_matrix args\n")
        return o
    attempt("final_mixing_matrix", t_mix)

    def t_weights():
        fn = top_func(tree, "map_flow_keys")
        if [a.arg for a in fn.args.args] != ["m"]:
            raise Untranslatable("signature of map_flow_keys")
        body = [ast.unparse(st) for st in fn.body if not (isinstance(st, ast.Expr) and isinstance(st.value, ast.Constant))]
        wanted = [
            "from summer2.adjust import Overwrite",
            "realised_flows = {}",
            "for i, f in enumerate(m.flows):\n    full_flow = [f.param.obj]\n    for a in f.adjustments:\n        if isinstance(a, Overwrite):\n"
            "            full_flow = [a.param.obj]\n        else:\n            full_flow.append(a.param.obj)\n    out_func = full_flow[0]\n"
            "    for fparam in full_flow[1:]:\n        if isinstance(fparam, Data):\n            if isinstance(fparam.data, Real):\n"
            "                fparam = fparam.data\n        out_func = out_func * fparam\n    realised_flows[i] = GraphObjectParameter(out_func)",
            "return realised_flows"]
        if body != wanted:
            k = next((i for i, (a, b_) in enumerate(zip(body, wanted)) if a != b_), min(len(body), len(wanted)))
            raise Untranslatable(f"map_flow_keys: statement {k} is not the expected text: " + (body[k][:160] if k < len(body) else "<missing>"))
        return ("/-- `param_impl.py::map_flow_keys` (pinned text): per flow, the chain of graph objects starts at the flow's parameter, an `Overwrite` adjustment "
                "restarts it, every other adjustment is appended; the realised weight is the left-to-right product of the chain (unboxing a scalar `Data` "
                "before multiplying does not change the product).  The dict keyed by flow index is the list in flow order. -/\n"
                "def map_flow_keys (flows : List (Flow α)) : List (Expr α) :=\n"
                "  flows.map (fun f =>\n"
                "    let full_flow := f.adjs.foldl (fun (full_flow : List (Expr α)) a =>\n"
                "      match a with\n      | .ovr e => [e]\n      | .mul e => full_flow ++ [e]) [f.param]\n"
                "    let out_func := full_flow.headD f.param\n"
                "    full_flow.tail.foldl (fun (out_func : Expr α) fparam => Expr.mul out_func fparam) out_func)\n")
    attempt("map_flow_keys", t_weights)


MHEADER = """-- GENERATED by harness/translate/gen_rates.py from /repo (summer2/parameters/param_impl.py). Do not edit.
import Summer.Model.JaxPrelude
import Summer.Model.Run
set_option linter.unusedVariables false
namespace Summer.Generated.Mixing
open Summer Summer.Run

section
variable {α : Type} [Zero α] [One α] [Add α] [Sub α] [Mul α] [Div α] [LT α] [DecidableLT α]
"""

DHEADER = """-- GENERATED by harness/translate/gen_rates.py from /repo (summer2/runner/jax/derived_outputs.py). Do not edit.
import Summer.Model.JaxPrelude
import Summer.Model.Lit
import Summer.Model.Run
import Summer.Model.Derived
set_option linter.unusedVariables false
namespace Summer.Generated.DerivedOut
open Summer Summer.Run

section
variable {α : Type} [Zero α] [One α] [Add α] [Sub α] [Mul α] [Div α] [LT α] [DecidableLT α]
"""

HEADER = """-- GENERATED by harness/translate/gen_rates.py from /repo (summer2/runner/jax/model_impl.py). Do not edit.
import Summer.Model.JaxPrelude
import Summer.Model.PyPrelude
import Summer.Model.Run
set_option linter.unusedVariables false
namespace Summer.Generated.Rates
open Summer Summer.Run

section
variable {α γ δ κ : Type} [Zero α] [One α] [Add α] [Sub α] [Mul α] [Div α] [LT α] [DecidableLT α]
"""


def main():
    report = {}
    out = [HEADER]
    try:
        tree = parse()
        gen(tree, out, report)
        gen_infectiousness(tree, out, report)
    except Exception as e:
        report["model_impl.py"] = "untranslatable: " + type(e).__name__ + ": " + str(e)
    out.append("end\nend Summer.Generated.Rates\n")
    os.makedirs(OUT, exist_ok=True)
    text = "\n".join(out)
    path = os.path.join(OUT, "Rates.lean")
    old = open(path).read() if os.path.exists(path) else None
    if old != text:
        with open(path, "w") as f:
            f.write(text)
    # derived outputs
    dout = [DHEADER]
    try:
        with open(os.path.join(REPO, DSRC)) as f:
            dtree = ast.parse(f.read())
        gen_derived(dtree, dout, report)
    except Exception as e:
        report["derived_outputs.py"] = "untranslatable: " + type(e).__name__ + ": " + str(e)
    dout.append("end\nend Summer.Generated.DerivedOut\n")
    dtext = "\n".join(dout)
    dpath = os.path.join(OUT, "DerivedOut.lean")
    old = open(dpath).read() if os.path.exists(dpath) else None
    if old != dtext:
        with open(dpath, "w") as f:
            f.write(dtext)
    # initial population
    iout = [IHEADER]
    try:
        with open(os.path.join(REPO, ISRC)) as f:
            itree = ast.parse(f.read())
        gen_initpop(itree, iout, report)
        with open(os.path.join(REPO, PSRC)) as f:
            ptree = ast.parse(f.read())
        gen_rebalance(ptree, iout, report)
    except Exception as e:
        report["stratify.py"] = "untranslatable: " + type(e).__name__ + ": " + str(e)
    iout.append("end\nend Summer.Generated.InitPop\n")
    itext = "\n".join(iout)
    ipath = os.path.join(OUT, "InitPop.lean")
    old = open(ipath).read() if os.path.exists(ipath) else None
    if old != itext:
        with open(ipath, "w") as f:
            f.write(itext)
    # mixing matrix
    mout = [MHEADER]
    try:
        with open(os.path.join(REPO, MSRC)) as f:
            mtree = ast.parse(f.read())
        gen_mixing(mtree, mout, report)
    except Exception as e:
        report["param_impl.py"] = "untranslatable: " + type(e).__name__ + ": " + str(e)
    mout.append("end\nend Summer.Generated.Mixing\n")
    mtext = "\n".join(mout)
    mpath = os.path.join(OUT, "Mixing.lean")
    old = open(mpath).read() if os.path.exists(mpath) else None
    if old != mtext:
        with open(mpath, "w") as f:
            f.write(mtext)
    # model.py glue
    gout = [GHEADER]
    try:
        with open(os.path.join(REPO, GSRC)) as f:
            gtree = ast.parse(f.read())
        gen_glue(gtree, gout, report)
    except Exception as e:
        report["model.py"] = "untranslatable: " + type(e).__name__ + ": " + str(e)
    gout.append("end\nend Summer.Generated.Glue\n")
    gtext = "\n".join(gout)
    gpath = os.path.join(OUT, "Glue.lean")
    old = open(gpath).read() if os.path.exists(gpath) else None
    if old != gtext:
        with open(gpath, "w") as f:
            f.write(gtext)
    # inspect.py
    iout = [QHEADER]
    try:
        with open(os.path.join(REPO, QSRC)) as f:
            itree = ast.parse(f.read())
        with open(os.path.join(REPO, GSRC)) as f:
            gtree2 = ast.parse(f.read())
        gen_inspect(itree, gtree2, iout, report)
    except Exception as e:
        report["inspect.py"] = "untranslatable: " + type(e).__name__ + ": " + str(e)
    iout.append("end\nend Summer.Generated.Inspect\n")
    itext = "\n".join(iout)
    ipath = os.path.join(OUT, "Inspect.lean")
    old = open(ipath).read() if os.path.exists(ipath) else None
    if old != itext:
        with open(ipath, "w") as f:
            f.write(itext)
    # stratification.py api
    sout = [SHEADER]
    try:
        with open(os.path.join(REPO, SSRC)) as f:
            stree = ast.parse(f.read())
        gen_stratapi(stree, sout, report)
    except Exception as e:
        report["stratification.py"] = "untranslatable: " + type(e).__name__ + ": " + str(e)
    sout.append("end\nend Summer.Generated.StratApi\n")
    stext = "\n".join(sout)
    spath = os.path.join(OUT, "StratApi.lean")
    old = open(spath).read() if os.path.exists(spath) else None
    if old != stext:
        with open(spath, "w") as f:
            f.write(stext)
    # model.py session
    seout = [SESS_HEADER]
    try:
        with open(os.path.join(REPO, GSRC)) as f:
            setree = ast.parse(f.read())
        gen_session(setree, seout, report)
    except Exception as e:
        report["model.py session"] = "untranslatable: " + type(e).__name__ + ": " + str(e)
    seout.append("end\nend Summer.Generated.SessionSrc\n")
    setext = "\n".join(seout)
    sepath = os.path.join(OUT, "SessionSrc.lean")
    old = open(sepath).read() if os.path.exists(sepath) else None
    if old != setext:
        with open(sepath, "w") as f:
            f.write(setext)
    # time grid and dates
    dtout = [DATES_HEADER]
    try:
        with open(os.path.join(REPO, GSRC)) as f:
            dmtree = ast.parse(f.read())
        with open(os.path.join(REPO, "summer2/utils.py")) as f:
            dutree = ast.parse(f.read())
        gen_dates(dmtree, dutree, dtout, report)
    except Exception as e:
        report["time grid and dates"] = "untranslatable: " + type(e).__name__ + ": " + str(e)
        dtout.append("\nend Summer.Generated.DatesSrc\n")
    dttext = "\n".join(dtout)
    dtpath = os.path.join(OUT, "DatesSrc.lean")
    old = open(dtpath).read() if os.path.exists(dtpath) else None
    if old != dttext:
        with open(dtpath, "w") as f:
            f.write(dttext)
    # pipeline (filled by gen_session)
    pptext = "\n".join([PIPE_HEADER] + PIPE_OUT + ["end\nend Summer.Generated.PipelineSrc\n"])
    pppath = os.path.join(OUT, "PipelineSrc.lean")
    old = open(pppath).read() if os.path.exists(pppath) else None
    if old != pptext:
        with open(pppath, "w") as f:
            f.write(pptext)
    # util.py
    uout = [UHEADER]
    try:
        with open(os.path.join(REPO, USRC)) as f:
            utree = ast.parse(f.read())
        gen_util(utree, uout, report)
    except Exception as e:
        report["util.py"] = "untranslatable: " + type(e).__name__ + ": " + str(e)
    uout.append("end\nend Summer.Generated.Util\n")
    utext = "\n".join(uout)
    upath = os.path.join(OUT, "Util.lean")
    old = open(upath).read() if os.path.exists(upath) else None
    if old != utext:
        with open(upath, "w") as f:
            f.write(utext)
    # model_runner.py
    bout = [BHEADER]
    try:
        with open(os.path.join(REPO, BSRC)) as f:
            btree = ast.parse(f.read())
        gen_backend(btree, bout, report)
    except Exception as e:
        report["model_runner.py"] = "untranslatable: " + type(e).__name__ + ": " + str(e)
    bout.append("end\nend Summer.Generated.BackendSrc\n")
    btext = "\n".join(bout)
    bpath = os.path.join(OUT, "BackendSrc.lean")
    old = open(bpath).read() if os.path.exists(bpath) else None
    if old != btext:
        with open(bpath, "w") as f:
            f.write(btext)
    print(json.dumps(report))


if __name__ == "__main__":
    main()
