#!/usr/bin/env python3
"""Structural translator: regenerates lean/Summer/Generated/Struct.lean from /repo's working tree.

Translates, statement by statement with Python's `ast` (the code is never imported or executed), the methods that
decide WHICH compartments / flows exist and match:

  compartment.py     Compartment.is_match, has_strata, _has_strata, has_stratum, has_name, has_name_in_list,
                     stratify, serialize (and the `_strata` / `_str` fields set by `__init__`)
  flows.py           BaseFlow.is_match; BaseEntryFlow / BaseExitFlow / BaseTransitionFlow / AbsoluteFlow `.stratify`
                     (through `copy` -> `__class__(**kwargs)` -> each concrete class's `__init__`)
  stratification.py  Stratification.get_flow_adjustment, is_ageing, is_strain, _stratify_compartments
                     (new compartment list and the four index arrays used to scatter the initial population)

into Lean definitions over the hand model's data types (`Comp`, `Flow α`, `Strat α`) and the Python vocabulary of
`Summer/Model/PyPrelude.lean`.  `Summer/Props/C04Source.lean`, `C13Source.lean` and `C12Source.lean` prove each
generated definition equal to the hand-written definition the property theorems are about, so editing the source
text of one of these methods changes a definition a theorem depends on.

Method: a typed, continuation-passing translation of a small statement language
  assignments, `assert`, `if`/`else`, `for` (over a list; loop-carried variables become the accumulator of a
  `foldl` / `foldlM`), `continue`, `return`, `.append`, `+=`; expressions over str / bool / dict[str,str] /
  frozenset(items) / lists / None-able values, with Python truthiness spelled out per static type and None-able
  values dereferenced only where a preceding test in the same `and` / `or` / `if` established they are not None
  (otherwise the site is refused).
Everything outside the subset raises `Untranslatable`: nothing is emitted for that function and the Lean build
fails on the missing constant (handled by the checks as a broken obligation, never silently skipped).

Typing annotations for the translated methods (SIGS below) and the attribute table (ATTRS) are part of the
translator, i.e. of the trusted base."""
import ast, os, sys, json

REPO = os.environ.get("SUMMER2_REPO", "/repo")
OUT = os.environ.get("GEN_OUT") or os.path.join(os.path.dirname(os.path.abspath(__file__)), "..", "..", "lean", "Summer", "Generated")


class Untranslatable(Exception):
    pass


# ------------------------------------------------------------------------------------------------ types
def Opt(t): return ("Opt", t)
def Lst(t): return ("List", t)
def Tup(*ts): return ("Tup", tuple(ts))

ADJDICT = "AdjDict"          # dict[str, Optional[Adjustment]]
FADECL = Tup(ADJDICT, "Strata", "Strata")
FADECL5 = Tup(ADJDICT, "Strata", "Strata", "Strata", "Strata")


RECORDS = {
    "FlowReq": {"flow_name": "Str", "source_strata": "Strata", "dest_strata": "Strata", "raw_results": "Bool"},
    "CompReq": {"compartments": ("List", "Str"), "strata": "Strata"},
}


def lean_type(t):
    if isinstance(t, tuple):
        if t[0] == "Opt": return f"(Option {lean_type(t[1])})"
        if t[0] == "List": return f"(List {lean_type(t[1])})"
        if t[0] == "Tup": return "(" + " × ".join(lean_type(x) for x in t[1]) + ")"
    return {"Str": "String", "Bool": "Bool", "Nat": "Nat", "Num": "α", "Strata": "Strata", "Comp": "Comp", "Flow": "(Flow α)",
            "Strat": "(Strat α)", "Adj": "(Adj α)", "ExprBox": "(Expr α)", ADJDICT: "(List (String × Option (Adj α)))", "Expr": "(Expr α)",
            "IdxDict": "(List (String × List Nat))"}[t]


def variant_name(t):
    if isinstance(t, tuple) and t[0] == "List":
        return variant_name(t[1]) + "s"
    return t.lower()


def is_listlike(t):
    return t in ("Strata", ADJDICT, "IdxDict") or (isinstance(t, tuple) and t[0] == "List")


# attribute table: (receiver type, attribute) -> (lean text with {0} = receiver, type)   | None = not modelled
ATTRS = {
    ("Comp", "name"): ("{0}.name", "Str"),
    ("Comp", "strata"): ("{0}.strata", "Strata"),
    ("Flow", "name"): ("{0}.name", "Str"),
    ("Flow", "param"): ("{0}.param", "ExprBox"),
    ("ExprBox", "obj"): ("{0}", "Expr"),
    ("Adj", "param"): ("(Adj.expr {0})", "ExprBox"),
    ("Flow", "adjustments"): ("{0}.adjs", Lst("Adj")),
    ("Flow", "source"): ("{0}.src", Opt("Comp")),
    ("Flow", "dest"): ("{0}.dst", Opt("Comp")),
    ("Flow", "_is_birth_flow"): ("(Py.isBirthFlow {0})", "Bool"),
    ("Strat", "name"): ("{0}.name", "Str"),
    ("Strat", "strata"): ("{0}.strata", Lst("Str")),
    ("Strat", "compartments"): ("(Py.stratCompartments {0})", Lst("Comp")),
    ("Strat", "_validate"): ("true", "Bool"),
}
UNMODELLED_FIELDS = {"tags", "idx", "find_infectious_multiplier"}


class Ctx:
    """translation context of one function"""
    def __init__(self, tr, cls, res_mode, self_type, known_some=()):
        self.tr = tr
        self.cls = cls
        self.res = res_mode
        self.env = {}                    # python name -> (lean text, type)
        self.known = set(known_some)     # unparsed expressions known to be truthy / not None
        self.counter = [0]
        self.self_type = self_type

    def child(self):
        c = Ctx(self.tr, self.cls, self.res, self.self_type, self.known)
        c.env = dict(self.env)
        c.counter = self.counter
        for a in ("in_loop", "loop_k", "ret_types", "fn", "memo", "recorded"):
            if hasattr(self, a):
                setattr(c, a, getattr(self, a))
        return c

    def fresh(self, base):
        self.counter[0] += 1
        return f"{base}_{self.counter[0]}"


class Translator:
    def __init__(self):
        self.trees = {}
        self.notes = []

    def tree(self, rel):
        if rel not in self.trees:
            with open(os.path.join(REPO, "summer2", rel)) as f:
                self.trees[rel] = ast.parse(f.read())
        return self.trees[rel]

    def cls(self, rel, name):
        for n in self.tree(rel).body:
            if isinstance(n, ast.ClassDef) and n.name == name:
                return n
        raise Untranslatable(f"class {name} not found in {rel}")

    def method(self, rel, cname, mname):
        for n in self.cls(rel, cname).body:
            if isinstance(n, ast.FunctionDef) and n.name == mname:
                return n
        raise Untranslatable(f"{cname}.{mname} not found in {rel}")

    def has_method(self, rel, cname, mname):
        return any(isinstance(n, ast.FunctionDef) and n.name == mname for n in self.cls(rel, cname).body)

    def bases(self, rel, cname):
        return [b.id for b in self.cls(rel, cname).bases if isinstance(b, ast.Name)]

    def resolve(self, rel, cname, mname):
        """method resolution along single inheritance inside one file"""
        c = cname
        while True:
            if self.has_method(rel, c, mname):
                return c
            bs = [b for b in self.bases(rel, c) if any(isinstance(n, ast.ClassDef) and n.name == b for n in self.tree(rel).body)]
            if not bs:
                raise Untranslatable(f"{cname}.{mname}: not found along the class hierarchy")
            c = bs[0]

    def class_attr(self, rel, cname, attr):
        c = cname
        while True:
            for n in self.cls(rel, c).body:
                if isinstance(n, ast.Assign) and len(n.targets) == 1 and isinstance(n.targets[0], ast.Name) and n.targets[0].id == attr:
                    return n.value
            bs = [b for b in self.bases(rel, c) if any(isinstance(n, ast.ClassDef) and n.name == b for n in self.tree(rel).body)]
            if not bs:
                raise Untranslatable(f"class attribute {cname}.{attr} not found")
            c = bs[0]

    # ---------------------------------------------------------------------------------------- truthiness
    def truthy(self, t):
        s, ty = t
        if ty == "Bool":
            return s
        if is_listlike(ty):
            return f"(Py.truthyL {s})"
        if isinstance(ty, tuple) and ty[0] == "Opt":
            if is_listlike(ty[1]):
                return f"(Py.truthyOptL {s})"
            return f"({s}).isSome"
        if ty in ("Comp", "Flow", "Adj", "Strat"):
            return "true"
        raise Untranslatable(f"truthiness of type {ty}: {s}")

    def narrow_key(self, n):
        """expression whose truthiness a test establishes (for None-able values)"""
        if isinstance(n, (ast.Name, ast.Attribute)):
            return ast.unparse(n)
        return None

    # ---------------------------------------------------------------------------------------- expressions
    def expr(self, n, cx):
        if isinstance(n, ast.Constant):
            if isinstance(n.value, bool):
                return ("true" if n.value else "false", "Bool")
            if isinstance(n.value, str):
                return (json.dumps(n.value), "Str")
            if n.value is None:
                return ("none", Opt("?"))
            if isinstance(n.value, (int, float)) and float(n.value) == int(n.value):
                return (str(int(n.value)), "NatLit")
            raise Untranslatable("constant " + repr(n.value))
        if isinstance(n, ast.Name):
            if n.id in cx.env:
                s, ty = cx.env[n.id]
                if isinstance(ty, tuple) and ty[0] == "Opt" and n.id in cx.known:
                    return self.deref((s, ty))
                return (s, ty)
            raise Untranslatable("unknown name " + n.id)
        if isinstance(n, ast.Attribute):
            return self.attribute(n, cx)
        if isinstance(n, ast.JoinedStr):
            parts = []
            for v in n.values:
                if isinstance(v, ast.Constant):
                    parts.append(json.dumps(v.value))
                elif isinstance(v, ast.FormattedValue) and v.conversion == -1 and v.format_spec is None:
                    s, ty = self.expr(v.value, cx)
                    if ty != "Str":
                        raise Untranslatable("f-string of non-string " + ast.unparse(v.value))
                    parts.append(s)
                else:
                    raise Untranslatable("f-string " + ast.unparse(n))
            return ("(" + " ++ ".join(parts) + ")", "Str")
        if isinstance(n, ast.UnaryOp) and isinstance(n.op, ast.Not):
            return (f"(!{self.truthy(self.expr_raw(n.operand, cx))})", "Bool")
        if isinstance(n, ast.BoolOp):
            return self.boolop(n, cx)
        if isinstance(n, ast.Compare):
            return self.compare(n, cx)
        if isinstance(n, ast.Call):
            return self.call(n, cx)
        if isinstance(n, ast.List):
            return self.list_literal(n, cx)
        if isinstance(n, ast.Dict):
            return self.dict_literal(n, cx)
        if isinstance(n, ast.BinOp) and isinstance(n.op, ast.Div):
            a, b = self.expr(n.left, cx), self.expr(n.right, cx)
            if a[1] == "NatLit" and b[1] == "Nat":
                return (f"(({a[0]} : α) / (({b[0]} : Nat) : α))", "Num")
            raise Untranslatable("division " + ast.unparse(n))
        if isinstance(n, (ast.ListComp, ast.GeneratorExp)):
            return self.listcomp(n, cx)
        if isinstance(n, ast.Subscript) and isinstance(n.slice, ast.Constant) and n.slice.value == 0:
            base = self.expr(n.value, cx)
            if isinstance(base[1], tuple) and base[1][0] == "List" and base[1][1] == "Expr":
                # `l[0]` raises IndexError on an empty list; the tie theorem shows the list is never empty (the fallback is never used)
                return (f"(Py.headOr {base[0]} {cx.env['f'][0]}.param)", "Expr")
            raise Untranslatable("subscript " + ast.unparse(n))
        if isinstance(n, ast.Subscript) and isinstance(n.slice, ast.Slice) and n.slice.upper is None and n.slice.step is None \
                and isinstance(n.slice.lower, ast.Constant) and isinstance(n.slice.lower.value, int):
            base = self.expr(n.value, cx)
            if isinstance(base[1], tuple) and base[1][0] == "List":
                return (f"({base[0]}.drop {n.slice.lower.value})", base[1])
            raise Untranslatable("slice " + ast.unparse(n))
        if isinstance(n, ast.BinOp) and isinstance(n.op, ast.Mult):
            a, b = self.expr(n.left, cx), self.expr(n.right, cx)
            if a[1] == "Expr" and b[1] == "Expr":
                return (f"(Expr.mul {a[0]} {b[0]})", "Expr")
            raise Untranslatable("product " + ast.unparse(n))
        if isinstance(n, ast.Subscript) and isinstance(n.value, ast.Name) and isinstance(n.slice, ast.Constant) and isinstance(n.slice.value, str):
            base = cx.env.get(n.value.id)
            if base and isinstance(base[1], tuple) and base[1][0] == "Rec":
                flds = RECORDS[base[1][1]]
                if n.slice.value in flds:
                    return (f"{base[0]}_{n.slice.value}", flds[n.slice.value])
            raise Untranslatable("subscript " + ast.unparse(n))
        raise Untranslatable("expression " + ast.unparse(n))

    def expr_raw(self, n, cx):
        """like expr but never dereferences a None-able name (used where only truthiness is needed)"""
        if isinstance(n, ast.Name) and n.id in cx.env:
            return cx.env[n.id]
        if isinstance(n, ast.Attribute):
            return self.attribute(n, cx, raw=True)
        return self.expr(n, cx)

    def deref(self, t):
        s, ty = t
        inner = ty[1]
        if inner == "Comp":
            return (f"(Py.the {s})", "Comp")
        if is_listlike(inner):
            return (f"(Py.theL {s})", inner)
        raise Untranslatable(f"dereference of None-able {inner}")

    def attribute(self, n, cx, raw=False):
        # fields defined by __init__ of Compartment and inlined: self._strata, self._str
        key = ast.unparse(n)
        base = self.expr(n.value, cx)
        bty = base[1]
        if isinstance(bty, tuple) and bty[0] == "Opt":
            raise Untranslatable(f"attribute {n.attr} of a value that may be None: {key}")
        if bty == "Comp" and n.attr in ("_strata", "_str"):
            return self.init_field("compartment.py", "Compartment", n.attr, base, cx)
        if (bty, n.attr) in ATTRS:
            s, ty = ATTRS[(bty, n.attr)]
            s = s.format(base[0])
            # class invariants: BaseEntryFlow.dest, BaseExitFlow.source, BaseTransitionFlow.source/dest are Compartments
            if isinstance(ty, tuple) and ty[0] == "Opt" and not raw and key in cx.known:
                return self.deref((s, ty))
            return (s, ty)
        raise Untranslatable(f"attribute {key} (receiver type {bty})")

    def init_field(self, rel, cname, field, recv, cx):
        init = self.method(rel, cname, "__init__")
        for st in init.body:
            if isinstance(st, ast.Assign) and len(st.targets) == 1 and ast.unparse(st.targets[0]) == f"self.{field}":
                c2 = Ctx(self, cname, False, "Comp")
                c2.env["self"] = recv
                return self.expr(st.value, c2)
        raise Untranslatable(f"{cname}.__init__ does not set self.{field}")

    def boolop(self, n, cx):
        """`and` / `or` with Python truthiness; a None-test narrows the operands to its right"""
        is_and = isinstance(n.op, ast.And)
        cx2 = cx.child()
        parts = []
        for v in n.values:
            t = self.expr_raw(v, cx2) if self.narrow_key(v) else self.expr(v, cx2)
            parts.append(self.truthy(t))
            if is_and:
                k = self.narrow_key(v)
                if k:
                    cx2.known = cx2.known | {k}
            else:
                if isinstance(v, ast.UnaryOp) and isinstance(v.op, ast.Not):
                    k = self.narrow_key(v.operand)
                    if k:
                        cx2.known = cx2.known | {k}
        return ("(" + (" && " if is_and else " || ").join(parts) + ")", "Bool")

    def compare(self, n, cx):
        if len(n.ops) != 1:
            raise Untranslatable("chained comparison")
        op = n.ops[0]
        a, b = self.expr(n.left, cx), self.expr(n.comparators[0], cx)
        if isinstance(op, (ast.Eq, ast.NotEq)):
            if a[1] == b[1] and a[1] in ("Str", "Bool"):
                s = f"({a[0]} == {b[0]})"
            elif a[1] == Opt("Str") and b[1] == "Str":
                s = f"({a[0]} == some {b[0]})"
            elif a[1] == "StrSet" and b[1] == "StrSet":
                s = f"(Py.setEq {a[0]} {b[0]})"
            else:
                raise Untranslatable(f"== between {a[1]} and {b[1]}: " + ast.unparse(n))
            return (s if isinstance(op, ast.Eq) else f"(!{s})", "Bool")
        if isinstance(op, ast.Gt) and a[1] == "Nat" and b[1] == "NatLit":
            return (f"(decide ({a[0]} > {b[0]}))", "Bool")
        raise Untranslatable("comparison " + ast.unparse(n))

    def list_literal(self, n, cx):
        # [*xs]  |  [a, *xs]  | []
        if not n.elts:
            return ("[]", Lst("?"))
        if len(n.elts) == 1 and isinstance(n.elts[0], ast.Starred):
            return self.expr(n.elts[0].value, cx)
        if len(n.elts) == 1:
            h = self.expr(n.elts[0], cx)
            return (f"[{h[0]}]", Lst(h[1]))
        if len(n.elts) == 2 and isinstance(n.elts[1], ast.Starred):
            h = self.expr(n.elts[0], cx); t = self.expr(n.elts[1].value, cx)
            if t[1] != Lst(h[1]):
                raise Untranslatable("list literal types " + ast.unparse(n))
            return (f"({h[0]} :: {t[0]})", t[1])
        raise Untranslatable("list literal " + ast.unparse(n))

    def dict_literal(self, n, cx):
        # {}  |  {**d, k: v}
        if not n.keys:
            return ("[]", "Strata")
        if len(n.keys) == 2 and n.keys[0] is None and n.keys[1] is not None:
            d = self.expr(n.values[0], cx); k = self.expr(n.keys[1], cx); v = self.expr(n.values[1], cx)
            if d[1] == "Strata" and k[1] == "Str" and v[1] == "Str":
                return (f"(dictSet {d[0]} {k[0]} {v[0]})", "Strata")
        raise Untranslatable("dict literal " + ast.unparse(n))

    def listcomp(self, n, cx):
        if len(n.generators) != 1 or n.generators[0].is_async:
            raise Untranslatable("comprehension " + ast.unparse(n))
        g = n.generators[0]
        it = self.expr(g.iter, cx)
        c2 = cx.child()
        if it[1] == "StrataItems" and isinstance(g.target, ast.Tuple) and len(g.target.elts) == 2:
            kn, vn = g.target.elts[0].id, g.target.elts[1].id
            c2.env[kn] = ("kv_.1", "Str"); c2.env[vn] = ("kv_.2", "Str")
            binder, elty = "kv_", None
        elif isinstance(it[1], tuple) and it[1][0] == "List" and isinstance(g.target, ast.Name):
            c2.env[g.target.id] = (g.target.id + "_", it[1][1])
            binder = g.target.id + "_"
        elif isinstance(it[1], tuple) and it[1][0] == "List" and isinstance(g.target, ast.Tuple) and isinstance(it[1][1], tuple) \
                and it[1][1][0] == "Tup" and len(it[1][1][1]) == len(g.target.elts) == 2:
            binder = "p_"
            c2.env[g.target.elts[0].id] = ("p_.1", it[1][1][1][0]); c2.env[g.target.elts[1].id] = ("p_.2", it[1][1][1][1])
        else:
            raise Untranslatable("comprehension over " + str(it[1]))
        body = self.tuple_or_expr(n.elt, c2)
        src = it[0]
        for cond in g.ifs:
            src = f"({src}.filter (fun {binder} => {self.truthy(self.expr(cond, c2))}))"
        return (f"({src}.map (fun {binder} => {body[0]}))", Lst(body[1]))

    def tuple_or_expr(self, n, cx):
        if isinstance(n, ast.Tuple) and len(n.elts) == 2:
            a, b = self.expr(n.elts[0], cx), self.expr(n.elts[1], cx)
            return (f"({a[0]}, {b[0]})", Tup(a[1], b[1]))
        return self.expr(n, cx)

    def call(self, n, cx):
        f = n.func
        # ---- builtins
        if isinstance(f, ast.Name):
            if f.id == "enumerate" and len(n.args) == 1 and not n.keywords:
                a = self.expr(n.args[0], cx)
                if isinstance(a[1], tuple) and a[1][0] == "List":
                    return (f"({a[0]}.zipIdx.map (fun p_ => (p_.2, p_.1)))", Lst(Tup("Nat", a[1][1])))
            if f.id == "frozenset" and len(n.args) == 1:
                a = self.expr(n.args[0], cx)
                if a[1] == "StrataItems":
                    return (a[0], "Strata")
            if f.id == "set" and len(n.args) == 1:
                a = self.expr(n.args[0], cx)
                if a[1] in (Lst("Str"), "StrKeys"):
                    return (a[0], "StrSet")
            if f.id == "len" and len(n.args) == 1:
                a = self.expr(n.args[0], cx)
                if is_listlike(a[1]):
                    return (f"{a[0]}.length", "Nat")
            if f.id == "any" and len(n.args) == 1 and isinstance(n.args[0], ast.GeneratorExp):
                g = n.args[0]
                if len(g.generators) == 1 and not g.generators[0].ifs and isinstance(g.generators[0].target, ast.Name):
                    it = self.expr(g.generators[0].iter, cx)
                    if isinstance(it[1], tuple) and it[1][0] == "List":
                        c2 = cx.child()
                        v = g.generators[0].target.id
                        c2.env[v] = (v + "_", it[1][1])
                        b = self.expr(g.elt, c2)
                        return (f"({it[0]}.any (fun {v}_ => {self.truthy(b)}))", "Bool")
            if f.id == "isinstance" and len(n.args) == 2 and ast.unparse(n.args[1]) == "Overwrite":
                a = self.expr(n.args[0], cx)
                if a[1] == "Adj":
                    return (f"(Py.isOverwrite {a[0]})", "Bool")
            if f.id == "Multiply" and len(n.args) == 1:
                a = self.expr(n.args[0], cx)
                if a[1] == "Num":
                    return (f"(Py.multiply {a[0]})", "Adj")
            if f.id == "Compartment":
                return self.construct_comp(n, cx)
            raise Untranslatable("call " + ast.unparse(n))
        if not isinstance(f, ast.Attribute):
            raise Untranslatable("call " + ast.unparse(n))
        # ---- super().m(...)
        if isinstance(f.value, ast.Call) and isinstance(f.value.func, ast.Name) and f.value.func.id == "super":
            raise Untranslatable("super() call in expression position " + ast.unparse(n))
        # ---- "sep".join(list)
        if f.attr == "join" and len(n.args) == 1:
            sep = self.expr(f.value, cx); l = self.expr(n.args[0], cx)
            if sep[1] == "Str" and l[1] == Lst("Str"):
                return (f"(Py.join {sep[0]} {l[0]})", "Str")
        recv = self.expr(f.value, cx)
        rty = recv[1]
        # ---- dict / frozenset methods
        if rty == "Strata":
            if f.attr == "items" and not n.args:
                return (recv[0], "StrataItems")
            if f.attr == "issubset" and len(n.args) == 1:
                o = self.expr(n.args[0], cx)
                if o[1] == "Strata":
                    return (f"(Py.issubset {recv[0]} {o[0]})", "Bool")
            if f.attr == "get" and len(n.args) == 1:
                k = self.expr(n.args[0], cx)
                if k[1] == "Str":
                    return (f"(alookup {recv[0]} {k[0]})", Opt("Str"))
        if rty == ADJDICT:
            if f.attr == "keys" and not n.args:
                return (f"({recv[0]}.map (·.1))", "StrKeys")
            if f.attr == "get" and len(n.args) == 1:
                k = self.expr(n.args[0], cx)
                if k[1] == "Str":
                    return (f"(Py.getJoin {recv[0]} {k[0]})", Opt("Adj"))
        # ---- methods of the modelled classes
        if rty == "Comp":
            return self.method_call("compartment.py", "Compartment", f.attr, recv, n, cx)
        if rty == "Strat":
            return self.method_call("stratification.py", "Stratification", f.attr, recv, n, cx)
        raise Untranslatable(f"method call {ast.unparse(n)} (receiver type {rty})")

    def method_call(self, rel, cname, mname, recv, n, cx):
        key = (cname, mname)
        if key not in SIGS:
            raise Untranslatable(f"call of untranslated method {cname}.{mname}")
        sig = SIGS[key]
        if n.keywords:
            raise Untranslatable("keyword arguments in " + ast.unparse(n))
        if len(n.args) != len(sig["args"]):
            raise Untranslatable("arity of " + ast.unparse(n))
        args = []
        variant = ""
        for a, (pn, pt) in zip(n.args, sig["args"]):
            t = self.expr(a, cx)
            if isinstance(pt, list):           # overloaded on a static type test (`type(x) is str`)
                if t[1] not in pt:
                    raise Untranslatable(f"argument type {t[1]} for {cname}.{mname}")
                variant = "_" + variant_name(t[1])
            elif t[1] != pt and not (t[1] == "StrataItems" and pt == "Strata"):
                raise Untranslatable(f"argument {pn} of {cname}.{mname}: expected {pt}, got {t[1]} in {ast.unparse(n)}")
            args.append(t[0])
        if sig.get("res") and not cx.res:
            raise Untranslatable(f"raising method {cname}.{mname} called from a pure context")
        text = f"({cname}.{mname}{variant} {recv[0]} " + " ".join(args) + ")"
        return (text, ("Res", sig["ret"]) if sig.get("res") else sig["ret"])

    def construct_comp(self, n, cx):
        """`Compartment(name=…, strata=…, tags=…)` through `Compartment.__init__`"""
        init = self.method("compartment.py", "Compartment", "__init__")
        params = [a.arg for a in init.args.args[1:]]
        given = {}
        for i, a in enumerate(n.args):
            given[params[i]] = a
        for kw in n.keywords:
            given[kw.arg] = kw.value
        c2 = Ctx(self, "Compartment", False, "Comp")
        for p in params:
            if p in given and p not in UNMODELLED_FIELDS:
                c2.env[p] = self.expr(given[p], cx)
        fields = {}
        for st in init.body:
            if isinstance(st, ast.Assign) and len(st.targets) == 1 and isinstance(st.targets[0], ast.Attribute) \
                    and isinstance(st.targets[0].value, ast.Name) and st.targets[0].value.id == "self":
                fld = st.targets[0].attr
                if fld in ("name", "strata"):
                    fields[fld] = self.or_default(st.value, c2)
        if set(fields) != {"name", "strata"}:
            raise Untranslatable("Compartment.__init__ does not set name and strata")
        if fields["name"][1] != "Str" or fields["strata"][1] != "Strata":
            raise Untranslatable("Compartment.__init__ field types")
        return (f"({{ name := {fields['name'][0]}, strata := {fields['strata'][0]} }} : Comp)", "Comp")

    def or_default(self, n, cx):
        """`x or {}` / `x or []`"""
        if isinstance(n, ast.BoolOp) and isinstance(n.op, ast.Or) and len(n.values) == 2:
            a = self.expr(n.values[0], cx)
            d = n.values[1]
            if is_listlike(a[1]) and ((isinstance(d, ast.Dict) and not d.keys) or (isinstance(d, ast.List) and not d.elts)):
                return (f"(Py.orEmpty {a[0]})", a[1])
            raise Untranslatable("or-default " + ast.unparse(n))
        return self.expr(n, cx)

    # ---------------------------------------------------------------------------------------- flow construction
    def flow_ctor_fields(self, concrete, kwargs, cx, recv):
        """`self.copy(**kwargs)` for the concrete class: copy -> __class__(**kwargs[, extra]) -> __init__.
        Returns the modelled field assignments {name, source, dest, param, adjustments} as lean texts."""
        rel = "flows.py"
        cpy = self.method(rel, self.resolve(rel, concrete, "copy"), "copy")
        body = [s for s in cpy.body if not (isinstance(s, ast.Expr) and isinstance(s.value, ast.Constant))]
        ok = (len(body) == 1 and isinstance(body[0], ast.Return) and isinstance(body[0].value, ast.Call)
              and ast.unparse(body[0].value.func) == "self.__class__"
              and any(k.arg is None and ast.unparse(k.value) == "kwargs" for k in body[0].value.keywords))
        if not ok:
            raise Untranslatable(f"{concrete}.copy is not `return self.__class__(**kwargs, …)`")
        for k in body[0].value.keywords:
            if k.arg is not None and k.arg not in UNMODELLED_FIELDS:
                raise Untranslatable(f"{concrete}.copy passes a modelled field {k.arg}")
        init = self.method(rel, self.resolve(rel, concrete, "__init__"), "__init__")
        params = [a.arg for a in init.args.args[1:]]
        c2 = Ctx(self, concrete, False, "Flow")
        for p in params:
            if p in kwargs:
                c2.env[p] = kwargs[p]
            elif p in UNMODELLED_FIELDS:
                continue
            else:
                d = dict(zip(reversed(params), reversed(init.args.defaults)))
                if p in d and isinstance(d[p], ast.Constant) and d[p].value is None:
                    c2.env[p] = ("none", Opt("?"))
                else:
                    raise Untranslatable(f"{concrete}.__init__ parameter {p} not supplied by copy")
        for k in kwargs:
            if k not in params:
                raise Untranslatable(f"{concrete}.__init__ has no parameter {k}")
        fields = {"name": None, "source": ("none", Opt("Comp")), "dest": ("none", Opt("Comp")), "param": None, "adjustments": None}
        asserted = set()
        for st in init.body:
            if isinstance(st, ast.Assert) and isinstance(st.test, ast.Compare) and ast.unparse(st.test.ops[0]) == "" :
                pass
            if isinstance(st, ast.Assert):
                u = ast.unparse(st.test)
                for p in ("source", "dest"):
                    if u == f"type({p}) is Compartment":
                        asserted.add(p)
            if isinstance(st, ast.Assign) and len(st.targets) == 1 and isinstance(st.targets[0], ast.Attribute) \
                    and isinstance(st.targets[0].value, ast.Name) and st.targets[0].value.id == "self":
                fld = st.targets[0].attr
                if fld in UNMODELLED_FIELDS:
                    continue
                if fld not in fields:
                    raise Untranslatable(f"{concrete}.__init__ sets unknown field {fld}")
                if fld == "adjustments":
                    fields[fld] = self.ctor_adjustments(st.value, c2)
                else:
                    fields[fld] = self.expr(st.value, c2)
        for p in ("source", "dest"):
            t = fields[p]
            if t[1] == "Comp":
                if p not in asserted:
                    raise Untranslatable(f"{concrete}.__init__ does not assert type({p}) is Compartment")
                fields[p] = (f"(some {t[0]})", Opt("Comp"))
            elif t != ("none", Opt("Comp")) and t[1] != Opt("Comp"):
                raise Untranslatable(f"{concrete}.__init__ field {p} has type {t[1]}")
        if fields["name"] is None or fields["name"][1] != "Str" or fields["param"] is None or fields["param"][1] not in ("Expr", "ExprBox") \
                or fields["adjustments"] is None:
            raise Untranslatable(f"{concrete}.__init__ does not set name/param/adjustments as expected")
        return {k: v[0] for k, v in fields.items()}, asserted

    def ctor_adjustments(self, n, cx):
        """the constructor idiom `[a for a in (adjustments or []) if a and a.param is not None]`"""
        want = "[a for a in adjustments or [] if a and a.param is not None]"
        if ast.unparse(n) != want:
            raise Untranslatable("flow constructor's adjustment filter is not the recognised idiom: " + ast.unparse(n))
        t = cx.env.get("adjustments")
        if t is None:
            raise Untranslatable("adjustments not supplied")
        if t[1] == Lst(Opt("Adj")):
            return (f"(Py.ctorAdjustments {t[0]})", Lst("Adj"))
        if t[1] == Lst("Adj"):
            return (f"(Py.ctorAdjustments ({t[0]}.map some))", Lst("Adj"))
        raise Untranslatable(f"adjustments of type {t[1]}")

    def construct_flow(self, base_cls, n, cx):
        """`self.copy(name=…, …)` inside a method of `base_cls`: every concrete subclass must build the same
        modelled fields (the flow's class, i.e. `kind`, is preserved by `__class__`)."""
        kwargs = {}
        for kw in n.keywords:
            if kw.arg is None:
                raise Untranslatable("**kwargs in copy call")
            if kw.arg in UNMODELLED_FIELDS:
                continue
            kwargs[kw.arg] = self.expr(kw.value, cx)
        if n.args:
            raise Untranslatable("positional arguments in copy call")
        results = []
        for c in self.concrete_subclasses(base_cls):
            results.append((c, self.flow_ctor_fields(c, kwargs, cx, cx.env["self"][0])[0]))
        first = results[0][1]
        for c, r in results[1:]:
            if r != first:
                raise Untranslatable(f"{c} constructs copies differently from {results[0][0]}")
        s = cx.env["self"][0]
        return (f"({{ kind := {s}.kind, name := {first['name']}, src := {first['source']}, dst := {first['dest']}, "
                f"param := {first['param']}, adjs := {first['adjustments']} }} : Flow α)", "Flow")

    def concrete_subclasses(self, base):
        rel = "flows.py"
        out = []
        classes = [c for c in self.tree(rel).body if isinstance(c, ast.ClassDef)]
        def descends(c):
            cur = c
            while True:
                if cur == base:
                    return True
                bs = [b for b in self.bases(rel, cur) if any(k.name == b for k in classes)]
                if not bs:
                    return False
                cur = bs[0]
        for c in classes:
            if descends(c.name) and not any(c.name in self.bases(rel, d.name) for d in classes):
                out.append(c.name)
        if not out:
            raise Untranslatable("no concrete subclass of " + base)
        return out

    # ---------------------------------------------------------------------------------------- statements
    def block(self, stmts, cx, k, ind):
        """CPS translation of a statement list; `k(cx, ind)` gives the lines for falling off the end"""
        pad = "  " * ind
        if not stmts:
            return k(cx, ind)
        st, rest = stmts[0], stmts[1:]
        go = lambda c=cx: self.block(rest, c, k, ind)
        if isinstance(st, ast.Expr) and isinstance(st.value, ast.Constant) and isinstance(st.value.value, str):
            return go()
        if isinstance(st, ast.Pass):
            return go()
        if isinstance(st, ast.Assign) and len(st.targets) == 1:
            tgt = st.targets[0]
            if isinstance(tgt, ast.Name):
                if tgt.id == "msg":
                    return go()
                return self.assign(tgt.id, st.value, cx, rest, k, ind)
            if isinstance(tgt, ast.Attribute) and tgt.attr in UNMODELLED_FIELDS:
                self.notes.append(f"ignored assignment to unmodelled field: {ast.unparse(st)}")
                return go()
            if isinstance(tgt, ast.Attribute) and ast.unparse(tgt.value) == "self" and tgt.attr in RECORDED_ATTRS.get((cx.cls, cx.fn), ()):
                # results the method leaves on `self`: np.array(v, dtype=int) / {k: np.array(v, dtype=int) for k, v in d.items()} / a name
                v = st.value
                if isinstance(v, ast.Call) and ast.unparse(v.func) == "np.array" and len(v.args) == 1 and [ast.unparse(k.value) for k in v.keywords] == ["int"]:
                    t = self.expr(v.args[0], cx)
                elif isinstance(v, ast.DictComp) and ast.unparse(v) == "{k: np.array(v, dtype=int) for k, v in " + ast.unparse(v.generators[0].iter) + "}" \
                        and ast.unparse(v.generators[0].iter).endswith(".items()"):
                    t = self.expr(v.generators[0].iter.func.value, cx)
                elif isinstance(v, ast.Name):
                    t = self.expr(v, cx)
                else:
                    raise Untranslatable("recorded attribute value " + ast.unparse(st))
                c2 = cx.child()
                c2.recorded = dict(getattr(cx, "recorded", {})); c2.recorded[tgt.attr] = t
                return self.block(rest, c2, k, ind)
            raise Untranslatable("assignment target " + ast.unparse(st))
        if isinstance(st, ast.AugAssign) and isinstance(st.target, ast.Name) and isinstance(st.op, ast.Add):
            cur = cx.env.get(st.target.id)
            v = self.expr(st.value, cx)
            if cur and cur[1] == "Nat" and v[1] == "NatLit":
                nm = cx.fresh(st.target.id)
                c2 = cx.child(); c2.env[st.target.id] = (nm, "Nat")
                return [f"{pad}let {nm} := {cur[0]} + {v[0]}"] + self.block(rest, c2, k, ind)
            raise Untranslatable("augmented assignment " + ast.unparse(st))
        if isinstance(st, ast.Assert):
            if not cx.res:
                raise Untranslatable("assert in a pure function")
            t = self.truthy(self.expr(st.test, cx))
            return [f"{pad}guardE {t} {json.dumps(self.assert_label(st))}"] + go()
        if isinstance(st, ast.Return):
            if getattr(cx, "in_loop", False):
                raise Untranslatable("return inside a loop")
            v = self.expr(st.value, cx)
            want = RECORDED_ATTRS.get((cx.cls, cx.fn))
            if want:
                rec = getattr(cx, "recorded", {})
                missing = [a for a in want if a not in rec]
                if missing:
                    raise Untranslatable(f"{cx.cls}.{cx.fn} does not set {missing}")
                v = ("(" + ", ".join([v[0]] + [rec[a][0] for a in want]) + ")", Tup(v[1], *[rec[a][1] for a in want]))
            cx.ret_types.append(v[1])
            return [f"{pad}" + (f"pure {v[0]}" if cx.res else v[0])]
        if isinstance(st, ast.Continue):
            return cx.loop_k(cx, ind)
        if isinstance(st, ast.If):
            return self.if_stmt(st, rest, cx, k, ind)
        if isinstance(st, ast.For):
            return self.for_stmt(st, rest, cx, k, ind)
        if isinstance(st, ast.Expr) and isinstance(st.value, ast.Call) and isinstance(st.value.func, ast.Attribute) \
                and st.value.func.attr == "append" and len(st.value.args) == 1:
            return self.append_stmt(st.value, rest, cx, k, ind)
        raise Untranslatable("statement " + ast.unparse(st).splitlines()[0])

    def assert_label(self, st):
        return ast.unparse(st.test)[:80]

    def bind(self, name, t, cx):
        nm = cx.fresh(name)
        c2 = cx.child()
        c2.env[name] = (nm, t[1])
        c2.known = {x for x in c2.known if x != name}
        return nm, c2

    def assign(self, name, value, cx, rest, k, ind):
        pad = "  " * ind
        # new_flows = super().stratify(strat)
        if isinstance(value, ast.Call) and isinstance(value.func, ast.Attribute) and isinstance(value.func.value, ast.Call) \
                and isinstance(value.func.value.func, ast.Name) and value.func.value.func.id == "super":
            base = [b for b in self.bases("flows.py", cx.cls)][0]
            owner = self.resolve("flows.py", base, value.func.attr)
            sig = SIGS.get((owner, value.func.attr))
            if sig is None:
                raise Untranslatable(f"super().{value.func.attr}: {owner}.{value.func.attr} is not translated")
            args = [self.expr(a, cx)[0] for a in value.args]
            t = (f"({owner}.{value.func.attr} {cx.env['self'][0]} " + " ".join(args) + ")", sig["ret"])
            nm, c2 = self.bind(name, t, cx)
            return [f"{pad}let {nm} ← {t[0]}"] + self.block(rest, c2, k, ind)
        # flow_adjustments = self.flow_adjustments.get(flow.name, [])
        if ast.unparse(value).startswith("self.flow_adjustments.get(") and isinstance(value, ast.Call) and len(value.args) == 2 \
                and isinstance(value.args[1], ast.List) and not value.args[1].elts and cx.self_type == "Strat":
            a = self.expr(value.args[0], cx)
            if a[1] != "Str":
                raise Untranslatable("flow_adjustments key")
            t = (f"(Py.flowAdjustmentsGet {cx.env['self'][0]} {a[0]})", Lst(FADECL))
            nm, c2 = self.bind(name, t, cx)
            return [f"{pad}let {nm} := {t[0]}"] + self.block(rest, c2, k, ind)
        # x = self.copy(…)
        if isinstance(value, ast.Call) and ast.unparse(value.func) == "self.copy":
            t = self.construct_flow(cx.cls, value, cx)
            nm, c2 = self.bind(name, t, cx)
            return [f"{pad}let {nm} : Flow α := {t[0]}"] + self.block(rest, c2, k, ind)
        # the memo read  flow_adj_fs = self._flow_adjustments_fs[flow.name]
        if isinstance(value, ast.Subscript) and ast.unparse(value.value) == "self._flow_adjustments_fs":
            memo = getattr(cx, "memo", None)
            if memo is None or memo[0] != ast.unparse(value.slice):
                raise Untranslatable("memo read without a preceding fill: " + ast.unparse(value))
            c2 = cx.child(); c2.env[name] = memo[1]
            return self.block(rest, c2, k, ind)
        if isinstance(value, ast.Constant) and value.value is None:
            # `x = None`: the type is fixed by the later assignment; declared in LOCAL_TYPES
            ty = LOCAL_TYPES.get((cx.cls, cx.fn, name))
            if ty is None:
                raise Untranslatable(f"`{name} = None` without a declared type")
            t = (f"(none : {lean_type(ty)})", ty)
            nm, c2 = self.bind(name, t, cx)
            return [f"{pad}let {nm} : {lean_type(ty)} := none"] + self.block(rest, c2, k, ind)
        if isinstance(value, ast.List) and not value.elts:
            ty = LOCAL_TYPES.get((cx.cls, cx.fn, name))
            if ty is None:
                raise Untranslatable(f"`{name} = []` without a declared type")
            nm, c2 = self.bind(name, ("[]", ty), cx)
            return [f"{pad}let {nm} : {lean_type(ty)} := []"] + self.block(rest, c2, k, ind)
        if isinstance(value, ast.DictComp):
            # {s: [] for s in self.strata}
            g = value.generators[0]
            it = self.expr(g.iter, cx)
            if it[1] == Lst("Str") and isinstance(value.value, ast.List) and not value.value.elts and ast.unparse(value.key) == ast.unparse(g.target) and not g.ifs:
                t = (f"({it[0]}.foldl (fun d_ s_ => dictSet d_ s_ []) [])", "IdxDict")
                nm, c2 = self.bind(name, t, cx)
                return [f"{pad}let {nm} : {lean_type('IdxDict')} := {t[0]}"] + self.block(rest, c2, k, ind)
            raise Untranslatable("dict comprehension " + ast.unparse(value))
        if cx.res and isinstance(value, ast.BoolOp) and isinstance(value.op, ast.And) and self.has_res_call(value.values[-1], cx) \
                and not any(self.has_res_call(v, cx) for v in value.values[:-1]):
            # a and b and <raising call>: Python evaluates the call only when the operands before it are true
            pure_part = ast.BoolOp(op=ast.And(), values=value.values[:-1]) if len(value.values) > 2 else value.values[0]
            a = self.truthy(self.expr(pure_part, cx))
            last = value.values[-1]
            neg = isinstance(last, ast.UnaryOp) and isinstance(last.op, ast.Not)
            callt = self.expr(last.operand if neg else last, cx)
            tv = self.truthy(("r_", callt[1][1]))
            b = f"(do let r_ ← {callt[0]}; pure ({'!' if neg else ''}{tv}))"
            nm, c2 = self.bind(name, ("", "Bool"), cx)
            return [f"{pad}let {nm} ← Py.andM {a} {b}"] + self.block(rest, c2, k, ind)
        t = self.expr(value, cx)
        want = LOCAL_TYPES.get((cx.cls, cx.fn, name))
        if isinstance(t[1], tuple) and t[1][0] == "Res":
            nm, c2 = self.bind(name, (t[0], t[1][1]), cx)
            return [f"{pad}let {nm} ← {t[0]}"] + self.block(rest, c2, k, ind)
        if want is not None and want != t[1]:
            t = self.coerce(t, want)
        if t[1] == "NatLit":
            t = (t[0], "Nat")
        nm, c2 = self.bind(name, t, cx)
        return [f"{pad}let {nm} : {lean_type(t[1])} := {t[0]}"] + self.block(rest, c2, k, ind)

    def has_res_call(self, n, cx):
        for c in ast.walk(n):
            if isinstance(c, ast.Call) and isinstance(c.func, ast.Attribute):
                if c.func.attr == "get_flow_adjustment":
                    return True
                if isinstance(c.func.value, ast.Call) and isinstance(c.func.value.func, ast.Name) and c.func.value.func.id == "super":
                    return True
        return False

    def coerce(self, t, want):
        if want == Lst(Opt("Adj")) and t[1] == Lst("Adj"):
            return (f"({t[0]}.map some)", want)
        if want == Opt(t[1]):
            return (f"(some {t[0]})", want)
        if isinstance(t[1], tuple) and t[1][0] == "Opt" and t[1][1] == "?":
            return (f"(none : {lean_type(want)})", want)
        raise Untranslatable(f"cannot coerce {t[1]} to {want}")

    def cond(self, test, cx):
        """condition text and the narrowing it establishes for the then- and else-branches"""
        then_known, else_known = set(), set()
        if isinstance(test, ast.BoolOp) and isinstance(test.op, ast.And):
            for v in test.values:
                kk = self.narrow_key(v)
                if kk:
                    then_known.add(kk)
        kk = self.narrow_key(test)
        if kk:
            then_known.add(kk)
        if isinstance(test, ast.UnaryOp) and isinstance(test.op, ast.Not):
            kk = self.narrow_key(test.operand)
            if kk:
                else_known.add(kk)
        t = self.expr_raw(test, cx) if self.narrow_key(test) else self.expr(test, cx)
        return self.truthy(t), then_known, else_known

    def if_stmt(self, st, rest, cx, k, ind):
        pad = "  " * ind
        # the memo fill `if flow.name not in self._flow_adjustments_fs:` is a transparent cache (see module docstring)
        if ast.unparse(st.test).endswith("not in self._flow_adjustments_fs") and not st.orelse:
            return self.memo_fill(st, rest, cx, k, ind)
        # static type test  `if type(x) is str:`
        if isinstance(st.test, ast.Compare) and ast.unparse(st.test).startswith("type(") and isinstance(st.test.ops[0], ast.Is):
            var = st.test.left.args[0].id
            ty = cx.env[var][1]
            is_str = ast.unparse(st.test.comparators[0]) == "str"
            if not is_str:
                raise Untranslatable("type test " + ast.unparse(st.test))
            branch = st.body if ty == "Str" else st.orelse
            return self.block(list(branch) + rest, cx, k, ind)
        if ast.unparse(st.test).startswith("isinstance(") and ast.unparse(st.test).endswith(", Data)") and not st.orelse:
            inner = [x for x in ast.walk(st) if isinstance(x, ast.Assign)]
            v = ast.unparse(st.test.args[0])
            if len(inner) == 1 and ast.unparse(inner[0]) == f"{v} = {v}.data":
                self.notes.append(f"value-preserving unboxing treated as the identity: {ast.unparse(st.test)}")
                return self.block(rest, cx, k, ind)
            raise Untranslatable("Data unboxing idiom " + ast.unparse(st).splitlines()[0])
        c, tk, ek = self.cond(st.test, cx)
        joined = self.try_join(st, c, tk, ek, rest, cx, k, ind)
        if joined is not None:
            return joined
        c_then = cx.child(); c_then.known = cx.known | tk
        c_else = cx.child(); c_else.known = cx.known | ek
        for c_ in (c_then, c_else):
            for a in ("in_loop", "loop_k", "ret_types", "fn", "memo"):
                if hasattr(cx, a):
                    setattr(c_, a, getattr(cx, a))
        a = self.block(list(st.body) + rest, c_then, k, ind + 1)
        b = self.block(list(st.orelse) + rest, c_else, k, ind + 1)
        return [f"{pad}if {c} then"] + a + [f"{pad}else"] + b

    def has_control(self, stmts, cx):
        for st in stmts:
            for n in ast.walk(st):
                if isinstance(n, (ast.Continue, ast.Return, ast.Assert, ast.For, ast.Break, ast.Raise)):
                    return True
                if isinstance(n, ast.Call) and self.has_res_call(n, cx):
                    return True
        return False

    def try_join(self, st, c, tk, ek, rest, cx, k, ind):
        """an `if` whose branches only assign: the variables live afterwards become one `let … := if … then … else …`
        (instead of duplicating the rest of the block into both branches)"""
        if self.has_control(list(st.body) + list(st.orelse), cx):
            return None
        a_then, a_else = self.assigned_names(st.body), self.assigned_names(st.orelse)
        join = []
        for v in a_then + a_else:
            if v in join or v == "msg":
                continue
            if v in cx.env or (v in a_then and v in a_else):
                join.append(v)
        local = [v for v in set(a_then + a_else) if v not in join and v != "msg"]
        for v in local:
            for r in rest:
                if any(isinstance(n, ast.Name) and n.id == v and isinstance(n.ctx, ast.Load) for n in ast.walk(r)):
                    return None
        if not join:
            return None
        pad = "  " * ind
        types = {}
        def mk(branch, known):
            c2 = cx.child(); c2.known = cx.known | known
            c2.res = False
            def kk(c3, i):
                vals = []
                for v in join:
                    if v not in c3.env:
                        raise Untranslatable(f"variable {v} not assigned on every path")
                    types.setdefault(v, c3.env[v][1])
                    if types[v] != c3.env[v][1]:
                        raise Untranslatable(f"variable {v} has two types")
                    vals.append(c3.env[v][0])
                return ["  " * i + (vals[0] if len(vals) == 1 else "(" + ", ".join(vals) + ")")]
            return self.block(list(branch), c2, kk, ind + 3)
        a = mk(st.body, tk)
        b = mk(st.orelse, ek)
        nm = cx.fresh("j")
        c4 = cx.child()
        n_ = len(join)
        for i, v in enumerate(join):
            proj = "" if n_ == 1 else ".2" * i + (".1" if i < n_ - 1 else "")
            c4.env[v] = (f"{nm}{proj}", types[v])
            c4.known = {x for x in c4.known if x != v}
        ty = lean_type(types[join[0]]) if n_ == 1 else "(" + " × ".join(lean_type(types[v]) for v in join) + ")"
        lines = [f"{pad}let {nm} : {ty} := (if {c} then"] + a + [f"{pad}    else"] + b + [f"{pad}    )"]
        return lines + self.block(rest, c4, k, ind)

    def memo_fill(self, st, rest, cx, k, ind):
        """`if key not in self._cache: self._cache[key] = cur = []; for … in src: cur.append(tuple)` read back as
        `self._cache[key]`: translated as the pure list it computes (the cache is assumed never stale, which
        `set_flow_adjustments` enforces with `assert len(self._flow_adjustments_fs) == 0` -- checked below)."""
        sfa = self.method("stratification.py", "Stratification", "set_flow_adjustments")
        if not any(isinstance(s, ast.Assert) and ast.unparse(s.test) == "len(self._flow_adjustments_fs) == 0" for s in sfa.body):
            raise Untranslatable("set_flow_adjustments no longer refuses new adjustments once the lookup cache is filled")
        key = ast.unparse(st.test.left)
        body = list(st.body)
        if len(body) != 2 or not isinstance(body[0], ast.Assign) or not isinstance(body[1], ast.For):
            raise Untranslatable("memo fill shape")
        a0 = body[0]
        if not (len(a0.targets) == 2 and ast.unparse(a0.targets[0]) == f"self._flow_adjustments_fs[{key}]" and isinstance(a0.targets[1], ast.Name)
                and isinstance(a0.value, ast.List) and not a0.value.elts):
            raise Untranslatable("memo fill first statement")
        cur = a0.targets[1].id
        loop = body[1]
        if not (len(loop.body) == 1 and isinstance(loop.body[0], ast.Expr) and isinstance(loop.body[0].value, ast.Call)
                and ast.unparse(loop.body[0].value.func) == f"{cur}.append" and isinstance(loop.body[0].value.args[0], ast.Tuple)):
            raise Untranslatable("memo fill loop")
        it = self.expr(loop.iter, cx)
        if it[1] != Lst(FADECL) or not isinstance(loop.target, ast.Tuple) or len(loop.target.elts) != 3:
            raise Untranslatable("memo fill source")
        c2 = cx.child()
        names = [e.id for e in loop.target.elts]
        for i, (nm, ty) in enumerate(zip(names, FADECL[1])):
            c2.env[nm] = (f"d_.{'1' if i == 0 else '2.1' if i == 1 else '2.2'}", ty)
        elems = [self.expr(e, c2) for e in loop.body[0].value.args[0].elts]
        tys = tuple("Strata" if e[1] == "StrataItems" else e[1] for e in elems)
        if tys != FADECL5[1]:
            raise Untranslatable("memo tuple types " + str(tys))
        text = f"({it[0]}.map (fun d_ => (" + ", ".join(e[0] for e in elems) + ")))"
        pad = "  " * ind
        nm = cx.fresh("flow_adj_fs")
        c3 = cx.child()
        for a in ("in_loop", "loop_k", "ret_types", "fn"):
            if hasattr(cx, a):
                setattr(c3, a, getattr(cx, a))
        c3.memo = (key, (nm, Lst(FADECL5)))
        return [f"{pad}let {nm} := {text}"] + self.block(rest, c3, k, ind)

    def assigned_names(self, stmts):
        out = []
        for st in stmts:
            for n in ast.walk(st):
                if isinstance(n, ast.Assign):
                    for t in n.targets:
                        if isinstance(t, ast.Name):
                            out.append(t.id)
                if isinstance(n, ast.AugAssign) and isinstance(n.target, ast.Name):
                    out.append(n.target.id)
                if isinstance(n, ast.Call) and isinstance(n.func, ast.Attribute) and n.func.attr == "append":
                    v = n.func.value
                    if isinstance(v, ast.Name):
                        out.append(v.id)
                    if isinstance(v, ast.Subscript) and isinstance(v.value, ast.Name):
                        out.append(v.value.id)
        return out

    def for_stmt(self, st, rest, cx, k, ind):
        pad = "  " * ind
        if st.orelse:
            raise Untranslatable("for-else")
        # for f in new_flows: f.adjustments.append(X)      (in-place update of every element)
        if isinstance(st.target, ast.Name) and len(st.body) == 1 and isinstance(st.body[0], ast.Expr) and isinstance(st.body[0].value, ast.Call) \
                and ast.unparse(st.body[0].value.func) == f"{st.target.id}.adjustments.append" and isinstance(st.iter, ast.Name):
            it = self.expr(st.iter, cx)
            if it[1] != Lst("Flow"):
                raise Untranslatable("in-place loop over " + str(it[1]))
            v = self.expr(st.body[0].value.args[0], cx)
            if v[1] != "Adj":
                raise Untranslatable("appended adjustment type")
            t = (f"({it[0]}.map (fun g_ => {{ g_ with adjs := g_.adjs ++ [{v[0]}] }}))", it[1])
            nm, c2 = self.bind(st.iter.id, t, cx)
            self.copy_attrs(cx, c2)
            return [f"{pad}let {nm} := {t[0]}"] + self.block(rest, c2, k, ind)
        it = self.expr(st.iter, cx)
        enum = False
        if isinstance(it[1], tuple) and it[1][0] == "Enum":
            enum = True
        elif not (isinstance(it[1], tuple) and it[1][0] == "List"):
            raise Untranslatable("loop over " + str(it[1]))
        carried = []
        for nme in self.assigned_names(st.body):
            if nme in cx.env and nme not in carried:
                carried.append(nme)
        if not carried:
            raise Untranslatable("loop without loop-carried state")
        c2 = cx.child()
        self.copy_attrs(cx, c2)
        st_names = []
        for nme in carried:
            nm = cx.fresh(nme)
            c2.env[nme] = (nm, cx.env[nme][1])
            st_names.append(nm)
        elty = it[1][1]
        item = cx.fresh("item")
        binds = []
        if isinstance(st.target, ast.Name):
            c2.env[st.target.id] = (item, elty)
        elif isinstance(st.target, ast.Tuple) and isinstance(elty, tuple) and elty[0] == "Tup" and len(st.target.elts) == len(elty[1]):
            n_ = len(elty[1])
            for i, (e, ty) in enumerate(zip(st.target.elts, elty[1])):
                proj = ".2" * i + (".1" if i < n_ - 1 else "")
                c2.env[e.id] = (f"{item}{proj}", ty)
        else:
            raise Untranslatable("loop target " + ast.unparse(st.target))
        def pack(c):
            vals = [c.env[nme][0] for nme in carried]
            return vals[0] if len(vals) == 1 else "(" + ", ".join(vals) + ")"
        def loop_k(c, i):
            return ["  " * i + (f"pure {pack(c)}" if cx.res else pack(c))]
        c2.in_loop = True
        c2.loop_k = loop_k
        state = cx.fresh("st")
        unpack = []
        if len(carried) == 1:
            st_pat = st_names[0]
        else:
            st_pat = state
            n_ = len(carried)
            for i, nm in enumerate(st_names):
                proj = ".2" * i + (".1" if i < n_ - 1 else "")
                c2.env[carried[i]] = (f"{state}{proj}", cx.env[carried[i]][1])
        body = self.block(list(st.body), c2, loop_k, ind + 2)
        init = pack(cx)
        st_ty = lean_type(cx.env[carried[0]][1]) if len(carried) == 1 else "(" + " × ".join(lean_type(cx.env[c][1]) for c in carried) + ")"
        res_nm = cx.fresh("loop")
        fold = "foldlM" if cx.res else "foldl"
        arrow = "←" if cx.res else ":="
        head = f"{pad}let {res_nm} {arrow} {it[0]}.{fold} (fun ({st_pat} : {st_ty}) ({item} : {lean_type(elty)}) =>" + (" do" if cx.res else "")
        lines = [head] + body + [f"{pad}    ) {init}"]
        c3 = cx.child()
        self.copy_attrs(cx, c3)
        n_ = len(carried)
        for i, nme in enumerate(carried):
            proj = "" if n_ == 1 else ".2" * i + (".1" if i < n_ - 1 else "")
            c3.env[nme] = (f"{res_nm}{proj}", cx.env[nme][1])
        return lines + self.block(rest, c3, k, ind)

    def copy_attrs(self, a, b):
        for x in ("in_loop", "loop_k", "ret_types", "fn", "memo"):
            if hasattr(a, x):
                setattr(b, x, getattr(a, x))

    def append_stmt(self, call, rest, cx, k, ind):
        pad = "  " * ind
        tgt = call.func.value
        v = self.expr_raw(call.args[0], cx)
        if isinstance(tgt, ast.Name):
            cur = cx.env.get(tgt.id)
            if cur is None or not (isinstance(cur[1], tuple) and cur[1][0] == "List"):
                raise Untranslatable("append to " + ast.unparse(tgt))
            elty = cur[1][1]
            if v[1] != elty:
                if v[1] == "NatLit" and elty == "Nat":
                    v = (v[0], "Nat")
                else:
                    v = self.coerce(v, elty)
            nm = cx.fresh(tgt.id)
            c2 = cx.child(); self.copy_attrs(cx, c2)
            c2.env[tgt.id] = (nm, cur[1])
            return [f"{pad}let {nm} : {lean_type(cur[1])} := {cur[0]} ++ [{v[0]}]"] + self.block(rest, c2, k, ind)
        if isinstance(tgt, ast.Subscript) and isinstance(tgt.value, ast.Name):
            cur = cx.env.get(tgt.value.id)
            key = self.expr(tgt.slice, cx)
            if cur and cur[1] == "IdxDict" and key[1] == "Str" and v[1] == "Nat":
                nm = cx.fresh(tgt.value.id)
                c2 = cx.child(); self.copy_attrs(cx, c2)
                c2.env[tgt.value.id] = (nm, "IdxDict")
                return [f"{pad}let {nm} : {lean_type('IdxDict')} := dictSet {cur[0]} {key[0]} (((alookup {cur[0]} {key[0]}).getD []) ++ [{v[0]}])"] + self.block(rest, c2, k, ind)
        raise Untranslatable("append " + ast.unparse(call))

    # ---------------------------------------------------------------------------------------- functions
    def module_function(self, fname):
        """the index-selecting prefix of a module-level builder function (up to, not including, the stop statement)"""
        spec = MODULE_FUNCS[fname]
        rel, params, ret, stop, retvar = spec[:5]
        opts = spec[5] if len(spec) > 5 else {}
        fn = None
        for n in self.tree(rel).body:
            if isinstance(n, ast.FunctionDef) and n.name == fname:
                fn = n
        if fn is None:
            raise Untranslatable(f"function {fname} not found in {rel}")
        got = [a.arg for a in fn.args.args]
        if got != [p for p, _ in params]:
            raise Untranslatable(f"{fname}: parameters are {got}")
        cx = Ctx(self, fname, False, None)
        cx.fn = fname
        cx.ret_types = []
        binders = []
        for pname, t in params:
            if t is None:
                continue
            if isinstance(t, tuple) and t[0] == "Rec":
                cx.env[pname] = (pname, t)
                for fld, fty in RECORDS[t[1]].items():
                    binders.append(f"({pname}_{fld} : {lean_type(fty)})")
            else:
                cx.env[pname] = (pname, t)
                binders.append(f"({pname} : {lean_type(t)})")
        body = []
        stopped = False
        stmts = fn.body
        if opts.get("loop_target"):
            loops = [st for st in fn.body if isinstance(st, ast.For) and ast.unparse(st.target) == opts["loop_target"]]
            if len(loops) != 1:
                raise Untranslatable(f"{fname}: expected exactly one `for {opts['loop_target']} in …` loop")
            stmts = loops[0].body
            for vn, vt in opts["loop_env"].items():
                cx.env[vn] = (vn, vt)
                binders.append(f"({vn} : {lean_type(vt)})")
        for st in stmts:
            if ast.unparse(st).startswith(stop):
                stopped = True
                break
            body.append(st)
        if not stopped:
            raise Untranslatable(f"{fname}: the statement `{stop}` was not found")
        def fall(c, i):
            if retvar not in c.env:
                raise Untranslatable(f"{fname}: {retvar} is not defined")
            v = c.env[retvar]
            if v[1] != ret:
                raise Untranslatable(f"{fname}: {retvar} has type {v[1]}")
            return ["  " * i + v[0]]
        lines = self.block(body, cx, fall, 1)
        head = f"/-- `{rel}::{fname}` (the part up to `{stop}`) -/\ndef {fname} " + " ".join(binders) + f" : {lean_type(ret)} :="
        return head + "\n" + "\n".join(lines)

    def function(self, rel, cname, mname, variant=None):
        sig = SIGS[(cname, mname)]
        fn = self.method(rel, cname, mname)
        params = [a.arg for a in fn.args.args]
        if params[0] != "self" or params[1:] != [p for p, _ in sig["args"]]:
            raise Untranslatable(f"{cname}.{mname}: parameters are {params}")
        cx = Ctx(self, cname, bool(sig.get("res")), sig["self"], sig.get("known", ()))
        cx.fn = mname
        cx.ret_types = []
        cx.env["self"] = ("self", sig["self"])
        binders = [f"(self : {lean_type(sig['self'])})"]
        suffix = ""
        for p, t in sig["args"]:
            if isinstance(t, list):
                t = variant
                suffix = "_" + variant_name(variant)
            cx.env[p] = (p, t)
            binders.append(f"({p} : {lean_type(t)})")
        def fall(c, i):
            raise Untranslatable(f"{cname}.{mname}: control can fall off the end")
        lines = self.block(list(fn.body), cx, fall, 1)
        ret = sig["ret"]
        for rt in cx.ret_types:
            if rt != ret and not (rt == "StrataItems" and ret == "Strata"):
                raise Untranslatable(f"{cname}.{mname}: returns {rt}, declared {ret}")
        rty = f"Res {lean_type(ret)}" if sig.get("res") else lean_type(ret)
        head = f"/-- `{rel}::{cname}.{mname}` -/\ndef {cname}.{mname}{suffix} " + " ".join(binders) + f" : {rty} :=" + (" do" if sig.get("res") else "")
        return head + "\n" + "\n".join(lines)


# attributes a method leaves on `self` that are part of its result (returned as a tuple after the return value)
RECORDED_ATTRS = {
    ("Stratification", "_stratify_compartments"): ["_strat_base_indices", "_passthrough_base_indices", "_passthrough_target_indices",
                                                   "_stratum_target_indices", "_new_size"],
}

MODULE_FUNCS = {
    # name -> (file, params [(name, type | None = not used by the translated prefix)], result type, statement the prefix stops before, returned variable)
    "build_flow_output": ("runner/jax/derived_outputs.py",
                          [("request", ("Rec", "FlowReq")), ("name", None), ("times", None), ("model_flows", Lst("Flow")), ("idx_cache", None)],
                          Lst("Nat"), "flow_indices = jnp.array(flow_indices)", "flow_indices"),
    # the body of `for i, f in enumerate(m.flows)` of map_flow_keys: the realised weight expression of one flow
    "map_flow_keys": ("parameters/param_impl.py",
                      [("m", None)], "Expr", "realised_flows[i] = GraphObjectParameter(out_func)", "out_func",
                      {"loop_target": "(i, f)", "loop_env": {"f": "Flow"}}),
    "build_compartment_output": ("runner/jax/derived_outputs.py",
                                 [("request", ("Rec", "CompReq")), ("name", None), ("compartments", Lst("Comp"))],
                                 Lst("Nat"), "def summed_compartment_outputs", "indices"),
}

# signatures of the translated methods (types of `self`, parameters and result; `res` = may raise (assert);
# `known` = expressions that are not None by the class's constructor assertions)
SIGS = {
    ("Compartment", "is_match"): dict(self="Comp", args=[("name", "Str"), ("strata", "Strata")], ret="Bool"),
    ("Compartment", "has_strata"): dict(self="Comp", args=[("strata", "Strata")], ret="Bool"),
    ("Compartment", "_has_strata"): dict(self="Comp", args=[("strata", "Strata")], ret="Bool"),
    ("Compartment", "has_stratum"): dict(self="Comp", args=[("stratification", "Str"), ("stratum", "Str")], ret="Bool"),
    ("Compartment", "has_name"): dict(self="Comp", args=[("comp", ["Str", "Comp"])], ret="Bool"),
    ("Compartment", "has_name_in_list"): dict(self="Comp", args=[("comps", [Lst("Comp"), Lst("Str")])], ret="Bool"),
    ("Compartment", "stratify"): dict(self="Comp", args=[("stratification_name", "Str"), ("stratum_name", "Str")], ret="Comp"),
    ("Compartment", "serialize"): dict(self="Comp", args=[], ret="Str"),
    ("BaseFlow", "is_match"): dict(self="Flow", args=[("name", "Str"), ("source_strata", "Strata"), ("dest_strata", "Strata")], ret="Bool"),
    ("Stratification", "get_flow_adjustment"): dict(self="Strat", args=[("flow", "Flow")], ret=Opt(ADJDICT), res=True),
    ("Stratification", "is_ageing"): dict(self="Strat", args=[], ret="Bool"),
    ("Stratification", "is_strain"): dict(self="Strat", args=[], ret="Bool"),
    ("Stratification", "_stratify_compartments"): dict(self="Strat", args=[("comps", Lst("Comp"))],
                                                       ret=Tup(Lst("Comp"), Lst("Nat"), Lst("Nat"), Lst("Nat"), "IdxDict", "Nat")),
    ("BaseEntryFlow", "stratify"): dict(self="Flow", args=[("strat", "Strat")], ret=Lst("Flow"), res=True, known=("self.dest",)),
    ("BaseExitFlow", "stratify"): dict(self="Flow", args=[("strat", "Strat")], ret=Lst("Flow"), res=True, known=("self.source",)),
    ("BaseTransitionFlow", "stratify"): dict(self="Flow", args=[("strat", "Strat")], ret=Lst("Flow"), res=True, known=("self.source", "self.dest")),
    ("AbsoluteFlow", "stratify"): dict(self="Flow", args=[("strat", "Strat")], ret=Lst("Flow"), res=True, known=("self.source", "self.dest")),
}
# declared types of locals that are initialised with `None` / `[]`
LOCAL_TYPES = {
    ("Stratification", "get_flow_adjustment", "matching_adjustment"): Opt(ADJDICT),
    ("BaseEntryFlow", "stratify", "new_flows"): Lst("Flow"),
    ("BaseExitFlow", "stratify", "new_flows"): Lst("Flow"),
    ("BaseTransitionFlow", "stratify", "new_flows"): Lst("Flow"),
    ("BaseEntryFlow", "stratify", "new_adjustments"): Lst(Opt("Adj")),
    ("BaseExitFlow", "stratify", "new_adjustments"): Lst(Opt("Adj")),
    ("BaseTransitionFlow", "stratify", "new_adjustments"): Lst(Opt("Adj")),
    ("build_flow_output", "build_flow_output", "flow_indices"): Lst("Nat"),
    ("map_flow_keys", "map_flow_keys", "full_flow"): Lst("Expr"),
    ("Stratification", "_stratify_compartments", "strat_base_indices"): Lst("Nat"),
    ("Stratification", "_stratify_compartments", "passthrough_base_indices"): Lst("Nat"),
    ("Stratification", "_stratify_compartments", "passthrough_target_indices"): Lst("Nat"),
    ("Stratification", "_stratify_compartments", "new_comps"): Lst("Comp"),
}

HEADER = """-- GENERATED by harness/translate/gen_struct.py from /repo (compartment.py, flows.py, stratification.py). Do not edit.
import Summer.Model.PyPrelude
set_option linter.unusedVariables false
namespace Summer.Generated.Struct
open Summer

section
variable {α : Type} [One α] [Div α] [NatCast α]
"""


def main():
    tr = Translator()
    report = {}
    out = [HEADER]
    plan = [
        ("compartment.py", "Compartment", "has_strata", None), ("compartment.py", "Compartment", "_has_strata", None),
        ("compartment.py", "Compartment", "is_match", None), ("compartment.py", "Compartment", "has_stratum", None),
        ("compartment.py", "Compartment", "has_name", "Str"), ("compartment.py", "Compartment", "has_name", "Comp"),
        ("compartment.py", "Compartment", "has_name_in_list", Lst("Comp")), ("compartment.py", "Compartment", "has_name_in_list", Lst("Str")), ("compartment.py", "Compartment", "stratify", None),
        ("compartment.py", "Compartment", "serialize", None),
        ("flows.py", "BaseFlow", "is_match", None),
        ("stratification.py", "Stratification", "get_flow_adjustment", None),
        ("flows.py", "BaseEntryFlow", "stratify", None), ("flows.py", "BaseExitFlow", "stratify", None),
        ("flows.py", "BaseTransitionFlow", "stratify", None), ("flows.py", "AbsoluteFlow", "stratify", None),
        ("stratification.py", "Stratification", "_stratify_compartments", None),
    ]
    # class-attribute tables: is_ageing / is_strain
    try:
        rel = "stratification.py"
        for m, attr in (("is_ageing", "_is_ageing"), ("is_strain", "_is_strain")):
            fn = tr.method(rel, "Stratification", m)
            body = [s for s in fn.body if not (isinstance(s, ast.Expr) and isinstance(s.value, ast.Constant))]
            if not (len(body) == 1 and isinstance(body[0], ast.Return) and ast.unparse(body[0].value) == f"self.{attr}"):
                raise Untranslatable(f"Stratification.{m} is not `return self.{attr}`")
            vals = {}
            for kind, c in (("plain", "Stratification"), ("age", "AgeStratification"), ("strain", "StrainStratification")):
                if tr.has_method(rel, c, m) and c != "Stratification":
                    raise Untranslatable(f"{c} overrides {m}")
                v = tr.class_attr(rel, c, attr)
                if not (isinstance(v, ast.Constant) and isinstance(v.value, bool)):
                    raise Untranslatable(f"{c}.{attr} is not a boolean literal")
                vals[kind] = "true" if v.value else "false"
            out.append(f"/-- `stratification.py::Stratification.{m}` (class attribute `{attr}` of the three classes) -/\n"
                       f"def Stratification.{m} (self : Strat α) : Bool :=\n  match self.kind with\n"
                       f"  | .plain => {vals['plain']}\n  | .age => {vals['age']}\n  | .strain => {vals['strain']}\n")
            report[f"Stratification.{m}"] = "ok"
    except Untranslatable as e:
        report["Stratification.is_ageing/is_strain"] = "untranslatable: " + str(e)
    for rel, c, m, variant in plan:
        key = f"{c}.{m}" + (f"[{variant}]" if variant else "")
        try:
            out.append(tr.function(rel, c, m, variant) + "\n")
            report[key] = "ok"
        except Untranslatable as e:
            report[key] = "untranslatable: " + str(e)
        except Exception as e:     # a malformed source file is a broken obligation, not a crash
            report[key] = "untranslatable: internal " + type(e).__name__ + ": " + str(e)
    for fname in MODULE_FUNCS:
        try:
            out.append(tr.module_function(fname) + "\n")
            report[fname] = "ok"
        except Untranslatable as e:
            report[fname] = "untranslatable: " + str(e)
        except Exception as e:
            report[fname] = "untranslatable: internal " + type(e).__name__ + ": " + str(e)
    out.append("end\nend Summer.Generated.Struct\n")
    os.makedirs(OUT, exist_ok=True)
    text = "\n".join(out)
    path = os.path.join(OUT, "Struct.lean")
    old = open(path).read() if os.path.exists(path) else None
    if old != text:
        with open(path, "w") as f:
            f.write(text)
    if tr.notes:
        report["notes"] = sorted(set(tr.notes))
    print(json.dumps(report))


if __name__ == "__main__":
    main()
