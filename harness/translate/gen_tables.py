#!/usr/bin/env python3
"""Translator: regenerates lean/Summer/Generated/{Tables,Tableau}.lean from /repo's working tree.

What is literally data in the source is read with Python's `ast` (never imported/executed):
  * runner/jax/ode.py       : Dormand-Prince tableau (alpha, beta, c_sol, c_error), dps_c_mid,
                              fit_4th_order_polynomial coefficient rows, optimal_step_size / odeint defaults
  * solver.py               : SolverArgs.DEFAULT / PRECISE / FAST
  * stratification.py       : COMP_SPLIT_REQUEST_ERROR
  * flows.py                : class table (base class, is_death_flow, _is_birth_flow, own stratify override)
  * runner/model_runner.py  : the class tuples / predicates used by ModelBackend.prepare_structural
If a site cannot be parsed nothing is emitted for it, so the Lean build fails on the missing
constant (handled by check.py as a broken obligation)."""
import ast, sys, os, json
from fractions import Fraction

REPO = os.environ.get("SUMMER2_REPO", "/repo")
OUT = os.path.join(os.path.dirname(os.path.abspath(__file__)), "..", "..", "lean", "Summer", "Generated")

def parse(rel):
    with open(os.path.join(REPO, rel)) as f:
        return ast.parse(f.read())

def frac(node):
    """exact value of a numeric literal expression"""
    if isinstance(node, ast.Constant) and isinstance(node.value, (int, float)):
        if isinstance(node.value, float):
            return Fraction(repr(node.value)) if node.value == node.value else None
        return Fraction(node.value)
    if isinstance(node, ast.UnaryOp) and isinstance(node.op, ast.USub):
        return -frac(node.operand)
    if isinstance(node, ast.UnaryOp) and isinstance(node.op, ast.UAdd):
        return frac(node.operand)
    if isinstance(node, ast.BinOp):
        a, b = frac(node.left), frac(node.right)
        if isinstance(node.op, ast.Add): return a + b
        if isinstance(node.op, ast.Sub): return a - b
        if isinstance(node.op, ast.Mult): return a * b
        if isinstance(node.op, ast.Div): return a / b
    raise ValueError("not a numeric literal expression: " + ast.dump(node))

def find_func(tree, name):
    for n in ast.walk(tree):
        if isinstance(n, ast.FunctionDef) and n.name == name:
            return n
    raise KeyError(name)

def find_assign(fn, name):
    for n in ast.walk(fn):
        if isinstance(n, ast.Assign) and len(n.targets) == 1 and isinstance(n.targets[0], ast.Name) and n.targets[0].id == name:
            return n.value
    raise KeyError(name)

def array_literal(node):
    """jnp.array([...], dtype=...) -> nested list of Fractions"""
    if isinstance(node, ast.Call):
        node = node.args[0]
    def conv(n):
        if isinstance(n, (ast.List, ast.Tuple)):
            return [conv(e) for e in n.elts]
        return frac(n)
    return conv(node)

def lean_rat(q):
    q = Fraction(q)
    if q.denominator == 1:
        return f"({q.numerator} : Rat)" 
    return f"(({q.numerator} : Rat) / {q.denominator})"

def lean_list(xs):
    return "[" + ", ".join(lean_rat(x) for x in xs) + "]"

def linear_coeffs(expr, names):
    """coefficients of a linear expression in the given names; products `c * dt * dy0` are keyed 'dt*dy0'"""
    out = {}
    def term(n, sign):
        # flatten product
        factors = []
        def prod(m):
            if isinstance(m, ast.BinOp) and isinstance(m.op, ast.Mult):
                prod(m.left); prod(m.right)
            else:
                factors.append(m)
        prod(n)
        coeff = Fraction(1) * sign
        syms = []
        for f in factors:
            if isinstance(f, ast.Name):
                syms.append(f.id)
            else:
                coeff *= frac(f)
        key = "*".join(sorted(syms))
        out[key] = out.get(key, 0) + coeff
    def walk(n, sign):
        if isinstance(n, ast.BinOp) and isinstance(n.op, ast.Add):
            walk(n.left, sign); walk(n.right, sign)
        elif isinstance(n, ast.BinOp) and isinstance(n.op, ast.Sub):
            walk(n.left, sign); walk(n.right, -sign)
        elif isinstance(n, ast.UnaryOp) and isinstance(n.op, ast.USub):
            walk(n.operand, -sign)
        else:
            term(n, sign)
    walk(expr, 1)
    return out

def gen_tableau():
    ode = parse("summer2/runner/jax/ode.py")
    rk = find_func(ode, "runge_kutta_step")
    alpha = array_literal(find_assign(rk, "alpha"))
    beta = array_literal(find_assign(rk, "beta"))
    c_sol = array_literal(find_assign(rk, "c_sol"))
    c_error = array_literal(find_assign(rk, "c_error"))
    c_mid = array_literal(find_assign(find_func(ode, "interp_fit_dopri"), "dps_c_mid"))
    fit = find_func(ode, "fit_4th_order_polynomial")
    rows = {}
    order = ["dt*dy0", "dt*dy1", "y0", "y1", "y_mid"]
    for nm in "abcde":
        co = linear_coeffs(find_assign(fit, nm), None)
        for k in co:
            if k not in order:
                raise ValueError(f"unexpected term {k} in fit_4th_order_polynomial.{nm}")
        rows[nm] = [co.get(k, Fraction(0)) for k in order]
    # defaults
    opt = find_func(ode, "optimal_step_size")
    opt_defaults = {a.arg: frac(d) for a, d in zip(opt.args.args[-len(opt.args.defaults):], opt.args.defaults)}
    od = find_func(ode, "odeint")
    od_defaults = {}
    for a, d in zip(od.args.kwonlyargs, od.args.kw_defaults):
        try:
            od_defaults[a.arg] = frac(d)
        except Exception:
            od_defaults[a.arg] = None
    # order argument passed to initial_step_size inside _odeint
    _od = find_func(ode, "_odeint")
    init_order = None
    for n in ast.walk(_od):
        if isinstance(n, ast.Call) and isinstance(n.func, ast.Name) and n.func.id == "initial_step_size":
            init_order = frac(n.args[3])
    solver = parse("summer2/solver.py")
    sargs = {}
    for n in ast.walk(solver):
        if isinstance(n, ast.ClassDef) and n.name == "SolverArgs":
            for st in n.body:
                if isinstance(st, ast.Assign):
                    d = st.value
                    sargs[st.targets[0].id] = {k.value: frac(v) for k, v in zip(d.keys, d.values)}
    L = []
    L.append("-- GENERATED by harness/translate/gen_tables.py from /repo (runner/jax/ode.py, solver.py). Do not edit.")
    L.append("namespace Summer.Generated.Tableau")
    L.append(f"def alpha : List Rat := {lean_list(alpha)}")
    L.append("def beta : List (List Rat) := [" + ",\n  ".join(lean_list(r) for r in beta) + "]")
    L.append(f"def cSol : List Rat := {lean_list(c_sol)}")
    L.append(f"def cError : List Rat := {lean_list(c_error)}")
    L.append(f"def cMid : List Rat := {lean_list(c_mid)}")
    L.append("/-- rows a..e of fit_4th_order_polynomial as coefficients of (dt*dy0, dt*dy1, y0, y1, y_mid) -/")
    L.append("def fitRows : List (List Rat) := [" + ",\n  ".join(lean_list(rows[k]) for k in "abcde") + "]")
    for k in ("safety", "ifactor", "dfactor", "order", "max_step"):
        L.append(f"def opt_{k} : Rat := {lean_rat(opt_defaults[k])}")
    L.append(f"def odeintMaxStep : Rat := {lean_rat(od_defaults['max_step'])}")
    L.append(f"def odeintRtol : Rat := {lean_rat(od_defaults['rtol'])}")
    L.append(f"def odeintAtol : Rat := {lean_rat(od_defaults['atol'])}")
    L.append(f"def initStepOrder : Rat := {lean_rat(init_order)}")
    for nm in ("DEFAULT", "PRECISE", "FAST"):
        L.append(f"def solverArgs{nm.capitalize()} : Rat × Rat := ({lean_rat(sargs[nm]['rtol'])}, {lean_rat(sargs[nm]['atol'])})")
    L.append("end Summer.Generated.Tableau")
    return "\n".join(L) + "\n"

KIND = {"TransitionFlow": ".transition", "InfectionFrequencyFlow": ".infFreq", "InfectionDensityFlow": ".infDens",
        "DeathFlow": ".death", "CrudeBirthFlow": ".crudeBirth", "ReplacementBirthFlow": ".replBirth",
        "ImportFlow": ".importF", "AbsoluteFlow": ".absolute"}

def gen_tables():
    flows = parse("summer2/flows.py")
    classes = {}
    for n in flows.body:
        if isinstance(n, ast.ClassDef):
            bases = [b.id for b in n.bases if isinstance(b, ast.Name)]
            attrs = {}
            methods = set()
            for st in n.body:
                if isinstance(st, ast.Assign) and isinstance(st.targets[0], ast.Name) and isinstance(st.value, ast.Constant):
                    attrs[st.targets[0].id] = st.value.value
                if isinstance(st, ast.FunctionDef):
                    methods.add(st.name)
            classes[n.name] = dict(bases=bases, attrs=attrs, methods=methods)
    def mro(c):
        out = [c]
        for b in classes.get(c, {}).get("bases", []):
            out += mro(b)
        return out
    def attr(c, a, default=None):
        for k in mro(c):
            if k in classes and a in classes[k]["attrs"]:
                return classes[k]["attrs"][a]
        return default
    def isinst(c, base):
        return base in mro(c)
    def stratify_owner(c):
        for k in mro(c):
            if k in classes and "stratify" in classes[k]["methods"]:
                return k
    leaf = [c for c in KIND if c in classes]
    if len(leaf) != len(KIND):
        raise ValueError("flow classes missing: " + str(set(KIND) - set(leaf)))
    # prepare_structural predicates
    runner = parse("summer2/runner/model_runner.py")
    ps = find_func(runner, "prepare_structural")
    def type_tuple_for(attrname):
        """classes named in `type(f) in (...)` / `type(f) == flows.X` of the comprehension assigned to self.<attrname>"""
        for n in ast.walk(ps):
            if isinstance(n, ast.Assign) and isinstance(n.targets[0], ast.Attribute) and n.targets[0].attr == attrname:
                names = []
                for m in ast.walk(n.value):
                    if isinstance(m, ast.Compare):
                        for comp in m.comparators:
                            for a in ast.walk(comp):
                                if isinstance(a, ast.Attribute) and isinstance(a.value, ast.Name) and a.value.id == "flows":
                                    names.append(a.attr)
                    if isinstance(m, ast.Call) and isinstance(m.func, ast.Name) and m.func.id == "isinstance":
                        a = m.args[1]
                        if isinstance(a, ast.Attribute):
                            names.append("isinstance:" + a.attr)
                    if isinstance(m, ast.Attribute) and m.attr == "is_death_flow":
                        names.append("attr:is_death_flow")
                return names
        raise KeyError(attrname)
    def kinds_for(attrname):
        spec = type_tuple_for(attrname)
        out = []
        for c in leaf:
            ok = False
            for s in spec:
                if s.startswith("isinstance:"):
                    ok = ok or isinst(c, s.split(":")[1])
                elif s == "attr:is_death_flow":
                    ok = ok or bool(attr(c, "is_death_flow", False))
                else:
                    ok = ok or (c == s)
            if ok:
                out.append(KIND[c])
        return out
    strat = parse("summer2/stratification.py")
    tol = None
    for n in strat.body:
        if isinstance(n, ast.Assign) and isinstance(n.targets[0], ast.Name) and n.targets[0].id == "COMP_SPLIT_REQUEST_ERROR":
            tol = frac(n.value)
    if tol is None or tol.numerator != 1:
        raise ValueError("COMP_SPLIT_REQUEST_ERROR is not of the form 1/n: %r" % tol)
    def lst(xs): return "[" + ", ".join(xs) + "]"
    L = []
    L.append("-- GENERATED by harness/translate/gen_tables.py from /repo (flows.py, runner/model_runner.py, stratification.py). Do not edit.")
    L.append("import Summer.Model.Structure")
    L.append("namespace Summer.Generated")
    L.append("open Summer")
    L.append(f"def splitTolDen : Nat := {tol.denominator}")
    L.append(f"def nonPopKinds : List FlowKind := {lst(kinds_for('_non_pop_flow_idx'))}")
    L.append(f"def crudeKinds : List FlowKind := {lst(kinds_for('_crude_birth_idx'))}")
    L.append(f"def replKinds : List FlowKind := {lst(kinds_for('_replacement_flow_idx'))}")
    L.append(f"def deathKinds : List FlowKind := {lst(kinds_for('death_flow_indices'))}")
    L.append(f"def infectionKinds : List FlowKind := {lst(kinds_for('infectious_flow_indices'))}")
    L.append(f"def birthKinds : List FlowKind := {lst([KIND[c] for c in leaf if attr(c, '_is_birth_flow', False)])}")
    L.append(f"def entryKinds : List FlowKind := {lst([KIND[c] for c in leaf if stratify_owner(c) == 'BaseEntryFlow'])}")
    L.append(f"def exitKinds : List FlowKind := {lst([KIND[c] for c in leaf if stratify_owner(c) == 'BaseExitFlow'])}")
    L.append(f"def transitionKinds : List FlowKind := {lst([KIND[c] for c in leaf if isinst(c, 'BaseTransitionFlow')])}")
    L.append(f"def absoluteShareKinds : List FlowKind := {lst([KIND[c] for c in leaf if stratify_owner(c) == c and isinst(c, 'BaseTransitionFlow')])}")
    L.append("end Summer.Generated")
    return "\n".join(L) + "\n"

def write_if_changed(path, text):
    try:
        if open(path).read() == text:
            return False
    except FileNotFoundError:
        pass
    with open(path, "w") as f:
        f.write(text)
    return True

def main():
    os.makedirs(OUT, exist_ok=True)
    status = {}
    for name, fn in (("Tableau.lean", gen_tableau), ("Tables.lean", gen_tables)):
        path = os.path.join(OUT, name)
        try:
            text = fn()
            status[name] = "changed" if write_if_changed(path, text) else "unchanged"
        except Exception as e:  # site not parseable: emit nothing -> Lean build fails on the missing constant
            status[name] = f"untranslatable: {type(e).__name__}: {e}"
            write_if_changed(path, f"-- UNTRANSLATABLE: {type(e).__name__}: {e}\n")
    print(json.dumps(status))

if __name__ == "__main__":
    main()
