"""Worker pool: every worker process imports the real summer2 (through jaxfix) once and owns one
exact and one floating-point Lean driver."""
import os, sys, json, time, traceback, random, multiprocessing as mp

HERE = os.path.dirname(os.path.abspath(__file__))
sys.path.insert(0, HERE)

_W = {}

def _init():
    import warnings
    warnings.filterwarnings("ignore")
    os.environ.setdefault("JAX_PLATFORMS", "cpu")
    os.environ.setdefault("XLA_FLAGS", "--xla_cpu_multi_thread_eigen=false intra_op_parallelism_threads=1")
    os.environ.setdefault("OMP_NUM_THREADS", "1")
    if os.environ.get("VERIF_COV"):
        # optional: measure which lines of /repo/summer2 the correspondence executes (harness/coverage_report.py)
        import coverage
        cov = coverage.Coverage(data_file=os.path.join(os.environ["VERIF_COV"], f".coverage.{os.getpid()}"),
                                source_pkgs=["summer2"], config_file=False)
        cov.start()
        _W["cov"] = cov
    devnull = open(os.devnull, "w")
    old = sys.stderr
    sys.stderr = devnull
    try:
        import interp  # noqa
    finally:
        sys.stderr = old
    from lean_bridge import LeanDriver
    _W["interp_mod"] = interp
    _W["rat"] = LeanDriver("rat")
    _W["float"] = LeanDriver("float")

def _run(args):
    modname, fname, payload = args
    try:
        mod = __import__(modname)
        fn = getattr(mod, fname)
        t = time.time()
        out = fn(_W, payload)
        out["_wall"] = time.time() - t
        if "cov" in _W:
            _W["cov"].save()
        return out
    except (KeyboardInterrupt, SystemExit):
        raise
    except BaseException as e:
        return {"infra_error": traceback.format_exc()[-2000:], "payload": payload}

class Pool:
    def __init__(self, n=None):
        n = n or int(os.environ.get("VERIF_WORKERS", "14"))
        ctx = mp.get_context("spawn")
        # a worker is replaced after a bounded number of tasks: the real library's trace / compilation caches grow with every program, and over
        # the thousands of programs of the thorough tier a worker would otherwise reach several GB (the kernel then kills it and its task is lost)
        self.pool = ctx.Pool(n, initializer=_init, maxtasksperchild=int(os.environ.get("VERIF_TASKS_PER_WORKER", "60")))

    def map(self, modname, fname, payloads, chunksize=1):
        """results in completion order; a task whose worker died, or that hangs, is reported as an infrastructure error (never as a result)
        once nothing has completed for VERIF_STALL_SECONDS"""
        pend = [(p, self.pool.apply_async(_run, ((modname, fname, p),))) for p in payloads]
        last = time.time()
        stall = float(os.environ.get("VERIF_STALL_SECONDS", "900"))
        while pend:
            progressed = False
            for item in list(pend):
                p, a = item
                if a.ready():
                    pend.remove(item); progressed = True; last = time.time()
                    try:
                        yield a.get()
                    except BaseException as e:
                        yield {"infra_error": "worker raised: " + repr(e)[:500], "payload": p}
            if not progressed:
                if time.time() - last > stall:
                    for p, a in pend:
                        yield {"infra_error": f"task lost or hung: no task completed for {stall:.0f}s (worker killed, e.g. out of memory?)", "payload": p}
                    return
                time.sleep(0.05)

    def close(self):
        self.pool.terminate()
        self.pool.join()
