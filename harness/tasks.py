"""Worker-side task functions shared by the property checks."""
import random, json
from fractions import Fraction as Fr
from gen import Gen, Opts, gen_state, fix_categories, q
from corr import Session, prog_hash

def fresh_session(W):
    I = W["interp_mod"].Interp()
    return Session(I, W["rat"], W["float"])

def general_task(W, payload):
    """generate program #index of seed, run build + dump + one_step samples + one fixed-step run"""
    seed, index, optkw = payload["seed"], payload["index"], payload.get("opts", {})
    r = random.Random(f"{seed}:{index}")
    g = Gen(r, Opts(**optkw))
    prog = g.program()
    S = fresh_session(W)
    ok = S.build(prog["build"])
    res = {"hash": prog_hash(prog["build"]), "feat": prog["meta"]["feat"], "built": ok, "both_rejected": S.both_rejected,
           "n_comps": prog["meta"]["n_comps"], "evals": 0}
    if ok:
        S.dump()
        params = prog["params"]
        S.init_pop(params)
        n = prog["meta"]["n_comps"]
        t0 = Fr(prog["meta"]["t0"]); dt = Fr(prog["meta"]["dt"])
        for j, mode in enumerate(payload.get("modes", ["interior", "boundary", "negative"])):
            x = fix_categories(r, gen_state(r, n, mode), prog["meta"]["comps"], prog["meta"]["mixing_strats"])
            t = t0 + Fr(r.randint(0, 2 * prog["meta"]["nsteps"]), 2) * dt
            S.one_step(params, q(t), [q(v) for v in x])
            res["evals"] += 1
        for solver in payload.get("solvers", ["euler", "rk4"]):
            S.run(params, solver)
            res["evals"] += 1
    elif S.both_rejected:
        res["reject_msg"] = S.reject_msg
        res["rejected_op"] = prog["build"][S.rejected_at]
    res["log"] = S.log
    if S.log:
        res["program"] = prog
    return res
