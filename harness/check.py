#!/usr/bin/env python3
"""usage: check.py Cxx [--tier quick|thorough] [--replay file]   (cwd anywhere; honours VERIF_SEED / VERIF_TIER)"""
import os, sys
HERE = os.path.dirname(os.path.abspath(__file__))
PY = "/venv/bin/python"
if os.path.realpath(sys.executable) != os.path.realpath(PY) and os.path.exists(PY) and not os.environ.get("VERIF_NO_REEXEC"):
    os.execv(PY, [PY, os.path.abspath(__file__)] + sys.argv[1:])
sys.path.insert(0, HERE)
sys.path.insert(0, os.path.join(HERE, "props"))
os.chdir(os.path.dirname(HERE))
import warnings
warnings.filterwarnings("ignore")

if __name__ == "__main__":
    if len(sys.argv) < 2:
        print(__doc__); sys.exit(2)
    prop = sys.argv[1].lower()
    from framework import run_check
    try:
        rc = run_check(prop, sys.argv[2:])
    except SystemExit:
        raise
    except Exception:
        import traceback
        traceback.print_exc()
        rc = 2
    sys.exit(rc)
