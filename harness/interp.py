"""Executes DSL programs (lists of JSON ops, see DESIGN §2.5) on the REAL summer2 API running on the
real JAX (through the external compat layer `jaxfix`), and extracts canonical observables.

Only raise / no-raise is reported for failures (never the exception class)."""
import os, sys, math, json
from fractions import Fraction

sys.path.insert(0, os.path.dirname(os.path.abspath(__file__)))
if os.environ.get("SUMMER2_REPO"):
    # exploration runs (vp run --with-repo) execute a SNAPSHOT of the repository so that they do not see seeded changes being
    # applied to /repo meanwhile; registered checks never set this and import /repo's working tree
    sys.path.insert(0, os.environ["SUMMER2_REPO"])
import jaxfix  # noqa: F401  (must come before anything importing jax)
import numpy as np
import jax
from jax import numpy as jnp

import summer2
from summer2 import CompartmentalModel, Stratification, AgeStratification, StrainStratification, Multiply, Overwrite
from summer2.parameters import Parameter, Function, Time, CompartmentValues, DerivedOutput
from summer2.functions import time as stf
from summer2.functions.util import capture_array
import summer2.flows as sflows


def num(s):
    """DSL number ("3/2") -> float (inputs are small dyadic rationals, so this is exact)"""
    if isinstance(s, (int, float)):
        return float(s)
    return float(Fraction(s))


def _popsum(x):
    return jnp.sum(x)


class Ctx:
    """Per-program registry (so the structure dump can name expressions)"""
    def __init__(self):
        self.reg = {}

def is_const(e):
    return isinstance(e, dict) and "c" in e

def py_expr(e, x_axis_default=None):
    """DSL expression -> real summer2/computegraph object (or plain float for a literal)"""
    if "c" in e:
        return num(e["c"])
    if "p" in e:
        return Parameter(e["p"])
    if "t" in e:
        return Time
    if "x" in e:
        return CompartmentValues[int(e["x"])]
    if "xs" in e:
        return Function(_popsum, [CompartmentValues])
    if "do" in e:
        return DerivedOutput(e["do"])
    for k, f in (("+", lambda a, b: a + b), ("-", lambda a, b: a - b), ("*", lambda a, b: a * b), ("/", lambda a, b: a / b)):
        if k in e:
            a, b = py_expr(e[k][0]), py_expr(e[k][1])
            if not hasattr(a, "evaluate") and not hasattr(b, "evaluate"):
                # two literals: summer2 would see a plain number
                return f(a, b)
            return f(a, b)
    if "pw" in e:
        x, bps, vals = e["pw"]
        return stf.get_piecewise_function(py_points(bps), py_points(vals), x_axis=py_axis(x))
    if "lin" in e:
        x, xs, ys = e["lin"]
        return stf.get_linear_interpolation_function(py_points(xs), py_points(ys), x_axis=py_axis(x))
    if "sig" in e:
        x, xs, ys, c = e["sig"]
        return stf.get_sigmoidal_interpolation_function(py_points(xs), py_points(ys), x_axis=py_axis(x), curvature=num(c))
    raise ValueError("bad expr %r" % (e,))

def py_axis(x):
    v = py_expr(x)
    return v

def py_points(lst):
    """points: all literals -> numpy array; otherwise a python list mixing numbers and graph objects"""
    if all(is_const(e) for e in lst):
        return np.array([num(e["c"]) for e in lst], dtype=float)
    return [py_expr(e) for e in lst]

def py_adj(a):
    if a is None:
        return None
    kind, e = a[0], a[1]
    bare = len(a) > 2 and a[2] == "bare"
    v = py_expr(e)
    if kind == "mul":
        return v if bare else Multiply(v)
    return Overwrite(v)

def py_matrix(rows):
    if all(is_const(e) for r in rows for e in r):
        return np.array([[num(e["c"]) for e in r] for r in rows], dtype=float)
    return capture_array([[py_expr(e) for e in r] for r in rows])

def strata_dict(s):
    return {k: v for k, v in (s or [])}

KIND_OF_CLASS = {
    "TransitionFlow": "transition", "InfectionFrequencyFlow": "inf_freq", "InfectionDensityFlow": "inf_dens",
    "DeathFlow": "death", "CrudeBirthFlow": "crude_birth", "ReplacementBirthFlow": "repl_birth",
    "ImportFlow": "import", "AbsoluteFlow": "absolute",
}

def comp_json(c):
    if c is None:
        return None
    return [c.name, [[k, v] for k, v in c.strata.items()]]

def adj_kind(a):
    return "ovr" if isinstance(a, Overwrite) else "mul"

def const_value(p):
    """numeric value of a parameter object if it is a literal, else None"""
    from computegraph.types import Data
    from summer2.parameters.param_impl import GraphObjectParameter
    if isinstance(p, GraphObjectParameter):
        p = p.obj
    if isinstance(p, Data):
        p = p.data
    if isinstance(p, (int, float, np.floating, np.integer)):
        return float(p)
    return None


SHARED_STRATS = {}


class Interp:
    def __init__(self):
        self.model = None
        self.runner = None
        self.runner_key = None
        self.array_params = {}
        self.flt_src = {}; self.flt_dst = {}

    # ---- build ops -------------------------------------------------------------------------
    def apply(self, op):
        """returns a result dict with at least {"ok": bool}"""
        try:
            fn = getattr(self, "op_" + op["op"])
        except AttributeError:
            return {"ok": False, "err": "unknown op", "infra": True}
        try:
            r = fn(op)
            out = {"ok": True}
            if r:
                out.update(r)
            return out
        except (KeyboardInterrupt, SystemExit):
            raise
        except BaseException as e:  # raise / no-raise only (computegraph.GraphRunError derives from BaseException)
            return {"ok": False, "err": type(e).__name__ + ": " + str(e)[:200]}

    def op_model(self, op):
        self.model = CompartmentalModel((num(op["t0"]), num(op["t1"])), list(op["comps"]), list(op["inf"]), timestep=num(op["dt"]))
        self.runner = None

    def op_flow(self, op):
        m = self.model
        kind = op["kind"]
        name = op["name"]
        param = py_expr(op["param"]) if op.get("param") is not None else "not-a-number"
        ss = strata_dict(op.get("src_strata")) or None
        ds = strata_dict(op.get("dst_strata")) or None
        if op.get("reuse_filter"):
            # the caller keeps ONE dict object per end and updates it in place from call to call (a loop over strata that edits its filter)
            if ss is not None:
                self.flt_src.clear(); self.flt_src.update(ss); ss = self.flt_src
            if ds is not None:
                self.flt_dst.clear(); self.flt_dst.update(ds); ds = self.flt_dst
        ex = op.get("expected")
        if kind == "crude_birth":
            m.add_crude_birth_flow(name, param, op["dst"], ds, ex)
        elif kind == "repl_birth":
            m.add_replacement_birth_flow(name, op["dst"], ds, ex)
        elif kind == "import":
            m.add_importation_flow(name, param, op["dst"], bool(op["split"]), ds, ex)
        elif kind == "death":
            m.add_death_flow(name, param, op["src"], ss, ex)
        elif kind == "universal_death":
            m.add_universal_death_flows(name, param)
        elif kind == "transition":
            m.add_transition_flow(name, param, op["src"], op["dst"], ss, ds, ex)
        elif kind == "absolute":
            m.add_transition_flow(name, param, op["src"], op["dst"], ss, ds, ex, absolute=True)
        elif kind == "inf_freq":
            m.add_infection_frequency_flow(name, param, op["src"], op["dst"], ss, ds, ex)
        elif kind == "inf_dens":
            m.add_infection_density_flow(name, param, op["src"], op["dst"], ss, ds, ex)
        else:
            raise RuntimeError("bad kind")
        return {"n_flows": len(m.flows)}

    def op_stratify(self, op):
        cls = {"plain": Stratification, "age": AgeStratification, "strain": StrainStratification}[op["kind"]]
        if op.get("share") is not None and op["share"] in SHARED_STRATS:
            # the same Stratification OBJECT applied to another model (scenario models commonly share them)
            self.model.stratify_with(SHARED_STRATS[op["share"]])
            return {"n_comps": len(self.model.compartments), "n_flows": len(self.model.flows)}
        s = cls(op["name"], list(op["strata"]), list(op["comps"]))
        if op.get("share") is not None:
            SHARED_STRATS[op["share"]] = s
        if op.get("split") is not None:
            s.set_population_split({k: py_expr(e) for k, e in op["split"]})
        for d in op.get("flow_adj") or []:
            s.set_flow_adjustments(d["flow"], {k: py_adj(a) for k, a in d["adjs"]},
                                   source_strata=strata_dict(d.get("src")) or None,
                                   dest_strata=strata_dict(d.get("dst")) or None)
        for comp, adjs in op.get("inf_adj") or []:
            s.add_infectiousness_adjustments(comp, {k: py_adj(a) for k, a in adjs})
        if op.get("mixing") is not None:
            if op.get("mixing_array_param"):
                # the whole matrix is ONE array-valued Parameter (the usual way a contact matrix is supplied); its entries are the scalar
                # parameters named in op["mixing"] (which is what the Lean model reads), assembled into the array in `_params`
                from summer2.parameters import Parameter as _Parameter
                assert all(set(e) == {"p"} for row in op["mixing"] for e in row), "array-parameter matrix entries must be plain parameters"
                self.array_params[op["mixing_array_param"]] = [[e["p"] for e in row] for row in op["mixing"]]
                s.set_mixing_matrix(_Parameter(op["mixing_array_param"]))
            else:
                s.set_mixing_matrix(py_matrix(op["mixing"]))
        self.model.stratify_with(s)
        return {"n_comps": len(self.model.compartments), "n_flows": len(self.model.flows)}

    def op_init_pop(self, op):
        if op.get("is_dict", True) is False:
            self.model.set_initial_population([(k, py_expr(e)) for k, e in op["dist"]])
        else:
            self.model.set_initial_population({k: py_expr(e) for k, e in op["dist"]})

    def op_init_pop_array(self, op):
        arr = op["arr"]
        if all(is_const(e) for e in arr):
            obj = jnp.array([num(e["c"]) for e in arr])
        else:
            obj = capture_array([py_expr(e) for e in arr])
        self.model.init_population_with_graphobject(obj)

    def op_adjust_split(self, op):
        self.model.adjust_population_split(op["strat"], strata_dict(op["filter"]), {k: py_expr(e) for k, e in op["props"]})

    def op_computed_value(self, op):
        v = py_expr(op["expr"])
        if not hasattr(v, "evaluate"):
            from computegraph.types import Data
            v = Data(v)
        self.model.add_computed_value_func(op["name"], v)

    def op_request(self, op):
        m = self.model
        k = op["kind"]
        save = op.get("save", True)
        if k == "flow":
            m.request_output_for_flow(op["name"], op["flow"], strata_dict(op.get("src_strata")) or None,
                                      strata_dict(op.get("dst_strata")) or None, save_results=save, raw_results=bool(op["raw"]))
        elif k == "comp":
            m.request_output_for_compartments(op["name"], list(op["comps"]), strata_dict(op.get("strata")) or None, save_results=save)
        elif k == "agg":
            m.request_aggregate_output(op["name"], list(op["sources"]), save_results=save)
        elif k == "cum":
            st = op.get("start")
            m.request_cumulative_output(op["name"], op["source"], start_time=(None if st is None else num(st)), save_results=save)
        elif k == "func":
            # expression whose {"x": i} leaves denote the i-th source series
            srcs = op["sources"]
            def conv(e):
                if "x" in e:
                    return {"do": srcs[int(e["x"])]}
                for b in ("+", "-", "*", "/"):
                    if b in e:
                        return {b: [conv(e[b][0]), conv(e[b][1])]}
                return e
            f = py_expr(conv(op["expr"]))
            m.request_function_output(op["name"], f, save_results=save)
        elif k == "cv":
            m.request_computed_value_output(op["name"], save_results=save)
        else:
            raise RuntimeError("bad request kind")

    def op_whitelist(self, op):
        self.model.set_derived_outputs_whitelist(list(op["names"]))
        self.runner = None

    def op_finalize(self, op):
        self.model.finalize()

    # ---- observation ops ---------------------------------------------------------------------
    def op_dump(self, op):
        m = self.model
        flows = []
        for f in m.flows:
            flows.append({
                "kind": KIND_OF_CLASS[type(f).__name__], "name": f.name,
                "src": comp_json(f.source), "dst": comp_json(f.dest),
                "param_const": const_value(f.param),
                "adjs": [[adj_kind(a), const_value(a.param)] for a in f.adjustments],
            })
        return {"dump": {
            "comps": [comp_json(c) for c in m.compartments],
            "flows": flows,
            "mixing_cats": [[[k, v] for k, v in mc.items()] for mc in m._mixing_categories],
            "strains": list(m._disease_strains),
            "n_mixing": len(m._mixing_matrices),
            "strats": [s.name for s in m._stratifications],
            "requests": list(m._derived_output_requests.keys()),
        }}

    def op_times(self, op):
        return {"times": [float(t) for t in self.model.times]}

    def _params(self, op):
        p = {k: num(v) for k, v in op["params"]}
        for name, rows in self.array_params.items():
            if all(k in p for row in rows for k in row):
                p[name] = np.array([[p[k] for k in row] for row in rows], dtype=float)
                for row in rows:
                    for k in row: p.pop(k, None)
        return p

    def _get_runner(self, params, **kw):
        key = json.dumps(kw, sort_keys=True, default=str)
        if self.runner is None or self.runner_key != key:
            self.runner = self.model.get_runner(params, jit=False, **kw)
            self.runner_key = key
        return self.runner

    def op_init_pop_eval(self, op):
        p = self._params(op)
        r = self._get_runner(p)
        st = r.impl_dict["one_step"](p)
        return {"x0": [float(v) for v in np.asarray(st.initial_population)]}

    def op_one_step(self, op):
        p = self._params(op)
        r = self._get_runner(p)
        t = num(op["t"]) if op.get("t") is not None else None
        x = np.array([num(v) for v in op["x"]], dtype=float) if op.get("x") is not None else None
        if x is not None and op.get("x_dtype") == "int":
            x = np.array([int(num(v)) for v in op["x"]], dtype=np.int64)       # a state given as whole numbers (counts of people), as an integer array
        elif x is not None:
            x = jnp.array(x)
        st = r.impl_dict["one_step"](p, t, x)
        out = {
            "flow_rates": [float(v) for v in np.asarray(st.flow_rates)],
            "comp_rates": [float(v) for v in np.asarray(st.comp_rates)],
            "mixing": np.asarray(st.ts_graph_vals["mixing_matrix"]).tolist(),
            "static_weights": [float(v) for v in np.asarray(st.model_data["static_flow_weights"])],
            "x0": [float(v) for v in np.asarray(st.initial_population)],
        }
        if st.infectious_multipliers is not None:
            out["mults"] = [float(v) for v in np.asarray(st.infectious_multipliers)]
            out["per_strain"] = [[float(v) for v in np.asarray(st.infect_mul_per_strain[s])] for s in self.model._disease_strains]
        else:
            out["mults"] = []
            out["per_strain"] = []
        out["comp_inf_strain"] = [[float(v) for v in np.asarray(st.model_data["compartment_infectiousness"][s])] for s in self.model._disease_strains]
        return out

    def op_run(self, op):
        p = self._params(op)
        m = self.model
        kw = {}
        if op.get("rtol") is not None or op.get("atol") is not None:
            sa = {}
            if op.get("rtol") is not None: sa["rtol"] = num(op["rtol"])
            if op.get("atol") is not None: sa["atol"] = num(op["atol"])
            kw["solver_args"] = sa
        m.run(parameters=p, solver=op["solver"], rebuild=bool(op.get("rebuild", True)), jit=bool(op.get("jit", False)), **kw)
        return {"outputs": np.asarray(m.outputs).tolist(),
                "derived": [[k, np.asarray(v).tolist()] for k, v in m.derived_outputs.items()]}

    def op_query_comps(self, op):
        q = strata_dict(op["filter"])
        if op.get("name") is not None:
            q = {"name": op["name"], **q}
        res = self.model.query_compartments(q)
        return {"comps": [comp_json(c) for c in res]}

    def op_query_flows(self, op):
        res = self.model.query_flows(op.get("name"), strata_dict(op.get("src")) or None, strata_dict(op.get("dst")) or None)
        ids = [id(f) for f in self.model.flows]
        return {"flows": [ids.index(id(f)) for f in res]}

    def op_input_params(self, op):
        return {"params": sorted(self.model.get_input_parameters())}
