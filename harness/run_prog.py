#!/usr/bin/env python3
"""Run one DSL program in a fresh interpreter and print a digest of the bit patterns of its outputs
(used by C11 to compare runs under different PYTHONHASHSEED values)."""
import sys, os, json, hashlib, warnings
warnings.filterwarnings("ignore")
sys.path.insert(0, os.path.dirname(os.path.abspath(__file__)))
_err = sys.stderr
sys.stderr = open(os.devnull, "w")
import interp
sys.stderr = _err
import numpy as np

def main():
    job = json.load(sys.stdin)
    # other models built and run earlier in this process (C11: a run must not depend on what ran before it)
    for other in job.get("before", []):
        J = interp.Interp()
        okb = True
        for op in other["ops"]:
            if not J.apply(op)["ok"]:
                okb = False; break
        if okb:
            for run in other["runs"]:
                J.apply(run)
    I = interp.Interp()
    for op in job["ops"]:
        r = I.apply(op)
        if not r["ok"]:
            print(json.dumps({"ok": False, "err": r.get("err")})); return
    digests = []
    for run in job["runs"]:
        r = I.apply(run)
        if not r["ok"]:
            digests.append("ERR"); continue
        h = hashlib.sha256()
        h.update(np.asarray(r["outputs"], dtype=np.float64).tobytes())
        for k, v in sorted(r["derived"]):
            h.update(k.encode()); h.update(np.asarray(v, dtype=np.float64).tobytes())
        digests.append(h.hexdigest())
    print(json.dumps({"ok": True, "digests": digests, "comps": [str(c) for c in I.model.compartments], "hashseed": os.environ.get("PYTHONHASHSEED")}))

if __name__ == "__main__":
    main()
