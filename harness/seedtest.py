#!/usr/bin/env python3
"""Apply a seeded change to /repo, run the given checks, undo it.  usage: seedtest.py <seeded dir> [Cxx ...] [--tier quick]
Prints one line per check: property, exit code, VIOLATION/KNOWN lines."""
import sys, os, subprocess, json
ROOT = os.path.dirname(os.path.dirname(os.path.abspath(__file__)))

def main():
    d = os.path.abspath(sys.argv[1])
    props = [a for a in sys.argv[2:] if a.startswith("C")]
    meta = json.load(open(os.path.join(d, "meta.json")))
    if not props:
        props = [meta["property"]]
    st = subprocess.run("git -C /repo status --porcelain", shell=True, capture_output=True, text=True).stdout.strip()
    if st:
        print("refusing: /repo is not clean:\n" + st); sys.exit(2)
    r = subprocess.run(["git", "-C", "/repo", "apply", os.path.join(d, "patch.diff")], capture_output=True, text=True)
    if r.returncode != 0:
        print("patch does not apply:", r.stderr); sys.exit(2)
    results = {}
    try:
        for p in props:
            out = subprocess.run(["python3", os.path.join(ROOT, "harness", "check.py"), p, "--tier", "quick"], capture_output=True, text=True, cwd=ROOT, timeout=3000)
            lines = [l for l in out.stdout.splitlines() if l.startswith(("VIOLATION", "KNOWN-FINDING")) or l.startswith(p + " ")]
            results[p] = {"exit": out.returncode, "lines": lines}
            print(p, "exit", out.returncode, "|", " || ".join(l[:220] for l in lines), flush=True)
    finally:
        subprocess.run("git -C /repo checkout -- .", shell=True)
    json.dump(results, open(os.path.join(d, "detection.json"), "w"), indent=1)

if __name__ == "__main__":
    main()
