#!/usr/bin/env python3
"""Which lines of /repo/summer2 does the correspondence execute?  (DESIGN section 10)

usage: coverage_report.py [Cxx ...]     (default: all 19 properties, quick tier)
Runs each property's check with VERIF_COV set (worker processes trace summer2 with coverage.py), combines the
data and writes coverage_report.json: per file executed / executable statements and the missing line ranges.
This is a measurement of the reach of the tie between model and code, not a check: it never prints VIOLATION."""
import os, sys, json, subprocess, tempfile, shutil, glob
HERE = os.path.dirname(os.path.abspath(__file__))
ROOT = os.path.dirname(HERE)
PY = "/venv/bin/python"

def main():
    if os.path.realpath(sys.executable) != os.path.realpath(PY) and os.path.exists(PY):
        os.execv(PY, [PY, os.path.abspath(__file__)] + sys.argv[1:])
    props = [a for a in sys.argv[1:] if a.startswith("C")] or [f"C{i:02d}" for i in range(1, 20)]
    d = tempfile.mkdtemp(prefix="verifcov-")
    try:
        env = dict(os.environ, VERIF_COV=d)
        for p in props:
            r = subprocess.run([PY, os.path.join(HERE, "check.py"), p, "--tier", "quick"], cwd=ROOT, env=env, capture_output=True, text=True)
            print(p, "exit", r.returncode, r.stdout.strip().splitlines()[-1][:160] if r.stdout.strip() else "", flush=True)
        import coverage
        cov = coverage.Coverage(data_file=os.path.join(d, ".coverage"), config_file=False)
        cov.combine(glob.glob(os.path.join(d, ".coverage.*")))
        cov.save()
        out = {}
        tot_e = tot_m = 0
        data = cov.get_data()
        for f in sorted(data.measured_files()):
            if "/summer2/" not in f:
                continue
            _, stmts, _, missing, _ = cov.analysis2(f)
            rel = f.split("/summer2/", 1)[1]
            ranges = []
            for ln in missing:
                if ranges and ln == ranges[-1][1] + 1:
                    ranges[-1][1] = ln
                else:
                    ranges.append([ln, ln])
            out["summer2/" + rel] = {"statements": len(stmts), "executed": len(stmts) - len(missing),
                                     "missing": [f"{a}-{b}" if a != b else str(a) for a, b in ranges]}
            tot_e += len(stmts) - len(missing); tot_m += len(missing)
        # files never imported at all
        for dp, dn, fn in os.walk("/repo/summer2"):
            for f in fn:
                if f.endswith(".py"):
                    rel = os.path.relpath(os.path.join(dp, f), "/repo")
                    if rel not in out:
                        out[rel] = {"statements": None, "executed": 0, "missing": ["never imported"]}
        rep = {"properties": props, "total_executed": tot_e, "total_statements": tot_e + tot_m, "files": out}
        json.dump(rep, open(os.path.join(ROOT, "coverage_report.json"), "w"), indent=1)
        for k, v in out.items():
            print(f"{k:50s} {v['executed']}/{v['statements']}")
        print("total", tot_e, "/", tot_e + tot_m)
    finally:
        shutil.rmtree(d, ignore_errors=True)

if __name__ == "__main__":
    main()
