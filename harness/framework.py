"""Shared machinery of every property check (DESIGN §2.6).

A property module (harness/props/cXX.py) provides
    ID, TITLE, THEOREM_FILES (Props modules that carry its theorems), STAGES (correspondence it owns),
    payloads(tier, seed) -> list of worker payloads
    TASK = "<function name in that module>"  : (W, payload) -> {"evals", "cases":[hash..], "fails":[..], "diffs":[..], "feat":{..}, "sample":..}
    optional search_payloads(tier, seed, diffs) -> extra payloads run when an obligation / the correspondence broke
    optional known_probe payloads (reproduce known findings)
A *fail* is a concrete input on which the property itself fails on the real code (oracle).
A *diff* is a disagreement between the Lean model and the real code on an observable (correspondence).
"""
import os, sys, re, json, time, subprocess, hashlib, importlib, collections, traceback

HERE = os.path.dirname(os.path.abspath(__file__))
ROOT = os.path.dirname(HERE)
LEAN = os.path.join(ROOT, "lean")
ALLOWED_AXIOMS = {"propext", "Classical.choice", "Quot.sound"}
FORBIDDEN = re.compile(r"\bsorry\b|\badmit\b|^\s*axiom\s|native_decide|bv_decide|implemented_by|\bunsafe\s|maxHeartbeats\s+0")


def sh(cmd, cwd=None, timeout=3600):
    p = subprocess.run(cmd, shell=True, cwd=cwd, stdout=subprocess.PIPE, stderr=subprocess.STDOUT, text=True, timeout=timeout)
    return p.returncode, p.stdout


def strip_comments(src):
    src = re.sub(r"/-.*?-/", "", src, flags=re.S)
    return "\n".join(l.split("--")[0] for l in src.splitlines())


def import_closure(mods):
    """paths of all project-local Lean files reachable through `import` from the given modules"""
    seen, todo, out = set(), list(mods), []
    while todo:
        m = todo.pop()
        if m in seen:
            continue
        seen.add(m)
        path = os.path.join(LEAN, *m.split(".")) + ".lean"
        if not os.path.exists(path):
            continue
        out.append(path)
        for l in open(path):
            mm = re.match(r"\s*(?:public\s+)?import\s+([\w.]+)", l)
            if mm and (mm.group(1).startswith("Summer") or mm.group(1).startswith("Driver")):
                todo.append(mm.group(1))
    return sorted(out)


class LeanStatus:
    def __init__(self):
        self.translate = {}
        self.build_ok = False
        self.build_log = ""
        self.driver_ok = False
        self.props = {}      # module -> {"ok", "theorems", "axioms":{thm:[..]}, "log"}
        self.forbidden = []


def prepare_lean(theorem_modules, tier, need_driver=True):
    """regenerate Generated/*, rebuild, audit the property's theorem modules"""
    st = LeanStatus()
    rc, out = sh("python3 harness/translate/gen_tables.py", cwd=ROOT)
    try:
        st.translate = json.loads(out.strip().splitlines()[-1])
    except Exception:
        st.translate = {"error": out[-500:]}
    rc, out = sh("python3 harness/translate/gen_arith.py", cwd=ROOT)
    try:
        st.translate.update({"arith:" + k: v for k, v in json.loads(out.strip().splitlines()[-1]).items()})
    except Exception:
        st.translate["arith"] = "untranslatable: " + out[-300:]
    rc, out = sh("python3 harness/translate/gen_struct.py", cwd=ROOT)
    try:
        st.translate.update({"struct:" + k: v for k, v in json.loads(out.strip().splitlines()[-1]).items()})
    except Exception:
        st.translate["struct"] = "untranslatable: " + out[-300:]
    rc, out = sh("python3 harness/translate/gen_rates.py", cwd=ROOT)
    try:
        st.translate.update({"rates:" + k: v for k, v in json.loads(out.strip().splitlines()[-1]).items()})
    except Exception:
        st.translate["rates"] = "untranslatable: " + out[-300:]
    if os.path.exists(os.path.join(HERE, "translate", "gen_skeleton.py")) and any(m.endswith("C19") for m in theorem_modules):
        rc, out = sh("python3 harness/translate/gen_skeleton.py --lean-root lean", cwd=ROOT)
        st.translate["skeleton"] = out.strip().splitlines()[-1] if out.strip() else "?"
    rc, out = sh("lake build driver 2>&1", cwd=LEAN)
    st.driver_ok = rc == 0 and os.path.exists(os.path.join(LEAN, ".lake", "build", "bin", "driver"))
    st.build_log = out[-3000:] if rc != 0 else ""
    st.build_ok = st.driver_ok
    for mod in theorem_modules:
        path = os.path.join(LEAN, *mod.split(".")) + ".lean"
        info = {"ok": False, "theorems": [], "axioms": {}, "log": "", "bad_axioms": {}}
        if not os.path.exists(path):
            info["log"] = "missing file"
            st.props[mod] = info
            continue
        src = strip_comments(open(path).read())
        info["theorems"] = re.findall(r"^\s*(?:protected\s+|private\s+)?theorem\s+([\w.'«»]+)", src, flags=re.M)
        rc, out = sh(f"lake build {mod} 2>&1", cwd=LEAN)
        if rc != 0:
            info["log"] = out[-3000:]
            if mod.endswith("C19"):
                # name the offending function / source line (diagnostic walker)
                rc2, rep = sh("lake env lean Summer/Proofs/C19Report.lean 2>&1", cwd=LEAN)
                info["log"] = "C19 diagnostic report:\n" + rep[-2500:] + "\n--- build log ---\n" + out[-1500:]
            st.props[mod] = info
            st.build_ok = False
            continue
        rc, out = sh(f"lake env lean {os.path.relpath(path, LEAN)} 2>&1", cwd=LEAN)
        for m in re.finditer(r"'([^']+)' depends on axioms: \[([^\]]*)\]", out):
            info["axioms"][m.group(1)] = [a.strip() for a in m.group(2).split(",") if a.strip()]
        for m in re.finditer(r"'([^']+)' does not depend on any axioms", out):
            info["axioms"][m.group(1)] = []
        info["bad_axioms"] = {k: v for k, v in info["axioms"].items() if not set(v) <= ALLOWED_AXIOMS}
        info["ok"] = rc == 0 and not info["bad_axioms"] and not re.search(r"^\S*:\d+:\d+: error", out, flags=re.M)
        if rc != 0:
            info["log"] = out[-2000:]
        st.props[mod] = info
    # forbidden tokens anywhere in the library (outside comments): every file in the import closure of the library
    # root `Summer.lean`, of the driver and of this property's theorem modules (files not imported by anything are
    # not part of the library and are not looked at)
    for path in import_closure(["Summer", "Driver.Main"] + list(theorem_modules)):
        src = strip_comments(open(path).read())
        for i, line in enumerate(src.splitlines()):
            if FORBIDDEN.search(line):
                st.forbidden.append(f"{os.path.relpath(path, LEAN)}:{i+1}: {line.strip()[:120]}")
    if tier == "thorough":
        mods = " ".join(theorem_modules)
        if mods:
            rc, out = sh(f"lake env leanchecker {mods} 2>&1", cwd=LEAN, timeout=3600)
            st.leanchecker = {"rc": rc, "tail": out[-400:]}
            if rc != 0:
                st.build_ok = False
    return st


def load_known():
    p = os.path.join(ROOT, "known_findings.json")
    if os.path.exists(p):
        return json.load(open(p))
    return []


def matches_known(fail, prop):
    sig = fail.get("signature")
    if not sig:
        return None
    for k in load_known():
        if k.get("property") == prop and k.get("status") == "known" and k.get("signature") == sig:
            return k
    return None


def write_replay(prop, kind, payload):
    os.makedirs(os.path.join(ROOT, "replays"), exist_ok=True)
    h = hashlib.sha1(json.dumps(payload, sort_keys=True, default=str).encode()).hexdigest()[:10]
    path = os.path.join("replays", f"{prop}-{kind}-{h}.json")
    with open(os.path.join(ROOT, path), "w") as f:
        json.dump(payload, f, indent=1, default=str)
    return path


def run_check(modname, argv):
    import argparse
    ap = argparse.ArgumentParser()
    ap.add_argument("--tier", default=os.environ.get("VERIF_TIER", "quick"))
    ap.add_argument("--replay", default=None)
    args = ap.parse_args(argv)
    tier = args.tier if args.tier in ("quick", "thorough") else "quick"
    seed = int(os.environ.get("VERIF_SEED", "0") or 0)
    t_start = time.time()
    sys.path.insert(0, os.path.join(HERE, "props"))
    mod = importlib.import_module(modname)
    prop = mod.ID
    from pool import Pool

    if args.replay:
        rp = json.load(open(os.path.join(ROOT, args.replay) if not os.path.isabs(args.replay) else args.replay))
        if "task" not in rp:
            print(f"replay file names a broken obligation / correspondence, nothing to execute: {rp.get('broken')}")
            print(f"VIOLATION property={prop} replay={args.replay} no-failing-input-found")
            return 1
        P = Pool(1)
        res = list(P.map(rp["task"]["module"], rp["task"]["fn"], [rp["task"]["payload"]]))[0]
        P.close()
        fails = res.get("fails", [])
        print(json.dumps({"fails": fails[:3], "diffs": res.get("diffs", [])[:3]}, default=str)[:3000])
        if fails or (rp.get("kind") == "diff" and res.get("diffs")):
            print(f"VIOLATION property={prop} replay={args.replay}")
            return 1
        print("replay: property holds on this input now")
        return 0

    lean = prepare_lean(mod.THEOREM_FILES, tier)
    broken = []
    if not lean.driver_ok:
        broken.append({"what": "lean build (model/driver)", "log": lean.build_log})
    for m, info in lean.props.items():
        if not info["ok"]:
            broken.append({"what": f"theorem module {m}", "log": info["log"], "bad_axioms": info["bad_axioms"]})
    refused = {k: v for k, v in lean.translate.items() if isinstance(v, str) and v.startswith("untranslatable")}
    if refused:
        # a refused site leaves its constant undefined, so exactly the modules that depend on it fail to build (counted above);
        # the refusal text is attached to those failures.  A refused site nothing of this property depends on breaks nothing here.
        for b in broken:
            b["translator_refusals"] = refused
    if lean.forbidden:
        broken.append({"what": "forbidden tokens", "log": lean.forbidden[:10]})

    P = Pool()
    agg = {"evals": 0, "cases": set(), "fails": [], "diffs": [], "feat": collections.Counter(), "samples": [], "infra": [],
           "programs": 0, "known_seen": []}

    def consume(results):
        for res in results:
            if "infra_error" in res:
                agg["infra"].append(res["infra_error"])
                continue
            agg["evals"] += res.get("evals", 0)
            agg["programs"] += res.get("programs", 1)
            agg["cases"].update(res.get("cases", []))
            agg["fails"] += res.get("fails", [])
            agg["diffs"] += res.get("diffs", [])
            for k, v in (res.get("feat") or {}).items():
                agg["feat"][k] += v
            if res.get("sample") is not None and len(agg["samples"]) < 3:
                agg["samples"].append(res["sample"])

    try:
        if lean.driver_ok or not getattr(mod, "NEEDS_DRIVER", True):
            consume(P.map(modname, mod.TASK, mod.payloads(tier, seed)))
        else:
            # model cannot be built: run the oracles alone (no_lean payload flag)
            consume(P.map(modname, mod.TASK, [dict(p, no_lean=True) for p in mod.payloads(tier, seed)]))
        # known findings are reproduced by dedicated probes
        if hasattr(mod, "known_payloads"):
            consume(P.map(modname, mod.TASK, mod.known_payloads()))
        searched = False
        if (broken or agg["diffs"]) and not agg["fails"] and not any(d.get("prescribed") for d in agg["diffs"]):
            searched = True
            if hasattr(mod, "search_payloads"):
                consume(P.map(modname, mod.TASK, mod.search_payloads(tier, seed, agg["diffs"])))
    finally:
        P.close()

    # ---- decision
    exit_code = 0
    lines = []
    real_fails = []
    for f in agg["fails"]:
        k = matches_known(f, prop)
        if k:
            if k["text"] not in agg["known_seen"]:
                agg["known_seen"].append(k["text"])
                lines.append(f"KNOWN-FINDING: property={prop} {k['text']}")
        else:
            real_fails.append(f)
    violations = 0
    if real_fails:
        f = real_fails[0]
        path = write_replay(prop, "fail", {"property": prop, "kind": "fail", "what": f.get("what"), "detail": f,
                                          "task": f.get("task"), "seed": seed})
        lines.append(f"VIOLATION property={prop} replay={path}")
        violations = len(real_fails)
        exit_code = 1
    elif agg["diffs"] or broken:
        # functional properties: a disagreement on an observable the property prescribes is itself a failing input
        func_diffs = [d for d in agg["diffs"] if d.get("prescribed")]
        if func_diffs:
            d = func_diffs[0]
            path = write_replay(prop, "diff", {"property": prop, "kind": "diff", "what": d.get("what"), "detail": d,
                                              "task": d.get("task"), "seed": seed,
                                              "note": "the Lean value is the value the property prescribes (see the refinement theorem named in THEOREMS)"})
            lines.append(f"VIOLATION property={prop} replay={path}")
        else:
            what = [b["what"] for b in broken] + sorted(set(f"correspondence {d.get('stage')}/{d.get('what')}" for d in agg["diffs"]))
            path = write_replay(prop, "broken", {"property": prop, "kind": "broken", "broken": what,
                                                "build": broken, "first_disagreement": (agg["diffs"] or [None])[0], "seed": seed,
                                                "searched": searched})
            lines.append(f"VIOLATION property={prop} replay={path} no-failing-input-found")
        violations = max(1, len(agg["diffs"]))
        exit_code = 1
    if agg["infra"] and exit_code == 0 and (agg["evals"] == 0 or len(agg["infra"]) * 5 > max(1, agg["programs"])):
        print("INFRASTRUCTURE ERROR:\n" + agg["infra"][0][-1500:])
        exit_code = 2

    # ---- evidence
    obligations = sum(len(i["theorems"]) for i in lean.props.values())
    discharged = sum(len([t for t in i["theorems"] if i["ok"]]) for i in lean.props.values())
    ev = {
        "property_id": prop, "tier": tier, "seed": seed, "level": getattr(mod, "LEVEL", "proof"),
        "coverage": {
            "obligations": obligations, "discharged": discharged,
            "checker_cmd": "cd lean && lake build " + " ".join(mod.THEOREM_FILES) + " && lake env lean <each Props file> (#print axioms)" + (" && lake env leanchecker ..." if tier == "thorough" else ""),
            "trusted_base": getattr(mod, "TRUSTED", []) + ["Lean 4.33 kernel; axioms allowed: propext, Classical.choice, Quot.sound",
                                                          "hand-written Lean model tied to the code by the correspondence below (differential testing)",
                                                          "harness/jaxfix.py (NumPy-2/JAX compat layer)", "translators harness/translate/gen_tables.py (tables, tableau), gen_arith.py (solver / interpolation formulas), gen_struct.py (matching / stratify methods), gen_rates.py (right-hand side array programs), gen_skeleton.py (C19 control skeleton)"],
            "theorems": {m: i["theorems"] for m, i in lean.props.items()},
            "axioms": {m: i["axioms"] for m, i in lean.props.items()},
            "theorem_modules_ok": {m: i["ok"] for m, i in lean.props.items()},
            "translator": lean.translate,
            "programs": agg["programs"], "evaluations": agg["evals"],
            "distinct_nontrivial": len(agg["cases"]),
            "rule": getattr(mod, "RULE", ""),
            "disagreements_checked": agg["evals"],
            "disagreements_found": len(agg["diffs"]),
            "oracle_failures": len(agg["fails"]),
            "known_findings_seen": agg["known_seen"],
            "distribution": dict(agg["feat"].most_common(80)),
            "samples": agg["samples"] or [{"note": "no sample produced"}],
            "infra_errors": len(agg["infra"]),
            "explanation": getattr(mod, "EXPLANATION", ""),
        },
        "assumptions": getattr(mod, "ASSUMPTIONS", []),
        "wall_s": round(time.time() - t_start, 1),
        "violations": violations,
    }
    os.makedirs(os.path.join(ROOT, "evidence"), exist_ok=True)
    with open(os.path.join(ROOT, "evidence", f"{prop}.json"), "w") as f:
        json.dump(ev, f, indent=1, default=str)
    for l in lines:
        print(l)
    print(f"{prop} {tier} seed={seed}: theorems {discharged}/{obligations}, programs={agg['programs']}, evaluations={agg['evals']}, "
          f"distinct_nontrivial={len(agg['cases'])}, diffs={len(agg['diffs'])}, oracle_fails={len(agg['fails'])}, infra={len(agg['infra'])}, "
          f"wall={ev['wall_s']}s, exit={exit_code}")
    if agg["infra"]:
        print("first infra error:", agg["infra"][0][-600:])
    return exit_code
