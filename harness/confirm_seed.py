#!/usr/bin/env python3
"""Confirm a sub-agent's seeded change independently in a scratch worktree and file it under /verif/seeded/<id>/.
usage: confirm_seed.py /tmp/mut/out/C08/m1 C08-m1
Steps: clean scratch worktree of /repo HEAD -> demo passes -> apply patch -> pinned suite (110 passed) and full suite under the compat layer
(214 passed) unchanged -> demo fails -> remove worktree."""
import sys, os, subprocess, json, shutil, re

def sh(cmd, cwd=None, env=None, timeout=1800):
    p = subprocess.run(cmd, shell=True, cwd=cwd, env=env, capture_output=True, text=True, timeout=timeout)
    return p.returncode, (p.stdout + p.stderr)

def main():
    src, sid = os.path.abspath(sys.argv[1]), sys.argv[2]
    MUT = os.environ.get("MUT_ROOT", "/tmp/mut")
    wt = f"{MUT}/confirm_{sid}"
    sh(f"git -C /repo worktree remove --force {wt}")
    rc, out = sh(f"git -C /repo worktree add -q --detach {wt} HEAD")
    if rc != 0:
        print("cannot create worktree", out); sys.exit(2)
    env = dict(os.environ, PYTHONPATH=f"{MUT}:{wt}")
    res = {"id": sid}
    try:
        rc, out = sh(f"/venv/bin/python {src}/demo.py", cwd=wt, env=env)
        res["demo_clean_exit"] = rc
        rc, out = sh(f"git apply {src}/patch.diff", cwd=wt)
        res["patch_applies"] = rc == 0
        if rc != 0:
            print("patch does not apply:", out[-500:])
        else:
            rc, out = sh("/venv/bin/python -m pytest -q -p no:cacheprovider --timeout=900 --continue-on-collection-errors tests", cwd=wt, env=dict(os.environ, PYTHONPATH=wt))
            m = re.search(r"(\d+) failed, (\d+) passed", out) or re.search(r"(\d+) passed", out)
            res["pinned_suite"] = out.strip().splitlines()[-1]
            rc, out = sh("/venv/bin/python -m pytest -q -p no:cacheprovider -p jaxfix --timeout=900 tests", cwd=wt, env=env)
            res["full_suite_jaxfix"] = out.strip().splitlines()[-1]
            rc, out = sh(f"/venv/bin/python {src}/demo.py", cwd=wt, env=env)
            res["demo_patched_exit"] = rc
            res["demo_patched_tail"] = out.strip()[-400:]
    finally:
        sh(f"git -C /repo worktree remove --force {wt}")
    ok = (res.get("demo_clean_exit") == 0 and res.get("patch_applies") and "110 passed" in res.get("pinned_suite", "")
          and "214 passed" in res.get("full_suite_jaxfix", "") and res.get("demo_patched_exit") not in (0, None))
    res["confirmed"] = bool(ok)
    print(json.dumps(res, indent=1))
    if ok:
        dst = os.path.join(os.path.dirname(os.path.dirname(os.path.abspath(__file__))), "seeded", sid)
        os.makedirs(dst, exist_ok=True)
        shutil.copy(os.path.join(src, "patch.diff"), dst)
        shutil.copy(os.path.join(src, "demo.py"), dst)
        meta = json.load(open(os.path.join(src, "meta.json")))
        meta["confirmed_by_me"] = {k: res[k] for k in ("demo_clean_exit", "pinned_suite", "full_suite_jaxfix", "demo_patched_exit")}
        meta["what_i_ran"] = ["git worktree add (scratch)", "demo.py on clean tree", "git apply patch.diff", "pytest tests (pinned, no compat layer)",
                              "pytest -p jaxfix tests (full)", "demo.py on patched tree", "git worktree remove"]
        json.dump(meta, open(os.path.join(dst, "meta.json"), "w"), indent=1)
    sys.exit(0 if ok else 1)

if __name__ == "__main__":
    main()
