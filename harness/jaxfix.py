"""Compat layer: make jax/jaxlib 0.4.24 (built against NumPy 1.x) usable under NumPy 2.x.
All host->device transfers go through DLPack; the C++ jit fast path (which parses numpy
arguments with the NumPy-1 C ABI) is replaced by jax's own pure-Python dispatch path."""
import warnings
import numpy as _np
_orig_array = _np.array
def _array(*a, **k):
    if k.get("copy", True) is False:
        k["copy"] = None
    return _orig_array(*a, **k)
_np.array = _array

import io, contextlib, sys
_err = io.StringIO()
with contextlib.redirect_stderr(_err):
    import jaxlib.xla_extension as _xe

class _PyPjit:
    __slots__ = ("_pj_cache_miss", "__dict__", "__weakref__")
    def __init__(self, name, fun, cache_miss, *rest):
        self._pj_cache_miss = cache_miss
    def __call__(self, *args, **kwargs):
        return self._pj_cache_miss(*args, **kwargs)[0]
    def _clear_cache(self):
        pass
    def __get__(self, obj, objtype=None):
        if obj is None:
            return self
        import functools
        return functools.partial(self, obj)
_xe.pjit = lambda name, fun, cache_miss, *rest: _PyPjit(name, fun, cache_miss, *rest)

import jax
import jax.dlpack as _dl
from jax._src.interpreters import pxla as _pxla
from jax._src import array as _jarray
_orig_bdp = _pxla.batched_device_put
def _bdp(aval, sharding, xs, devices, committed=True):
    ys = []
    for x in xs:
        if not isinstance(x, _jarray.ArrayImpl):
            h = _orig_array(x, dtype=aval.dtype, copy=True, order="C")
            x = _dl.from_dlpack(h)
        ys.append(x)
    if len(ys) == 1:
        return ys[0]
    return _orig_bdp(aval, sharding, ys, devices, committed)
_pxla.batched_device_put = _bdp
