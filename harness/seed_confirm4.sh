#!/bin/bash
# round 4: usage: seed_confirm3.sh C01 C02 ...  : confirm each sub-agent change under /tmp/mut4/out/<ID>/m{1,2} and file it as seeded/<ID>-m{7,8}
cd /verif
export MUT_ROOT=/tmp/mut4
for id in "$@"; do
  for k in 1 2; do
    src=/tmp/mut4/out/$id/m$k
    sid=$id-m$((k+6))
    [ -f $src/patch.diff ] || { echo "== $sid: no patch"; continue; }
    python3 harness/confirm_seed.py $src $sid > $src/confirm.log 2>&1
    if [ $? -eq 0 ]; then echo "== $sid confirmed"; else echo "== $sid NOT confirmed"; tail -12 $src/confirm.log; fi
  done
done
