"""C14 — pruning derived outputs never changes the values of those that are kept."""
import random, itertools
import numpy as np
from common import *

ID = "C14"
THEOREM_FILES = ["Summer.Props.C14", "Summer.Props.C14Source"]
TASK = "task"
RULE = ("programs with 3-8 chained requests; the full run (everything saved) is compared, exactly, with runs of the same definition under every "
        "whitelist (all subsets for <= 5 requests, 10 random ones above), random save flags, include_full_outputs=False, and a shuffled "
        "declaration order that respects dependencies; also against the model (Derived.derivedOutputs); distinct by program hash + variant, "
        "non-trivial when the kept set omits at least one source of a kept request")
TRUSTED = []
ASSUMPTIONS = ["exact (bit) equality between runs of the same definition on this machine"]

def payloads(tier, seed):
    n = 40 if tier == "quick" else 800
    return [{"seed": seed, "index": i} for i in range(n)]

def deps(op):
    k = op["kind"]
    if k == "agg": return list(op["sources"])
    if k == "cum": return [op["source"]]
    if k == "func": return list(op["sources"])
    return []

def run_variant(W, ops, params, solver="euler", raw_runner=False):
    from interp import Interp
    I = Interp()
    for op in ops:
        r = I.apply(op)
        if not r["ok"]:
            return None, r
    if raw_runner:
        p = {k: float(Fr(v)) for k, v in params.items()}
        runner = I.model.get_runner(p, jit=False, include_full_outputs=False, solver=solver)
        res = runner._run_func(parameters=p)
        return {"derived": {k: np.asarray(v).tolist() for k, v in res["derived_outputs"].items()}, "has_outputs": "outputs" in res}, None
    rr = I.apply({"op": "run", "params": [[k, v] for k, v in params.items()], "solver": solver})
    if not rr["ok"]:
        return None, rr
    return {"derived": dict((k, v) for k, v in rr["derived"]), "outputs": rr["outputs"]}, None

def task(W, payload):
    r = random.Random(f"C14:{payload['seed']}:{payload['index']}")
    prog = Gen(r, Opts(n_requests=8, max_strats=1, max_flows=4)).program()
    out = mk_out(prog)
    ops = prog["build"]
    reqs = [op for op in ops if op["op"] == "request"]
    if len(reqs) < 3:
        bump(out, "too_few_requests"); return out
    base_ops = [op for op in ops if op["op"] != "request"]
    # independent requests that select DIFFERENT flows of one name through the same stratum: a chain st0 -> st1 -> st2 (or back to st0) inside
    # one compartment, one request filtering the source by st1, its twin filtering the destination by st1
    strat_ops = [op for op in base_ops if op["op"] == "stratify" and len(op["strata"]) >= 2]
    if strat_ops and r.random() < 0.7:
        so = r.choice(strat_ops)
        st = sorted(so["strata"], key=int) if so["kind"] == "age" else list(so["strata"])
        c = r.choice(so["comps"])
        hops = [(st[0], st[1]), (st[1], st[2] if len(st) > 2 else st[0])]
        for a, b in hops:
            base_ops.append({"op": "flow", "kind": "transition", "name": "xchain", "param": {"c": r.choice(["1/8", "1/4", "1/16"])}, "src": c, "dst": c,
                             "src_strata": [[so["name"], a]], "dst_strata": [[so["name"], b]]})
        pair = [{"op": "request", "name": "xs", "kind": "flow", "flow": "xchain", "raw": r.random() < 0.5, "src_strata": [[so["name"], st[1]]], "save": True},
                {"op": "request", "name": "xd", "kind": "flow", "flow": "xchain", "raw": r.random() < 0.5, "dst_strata": [[so["name"], st[1]]], "save": True}]
        r.shuffle(pair)
        at = r.randint(0, len(reqs))
        reqs = reqs[:at] + pair + reqs[at:]
        bump(out, "chain_twin_requests")
    # two independent requests whose names differ by the suffix "_raw" and that select DIFFERENT flows: a post-processed flow output `yy` and a
    # raw flow output `yy_raw` of another flow (each must keep its own definition, in either declaration order)
    fnames = sorted(set(op["name"] for op in base_ops if op["op"] == "flow" and op["kind"] != "universal_death"))
    raw_pair = None
    if len(fnames) >= 2 and r.random() < 0.7:
        fa, fb = r.sample(fnames, 2)
        raw_pair = [{"op": "request", "name": "yy", "kind": "flow", "flow": fa, "raw": False, "save": True},
                    {"op": "request", "name": "yy_raw", "kind": "flow", "flow": fb, "raw": True, "save": True}]
        r.shuffle(raw_pair)
        at = r.randint(0, len(reqs))
        reqs = reqs[:at] + raw_pair + reqs[at:]
        bump(out, "name_and_name_raw_requests")
    # "diamond" of aggregates: two intermediate aggregates that SHARE a source, and their aggregate
    names0 = base_ops[0]["comps"]
    diamond = False
    if len(names0) >= 2 and r.random() < 0.7:
        x, y = names0[0], names0[1]; z = names0[2] if len(names0) > 2 else names0[1]
        dm = [{"op": "request", "name": "dm_x", "kind": "comp", "comps": [x], "save": True},
              {"op": "request", "name": "dm_y", "kind": "comp", "comps": [y], "save": True},
              {"op": "request", "name": "dm_z", "kind": "comp", "comps": [z], "save": True},
              {"op": "request", "name": "dm_a", "kind": "agg", "sources": ["dm_x", "dm_y"], "save": True},
              {"op": "request", "name": "dm_b", "kind": "agg", "sources": ["dm_z", "dm_x"], "save": True},
              {"op": "request", "name": "dm_t", "kind": "agg", "sources": ["dm_a", "dm_b"], "save": True}]
        reqs = reqs + dm
        diamond = True
        bump(out, "diamond_aggregates")
    # a compartment that is driven below zero (an absolute flow removing more than its source holds): derived outputs must not depend on
    # whether the full compartment outputs are returned as well
    if r.random() < 0.5:
        first_req = next((i for i, op in enumerate(base_ops) if op["op"] in ("computed_value",)), len(base_ops))
        base_ops.insert(first_req, {"op": "flow", "kind": "absolute", "name": "drain", "param": {"c": "4000"}, "src": names0[0], "dst": names0[-1]})
        bump(out, "draining_absolute_flow")
    all_saved = [dict(op, save=True) for op in reqs]
    full, err = run_variant(W, base_ops + all_saved, prog["params"])
    out["evals"] += 1
    if full is None:
        bump(out, "full_run_failed"); return out
    if not np.all(np.isfinite(np.array(full["outputs"]))):
        bump(out, "diverged"); return out
    names = [op["name"] for op in reqs]
    h = prog_hash(ops)
    depmap = {op["name"]: deps(op) for op in reqs}
    def check(kind, got, expect_keys, variant):
        if got is None:
            fail(out, f"run failed under {kind}", "c14", payload, variant=variant, program=ops); return
        if sorted(got["derived"].keys()) != sorted(expect_keys):
            fail(out, f"returned keys under {kind} are not the requested ones", "c14", payload, got=sorted(got["derived"].keys()), want=sorted(expect_keys), variant=variant, program=ops)
            return
        for k in expect_keys:
            a = got["derived"][k]; b = full["derived"][k]
            if not (len(a) == len(b) and all((x == y) or (x != x and y != y) for x, y in zip(a, b))):
                fail(out, f"value of derived output {k} changed under {kind}", "c14", payload, variant=variant, got=a, full=b, program=ops, params=prog["params"])
    # whitelists
    if len(names) <= 5:
        subsets = [list(c) for k in range(1, len(names) + 1) for c in itertools.combinations(names, k)]
    else:
        subsets = [r.sample(names, r.randint(1, len(names) - 1)) for _ in range(10)]
    r.shuffle(subsets)
    for W_ in subsets[:12]:
        got, err = run_variant(W, base_ops + reqs + [{"op": "whitelist", "names": W_}], prog["params"])
        out["evals"] += 1
        check("a whitelist", got, W_, {"whitelist": W_})
        if any(d not in W_ for k in W_ for d in depmap[k]):
            out["cases"].append(h + ":wl:" + ",".join(W_))
    # save flags
    for _ in range(2):
        flags = {n: r.random() < 0.5 for n in names}
        got, err = run_variant(W, base_ops + [dict(op, save=flags[op["name"]]) for op in reqs], prog["params"])
        out["evals"] += 1
        check("save flags", got, [n for n in names if flags[n]], {"save": flags})
        if any(not flags[d] for k in names if flags[k] for d in depmap[k]):
            out["cases"].append(h + ":save:" + str(sorted(flags.items())))
    if diamond:
        flags = {n: n not in ("dm_a", "dm_b", "dm_x") for n in names}
        got, err = run_variant(W, base_ops + [dict(op, save=flags[op["name"]]) for op in reqs], prog["params"])
        out["evals"] += 1
        check("save flags (unsaved intermediate aggregates sharing a source)", got, [n for n in names if flags[n]], {"save": flags})
        out["cases"].append(h + ":diamond")
    # full compartment outputs omitted
    got, err = run_variant(W, base_ops + all_saved, prog["params"], raw_runner=True)
    out["evals"] += 1
    if got is not None and got["has_outputs"]:
        fail(out, "include_full_outputs=False still returns the compartment outputs", "c14", payload, program=ops)
    check("include_full_outputs=False", got, names, {"include_full_outputs": False})
    # declaration order: random topological order
    order = []
    remaining = list(all_saved)
    while remaining:
        ready = [op for op in remaining if all(d in [o["name"] for o in order] for d in deps(op))]
        pick = r.choice(ready)
        order.append(pick); remaining.remove(pick)
    if [o["name"] for o in order] != names:
        # computed-value requests must stay after their computed_value op: keep base ops first
        got, err = run_variant(W, base_ops + order, prog["params"])
        out["evals"] += 1
        check("a different declaration order", got, names, {"order": [o["name"] for o in order]})
        out["cases"].append(h + ":order")
    if raw_pair:
        swapped = [dict(op) for op in all_saved]
        i1 = next(i for i, op in enumerate(swapped) if op["name"] == raw_pair[0]["name"]); i2 = next(i for i, op in enumerate(swapped) if op["name"] == raw_pair[1]["name"])
        swapped[i1], swapped[i2] = swapped[i2], swapped[i1]
        got, err = run_variant(W, base_ops + swapped, prog["params"])
        out["evals"] += 1
        check("a different declaration order (the two requests named yy and yy_raw swapped)", got, names, {"order": [o["name"] for o in swapped]})
        out["cases"].append(h + ":raw_pair")
    # correspondence with the model under one whitelist
    S = fresh_session(W)
    wl = subsets[0]
    if S.build(base_ops + reqs + [{"op": "whitelist", "names": wl}]):
        before = len(S.log)
        S.run(prog["params"], "euler", stages=("S8",))
        out["evals"] += 1
        tag_diffs(out, S, before, "c14", payload, prog, ())
    if payload["index"] == 0:
        out["sample"] = {"requests": reqs, "whitelists": subsets[:3]}
    return out
