"""C10 — time- and state-dependent inputs are evaluated at the current time and state."""
import random
import numpy as np
from common import *

ID = "C10"
THEOREM_FILES = ["Summer.Props.C10", "Summer.Props.C10Solvers", "Summer.Props.C07Source", "Summer.Props.C01Rates", "Summer.Props.C01Source", "Summer.Props.C07Pipeline", "Summer.Props.C08EndToEnd"]
TASK = "task"
RULE = ("programs mixing constant, parameter-only, time- and state-dependent rates, adjustments, mixing matrices and computed values (with "
        "deliberately equal expressions on several flows); one_step at grid and off-grid times and arbitrary states vs the model; along "
        "euler/rk4 trajectories every raw flow output and computed-value output row i must equal the rates re-evaluated by one_step at "
        "(times[i], outputs[i]); non-trivial when the program has a time- or state-dependent expression")
TRUSTED = []
ASSUMPTIONS = ["float rounding not modelled (1e-9 relative)"]

def payloads(tier, seed):
    n = 60 if tier == "quick" else 1200
    return [{"seed": seed, "index": i} for i in range(n)] + [{"seed": seed, "index": i, "mode": "axis"} for i in range(n // 5)]

KNOWN_EULER = [
    {"op": "model", "t0": "-2", "t1": "1", "dt": "1", "comps": ["A", "B"], "inf": ["A"]},
    {"op": "init_pop", "dist": [["A", {"c": "100"}]]},
    {"op": "flow", "kind": "transition", "name": "ab", "param": {"pw": [{"t": 1}, [{"c": "-1"}], [{"c": "1/8"}, {"c": "1/2"}]]}, "src": "A", "dst": "B"},
]

def known_payloads():
    return [{"seed": 0, "index": 0, "known": "euler_linspace"}]

def known_task(W, payload):
    import jax.numpy as jnp
    out = mk_out()
    from interp import Interp
    I = Interp()
    for op in KNOWN_EULER:
        I.apply(op)
    rr = I.apply({"op": "run", "params": [], "solver": "euler"})
    out["evals"] += 1
    if rr["ok"]:
        m = I.model
        o = np.array(rr["outputs"])
        runner = m.get_runner({}, jit=False)
        for i in range(len(m.times) - 1):
            st = runner.impl_dict["one_step"]({}, float(m.times[i]), jnp.array(o[i]))
            want = o[i] + float(m.times[1] - m.times[0]) * np.asarray(st.comp_rates)
            if not vec_close(list(o[i + 1]), list(want), 1e-9):
                fail(out, "euler row was not computed from the rates at (times[i], outputs[i])", "c10", payload, row=i + 1,
                     got=list(map(float, o[i + 1])), want=list(map(float, want)),
                     signature={"oracle": "euler_recurrence", "site": "runner/jax/solvers.py:euler",
                                "pattern": "time-varying input with a breakpoint exactly at an output time on a grid where jnp.linspace differs from model.times in the last bit"})
                break
    return out

def ref_interp(kind, xs, ys, c, u):
    """the documented interpolants (C16), in numpy: piecewise constant / linear / sigmoidal value at u"""
    xs = [float(v) for v in xs]; ys = [float(v) for v in ys]
    if kind == "pw":
        return ys[sum(1 for b in xs if u >= b)]
    if u <= xs[0]: return ys[0]
    if u > xs[-1]: return ys[-1]
    k = max(i for i in range(len(xs) - 1) if xs[i] < u or i == 0)
    k = min(k, len(xs) - 2)
    rel = (u - xs[k]) / (xs[k + 1] - xs[k])
    if kind == "lin":
        return ys[k] + rel * (ys[k + 1] - ys[k])
    sg = lambda z: 1.0 / (1.0 + np.exp(c * (0.5 - z)))
    off = sg(0.0)
    return ys[k] + (sg(rel) - off) / (1.0 - 2.0 * off) * (ys[k + 1] - ys[k])


def axis_task(W, payload):
    """inputs defined over an axis OTHER than the raw time: a delayed time `Time - Parameter(delay)` or a state-dependent quantity (the
    prevalence I / (N + 1)), for the piecewise-constant, linear and sigmoidal time functions: the flow's weight at (t, x) must be the documented
    interpolant evaluated at the axis value AT that time and state (one_step at several points, and raw flow outputs along an euler run)"""
    import interp as interp_mod
    r = random.Random(f"C10a:{payload['seed']}:{payload['index']}")
    out = mk_out()
    kind = ["sig", "lin", "pw", "sig"][payload["index"] % 4]
    axis_kind = ["delayed_time", "prevalence"][(payload["index"] // 4) % 2]
    bump(out, f"axis:{kind}:{axis_kind}")
    t0 = r.choice([0, 2, -3]); nsteps = r.randint(3, 6)
    delay = r.choice(["1/2", "3/2", "5/4"])
    if axis_kind == "delayed_time":
        axis = {"-": [{"t": 1}, {"p": "delay"}]}
        knots = sorted(r.sample([t0 + k / 4.0 for k in range(-2, 4 * nsteps) if k % 4 != 2], 3))
    else:
        axis = {"/": [{"x": 1}, {"+": [{"xs": 1}, {"c": "1"}]}]}
        knots = sorted(r.sample([0.05, 0.1, 0.2, 0.3, 0.45, 0.6, 0.8], 3))
    ys = [r.choice([0.0625, 0.125, 0.25, 0.5, 0.375]) for _ in range(4 if kind == "pw" else 3)]
    curv = r.choice([16.0, 8.0, 4.0])
    qs = lambda v: q(Fr(v).limit_denominator(10 ** 6))
    xs_e = [{"c": qs(v)} for v in knots]; ys_e = [{"c": qs(v)} for v in ys]
    fn = {"sig": {"sig": [axis, xs_e, ys_e, qs(curv)]}, "lin": {"lin": [axis, xs_e, ys_e]}, "pw": {"pw": [axis, xs_e, ys_e]}}[kind]
    ops = [{"op": "model", "t0": str(t0), "t1": str(t0 + nsteps), "dt": "1", "comps": ["S", "I", "R"], "inf": ["I"]},
           {"op": "init_pop", "dist": [["S", {"c": "900"}], ["I", {"c": "100"}]]},
           {"op": "flow", "kind": "transition", "name": "dyn", "param": fn, "src": "S", "dst": "I"},
           {"op": "flow", "kind": "transition", "name": "rec", "param": {"c": "1/8"}, "src": "I", "dst": "R"},
           {"op": "request", "name": "dyn_raw", "kind": "flow", "flow": "dyn", "raw": True, "save": True}]
    I = interp_mod.Interp()
    for op in ops:
        rr = I.apply(op)
        if not rr["ok"]:
            bump(out, "axis_infra:" + str(rr.get("err"))[:60]); return out
    params = [["delay", delay]] if axis_kind == "delayed_time" else []
    def axis_value(t, x):
        return t - float(Fr(delay)) if axis_kind == "delayed_time" else x[1] / (sum(x) + 1.0)
    xsf = [float(Fr(e["c"])) for e in xs_e]; ysf = [float(Fr(e["c"])) for e in ys_e]
    for _ in range(5):
        t = t0 + r.randint(0, 4 * nsteps) / 4.0
        x = [float(r.randint(50, 900)), float(r.randint(1, 900)), float(r.randint(0, 300))]
        rr = I.apply({"op": "one_step", "params": params, "t": qs(t), "x": [qs(v) for v in x]})
        out["evals"] += 1
        if not rr["ok"]:
            fail(out, "one_step raised for an input defined over a non-time axis", "c10", payload, err=rr.get("err"), program=ops); return out
        want = ref_interp(kind, xsf, ysf, curv, axis_value(t, x)) * x[0]
        got = rr["flow_rates"][0]
        out["cases"].append(f"axis:{kind}:{axis_kind}:{t}:{x}")
        if abs(got - want) > 1e-9 * max(1.0, abs(want)):
            fail(out, f"a {kind} input over the axis '{axis_kind}' is not evaluated at the current value of that axis", "c10", payload, t=t, x=x, got=got, want=want,
                 axis_value=axis_value(t, x), program=ops, params=params)
            return out
    rr = I.apply({"op": "run", "params": params, "solver": "euler"})
    out["evals"] += 1
    if rr["ok"]:
        outs = np.array(rr["outputs"]); raw = dict((k, v) for k, v in rr["derived"]).get("dyn_raw")
        times = [float(t) for t in I.model.times]
        for i in range(len(times)):
            want = ref_interp(kind, xsf, ysf, curv, axis_value(times[i], list(outs[i]))) * outs[i][0]
            if raw is not None and abs(raw[i] - want) > 1e-9 * max(1.0, abs(want)):
                fail(out, f"raw flow output of a {kind} input over the axis '{axis_kind}' is not the rate at that row's time and state", "c10", payload,
                     row=i, got=raw[i], want=want, program=ops, params=params)
                break
    return out


def task(W, payload):
    if payload.get("known"):
        return known_task(W, payload)
    if payload.get("mode") == "axis":
        return axis_task(W, payload)
    r = random.Random(f"C10:{payload['seed']}:{payload['index']}")
    # every second program: several flows share a NAME (different rates, one adjustment declaration reaching all of them)
    g = Gen(r, Opts(max_strats=2, max_flows=6, n_requests=2, shared_names_bias=(0.5 if payload["index"] % 2 else 0.0),
                    force_strat=bool(payload["index"] % 2)))
    prog = g.program()
    # duplicate weights: give two flows the same expression object (key sharing in the realised-flow table)
    fl = [op for op in prog["build"] if op["op"] == "flow" and op.get("param") is not None]
    if len(fl) >= 2 and r.random() < 0.7:
        a, b = r.sample(fl, 2)
        if a["kind"] not in ("import", "absolute") and b["kind"] not in ("import", "absolute") or (a["kind"] == b["kind"]):
            b["param"] = copy.deepcopy(a["param"])
            prog["meta"]["feat"]["shared_weight"] = 1
    # raw flow outputs for every flow name + computed values
    names = sorted(set(op["name"] for op in fl))
    for i, nm in enumerate(names[:4]):
        prog["build"].append({"op": "request", "name": f"raw_{i}", "kind": "flow", "flow": nm, "raw": True, "save": True})
    S = fresh_session(W)
    out = mk_out(prog)
    if not S.build(prog["build"]):
        bump(out, "build_rejected")
        return out
    feat = prog["meta"]["feat"]
    dynamic = any(feat.get(k, 0) for k in ("expr:pw", "expr:lin", "expr:time_lin", "expr:state"))
    h = prog_hash(prog["build"])
    for mode, t, x in sample_states(r, prog, ("interior", "boundary", "negative")):
        before = len(S.log)
        py, ln = S.one_step(prog["params"], t, x, stages=("S2", "S3", "S4"))
        out["evals"] += 1
        if py.get("ok") and dynamic:
            out["cases"].append(h + ":" + t + ":" + mode)
        tag_diffs(out, S, before, "c10", payload, prog, ("S2", "S3", "S4"))
    # trajectory oracle (implementation against itself): output rows are evaluated at their own time and state
    p = {k: float(Fr(v)) for k, v in prog["params"].items()}
    import jax.numpy as jnp
    for solver in ("euler", "rk4"):
        rr = S.I.apply({"op": "run", "params": [[k, v] for k, v in prog["params"].items()], "solver": solver})
        out["evals"] += 1
        if not rr["ok"]:
            continue
        m = S.I.model
        outputs = np.array(rr["outputs"]); got = dict((k, np.array(v)) for k, v in rr["derived"])
        if not np.all(np.isfinite(outputs)) or np.abs(outputs).max() > 1e7:
            bump(out, "diverged"); continue
        runner = m.get_runner(p, jit=False)
        for i in range(len(m.times)):
            st = runner.impl_dict["one_step"](p, float(m.times[i]), jnp.array(outputs[i]))
            fr = np.asarray(st.flow_rates)
            for j, nm in enumerate(names[:4]):
                idx = [k for k, f in enumerate(m.flows) if f.name == nm]
                want = fr[idx].sum()
                have = got[f"raw_{j}"][i]
                if not close(have, want, max(1.0, abs(want)), 1e-9):
                    fail(out, f"raw flow output row {i} is not the flow rate at (times[{i}], outputs[{i}]) ({solver})", "c10", payload,
                         flow=nm, row=i, got=float(have), at_current=float(want), program=prog["build"], params=prog["params"])
            for k, v in st.ts_graph_vals["computed_values"].items():
                if k in got and not close(got[k][i], float(np.asarray(v)), 1.0, 1e-9):
                    fail(out, f"computed-value output row {i} is not the value at (times[{i}], outputs[{i}]) ({solver})", "c10", payload,
                         name=k, row=i, got=float(got[k][i]), at_current=float(np.asarray(v)), program=prog["build"], params=prog["params"])
        # fixed-step recurrences re-derived from the rate function: row i+1 must be built from rates at (times[i], outputs[i])
        if solver == "euler":
            hstep = float(m.times[1] - m.times[0])
            for i in range(len(m.times) - 1):
                st = runner.impl_dict["one_step"](p, float(m.times[i]), jnp.array(outputs[i]))
                want = outputs[i] + hstep * np.asarray(st.comp_rates)
                if not vec_close(list(outputs[i + 1]), list(want), 1e-9):
                    fail(out, f"euler row {i+1} was not computed from the rates at (times[{i}], outputs[{i}])", "c10", payload,
                         row=i + 1, got=list(map(float, outputs[i + 1])), want=list(map(float, want)), program=prog["build"], params=prog["params"])
                    break
        if solver == "rk4":
            # the classical fourth-order step re-derived from the rate function: the four stages are evaluated at times[i], times[i] + h/2 (twice)
            # and times[i] + h, at the stage states
            hstep = float(m.times[1] - m.times[0])
            f_ = lambda y, t: np.asarray(runner.impl_dict["one_step"](p, float(t), jnp.array(y)).comp_rates, dtype=float)
            for i in range(len(m.times) - 1):
                y = outputs[i]; t = float(m.times[i])
                k1 = f_(y, t); k2 = f_(y + hstep / 2 * k1, t + hstep / 2); k3 = f_(y + hstep / 2 * k2, t + hstep / 2); k4 = f_(y + hstep * k3, t + hstep)
                want = y + hstep / 6 * (k1 + 2 * k2 + 2 * k3 + k4)
                if not (np.all(np.isfinite(want)) and np.abs(want).max() < 1e7):
                    break
                if not vec_close(list(outputs[i + 1]), list(want), 1e-9):
                    fail(out, f"rk4 row {i+1} was not computed from the rates at the stage times and states of step {i} (times[{i}], times[{i}]+h/2, times[{i}]+h)", "c10", payload,
                         row=i + 1, got=list(map(float, outputs[i + 1])), want=list(map(float, want)), program=prog["build"], params=prog["params"])
                    break
    if payload["index"] == 0:
        out["sample"] = {"program": prog["build"], "params": prog["params"]}
    return out
