"""C04 — stratified flows are exactly the prescribed copies with the prescribed weights."""
import random, collections
from common import *

ID = "C04"
THEOREM_FILES = ["Summer.Props.C04", "Summer.Props.C04Source", "Summer.Props.C13Source", "Summer.Props.C01Source", "Summer.Props.C17Source", "Summer.Props.C17Glue", "Summer.Props.C04Weights", "Summer.Props.C17Strat", "Summer.Props.C17Reach"]
TASK = "task"
RULE = ("programs with all flow kinds, 1-3 stratifications (plain / age / strain, full / partial), several adjustment declarations per flow "
        "with overlapping source/dest strata filters, Multiply / bare number / Overwrite / None, parameters and time functions, flows added "
        "before and after stratifications; observables: the multiset of flow copies (kind, name, source, destination) and every copy's "
        "effective weight (flow rate at states with positive populations); plus scenario programs around absolute / import flows whose source only, "
        "destination only or both ends are stratified (plain and strain stratifications, with and without adjustment declarations); non-trivial when >= 1 stratification and >= 1 adjustment or split")
TRUSTED = ["Spec.copies / Spec.copyAdjustment in lean/Summer/Spec/Structure.lean are the reading of the documented rules"]
ASSUMPTIONS = ["an absolute flow that carries a user adjustment is additionally shared 1/k between its k copies, as the code does (the property "
               "only prescribes the no-user-adjustment case)"]

def payloads(tier, seed):
    n = 70 if tier == "quick" else 1500
    return [{"seed": seed, "index": i} for i in range(n)] + [{"seed": seed, "index": i, "mode": "abs"} for i in range(24 if tier == "quick" else 400)]


def abs_program(r):
    """absolute (and import / transition) flows through 1-3 stratifications that stratify only the source, only the destination or both,
    of plain or strain flavour, with and without adjustment declarations for the flow"""
    ops = [{"op": "model", "t0": "0", "t1": "2", "dt": "1", "comps": ["A", "B", "C"], "inf": ["B"]},
           {"op": "init_pop", "dist": [["A", {"c": "80"}], ["B", {"c": "15"}], ["C", {"c": "5"}]]}]
    params = {}
    def rate():
        z = r.random()
        if z < 0.5: return {"c": r.choice(["12", "6", "3/2", "24"])}
        k = f"p{len(params)}"; params[k] = r.choice(["12/1", "5/1", "9/2"]); return {"p": k}
    flows = [("abs0", "absolute", "A", "B"), ("abs1", "absolute", r.choice(["B", "C"]), r.choice(["A", "C"])), ("tr2", "transition", "B", "C")]
    for nm, kind, src, dst in flows:
        ops.append({"op": "flow", "kind": kind, "name": nm, "src": src, "dst": dst, "param": rate()})
    if r.random() < 0.5:
        ops.append({"op": "flow", "kind": "import", "name": "imp3", "dst": "A", "param": rate(), "split": r.random() < 0.5})
        flows.append(("imp3", "import", None, "A"))
    used_strain = False
    applied = []
    pool = [("loc", ["u", "v", "w"]), ("risk", ["lo", "hi"]), ("vac", ["n", "y", "z"])]
    r.shuffle(pool)
    feat = {}
    for si in range(r.randint(1, 3)):
        strain = (not used_strain) and r.random() < 0.4
        if strain:
            name, strata = "strain", ["s1", "s2"][: r.randint(1, 2)] if r.random() < 0.2 else ["s1", "s2"]
            used_strain = True
        else:
            name, strata = pool[si]
            strata = strata[: r.randint(2, len(strata))]
        comps = r.choice([["B"], ["A"], ["C"], ["A", "B"], ["B", "C"], ["A", "B", "C"]])
        op = {"op": "stratify", "kind": "strain" if strain else "plain", "name": name, "strata": strata, "comps": comps}
        fadj = []
        for nm, kind, src, dst in flows:
            if r.random() < 0.5:
                adjs = []
                for s_ in strata:
                    z = r.random()
                    if z < 0.3: adjs.append([s_, None])
                    elif z < 0.7: adjs.append([s_, ["mul", {"c": r.choice(["2", "1/2", "3"])}]])
                    else: adjs.append([s_, ["ovr", rate()]])
                d_ = {"flow": nm, "adjs": adjs}
                # every second declaration is RESTRICTED to the copies whose source (destination) lies in one stratum of an EARLIER stratification:
                # the other copies of the flow are not matched by any declaration and get the default treatment (even split when only the
                # destination is stratified, plain copies otherwise)
                if applied and r.random() < 0.5:
                    pn, pstrata, pcomps = r.choice(applied)
                    if src in pcomps and (dst not in pcomps or r.random() < 0.5):
                        d_["src"] = [[pn, r.choice(pstrata)]]; feat["adj:filtered_by_earlier_stratification"] = feat.get("adj:filtered_by_earlier_stratification", 0) + 1
                    elif dst in pcomps:
                        d_["dst"] = [[pn, r.choice(pstrata)]]; feat["adj:filtered_by_earlier_stratification"] = feat.get("adj:filtered_by_earlier_stratification", 0) + 1
                fadj.append(d_)
                feat["adj:" + kind] = feat.get("adj:" + kind, 0) + 1
        if fadj: op["flow_adj"] = fadj
        feat[("strain" if strain else "plain") + ":" + "".join(comps)] = 1
        ops.append(op)
        applied.append((name, strata, comps))
    return {"build": ops, "params": params, "meta": {"feat": feat, "strats": [1], "n_comps": None, "t0": "0", "dt": "1", "nsteps": 2}}


def abs_task(W, payload):
    r = random.Random(f"C04abs:{payload['seed']}:{payload['index']}")
    prog = abs_program(r)
    S = fresh_session(W)
    out = {"evals": 0, "cases": [], "fails": [], "diffs": [], "feat": dict(prog["meta"]["feat"])}
    out["feat"]["mode:abs_scenarios"] = 1
    if not S.build(prog["build"], dump_each=False):
        bump(out, "build_rejected")
        return out
    pyd = S.I.apply({"op": "dump"})["dump"]
    lnd = S.L.send({"op": "dump"})["dump"]
    before = len(S.log)
    S.dump()
    out["evals"] += 1
    a = collections.Counter(key(f) for f in pyd["flows"]); b = collections.Counter(key(f) for f in lnd["flows"])
    if a != b:
        out["diffs"].append({"stage": "S1", "what": "multiset of flow copies", "impl_only": [list(map(str, k)) for k in (a - b)], "model_only": [list(map(str, k)) for k in (b - a)],
                             "prescribed": True, "task": {"module": "c04", "fn": "task", "payload": payload}, "program": prog["build"]})
    for d in S.log[before:]:
        d = dict(d); d["prescribed"] = False; d["task"] = {"module": "c04", "fn": "task", "payload": payload}; d["program"] = prog["build"]
        out["diffs"].append(d)
    n = len(pyd["comps"])
    x = [q(Fr(r.randint(1, 40))) for _ in range(n)]
    before = len(S.log)
    py, ln = S.one_step(prog["params"], "1/2", x, stages=("S2", "S4"))
    out["evals"] += 1
    if py.get("ok"):
        out["cases"].append(prog_hash(prog["build"]) + ":abs")
    tag_diffs(out, S, before, "c04", payload, prog, ("S2", "S4"))
    return out

def key(f):
    def c(x):
        return None if x is None else (x[0], tuple(tuple(kv) for kv in x[1]))
    return (f["kind"], f["name"], c(f["src"]), c(f["dst"]))

def task(W, payload):
    if payload.get("mode") == "abs":
        return abs_task(W, payload)
    r = random.Random(f"C04:{payload['seed']}:{payload['index']}")
    if payload["index"] % 3 == 2:
        # absolute flows under partial / strain stratifications with adjustments, and adjustment chains across stratifications
        prog = Gen(r, Opts(max_strats=3, force_strat=True, max_flows=6, allow_requests=False, allow_computed=False, allow_mixing=False,
                           allow_inf_adjust=False, chain_adjust_bias=0.5, zero_adjust_bias=0.15,
                           kinds=["transition", "death", "universal_death", "crude_birth", "repl_birth", "import", "absolute", "absolute", "absolute", "absolute",
                                  "infection"])).program()
    else:
        prog = Gen(r, Opts(max_strats=3, force_strat=True, max_flows=7, allow_requests=False, allow_computed=False, allow_mixing=False,
                           allow_inf_adjust=False)).program()
    S = fresh_session(W)
    out = mk_out(prog)
    built = S.build(prog["build"], dump_each=False)
    # the number of flows after every flow-adding / stratifying call (the copies exist, whatever a later call does with them)
    for d in S.log:
        if d.get("stage") == "S1" and d.get("what") == "n_flows":
            d = dict(d); d["prescribed"] = True; d["task"] = {"module": "c04", "fn": "task", "payload": payload}; d["program"] = prog["build"]
            out["diffs"].append(d)
    if not built:
        bump(out, "build_rejected")
        # raise/no-raise disagreements are C17's business unless the op is a stratification with adjustments the property covers
        return out
    before = len(S.log)
    pyd = S.I.apply({"op": "dump"})["dump"]
    lnd = S.L.send({"op": "dump"})["dump"]
    S.dump()
    out["evals"] += 1
    a = collections.Counter(key(f) for f in pyd["flows"]); b = collections.Counter(key(f) for f in lnd["flows"])
    if a != b:
        d = {"stage": "S1", "what": "multiset of flow copies", "impl_only": [list(map(str, k)) for k in (a - b)], "model_only": [list(map(str, k)) for k in (b - a)],
             "prescribed": True, "task": {"module": "c04", "fn": "task", "payload": payload}, "program": prog["build"]}
        out["diffs"].append(d)
    # structure dump differences other than the multiset (adjustment chains, order) are correspondence only
    for d in S.log[before:]:
        d = dict(d); d["prescribed"] = False; d["task"] = {"module": "c04", "fn": "task", "payload": payload}; d["program"] = prog["build"]
        out["diffs"].append(d)
    h = prog_hash(prog["build"])
    nontrivial = bool(prog["meta"]["strats"]) and any(k.startswith("adj:") or k.startswith("split:") for k in prog["meta"]["feat"])
    for mode, t, x in sample_states(r, prog, ("interior", "interior")):
        before = len(S.log)
        py, ln = S.one_step(prog["params"], t, x, stages=("S2", "S4"))
        out["evals"] += 1
        if py.get("ok") and nontrivial:
            out["cases"].append(h + ":" + t)
        tag_diffs(out, S, before, "c04", payload, prog, ("S2", "S4"))
    if payload["index"] == 0:
        out["sample"] = {"program": prog["build"], "params": prog["params"], "n_flows": len(pyd["flows"])}
    return out
