"""C04 — stratified flows are exactly the prescribed copies with the prescribed weights."""
import random, collections
from common import *

ID = "C04"
THEOREM_FILES = ["Summer.Props.C04", "Summer.Props.C04Source", "Summer.Props.C13Source", "Summer.Props.C01Source"]
TASK = "task"
RULE = ("programs with all flow kinds, 1-3 stratifications (plain / age / strain, full / partial), several adjustment declarations per flow "
        "with overlapping source/dest strata filters, Multiply / bare number / Overwrite / None, parameters and time functions, flows added "
        "before and after stratifications; observables: the multiset of flow copies (kind, name, source, destination) and every copy's "
        "effective weight (flow rate at states with positive populations); non-trivial when >= 1 stratification and >= 1 adjustment or split")
TRUSTED = ["Spec.copies / Spec.copyAdjustment in lean/Summer/Spec/Structure.lean are the reading of the documented rules"]
ASSUMPTIONS = ["an absolute flow that carries a user adjustment is additionally shared 1/k between its k copies, as the code does (the property "
               "only prescribes the no-user-adjustment case)"]

def payloads(tier, seed):
    n = 70 if tier == "quick" else 1500
    return [{"seed": seed, "index": i} for i in range(n)]

def key(f):
    def c(x):
        return None if x is None else (x[0], tuple(tuple(kv) for kv in x[1]))
    return (f["kind"], f["name"], c(f["src"]), c(f["dst"]))

def task(W, payload):
    r = random.Random(f"C04:{payload['seed']}:{payload['index']}")
    if payload["index"] % 3 == 2:
        # absolute flows under partial / strain stratifications with adjustments, and adjustment chains across stratifications
        prog = Gen(r, Opts(max_strats=3, force_strat=True, max_flows=6, allow_requests=False, allow_computed=False, allow_mixing=False,
                           allow_inf_adjust=False, chain_adjust_bias=0.5,
                           kinds=["transition", "death", "universal_death", "crude_birth", "repl_birth", "import", "absolute", "absolute", "absolute", "absolute",
                                  "infection"])).program()
    else:
        prog = Gen(r, Opts(max_strats=3, force_strat=True, max_flows=7, allow_requests=False, allow_computed=False, allow_mixing=False,
                           allow_inf_adjust=False)).program()
    S = fresh_session(W)
    out = mk_out(prog)
    if not S.build(prog["build"], dump_each=False):
        bump(out, "build_rejected")
        # raise/no-raise disagreements are C17's business unless the op is a stratification with adjustments the property covers
        return out
    before = len(S.log)
    pyd = S.I.apply({"op": "dump"})["dump"]
    lnd = S.L.send({"op": "dump"})["dump"]
    S.dump()
    out["evals"] += 1
    a = collections.Counter(key(f) for f in pyd["flows"]); b = collections.Counter(key(f) for f in lnd["flows"])
    if a != b:
        d = {"stage": "S1", "what": "multiset of flow copies", "impl_only": [list(map(str, k)) for k in (a - b)], "model_only": [list(map(str, k)) for k in (b - a)],
             "prescribed": True, "task": {"module": "c04", "fn": "task", "payload": payload}, "program": prog["build"]}
        out["diffs"].append(d)
    # structure dump differences other than the multiset (adjustment chains, order) are correspondence only
    for d in S.log[before:]:
        d = dict(d); d["prescribed"] = False; d["task"] = {"module": "c04", "fn": "task", "payload": payload}; d["program"] = prog["build"]
        out["diffs"].append(d)
    h = prog_hash(prog["build"])
    nontrivial = bool(prog["meta"]["strats"]) and any(k.startswith("adj:") or k.startswith("split:") for k in prog["meta"]["feat"])
    for mode, t, x in sample_states(r, prog, ("interior", "interior")):
        before = len(S.log)
        py, ln = S.one_step(prog["params"], t, x, stages=("S2", "S4"))
        out["evals"] += 1
        if py.get("ok") and nontrivial:
            out["cases"].append(h + ":" + t)
        tag_diffs(out, S, before, "c04", payload, prog, ("S2", "S4"))
    if payload["index"] == 0:
        out["sample"] = {"program": prog["build"], "params": prog["params"], "n_flows": len(pyd["flows"])}
    return out
