"""C02 — people are neither created nor lost except through entry and exit flows."""
import random
import numpy as np
from common import *

ID = "C02"
THEOREM_FILES = ["Summer.Props.C02", "Summer.Props.C02Solvers", "Summer.Props.C02Open", "Summer.Props.C02EndToEnd", "Summer.Props.C02Replacement", "Summer.Props.C07Source", "Summer.Props.C01Rates", "Summer.Props.C04Source", "Summer.Props.C04Weights", "Summer.Props.C07Pipeline"]
TASK = "task"
RULE = ("(a) arbitrary programs: at three states sum(comp_rates) must equal entry minus exit flow rates (flow ends read from model.flows); "
        "(b) closed programs (no entry/exit flows): outputs.sum(axis=1) constant for euler, rk4 (1e-9*N) and the adaptive solver "
        "(50*(atol+rtol*N)); (c) programs whose only entry flow is a replacement-birth flow created before any stratification, with "
        "death flows: total constant; distinct by program hash and sub-check, non-trivial when the model has >= 2 flows")
TRUSTED = []
ASSUMPTIONS = ["'to rounding / to solver tolerance' is floating point: executed, not proved"]

def payloads(tier, seed):
    n = 60 if tier == "quick" else 1200
    return [{"seed": seed, "index": i, "mode": ["any", "closed", "replacement"][i % 3]} for i in range(n)] \
        + [{"seed": seed, "index": i, "mode": "scenario"} for i in range(n // 6)]

def known_payloads():
    return [{"seed": 0, "index": 0, "mode": "known_F1"}]

F1_PROGRAM = [
    {"op": "model", "t0": "0", "t1": "4", "dt": "1", "comps": ["S", "I"], "inf": ["I"]},
    {"op": "init_pop", "dist": [["S", {"c": "90"}], ["I", {"c": "10"}]]},
    {"op": "flow", "kind": "universal_death", "name": "mu", "param": {"c": "1/8"}},
    {"op": "stratify", "kind": "plain", "name": "loc", "strata": ["urban", "rural"], "comps": ["S", "I"]},
    {"op": "flow", "kind": "repl_birth", "name": "births", "dst": "S"},
]

def totals_check(out, S, prog, payload, label, sig=None):
    for solver in ("euler", "rk4", "odeint"):
        rr = S.I.apply({"op": "run", "params": [[k, v] for k, v in prog["params"].items()], "solver": solver})
        out["evals"] += 1
        if not rr["ok"]:
            bump(out, "run_failed"); continue
        o = np.array(rr["outputs"])
        if not np.all(np.isfinite(o)) or np.abs(o).max() > 1e7:
            bump(out, "diverged"); continue
        tot = o.sum(axis=1); N = max(1.0, float(np.abs(o[0]).sum()))
        tol = 1e-9 * N if solver != "odeint" else 50 * (1.4e-4 + 1.4e-4 * N)
        if np.abs(tot - tot[0]).max() > tol:
            f = dict(solver=solver, totals=list(map(float, tot)), program=prog["build"], params=prog["params"])
            if sig: f["signature"] = sig
            fail(out, f"total population not constant along the trajectory ({label}, {solver})", "c02", payload, **f)
            return False
    return True

def scenario_task(W, payload, r):
    """a baseline model that has been run, and a scenario model of the same shape (same compartments, same number of flows) in which one
    transition is replaced by a death flow out of the same compartment; the scenario is attached to the baseline with `set_baseline` (its
    documented use) before anything is evaluated: the rate of change of the scenario's total must be ITS entry minus exit flows"""
    import interp as interp_mod
    prog = Gen(r, Opts(max_strats=2, allow_requests=False, allow_computed=False, max_flows=5, allow_post_flows=False,
                       kinds=["transition", "transition", "death", "infection", "import"])).program()
    out = mk_out(prog)
    bump(out, "mode:scenario")
    opsA = prog["build"]
    ti = [i for i, op in enumerate(opsA) if op["op"] == "flow" and op["kind"] == "transition"]
    if not ti:
        bump(out, "scenario:no_transition"); return out
    i = r.choice(ti)
    opsB = copy.deepcopy(opsA)
    t_ = opsB[i]
    opsB[i] = {"op": "flow", "kind": "death", "name": t_["name"], "param": t_["param"], "src": t_["src"]}
    if t_.get("src_strata"): opsB[i]["src_strata"] = t_["src_strata"]
    # adjustments declared for the replaced flow keep applying to the death flow (same name)
    IA = interp_mod.Interp()
    for op in opsA:
        if not IA.apply(op)["ok"]:
            bump(out, "build_rejected"); return out
    if not IA.apply({"op": "run", "params": [[k, v] for k, v in prog["params"].items()], "solver": "euler"})["ok"]:
        bump(out, "baseline_run_failed"); return out
    S = fresh_session(W)
    if not S.build(opsB):
        bump(out, "build_rejected"); return out
    m = S.I.model
    if len(m.flows) != len(IA.model.flows) or len(m.compartments) != len(IA.model.compartments):
        bump(out, "scenario:shape_differs"); return out
    try:
        m.set_baseline(IA.model)
    except BaseException as e:
        bump(out, "scenario:set_baseline_raised"); return out
    progB = dict(prog, build=opsB)
    h = prog_hash(opsB)
    entry = [i_ for i_, f in enumerate(m.flows) if f.source is None]
    exit_ = [i_ for i_, f in enumerate(m.flows) if f.dest is None]
    for smode, t, x in sample_states(r, progB, ("interior", "boundary")):
        before = len(S.log)
        py, ln = S.one_step(prog["params"], t, x, stages=("S5",))
        out["evals"] += 1
        tag_diffs(out, S, before, "c02", payload, progB, ("S5",))
        if not py.get("ok"):
            continue
        fr = np.array(py["flow_rates"]); cr = np.array(py["comp_rates"])
        if not np.all(np.isfinite(fr)):
            continue
        want = fr[entry].sum() - fr[exit_].sum()
        scale = max(1.0, float(np.abs(fr).sum()))
        if abs(cr.sum() - want) > 1e-9 * scale:
            fail(out, "scenario attached to a baseline: rate of change of the total population differs from the scenario's entry minus exit flow rates", "c02", payload,
                 total_rate=float(cr.sum()), entry_minus_exit=float(want), t=t, x=x, baseline=opsA, scenario=opsB, params=prog["params"])
        out["cases"].append(h + ":scenario:" + smode)
    return out


def task(W, payload):
    mode = payload["mode"]
    r = random.Random(f"C02:{payload['seed']}:{payload['index']}")
    if mode == "known_F1":
        prog = {"build": F1_PROGRAM, "params": {}, "meta": {"feat": {}}}
        S = fresh_session(W); out = mk_out(prog)
        if S.build(prog["build"]):
            totals_check(out, S, prog, payload, "replacement-birth flow added after a stratification",
                         sig={"oracle": "replacement_total", "site": "model.py:add_replacement_birth_flow",
                              "pattern": "replacement-birth flow added to a model in which its destination already matches k >= 2 compartments"})
        return out
    if mode == "scenario":
        return scenario_task(W, payload, r)
    if mode == "closed":
        opts = Opts(closed=True, max_strats=2, allow_requests=False, allow_computed=False, max_flows=6)
    elif mode == "replacement":
        opts = Opts(kinds=["transition", "death", "universal_death", "infection"], max_strats=2, allow_requests=False, allow_computed=False,
                    max_flows=5, allow_post_flows=False, zero_adjust_bias=0.25)
        if payload["index"] % 2 == 0:
            opts.max_strats = 3; opts.force_strat = True; opts.allow_partial = False; opts.allow_age = False    # several full stratifications: the births are split again and again
    else:
        opts = Opts(max_strats=2, allow_requests=False, allow_computed=False)
    g = Gen(r, opts)
    prog = g.program()
    if mode == "replacement":
        # the replacement flow is created before any stratification (second op after init_pop); it is never adjusted
        idx = next(i for i, op in enumerate(prog["build"]) if op["op"] == "init_pop") + 1
        dst = r.choice(prog["build"][0]["comps"])
        prog["build"].insert(idx, {"op": "flow", "kind": "repl_birth", "name": "repl", "dst": dst})
        # ... except by Overwrite adjustments of a LATER stratification that redistribute the births over the strata without changing their total:
        # with k copies so far (each carrying the automatic 1/n shares of the earlier stratifications), overwriting with shares that sum to 1/k
        k = 1
        for op in prog["build"]:
            if op["op"] != "stratify" or dst not in op["comps"] or op["kind"] == "age":
                continue
            n_ = len(op["strata"])
            if k >= 2 and r.random() < 0.7:
                shares = r.choice({1: [[Fr(1)]], 2: [[Fr(1, 2), Fr(1, 2)], [Fr(1, 4), Fr(3, 4)], [Fr(1), Fr(0)]], 3: [[Fr(1, 2), Fr(1, 4), Fr(1, 4)], [Fr(1, 8), Fr(5, 8), Fr(1, 4)], [Fr(1, 2), Fr(0), Fr(1, 2)]]}[n_])   # (a share of exactly 0 is a legal adjustment)
                op.setdefault("flow_adj", []).append({"flow": "repl", "adjs": [[s_, ["ovr", {"c": q(w / k)}]] for s_, w in zip(op["strata"], shares)]})
                prog["meta"]["feat"]["repl:overwritten_by_later_stratification"] = prog["meta"]["feat"].get("repl:overwritten_by_later_stratification", 0) + 1
            k *= n_
    S = fresh_session(W)
    out = mk_out(prog)
    bump(out, "mode:" + mode)
    if not S.build(prog["build"]):
        bump(out, "build_rejected")
        return out
    m = S.I.model
    h = prog_hash(prog["build"])
    entry = [i for i, f in enumerate(m.flows) if f.source is None]
    exit_ = [i for i, f in enumerate(m.flows) if f.dest is None]
    for smode, t, x in sample_states(r, prog, ("interior", "boundary", "negative")):
        before = len(S.log)
        py, ln = S.one_step(prog["params"], t, x, stages=("S5",))
        out["evals"] += 1
        tag_diffs(out, S, before, "c02", payload, prog, ())
        if not py.get("ok"):
            continue
        fr = np.array(py["flow_rates"]); cr = np.array(py["comp_rates"])
        if not np.all(np.isfinite(fr)):
            continue
        want = fr[entry].sum() - fr[exit_].sum()
        scale = max(1.0, float(np.abs(fr).sum()))
        if abs(cr.sum() - want) > 1e-9 * scale:
            fail(out, "rate of change of the total population differs from entry minus exit flow rates", "c02", payload,
                 total_rate=float(cr.sum()), entry_minus_exit=float(want), t=t, x=x, program=prog["build"], params=prog["params"])
        if len(m.flows) >= 2:
            out["cases"].append(h + ":" + smode)
    if mode == "closed" or (mode == "replacement"):
        if totals_check(out, S, prog, payload, mode):
            out["cases"].append(h + ":traj")
    if payload["index"] < 3:
        out["sample"] = {"mode": mode, "program": prog["build"], "params": prog["params"]}
    return out
