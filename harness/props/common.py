"""helpers shared by property modules"""
import random, copy, json
from fractions import Fraction as Fr
from gen import Gen, Opts, gen_state, fix_categories, q
from corr import Session, prog_hash, close, vec_close, mat_close
from tasks import fresh_session

def mk_out(prog=None):
    return {"evals": 0, "cases": [], "fails": [], "diffs": [], "feat": dict(prog["meta"]["feat"]) if prog else {}}

def bump(out, k, n=1):
    out["feat"][k] = out["feat"].get(k, 0) + n

def tag_diffs(out, S, before, module, payload, prog, prescribed_stages):
    for d in S.log[before:]:
        d = dict(d)
        d["prescribed"] = d["stage"] in prescribed_stages
        d["task"] = {"module": module, "fn": "task", "payload": payload}
        if prog is not None:
            d["program"] = prog["build"]
            d["params"] = prog["params"]
        out["diffs"].append(d)

def fail(out, what, module, payload, **detail):
    f = {"what": what, "task": {"module": module, "fn": "task", "payload": payload}}
    f.update(detail)
    out["fails"].append(f)

def sample_states(r, prog, modes):
    n = prog["meta"]["n_comps"]
    t0 = Fr(prog["meta"]["t0"]); dt = Fr(prog["meta"]["dt"])
    for mode in modes:
        x = fix_categories(r, gen_state(r, n, mode), prog["meta"]["comps"], prog["meta"]["mixing_strats"])
        t = t0 + Fr(r.randint(0, 4 * prog["meta"]["nsteps"]), 4) * dt
        yield mode, q(t), [q(v) for v in x]

def map_expr(e, f):
    """bottom-up rewrite of a DSL expression"""
    if e is None:
        return None
    e2 = {}
    for k, v in e.items():
        if k in ("+", "-", "*", "/"):
            e2[k] = [map_expr(v[0], f), map_expr(v[1], f)]
        elif k in ("pw", "lin"):
            e2[k] = [map_expr(v[0], f), [map_expr(a, f) for a in v[1]], [map_expr(a, f) for a in v[2]]]
        else:
            e2[k] = v
    return f(e2)

def map_program_exprs(ops, f):
    """apply f to every expression site of a build program (returns a deep copy)"""
    ops = copy.deepcopy(ops)
    def adjd(adjs):
        return [[k, (None if a is None else [a[0], map_expr(a[1], f)] + a[2:])] for k, a in adjs]
    for op in ops:
        if op["op"] == "flow" and op.get("param") is not None:
            op["param"] = map_expr(op["param"], f)
        elif op["op"] == "init_pop":
            op["dist"] = [[k, map_expr(e, f)] for k, e in op["dist"]]
        elif op["op"] == "init_pop_array":
            op["arr"] = [map_expr(e, f) for e in op["arr"]]
        elif op["op"] == "stratify":
            if op.get("split") is not None:
                op["split"] = [[k, map_expr(e, f)] for k, e in op["split"]]
            for d in op.get("flow_adj") or []:
                d["adjs"] = adjd(d["adjs"])
            if op.get("inf_adj"):
                op["inf_adj"] = [[c, adjd(a)] for c, a in op["inf_adj"]]
            if op.get("mixing") is not None:
                op["mixing"] = [[map_expr(e, f) for e in row] for row in op["mixing"]]
        elif op["op"] == "adjust_split":
            op["props"] = [[k, map_expr(e, f)] for k, e in op["props"]]
        elif op["op"] == "computed_value":
            op["expr"] = map_expr(op["expr"], f)
        elif op["op"] == "request" and op.get("kind") == "func":
            op["expr"] = map_expr(op["expr"], f)
    return ops

def run_impl(W, ops, evals):
    """build a program on the real code only and execute observation ops; returns (ok, results)"""
    I = W["interp_mod"].Interp()
    for op in ops:
        r = I.apply(op)
        if not r["ok"]:
            return False, r, I
    res = [I.apply(e) for e in evals]
    return True, res, I
