"""C13 — name-and-strata selection means: name equal and strata contain the filter."""
import random, re
from common import *

ID = "C13"
THEOREM_FILES = ["Summer.Props.C13Inspect", "Summer.Props.C13", "Summer.Props.C13Source", "Summer.Props.C08Source", "Summer.Props.C04Source"]
TASK = "task"
RULE = ("stratified models (1-3 stratifications, full and partial; flow names shared between entry, exit and transition flows in a third of the "
        "models); filtered raw flow outputs and compartment outputs of a solved model vs sums over brute-force selected flow-rate / state columns; "
        "12 queries per model with empty / partial / full / impossible filters over "
        "strata of any stratification: query_compartments (with and without a name; string, collection and predicate values), query_flows "
        "(name, source filter, destination filter, both), compared with the model's matchers and with a brute-force selection written "
        "directly from the property sentence; plus scenario models in which same-named flows cross strata and a later stratification adjusts them under a source "
        "filter, a destination filter or both (weights compared with the model); non-trivial when the filter is non-empty")
TRUSTED = ["Spec.select in lean/Summer/Spec/Structure.lean is the reading of the property sentence"]
ASSUMPTIONS = ["a collection of NAMES in query_compartments groups results by name order; the property speaks of 'a name', only single names are claimed"]

def payloads(tier, seed):
    n = 50 if tier == "quick" else 1000
    return [{"seed": seed, "index": i} for i in range(n)] + [{"seed": seed, "index": i, "mode": "adjfilter"} for i in range(16 if tier == "quick" else 300)]


def adjfilter_task(W, payload):
    """flow adjustments restricted by source and / or destination strata: same-named flows leave one stratum for DIFFERENT strata (and enter
    one stratum from different strata); a later stratification adjusts that flow name under a source filter, a destination filter or both.
    The filters must apply independently to the two ends.  Observable: every flow copy's weight (one_step), prescribed by C04.copy_weight."""
    r = random.Random(f"C13adj:{payload['seed']}:{payload['index']}")
    loc = ["x", "y", "z"]
    ops = [{"op": "model", "t0": "0", "t1": "2", "dt": "1", "comps": ["A", "B"], "inf": ["B"]},
           {"op": "init_pop", "dist": [["A", {"c": "60"}], ["B", {"c": "40"}]]},
           {"op": "stratify", "kind": "plain", "name": "loc", "strata": loc, "comps": ["A", "B"]}]
    # migration within A between locations (all ordered pairs, one name), an A->B transition per location, an import and a death flow of the same name
    pairs = [(a, b) for a in loc for b in loc if a != b]
    r.shuffle(pairs)
    for a, b in pairs[: r.randint(3, 6)]:
        ops.append({"op": "flow", "kind": "transition", "name": "mig", "param": {"c": r.choice(["1/8", "1/4", "1/2"])}, "src": "A", "dst": "A",
                    "src_strata": [["loc", a]], "dst_strata": [["loc", b]]})
    ops.append({"op": "flow", "kind": "transition", "name": "prog", "param": {"c": "1/4"}, "src": "A", "dst": "B"})
    decls = []
    for _ in range(r.randint(1, 3)):
        which = r.choice(["src", "dst", "both", "both", "none"])
        d = {"flow": r.choice(["mig", "mig", "prog"]), "adjs": [["u", r.choice([None, ["mul", {"c": "2"}], ["ovr", {"c": "5"}]])], ["v", ["mul", {"c": r.choice(["3", "1/2"])}]]]}
        if which in ("src", "both"): d["src"] = [["loc", r.choice(loc)]]
        if which in ("dst", "both"): d["dst"] = [["loc", r.choice(loc)]]
        decls.append(d)
    # an entry / exit flow of the same name (a source filter on a name that has a source-less flow is refused by the API, likewise for destinations)
    if not any(d["flow"] == "mig" and d.get("src") for d in decls) and r.random() < 0.7:
        ops.append({"op": "flow", "kind": "import", "name": "mig", "param": {"c": "3"}, "dst": "A", "split": False})
    if not any(d["flow"] == "mig" and d.get("dst") for d in decls) and r.random() < 0.7:
        ops.append({"op": "flow", "kind": "death", "name": "mig", "param": {"c": "1/16"}, "src": "A"})
    ops.append({"op": "stratify", "kind": "plain", "name": "vac", "strata": ["u", "v"], "comps": r.choice([["A", "B"], ["A"]]), "flow_adj": decls})
    out = {"evals": 0, "cases": [], "fails": [], "diffs": [], "feat": {"mode:adjustment_filters": 1}}
    for d in decls:
        k = "adjfilter:" + ("both" if d.get("src") and d.get("dst") else "src" if d.get("src") else "dst" if d.get("dst") else "none")
        out["feat"][k] = out["feat"].get(k, 0) + 1
    S = fresh_session(W)
    if not S.build(ops):
        out["feat"]["build_rejected"] = 1
        return out
    n = len(S.I.model.compartments)
    x = [q(Fr(r.randint(1, 30))) for _ in range(n)]
    before = len(S.log)
    prog = {"build": ops, "params": {}}
    py, ln = S.one_step({}, "1/2", x, stages=("S2", "S4"))
    out["evals"] += 1
    if py.get("ok"):
        out["cases"].append(prog_hash(ops) + ":adjfilter")
    tag_diffs(out, S, before, "c13", payload, prog, ("S2", "S4"))
    return out

def rand_filter(r, comps, kind):
    allkv = sorted(set((k, v) for _, s in comps for k, v in s))
    if not allkv or kind == "empty":
        return []
    if kind == "full":
        c = r.choice([c for c in comps if c[1]] or comps)
        return [list(kv) for kv in reversed(c[1])]      # keys in another order than the stratifications were applied
    if kind == "partial":
        c = r.choice([c for c in comps if c[1]] or comps)
        if not c[1]: return []
        return [list(kv) for kv in r.sample(c[1], r.randint(1, len(c[1])))]
    # impossible: a key of one stratification with a value of another, or an unknown key
    k, v = r.choice(allkv)
    return [[k, v + "_nope"]] if r.random() < 0.5 else [["nokey", v]]

def task(W, payload):
    if payload.get("mode") == "adjfilter":
        return adjfilter_task(W, payload)
    r = random.Random(f"C13:{payload['seed']}:{payload['index']}")
    prog = Gen(r, Opts(max_strats=3, force_strat=True, max_flows=6, allow_requests=False, allow_computed=False, shared_names_bias=0.35)).program()
    names0 = sorted(set(op["name"] for op in prog["build"] if op["op"] == "flow"))
    renamed = None
    if len(names0) >= 2 and payload["index"] % 2 == 0:
        # one flow name becomes another flow's name followed by "+" and more text: selection by flow name is by EQUALITY (not by prefix, not as a pattern)
        a_, b_ = r.sample(names0, 2)
        renamed = (b_, a_ + "+" + b_)
        for op in prog["build"]:
            if op["op"] == "flow" and op["name"] == b_: op["name"] = renamed[1]
            if op["op"] == "stratify":
                for d_ in op.get("flow_adj") or []:
                    if d_["flow"] == b_: d_["flow"] = renamed[1]
            if op["op"] == "request" and op.get("flow") == b_: op["flow"] = renamed[1]
    if payload["index"] % 3 == 0:
        # the filter dicts are single objects edited in place between the flow-adding calls
        for op in prog["build"]:
            if op["op"] == "flow": op["reuse_filter"] = True
    S = fresh_session(W)
    out = mk_out(prog)
    if renamed: bump(out, "flow_name_is_prefix_of_another")
    if payload["index"] % 3 == 0: bump(out, "filter_dict_objects_reused")
    built = S.build(prog["build"])
    # every flow-adding call must create the same number of flows as the model does (selection by name and strata), whatever happens later
    for d in S.log:
        if d.get("stage") == "S1" and d.get("what") in ("n_flows", "raise/no-raise"):
            # (a flow-adding call that the code refuses although the model — whose selections are proved to be the documented ones — accepts it
            # has selected other compartments than documented: unequal numbers of sources and destinations)
            d = dict(d); d["prescribed"] = d.get("op", {}).get("op") == "flow" and (d["what"] == "n_flows" or str(d.get("impl", "")).startswith("raised"))
            d["task"] = {"module": "c13", "fn": "task", "payload": payload}; d["program"] = prog["build"]
            out["diffs"].append(d)
    if not built:
        bump(out, "build_rejected")
        return out
    m = S.I.model
    # flows added to a stratified model through name-and-strata selections: the multiset of flows (kind, name, source, destination)
    import collections
    def fkey(f):
        def c(x):
            return None if x is None else (x[0], tuple(sorted(tuple(kv) for kv in x[1])))
        return (f["kind"], f["name"], c(f["src"]), c(f["dst"]))
    pyd = S.I.apply({"op": "dump"}); lnd = S.L.send({"op": "dump"})
    if pyd.get("ok") and lnd.get("ok"):
        a = collections.Counter(fkey(f) for f in pyd["dump"]["flows"]); b = collections.Counter(fkey(f) for f in lnd["dump"]["flows"])
        out["evals"] += 1
        if a != b:
            out["diffs"].append({"stage": "S1", "what": "flows created by add_*_flow(..., source_strata=, dest_strata=) on a stratified model", "prescribed": True,
                                 "impl_only": [list(map(str, k)) for k in (a - b)][:6], "model_only": [list(map(str, k)) for k in (b - a)][:6],
                                 "task": {"module": "c13", "fn": "task", "payload": payload}, "program": prog["build"]})
    comps = [(c.name, list(c.strata.items())) for c in m.compartments]
    h = prog_hash(prog["build"])
    flow_names = sorted(set(f.name for f in m.flows))
    for qi in range(12):
        kind = r.choice(["empty", "partial", "partial", "full", "impossible"])
        flt = rand_filter(r, comps, kind)
        bump(out, "filter:" + kind)
        if qi % 2 == 0:
            name = r.choice([None] + [c[0] for c in comps])
            op = {"op": "query_comps", "name": name, "filter": flt}
            py = S.I.apply(op); ln = S.L.send(op)
            out["evals"] += 1
            brute = [[c.name, [list(kv) for kv in c.strata.items()]] for c in m.compartments
                     if (name is None or c.name == name) and all(c.strata.get(k) == v for k, v in flt)]
            if py["ok"]:
                got = [[c[0], [list(kv) for kv in c[1]]] for c in py["comps"]]
                if got != brute:
                    fail(out, "query_compartments does not select exactly the compartments with that name whose strata contain the filter (in model order)",
                         "c13", payload, query=op, got=got, want=brute, program=prog["build"])
                if ln["ok"] and [[c[0], [list(kv) for kv in c[1]]] for c in ln["comps"]] != got:
                    out["diffs"].append({"stage": "S1", "what": "query_compartments", "prescribed": True, "op": op, "impl": got, "model": ln["comps"],
                                         "task": {"module": "c13", "fn": "task", "payload": payload}, "program": prog["build"]})
                # a returned selection belongs to the caller: changing it in place must not change what a later selection returns
                qa = dict(flt) if name is None else {"name": name, **dict(flt)}
                try:
                    first = m.query_compartments(dict(qa))
                    if first is not m.compartments:       # (the model's own public list is the caller's to break: not a selection)
                        first.extend(list(m.compartments)[:2]); first.reverse()
                    again = [[c.name, [list(kv) for kv in c.strata.items()]] for c in m.query_compartments(dict(qa))]
                    if again != brute:
                        fail(out, "after the caller modified a returned selection in place, the same query selects other compartments", "c13", payload,
                             query=op, got=again, want=brute, program=prog["build"])
                    if [[c.name, [list(kv) for kv in c.strata.items()]] for c in m.compartments] != [[c[0], [list(kv) for kv in c[1]]] for c in comps]:
                        fail(out, "modifying a returned selection in place changed the model's compartment list", "c13", payload, query=op, program=prog["build"])
                except BaseException as e:
                    fail(out, "query_compartments raised on a repeated query", "c13", payload, query=op, err=str(e)[:200], program=prog["build"])
                # a predicate that would be true of "no value": a compartment that does not carry the stratification is still not selected
                if flt:
                    qn = {k: (lambda y, v=v: y != v) for k, v in flt}
                    if name is not None: qn = {"name": name, **qn}
                    bn = [[c.name, [list(kv) for kv in c.strata.items()]] for c in m.compartments
                          if (name is None or c.name == name) and all(k in c.strata and c.strata[k] != v for k, v in flt)]
                    try:
                        gn = [[c.name, [list(kv) for kv in c.strata.items()]] for c in m.query_compartments(qn)]
                        if gn != bn:
                            fail(out, "query_compartments with a predicate selects compartments that do not carry the stratification (or misses some that do)", "c13", payload,
                                 query=str({k: "!= " + v for k, v in flt}), name=name, got=gn, want=bn, program=prog["build"])
                    except BaseException as e:
                        fail(out, "query_compartments with a predicate raised", "c13", payload, err=str(e)[:200], program=prog["build"])
                # collection / predicate valued filters against the same brute force
                if flt:
                    q2 = {k: [v, "zzz"] for k, v in flt}
                    q3 = {k: (lambda y, v=v: y == v) for k, v in flt}
                    for qq in (q2, q3):
                        if name is not None: qq = {"name": name, **qq}
                        res = m.query_compartments(qq)
                        g2 = [[c.name, [list(kv) for kv in c.strata.items()]] for c in res]
                        if g2 != brute:
                            fail(out, "query_compartments with collection/predicate values differs from the string-valued query", "c13", payload,
                                 query=str(qq), got=g2, want=brute, program=prog["build"])
            elif name is not None and name not in [c[0] for c in comps]:
                pass
            else:
                fail(out, "query_compartments raised", "c13", payload, query=op, err=py.get("err"), program=prog["build"])
        else:
            name = r.choice(flow_names) if flow_names and r.random() < 0.8 else None
            which = r.choice(["src", "dst", "both", "none"])
            fs = flt if which in ("src", "both") else []
            fd = (flt if which == "dst" else rand_filter(r, comps, r.choice(["partial", "empty", "full"]))) if which in ("dst", "both") else []
            # every fourth flow query: an end filter that also NAMES the compartment (reserved key "name"): the end must then exist and carry
            # that name, and the remaining keys are a strata filter as before
            sn = dn = None
            if r.random() < 0.25 and which in ("src", "both"):
                sn = r.choice(comps)[0]; fs = [["name", sn]] + [list(kv) for kv in fs]; bump(out, "query_flows:source_named")
            if r.random() < 0.25 and which in ("dst", "both"):
                dn = r.choice(comps)[0]; fd = [["name", dn]] + [list(kv) for kv in fd]; bump(out, "query_flows:dest_named")
            op = {"op": "query_flows", "name": name, "src": fs, "dst": fd}
            py = S.I.apply(op); ln = S.L.send(op)
            out["evals"] += 1
            def end_ok(e, nm, f_):
                if nm is not None and (e is None or e.name != nm): return False
                return e is None or all(e.strata.get(k) == v for k, v in f_ if k != "name")
            brute = [i for i, f in enumerate(m.flows) if (name is None or f.name == name) and end_ok(f.source, sn, fs) and end_ok(f.dest, dn, fd)]
            if not py["ok"]:
                fail(out, "query_flows raised", "c13", payload, query=op, err=py.get("err"), program=prog["build"])
            else:
                if py["flows"] != brute:
                    fail(out, "query_flows does not select exactly the flows whose source/destination strata contain the filters (a missing end never excludes)",
                         "c13", payload, query=op, got=py["flows"], want=brute, program=prog["build"])
                try:
                    ids = [id(f) for f in m.flows]
                    first = m.query_flows(name, dict(fs) or None, dict(fd) or None)
                    if first is not m.flows:              # an unfiltered query returns model.flows itself on the unchanged tree (documented in DESIGN 8.3)
                        first.extend(list(m.flows)[:2]); first.reverse()
                    again = [ids.index(id(f)) for f in m.query_flows(name, dict(fs) or None, dict(fd) or None)]
                    if again != brute or [id(f) for f in m.flows] != ids:
                        fail(out, "after the caller modified a returned selection in place, the same flow query selects other flows", "c13", payload,
                             query=op, got=again, want=brute, program=prog["build"])
                except BaseException as e:
                    fail(out, "query_flows raised on a repeated query", "c13", payload, query=op, err=str(e)[:200], program=prog["build"])
                if ln["ok"] and ln["flows"] != py["flows"]:
                    out["diffs"].append({"stage": "S1", "what": "query_flows", "prescribed": True, "op": op, "impl": py["flows"], "model": ln["flows"],
                                         "task": {"module": "c13", "fn": "task", "payload": payload}, "program": prog["build"]})
        if flt:
            out["cases"].append(h + ":" + str(qi))
    derived_selectors(r, S, m, prog, comps, flow_names, out, payload, h)
    if payload["index"] == 0:
        out["sample"] = {"program": prog["build"][:8], "comps": comps[:6]}
    return out


def derived_selectors(r, S, m, prog, comps, flow_names, out, payload, h):
    """flow and compartment derived outputs select by the same rule: request filtered outputs, solve the model (Euler) and compare
    every output with the sum over brute-force selected columns of the implementation's own flow rates / states"""
    import numpy as np
    reqs = []
    want = {}
    for j in range(5):
        kind = r.choice(["partial", "partial", "full", "empty"])
        flt = rand_filter(r, comps, kind)
        if j % 2 == 0 and flow_names:
            name = r.choice(flow_names)
            which = r.choice(["src", "dst", "both"])
            fs = flt if which in ("src", "both") else []
            fd = flt if which in ("dst", "both") else []
            sel = [i for i, f in enumerate(m.flows) if f.name == name
                   and (f.source is None or all(f.source.strata.get(k) == v for k, v in fs))
                   and (f.dest is None or all(f.dest.strata.get(k) == v for k, v in fd))]
            if not sel:
                continue      # a request that selects nothing is refused (C17)
            op = {"op": "request", "kind": "flow", "name": f"sel{j}", "flow": name, "raw": True, "src_strata": fs, "dst_strata": fd, "save": True}
            want[f"sel{j}"] = ("flow", sel, op)
        else:
            names = r.sample(sorted(set(c[0] for c in comps)), r.randint(1, min(2, len(set(c[0] for c in comps)))))
            sel = [i for i, c in enumerate(m.compartments) if c.name in names and all(c.strata.get(k) == v for k, v in flt)]
            if not sel:
                continue
            op = {"op": "request", "kind": "comp", "name": f"sel{j}", "comps": names, "strata": flt, "save": True}
            want[f"sel{j}"] = ("comp", sel, op)
        reqs.append(op)
    if not reqs:
        return
    before = len(S.log)
    if not S.build(reqs):
        if not S.both_rejected:
            tag_diffs(out, S, before, "c13", payload, prog, ("S1",))
        else:
            fail(out, "a derived-output request whose selection is non-empty was refused", "c13", payload, requests=reqs, err=str(getattr(S, "reject_msg", "")), program=prog["build"])
        return
    params = prog["params"]
    py, ln = S.run(params, "euler")
    tag_diffs(out, S, before, "c13", payload, prog, ("S8",))
    out["evals"] += 1
    if not py.get("ok"):
        return
    outputs = np.array(py["outputs"]); derived = dict((k, v) for k, v in py["derived"])
    if not np.all(np.isfinite(outputs)) or np.abs(outputs).max() > 1e7:
        bump(out, "blow_up"); return
    times = [float(t) for t in m.times][:len(outputs)]
    if len(times) < 2:
        bump(out, "blow_up"); return
    runner = S.I._get_runner({k: float(Fr(v)) for k, v in params.items()})
    import jax.numpy as jnp
    pf = {k: float(Fr(v)) for k, v in params.items()}
    rates = []
    for i, t in enumerate(times):
        st = runner.impl_dict["one_step"](pf, t, jnp.array(outputs[i]))
        rates.append(np.asarray(st.flow_rates))
    rates = np.array(rates)
    for nm, (kind, sel, op) in want.items():
        if nm not in derived:
            fail(out, "a saved derived output is missing from the results", "c13", payload, request=op, program=prog["build"]); continue
        got = np.array(derived[nm])[:len(times)]
        brute = (rates[:, sel].sum(axis=1) if kind == "flow" else outputs[:, sel].sum(axis=1)) if sel else np.zeros(len(times))
        out["evals"] += 1
        bump(out, "derived_selector:" + kind)
        if (op.get("src_strata") or op.get("dst_strata") or op.get("strata")):
            out["cases"].append(h + ":do:" + nm)
        if not vec_close(list(got), list(brute), 1e-9):
            fail(out, f"a filtered {kind} derived output is not the sum over exactly the {kind}s with that name whose strata contain the filter "
                      "(a missing end never excludes a flow)", "c13", payload, request=op, selected=sel, got=list(map(float, got)), want=list(map(float, brute)),
                 program=prog["build"], params=params)
