"""C09 — named parameters are interchangeable with the literal values they stand for."""
import random, itertools
import numpy as np
from common import *

ID = "C09"
THEOREM_FILES = ["Summer.Props.C09", "Summer.Props.C09Model", "Summer.Props.C09EndToEnd", "Summer.Props.C01Source", "Summer.Props.C11Source", "Summer.Props.C05Source"]
TASK = "task"
RULE = ("programs with 2-8 parameters (every third one with Multiply / Overwrite adjustment chains on one flow across 2-3 stratifications) at every parameterisable site (flow rates, adjustments, initial distribution, splits, infectiousness "
        "adjustments, mixing matrices, time-function points, computed values, derived-output functions): (a) literal-built model vs "
        "parameter-built model, (b) every partition of the parameters into build-time-fixed and run-time-supplied (all 2^k for k<=4, 8 random "
        "above) through get_runner(base, dyn_params=...).run, (b') two runners from one model object with different build-time values, (c) default parameters filling omitted values, (d) get_input_parameters() equals "
        "the model's Params.inputParams and omitting any reported parameter makes the run fail; distinct by program hash + variant, non-trivial "
        "when the program has >= 2 parameters")
TRUSTED = ["Params.inputParams in lean/Summer/Model/Params.lean is the reading of 'the set that is needed and able to influence the results'"]
ASSUMPTIONS = ["results are compared at 1e-12 relative (literal folding in Python vs array arithmetic may differ in the last bit)"]

def payloads(tier, seed):
    n = 45 if tier == "quick" else 900
    return [{"seed": seed, "index": i} for i in range(n)]

def same(a, b, tol=1e-12):
    return mat_close(a["outputs"], b["outputs"], tol) and sorted(a["derived"]) == sorted(b["derived"]) and all(vec_close(a["derived"][k], b["derived"][k], tol) for k in a["derived"])

def build(ops):
    from interp import Interp
    I = Interp()
    for op in ops:
        r = I.apply(op)
        if not r["ok"]:
            return None
    return I

def task(W, payload):
    r = random.Random(f"C09:{payload['seed']}:{payload['index']}")
    if payload["index"] % 3 == 1:
        # adjustment chains across stratifications (a Multiply of one stratification followed by an Overwrite of a later one and vice versa)
        prog = Gen(r, Opts(max_strats=3, max_flows=4, n_requests=2, force_strat=True, chain_adjust_bias=0.8, allow_mixing=False)).program()
    elif payload["index"] % 3 == 2:
        # population splits given proportion by proportion as parameters, some of them summing to one only within the API's tolerance
        prog = Gen(r, Opts(max_strats=2, max_flows=4, n_requests=2, force_strat=True, split_bias=0.95, inexact_split_bias=0.5, param_split_all_bias=0.7,
                           allow_param_split=False, allow_mixing=False)).program()
    else:
        prog = Gen(r, Opts(max_strats=2, max_flows=5, n_requests=4, mixing_pair_bias=0.7, force_infection=True)).program()
    out = mk_out(prog)
    ops = prog["build"]; params = prog["params"]
    pf = {k: float(Fr(v)) for k, v in params.items()}
    S = fresh_session(W)
    if not S.build(ops):
        bump(out, "build_rejected"); return out
    ref = S.I.apply({"op": "run", "params": [[k, v] for k, v in params.items()], "solver": "euler"})
    out["evals"] += 1
    if not ref["ok"] or not np.all(np.isfinite(np.array(ref["outputs"]))):
        bump(out, "reference_run_failed"); return out
    refd = {"outputs": ref["outputs"], "derived": dict((k, v) for k, v in ref["derived"])}
    h = prog_hash(ops)
    nontrivial = len(params) >= 2
    # (d) input parameters
    ip = S.I.apply({"op": "input_params"}); lp = S.L.send({"op": "input_params"})
    out["evals"] += 1
    if ip["ok"] and lp["ok"] and sorted(ip["params"]) != sorted(lp["params"]):
        out["diffs"].append({"stage": "S9", "what": "get_input_parameters", "prescribed": True, "impl": sorted(ip["params"]), "model": sorted(lp["params"]),
                             "task": {"module": "c09", "fn": "task", "payload": payload}, "program": ops})
    inputs = sorted(ip["params"]) if ip["ok"] else sorted(params)
    # (a) literal model
    lit_ops = map_program_exprs(ops, lambda e: ({"c": params[e["p"]]} if "p" in e else e))
    I2 = build(lit_ops)
    if I2 is None:
        fail(out, "the literal-built model is rejected although the parameter-built one is accepted", "c09", payload, program=lit_ops)
    else:
        r2 = I2.apply({"op": "run", "params": [], "solver": "euler"})
        out["evals"] += 1
        if not r2["ok"]:
            fail(out, "the literal-built model fails to run", "c09", payload, err=r2.get("err"), program=lit_ops)
        elif not same({"outputs": r2["outputs"], "derived": dict((k, v) for k, v in r2["derived"])}, refd):
            fail(out, "building with literals gives different results from running with the same parameter values", "c09", payload, program=ops, params=params)
        if nontrivial: out["cases"].append(h + ":literal")
        # ... and at a state in which every compartment is populated (the initial population of a generated model often leaves the infectious
        # compartments empty, so that a run does not feel the mixing matrices): the rates of the literal-built and the parameter-built model
        for smode, t_, x_ in sample_states(r, prog, ("interior",)):
            oa = S.I.apply({"op": "one_step", "params": [[k, v] for k, v in params.items()], "t": t_, "x": x_})
            ob = I2.apply({"op": "one_step", "params": [], "t": t_, "x": x_})
            out["evals"] += 1
            if oa["ok"] and ob["ok"] and not vec_close(oa["flow_rates"], ob["flow_rates"], 1e-9):
                fail(out, "building with literals gives different flow rates at a populated state from running with the same parameter values", "c09", payload,
                     t=t_, x=x_, literal=ob["flow_rates"], parameters=oa["flow_rates"], program=ops, params=params)
    # (e) a parameter that reaches the SAVED outputs only through a cumulative / aggregate output of a function output that is itself pruned by the
    # derived-output whitelist: it is still an input parameter, and supplying it has the effect of the literal value
    names_ = [op["name"] for op in ops if op["op"] == "request"]
    if names_ and payload["index"] % 2 == 0:
        src = r.choice(names_)
        extra = [{"op": "request", "kind": "func", "name": "wl_f", "sources": [src], "expr": {"*": [{"x": 0}, {"p": "wl_p"}]}, "save": True},
                 {"op": "request", "kind": r.choice(["cum", "agg"]), "name": "wl_c", "source": "wl_f", "sources": ["wl_f"], "save": True},
                 {"op": "request", "kind": "func", "name": "wl_r", "sources": ["wl_c"], "expr": {"+": [{"x": 0}, {"c": "1/2"}]}, "save": True},
                 {"op": "whitelist", "names": ["wl_c", "wl_r"]}]
        params_e = dict(params, wl_p=q(r.choice([Fr(1, 2), Fr(3, 4), Fr(3, 2)])))
        S5 = fresh_session(W)
        if S5.build(ops + extra):
            bump(out, "whitelist_reaches_parameter_through_" + extra[1]["kind"])
            ip5 = S5.I.apply({"op": "input_params"}); lp5 = S5.L.send({"op": "input_params"})
            out["evals"] += 1
            if ip5["ok"] and lp5["ok"] and sorted(ip5["params"]) != sorted(lp5["params"]):
                out["diffs"].append({"stage": "S9", "what": "get_input_parameters (with a derived-output whitelist)", "prescribed": True, "impl": sorted(ip5["params"]),
                                     "model": sorted(lp5["params"]), "task": {"module": "c09", "fn": "task", "payload": payload}, "program": ops + extra})
            before = len(S5.log)
            py5, ln5 = S5.run(params_e, "euler", tol=1e-9, stages=("S8",))
            out["evals"] += 1
            if nontrivial: out["cases"].append(h + ":whitelist")
            for d in S5.log[before:]:
                d = dict(d); d["prescribed"] = True; d["task"] = {"module": "c09", "fn": "task", "payload": payload}; d["program"] = ops + extra
                out["diffs"].append(d)
    # (b) partitions
    keys = inputs
    if len(keys) <= 4:
        parts = [list(c) for k in range(0, len(keys) + 1) for c in itertools.combinations(keys, k)]
    else:
        parts = [r.sample(keys, r.randint(0, len(keys))) for _ in range(8)]
    r.shuffle(parts)
    for dyn in parts[:8]:
        I3 = build(ops)
        try:
            # the values the runner is BUILT with for the run-time-supplied parameters are deliberately different from
            # the values it is RUN with: a result that still reflects a build-time value of a dynamic parameter is wrong
            base = dict(pf)
            for k in dyn:
                base[k] = pf[k] * 2.0 + 1.0
            runner = I3.model.get_runner(base, dyn_params=list(dyn), jit=False, solver="euler")
            res = runner._run_func(parameters={k: pf[k] for k in dyn})
            got = {"outputs": np.asarray(res["outputs"]).tolist(), "derived": {k: np.asarray(v).tolist() for k, v in res["derived_outputs"].items()}}
        except BaseException as e:
            fail(out, "a runner with some parameters fixed at build time fails", "c09", payload, dyn=dyn, err=f"{type(e).__name__}: {e}"[:300], program=ops, params=params)
            continue
        out["evals"] += 1
        if nontrivial: out["cases"].append(h + ":dyn:" + ",".join(dyn))
        if not same(got, refd):
            fail(out, "results depend on which parameters were fixed when the runner was built", "c09", payload, dyn=dyn, program=ops, params=params)
    # (b') two runners from ONE model object with the same run-time-supplied set but different build-time values: the second
    # runner must reflect ITS build-time values (fixing at build time == supplying at run time, whatever was built before)
    fixed_candidates = [k for k in keys]
    if len(keys) >= 1:
        dyn = r.sample(keys, r.randint(0, len(keys) - 1))
        fixed = [k for k in keys if k not in dyn]
        I7 = build(ops)
        try:
            wrong = dict(pf)
            for k in fixed:
                wrong[k] = pf[k] * 1.5 + 0.25
            r1 = I7.model.get_runner(wrong, dyn_params=list(dyn), jit=False, solver="euler")
            r1._run_func(parameters={k: pf[k] for k in dyn})
            r2 = I7.model.get_runner(dict(pf), dyn_params=list(dyn), jit=False, solver="euler")
            res = r2._run_func(parameters={k: pf[k] for k in dyn})
            got = {"outputs": np.asarray(res["outputs"]).tolist(), "derived": {k: np.asarray(v).tolist() for k, v in res["derived_outputs"].items()}}
            out["evals"] += 1
            if nontrivial: out["cases"].append(h + ":two_runners:" + ",".join(dyn))
            if not same(got, refd):
                fail(out, "a second runner built from the same model object with other build-time values does not reflect its own build-time values",
                     "c09", payload, dyn=dyn, fixed=fixed, program=ops, params=params)
        except BaseException as e:
            fail(out, "building two runners from one model object fails", "c09", payload, dyn=dyn, err=f"{type(e).__name__}: {e}"[:300], program=ops, params=params)
    # (c) defaults fill omitted values; supplied values win
    if keys:
        I4 = build(ops)
        dflt = {k: (pf[k] if r.random() < 0.6 else pf[k] + 1.0) for k in keys}
        supplied = {k: pf[k] for k in keys if dflt[k] != pf[k] or r.random() < 0.3}
        I4.model.set_default_parameters(dflt)
        try:
            I4.model.run(parameters=supplied, solver="euler", jit=False)
            got = {"outputs": np.asarray(I4.model.outputs).tolist(), "derived": {k: np.asarray(v).tolist() for k, v in I4.model.derived_outputs.items()}}
            out["evals"] += 1
            if not same(got, refd):
                fail(out, "default parameters do not fill in omitted values (or override supplied ones)", "c09", payload, defaults=dflt, supplied=supplied, program=ops)
            if nontrivial: out["cases"].append(h + ":defaults")
            # ... and on the SAME model: a run that supplies other values, then a run that omits them again, falls back to the defaults
            other = {k: pf[k] * 1.5 + 0.125 for k in keys if r.random() < 0.6}
            if other:
                I4.model.run(parameters=dict(dflt, **other), solver="euler", jit=False)
                omitted = {k: v for k, v in supplied.items() if k not in other or dflt[k] != pf[k]}
                if all(dflt[k] == pf[k] or k in omitted for k in keys):
                    I4.model.run(parameters=omitted, solver="euler", jit=False)
                    got2 = {"outputs": np.asarray(I4.model.outputs).tolist(), "derived": {k: np.asarray(v).tolist() for k, v in I4.model.derived_outputs.items()}}
                    out["evals"] += 1
                    if not same(got2, refd):
                        fail(out, "a parameter omitted from a run does not fall back to its default after an earlier run on the same model supplied another value",
                             "c09", payload, defaults=dflt, earlier_run=other, this_run=omitted, program=ops)
                    if nontrivial: out["cases"].append(h + ":defaults_after_override")
        except BaseException as e:
            fail(out, "run with default parameters failed", "c09", payload, err=str(e)[:200], program=ops)
    # (d') every reported input parameter is needed: omitting it makes a fresh run fail
    for k in keys[:4]:
        I5 = build(ops)
        rr = I5.apply({"op": "run", "params": [[a, b] for a, b in params.items() if a != k], "solver": "euler"})
        out["evals"] += 1
        if rr["ok"]:
            fail(out, "a reported input parameter can be omitted without error", "c09", payload, parameter=k, program=ops, params=params)
    # parameters not reported cannot be needed: running with the reported ones only must work
    I6 = build(ops)
    rr = I6.apply({"op": "run", "params": [[a, b] for a, b in params.items() if a in keys], "solver": "euler"})
    out["evals"] += 1
    if not rr["ok"]:
        fail(out, "running with exactly the reported input parameters fails", "c09", payload, reported=keys, err=rr.get("err"), program=ops)
    elif not same({"outputs": rr["outputs"], "derived": dict((k, v) for k, v in rr["derived"])}, refd):
        fail(out, "a parameter that is not reported as input influences the results", "c09", payload, reported=keys, program=ops)
    if payload["index"] == 0:
        out["sample"] = {"program": ops, "params": params, "input_params": keys}
    return out
