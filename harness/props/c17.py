"""C17 — ill-formed model definitions are rejected instead of silently simulated."""
import random, copy
from common import *

ID = "C17"
THEOREM_FILES = ["Summer.Props.C17", "Summer.Props.C17Source", "Summer.Props.C17Glue", "Summer.Props.C17Strat", "Summer.Props.C17Reach", "Summer.Props.C12Source", "Summer.Props.C17GlueReq"]
TASK = "task"
RULE = ("malformed stream: a valid generated program in which exactly one defect from the property's list is injected at a random point of "
        "the build sequence (before/after flows, after 0-3 stratifications); oracle: the offending call must raise on the real code (and the "
        "model must reject it too); plus, after a run, every flow-adding / stratifying / population-setting / output-requesting call must be "
        "refused; distinct by (defect kind, program hash), non-trivial always (each case carries a defect)")
TRUSTED = ["Spec.IllFormed in lean/Summer/Spec/IllFormed.lean enumerates the property's list of defects"]
ASSUMPTIONS = ["validation stays enabled (set_validation_enabled(False) is the documented switch that turns checks off)",
               "only raise / no-raise is compared, never the exception class"]

DEFECTS = ["end_not_after_start", "step_not_dividing", "infectious_unknown", "initdist_unknown", "strat_comp_unknown", "flow_comp_unknown",
           "output_comp_unknown", "adjusted_flow_unknown", "adj_filter_unknown_strat", "adj_filter_unknown_stratum", "agg_source_unknown",
           "cum_source_unknown", "func_source_unknown", "flow_output_unknown", "flow_adj_omits", "inf_adj_omits", "split_omits", "split_negative", "split_sum",
           "second_birth", "second_age", "second_strain", "dup_strat", "dup_udeath", "dup_output", "mixing_partial", "age_partial",
           "mixing_strain", "unequal_src_dst", "expected_count", "bad_rate", "finalized", "source_is_rejected_request", "output_comp_not_in_strat", "flow_both_ends_unknown", "step_not_dividing_large_grid", "adjusted_flow_matched_nothing"]

WHERE = ["src", "dst", "src+valid_dst", "dst+valid_src"]

def payloads(tier, seed):
    n = 99 if tier == "quick" else 1650
    out = [{"seed": seed, "index": i, "defect": DEFECTS[i % len(DEFECTS)]} for i in range(n)]
    # the filter defects have four placements each (bad filter on either end, alone or beside a valid filter on the other end):
    # every placement is exercised several times per run
    extra = 24 if tier == "quick" else 400
    for j in range(extra):
        out.append({"seed": seed, "index": n + j, "defect": ["adj_filter_unknown_stratum", "adj_filter_unknown_strat"][j % 2], "where": WHERE[(j // 2) % 4]})
    for j in range(12 if tier == "quick" else 200):
        out.append({"seed": seed, "index": n + extra + j, "defect": "adjusted_flow_matched_nothing"})
    return out

FINAL_OPS = [
    {"op": "flow", "kind": "transition", "name": "late_tr", "param": {"c": "1/8"}, "src": "@0", "dst": "@1"},
    {"op": "flow", "kind": "death", "name": "late_death", "param": {"c": "1/8"}, "src": "@0"},
    {"op": "flow", "kind": "universal_death", "name": "late_ud", "param": {"c": "1/8"}},
    {"op": "flow", "kind": "import", "name": "late_imp", "param": {"c": "1"}, "dst": "@0", "split": False},
    {"op": "flow", "kind": "inf_freq", "name": "late_inf", "param": {"c": "1/8"}, "src": "@0", "dst": "@1"},
    {"op": "flow", "kind": "absolute", "name": "late_abs", "param": {"c": "1/8"}, "src": "@0", "dst": "@1"},
    {"op": "flow", "kind": "inf_dens", "name": "late_infd", "param": {"c": "1/8"}, "src": "@0", "dst": "@1"},
    {"op": "flow", "kind": "crude_birth", "name": "late_cb", "param": {"c": "1/8"}, "dst": "@0"},
    {"op": "flow", "kind": "repl_birth", "name": "late_rb", "dst": "@0"},
    {"op": "stratify", "kind": "plain", "name": "latestrat", "strata": ["a", "b"], "comps": ["@0"]},
    {"op": "init_pop", "dist": [["@0", {"c": "5"}]]},
    {"op": "init_pop_array", "arr": "@arr"},
    {"op": "adjust_split", "strat": "@strat", "filter": [], "props": "@props"},
    {"op": "request", "name": "late_c", "kind": "comp", "comps": ["@0"], "save": True},
    {"op": "request", "name": "late_f", "kind": "flow", "flow": "@flow", "raw": True, "save": True},
    {"op": "request", "name": "late_a", "kind": "agg", "sources": ["@req"], "save": True},
    {"op": "request", "name": "late_cu", "kind": "cum", "source": "@req", "save": True},
    {"op": "request", "name": "late_fn", "kind": "func", "sources": ["@req"], "expr": {"+": [{"x": 0}, {"c": "1"}]}, "save": True},
]

def inject(r, prog, defect, where=None):
    """returns (ops, index of the offending op) or None when the defect is not applicable to this program"""
    ops = copy.deepcopy(prog["build"])
    names = ops[0]["comps"]
    strat_idx = [i for i, op in enumerate(ops) if op["op"] == "stratify"]
    flow_idx = [i for i, op in enumerate(ops) if op["op"] == "flow"]
    req_idx = [i for i, op in enumerate(ops) if op["op"] == "request"]
    def pos_after_init():
        return r.randint(2, len(ops))
    if defect == "end_not_after_start":
        ops[0]["t1"] = r.choice([ops[0]["t0"], q(Fr(ops[0]["t0"]) - 1)]); return ops, 0
    if defect == "step_not_dividing":
        span = Fr(ops[0]["t1"]) - Fr(ops[0]["t0"])
        ops[0]["dt"] = q(r.choice([span * Fr(2, 3), span * 2, span * Fr(3, 5), Fr(-1)]) if span != 0 else 1); return ops, 0
    if defect == "infectious_unknown":
        ops[0]["inf"] = ops[0]["inf"] + ["Z"]; return ops, 0
    if defect == "initdist_unknown":
        ops[1]["dist"] = ops[1]["dist"] + [["Z", {"c": "3"}]]; return ops, 1
    if defect == "strat_comp_unknown":
        if not strat_idx: return None
        i = r.choice(strat_idx)
        if ops[i]["kind"] == "age" or ops[i].get("mixing"): return None
        ops[i]["comps"] = ops[i]["comps"] + ["Z"]; return ops, i
    if defect == "flow_comp_unknown":
        i = pos_after_init()
        k = r.choice(["transition", "inf_freq", "inf_dens", "absolute"])
        a, b = r.sample(names, 2) if len(names) > 1 else (names[0], names[0])
        if r.random() < 0.5: a = "Z"
        else: b = "Z"
        ops.insert(i, {"op": "flow", "kind": k, "name": "badflow", "param": {"c": "1/8"}, "src": a, "dst": b}); return ops, i
    if defect == "output_comp_unknown":
        ops.append({"op": "request", "name": "bad_out", "kind": "comp", "comps": ["Z"], "save": True}); return ops, len(ops) - 1
    if defect == "flow_both_ends_unknown":
        # neither end exists (0 sources == 0 destinations must not make it acceptable)
        i = pos_after_init()
        k = r.choice(["transition", "inf_freq", "inf_dens", "absolute"])
        ops.insert(i, {"op": "flow", "kind": k, "name": "ghostflow", "param": {"c": "1/8"}, "src": "Zs", "dst": "Zd"}); return ops, i
    if defect == "step_not_dividing_large_grid":
        # tens of thousands of time points: the step count misses an integer by a third / a half (relative closeness must not be enough)
        t0, t1, dt = r.choice([("0", "200", "3/1000"), ("0", "200000", "3"), ("0", "100001", "2"), ("1990", "2090", "7/10000")])
        ops[0] = dict(ops[0], t0=t0, t1=t1, dt=dt); return ops, 0
    if defect == "output_comp_not_in_strat":
        # an output compartment that does not exist because the NAMED compartment is not stratified by the filter's (partial) stratification
        # (the name exists, the stratum exists — but no compartment carries both)
        cands = [i for i in strat_idx if any(n not in ops[i]["comps"] for n in names)]
        if not cands: return None
        i = r.choice(cands)
        other = r.choice([n for n in names if n not in ops[i]["comps"]])
        ops.append({"op": "request", "name": "bad_out2", "kind": "comp", "comps": [other], "strata": [[ops[i]["name"], r.choice(ops[i]["strata"])]], "save": True})
        return ops, len(ops) - 1
    if defect == "adjusted_flow_unknown":
        if not strat_idx: return None
        i = r.choice(strat_idx)
        st = sorted(ops[i]["strata"], key=int) if ops[i]["kind"] == "age" else ops[i]["strata"]
        ops[i].setdefault("flow_adj", []).append({"flow": "no_such_flow", "adjs": [[s, ["mul", {"c": "2"}]] for s in st]}); return ops, i
    if defect == "adjusted_flow_matched_nothing":
        # a flow-adding call whose filter matches no compartment creates no flow (legal); an adjustment for that NAME in a later stratification
        # therefore refers to a flow that is not present
        cands = [(i1, i2) for i1 in strat_idx for i2 in strat_idx if i1 < i2 and ops[i1]["kind"] != "age" and any(n not in ops[i1]["comps"] for n in names)]
        if not cands: return None
        i1, i2 = r.choice(cands)
        c = r.choice([n for n in names if n not in ops[i1]["comps"]])
        ops.insert(i1 + 1, {"op": "flow", "kind": "death", "name": "ghost", "param": {"c": "1/8"}, "src": c, "src_strata": [[ops[i1]["name"], ops[i1]["strata"][0]]]})
        i2 += 1
        st = sorted(ops[i2]["strata"], key=int) if ops[i2]["kind"] == "age" else ops[i2]["strata"]
        ops[i2].setdefault("flow_adj", []).append({"flow": "ghost", "adjs": [[s_, ["mul", {"c": "2"}]] for s_ in st]}); return ops, i2
    if defect in ("adj_filter_unknown_strat", "adj_filter_unknown_stratum"):
        cands = [i for i in strat_idx if any(ops[j]["op"] == "flow" for j in range(i))]
        if not cands: return None
        i = r.choice(cands)
        fl = [ops[j] for j in range(i) if ops[j]["op"] == "flow" and ops[j]["kind"] in ("transition", "death", "inf_freq", "inf_dens", "absolute")]
        if not fl: return None
        if where and where != "src":
            fl = [f_ for f_ in fl if f_["kind"] != "death"]
            if not fl: return None
        f = r.choice(fl)
        st = sorted(ops[i]["strata"], key=int) if ops[i]["kind"] == "age" else ops[i]["strata"]
        prev = [ops[j] for j in strat_idx if j < i]
        if where and "valid" in where and not prev: return None
        if defect == "adj_filter_unknown_strat":
            flt = [["nostrat", "x"]]
        else:
            if not prev: return None
            flt = [[prev[0]["name"], "nostratum"]]
        decl = {"flow": f["name"], "adjs": [[s, ["mul", {"c": "2"}]] for s in st]}
        # the bad filter goes on the source, on the destination, or on one of them while the other end carries a VALID filter --
        # naming the same earlier stratification when there is one (the two filters are validated independently)
        two_ended = f["kind"] != "death"
        where = (where or r.choice(WHERE)) if two_ended else "src"
        valid = None
        if prev:
            pst = sorted(prev[0]["strata"], key=int) if prev[0]["kind"] == "age" else prev[0]["strata"]
            valid = [[prev[0]["name"], str(r.choice(pst))]]
        if where == "src" or valid is None and where.startswith("src"):
            decl["src"] = flt
        elif where == "dst" or valid is None:
            decl["dst"] = flt
        elif where == "src+valid_dst":
            decl["src"] = flt; decl["dst"] = valid
        else:
            decl["dst"] = flt; decl["src"] = valid
        ops[i].setdefault("flow_adj", []).append(decl); return ops, i
    if defect == "agg_source_unknown":
        ops.append({"op": "request", "name": "bad_agg", "kind": "agg", "sources": ["nope"], "save": True}); return ops, len(ops) - 1
    if defect == "cum_source_unknown":
        ops.append({"op": "request", "name": "bad_cum", "kind": "cum", "source": "nope", "save": True}); return ops, len(ops) - 1
    if defect == "func_source_unknown":
        good = [op["name"] for op in ops if op["op"] == "request"]
        srcs = r.choice([["nope"], [good[0], "nope"]] if good else [["nope"]])
        expr = {"+": [{"x": 0}, {"c": "1"}]} if len(srcs) == 1 else {"*": [{"x": 0}, {"x": 1}]}
        ops.append({"op": "request", "name": "bad_fn", "kind": "func", "sources": srcs, "expr": expr, "save": True}); return ops, len(ops) - 1
    if defect == "flow_output_unknown":
        ops.append({"op": "request", "name": "bad_fo", "kind": "flow", "flow": "no_such_flow", "raw": True, "save": True}); return ops, len(ops) - 1
    if defect in ("flow_adj_omits", "inf_adj_omits", "split_omits", "split_negative", "split_sum"):
        cands = [i for i in strat_idx if len(ops[i]["strata"]) >= 2]
        if not cands: return None
        i = r.choice(cands)
        st = sorted(ops[i]["strata"], key=int) if ops[i]["kind"] == "age" else ops[i]["strata"]
        if defect == "flow_adj_omits":
            fl = [ops[j] for j in range(i) if ops[j]["op"] == "flow"]
            if not fl: return None
            ops[i].setdefault("flow_adj", []).append({"flow": r.choice(fl)["name"], "adjs": [[s, ["mul", {"c": "2"}]] for s in st[:-1]]})
        elif defect == "inf_adj_omits":
            ops[i]["inf_adj"] = [[ops[0]["inf"][0], [[s, ["mul", {"c": "2"}]] for s in st[:-1]]]]
            if ops[0]["inf"][0] not in ops[i]["comps"]: return None
        elif defect == "split_omits":
            ops[i]["split"] = [[s, {"c": q(Fr(1, len(st) - 1))}] for s in st[:-1]]
        elif defect == "split_negative":
            ops[i]["split"] = [[st[0], {"c": "-1/4"}], [st[1], {"c": "5/4"}]] + [[s, {"c": "0"}] for s in st[2:]]
        else:
            ops[i]["split"] = [[s, {"c": q(Fr(3, 4 * len(st)) if k else Fr(1, 8))}] for k, s in enumerate(st)]
            tot = sum(Fr(e["c"]) for _, e in ops[i]["split"])
            if abs(1 - tot) < Fr(1, 50): return None
        return ops, i
    if defect == "second_birth":
        births = [i for i in flow_idx if ops[i]["kind"] in ("crude_birth", "repl_birth")]
        k = r.choice(["crude_birth", "repl_birth"])
        new = {"op": "flow", "kind": k, "name": "birth2", "dst": names[0]}
        if k == "crude_birth": new["param"] = {"c": "1/16"}
        if births:
            i = r.randint(births[0] + 1, len(ops))
            # a birth flow whose destination matched nothing created no flow: then a later birth flow is not "a second birth flow"
            ops.insert(i, new); return ops, i
        first = dict(new, name="birth1")
        i = pos_after_init(); ops.insert(i, first)
        j = r.randint(i + 1, len(ops)); ops.insert(j, new); return ops, j
    if defect in ("second_age", "second_strain"):
        kind = "age" if defect == "second_age" else "strain"
        have = [i for i in strat_idx if ops[i]["kind"] == kind]
        new = {"op": "stratify", "kind": kind, "name": "age2" if kind == "age" else "strain2", "strata": ["0", "7"] if kind == "age" else ["s1", "s2"], "comps": list(names)}
        last_flowish = max([i for i, op in enumerate(ops) if op["op"] in ("flow", "stratify", "init_pop")])
        if have:
            i = r.randint(have[0] + 1, last_flowish + 1); ops.insert(i, new); return ops, i
        first = dict(new, name="age" if kind == "age" else "strain")
        i = r.randint(2, last_flowish + 1); ops.insert(i, first)
        j = r.randint(i + 1, last_flowish + 2); ops.insert(j, new); return ops, j
    if defect == "dup_strat":
        if not strat_idx: return None
        i = r.choice(strat_idx)
        last_flowish = max([k for k, op in enumerate(ops) if op["op"] in ("flow", "stratify", "init_pop")])
        j = r.randint(i + 1, last_flowish + 1)
        ops.insert(j, {"op": "stratify", "kind": "plain", "name": ops[i]["name"], "strata": ["x", "y"], "comps": [names[0]]}); return ops, j
    if defect == "dup_udeath":
        i = pos_after_init()
        ops.insert(i, {"op": "flow", "kind": "universal_death", "name": "ud_dup", "param": {"c": "1/16"}})
        j = r.randint(i + 1, len(ops))
        ops.insert(j, {"op": "flow", "kind": "universal_death", "name": "ud_dup", "param": {"c": "1/8"}}); return ops, j
    if defect == "dup_output":
        ops.append({"op": "request", "name": "dupname", "kind": "comp", "comps": [names[0]], "save": True})
        k = r.choice(["comp", "agg", "cum", "flow", "func", "cv"])
        new = {"op": "request", "name": "dupname", "kind": k, "save": True}
        if k == "comp": new["comps"] = [names[0]]
        if k == "agg": new["sources"] = ["dupname"]
        if k == "cum": new["source"] = "dupname"
        if k == "flow":
            fl = [op for op in ops if op["op"] == "flow"]
            if not fl: return None
            new["flow"] = fl[0]["name"]; new["raw"] = True
        if k == "func": new["sources"] = ["dupname"]; new["expr"] = {"+": [{"x": 0}, {"c": "1"}]}
        ops.append(new); return ops, len(ops) - 1
    if defect in ("mixing_partial", "age_partial", "mixing_strain"):
        if len(names) < 2 and defect != "mixing_strain": return None
        last_flowish = max([k for k, op in enumerate(ops) if op["op"] in ("flow", "stratify", "init_pop")])
        i = r.randint(2, last_flowish + 1)
        used = [op["name"] for op in ops if op["op"] == "stratify"]
        if defect == "mixing_partial":
            new = {"op": "stratify", "kind": "plain", "name": "mixp", "strata": ["a", "b"], "comps": names[:-1],
                   "mixing": [[{"c": "1"}, {"c": "1/2"}], [{"c": "1/2"}, {"c": "1"}]]}
        elif defect == "age_partial":
            if "age" in used and any(op["op"] == "stratify" and op["kind"] == "age" for op in ops[:i]): return None
            ops = [op for op in ops if not (op["op"] == "stratify" and op["kind"] == "age")]
            ops = [op for op in ops if not (op["op"] == "adjust_split" and op["strat"] == "age")]
            for op in ops:
                for k in ("src_strata", "dst_strata", "strata"):
                    if op.get(k) and any(kv[0] == "age" for kv in op[k]): return None
                for d in (op.get("flow_adj") or []):
                    for k in ("src", "dst"):
                        if d.get(k) and any(kv[0] == "age" for kv in d[k]): return None
                if op["op"] == "adjust_split" and any(kv[0] == "age" for kv in op["filter"]): return None
            last_flowish = max([k for k, op in enumerate(ops) if op["op"] in ("flow", "stratify", "init_pop")])
            i = r.randint(2, last_flowish + 1)
            new = {"op": "stratify", "kind": "age", "name": "age", "strata": ["0", "9"], "comps": names[:-1]}
        else:
            if any(op["op"] == "stratify" and op["kind"] == "strain" for op in ops): return None
            new = {"op": "stratify", "kind": "strain", "name": "strain", "strata": ["a", "b"], "comps": list(names),
                   "mixing": [[{"c": "1"}, {"c": "1/2"}], [{"c": "1/2"}, {"c": "1"}]]}
        ops.insert(i, new); return ops, i
    if defect == "unequal_src_dst":
        # stratify one end only, then add a transition flow without filters
        if len(names) < 2: return None
        last_flowish = max([k for k, op in enumerate(ops) if op["op"] in ("flow", "stratify", "init_pop")])
        i = r.randint(2, last_flowish + 1)
        ops.insert(i, {"op": "stratify", "kind": "plain", "name": "uneq", "strata": ["a", "b"], "comps": [names[0]]})
        j = r.randint(i + 1, last_flowish + 2)
        k = r.choice(["transition", "inf_freq", "absolute"])
        a_, b_ = (names[0], names[1]) if r.random() < 0.5 else (names[1], names[0])     # more sources than destinations, or the other way round
        ops.insert(j, {"op": "flow", "kind": k, "name": "uneqflow", "param": {"c": "1/8"}, "src": a_, "dst": b_}); return ops, j
    if defect == "expected_count":
        i = pos_after_init()
        k = r.choice(["death", "import", "transition"])
        new = {"op": "flow", "kind": k, "name": "cnt", "param": {"c": "1/8"}, "expected": 57}
        if k == "death": new["src"] = names[0]
        elif k == "import": new["dst"] = names[0]; new["split"] = False
        else: new["src"] = names[0]; new["dst"] = names[-1]
        ops.insert(i, new); return ops, i
    if defect == "bad_rate":
        i = pos_after_init()
        k = r.choice(["death", "import", "transition", "crude_birth", "universal_death", "inf_freq", "absolute"])
        if k == "crude_birth" and any(op["op"] == "flow" and op["kind"] in ("crude_birth", "repl_birth") for op in ops): k = "death"
        new = {"op": "flow", "kind": k, "name": "badrate", "param": None}
        if k in ("death",): new["src"] = names[0]
        elif k in ("import", "crude_birth"): new["dst"] = names[0]; new["split"] = False
        elif k != "universal_death": new["src"] = names[0]; new["dst"] = names[-1]
        ops.insert(i, new); return ops, i
    return None

def task(W, payload):
    defect = payload["defect"]
    r = random.Random(f"C17:{payload['seed']}:{payload['index']}")
    if defect == "finalized":
        # no birth flow in the model that gets finalised, so that a late birth flow can only be refused because of the finalisation
        prog = Gen(r, Opts(max_strats=3, max_flows=5, n_requests=3, kinds=["transition", "death", "universal_death", "import", "absolute", "infection"])).program()
    else:
        prog = Gen(r, Opts(max_strats=3, max_flows=5, n_requests=3)).program()
    out = mk_out(prog)
    bump(out, "defect:" + defect)
    h = prog_hash(prog["build"])
    if defect == "finalized":
        S = fresh_session(W)
        if not S.build(prog["build"]):
            bump(out, "build_rejected"); return out
        rr = S.I.apply({"op": "run", "params": [[k, v] for k, v in prog["params"].items()], "solver": "euler"})
        if not rr["ok"]:
            bump(out, "run_failed"); return out
        S.L.send({"op": "finalize"})
        names = prog["build"][0]["comps"]
        m = S.I.model
        subs = {"@0": names[0], "@1": names[-1]}
        for op in FINAL_OPS:
            op = json.loads(json.dumps(op).replace("@0", names[0]).replace("@1", names[-1]))
            if op.get("arr") == "@arr": op["arr"] = [{"c": "1"} for _ in m.compartments]
            if op["op"] == "adjust_split":
                if not prog["meta"]["strats"]: continue
                sop = [o for o in prog["build"] if o["op"] == "stratify"][0]
                st = sorted(sop["strata"], key=int) if sop["kind"] == "age" else sop["strata"]
                op["strat"] = sop["name"]; op["props"] = [[s, {"c": q(Fr(1, len(st)))}] for s in st]
            if op.get("flow") == "@flow":
                if not m.flows: continue
                op["flow"] = m.flows[0].name
            if "@req" in json.dumps(op):
                reqs = list(m._derived_output_requests)
                if not reqs: continue
                op = json.loads(json.dumps(op).replace("@req", reqs[0]))
            py = S.I.apply(op); ln = S.L.send(op)
            out["evals"] += 1
            out["cases"].append(h + ":final:" + op["op"] + ":" + str(op.get("kind")))
            if py["ok"]:
                fail(out, "a mutating call was accepted on a model that has been finalised by running it", "c17", payload, call=op, program=prog["build"],
                     signature={"oracle": "finalised_refusal", "site": "model.py:" + op["op"], "pattern": "call after run"})
            if ln["ok"]:
                out["diffs"].append({"stage": "S9", "what": "model accepts a call after finalisation", "op": op, "prescribed": False,
                                     "task": {"module": "c17", "fn": "task", "payload": payload}})
        return out
    if defect == "source_is_rejected_request":
        # a request that was REJECTED does not exist: using its name as a source (or naming itself) must be rejected too
        S = fresh_session(W)
        if not S.build(prog["build"]):
            bump(out, "build_rejected"); return out
        names = prog["build"][0]["comps"]
        seq = [({"op": "request", "name": "ok_src", "kind": "comp", "comps": [names[0]], "save": True}, True)]
        first = r.choice(["agg", "func", "selfref"])
        if first == "agg":
            seq.append(({"op": "request", "name": "rej", "kind": "agg", "sources": ["ok_src", "nope"], "save": True}, False))
        elif first == "func":
            seq.append(({"op": "request", "name": "rej", "kind": "func", "sources": ["ok_src", "nope"], "expr": {"+": [{"x": 0}, {"x": 1}]}, "save": True}, False))
        else:
            seq.append(({"op": "request", "name": "rej", "kind": "agg", "sources": ["ok_src", "rej"], "save": True}, False))
        k = r.choice(["cum", "agg", "func"])
        after = {"op": "request", "name": "after", "kind": k, "save": True}
        if k == "cum": after["source"] = "rej"
        elif k == "agg": after["sources"] = ["ok_src", "rej"]
        else: after["sources"] = ["rej"]; after["expr"] = {"+": [{"x": 0}, {"c": "1"}]}
        seq.append((after, False))
        bump(out, f"rejected_then:{first}->{k}")
        for op, want_ok in seq:
            py = S.I.apply(op); ln = S.L.send(op)
            out["evals"] += 1
            out["cases"].append(f"{defect}:{h}:{op['name']}:{first}:{k}")
            if py["ok"] != want_ok and not want_ok:
                fail(out, f"ill-formed definition accepted: derived output '{op['name']}' whose source does not exist (the source's own request was rejected)", "c17", payload,
                     defect=defect, call=op, sequence=[o for o, _ in seq], prefix=prog["build"])
            if ln["ok"] != want_ok:
                out["diffs"].append({"stage": "S1", "what": f"model {'rejects' if want_ok else 'accepts'} {op['name']} in {defect}", "op": op, "prescribed": False,
                                     "task": {"module": "c17", "fn": "task", "payload": payload}})
            if py["ok"] != want_ok and want_ok:
                bump(out, "valid_request_rejected"); break
        return out
    inj = None
    for _ in range(40 if payload.get("where") else 6):
        inj = inject(r, prog, defect, payload.get("where"))
        if inj: break
        prog = Gen(r, Opts(max_strats=3, max_flows=5, n_requests=3, force_strat=True)).program()
    if not inj:
        bump(out, "not_applicable"); return out
    ops, at = inj
    S = fresh_session(W)
    ok = S.build(ops[:at])
    if not ok:
        bump(out, "prefix_rejected"); return out
    py = S.I.apply(ops[at]); ln = S.L.send(ops[at])
    out["evals"] += 1
    out["cases"].append(defect + ":" + h)
    bump(out, "inject_pos:" + ("early" if at <= 2 else "mid" if at < len(ops) - 1 else "late"))
    if payload.get("where"): bump(out, "filter_placement:" + payload["where"])
    if py["ok"]:
        fail(out, f"ill-formed definition accepted: {defect}", "c17", payload, defect=defect, call=ops[at], prefix=ops[:at])
    if ln["ok"]:
        out["diffs"].append({"stage": "S1", "what": f"model accepts defect {defect}", "op": ops[at], "prescribed": False,
                             "task": {"module": "c17", "fn": "task", "payload": payload}, "program": ops[:at + 1]})
    if payload["index"] < 2:
        out["sample"] = {"defect": defect, "offending_call": ops[at], "position": at}
    return out
