"""C03 — stratifying without adjustments does not change aggregate dynamics."""
import random
import numpy as np
from common import *

ID = "C03"
THEOREM_FILES = ["Summer.Props.C03", "Summer.Props.C03More", "Summer.Props.C03Dopri", "Summer.Props.C04Weights", "Summer.Props.C17Glue"]
TASK = "task"
RULE = ("metamorphic on the real code: a generated base program M (any flow kinds incl. absolute / import / births, already stratified and "
        "adjusted or not) and M' = M followed by one more UNADJUSTED stratification (plain full / partial with 1-3 strata and any split summing "
        "to one, or age) are built; at non-negative stratified states the comp_rates of M' summed over the new strata must equal the comp_rates "
        "of M at the aggregated state; euler / rk4 / adaptive trajectories from the split population and flow / compartment derived outputs "
        "aggregate likewise; strain variant: per-strain infection flow rates add up to the unstratified ones; proportionate-mixing variant: "
        "M[i][j] = p_j (frequency) / 1 (density) along the trajectory from the split population, with entry/absolute flows only when the split is even; distinct by program hash + variant, non-trivial when M has >= 2 flows")
TRUSTED = []
ASSUMPTIONS = ["stratified states are non-negative (clean(-1)+clean(2) != clean(1)); negative states are C01's business",
               "adaptive trajectories are compared to tolerance (step sizes differ between the two models)"]

def payloads(tier, seed):
    n = 60 if tier == "quick" else 1200
    return [{"seed": seed, "index": i, "variant": ["plain", "plain", "age", "strain", "proportionate"][i % 5]} for i in range(n)] \
        + [{"seed": seed, "index": i, "variant": "shared_object"} for i in range(n // 6)]

def build(ops):
    from interp import Interp
    I = Interp()
    for op in ops:
        r = I.apply(op)
        if not r["ok"]:
            return None, r
    return I, None

def agg_index(comps_new, comps_old, strat_name):
    """map each new compartment to the index of its parent in the old list"""
    key = lambda c: (c.name, tuple((k, v) for k, v in c.strata.items() if k != strat_name))
    old = {(c.name, tuple(c.strata.items())): i for i, c in enumerate(comps_old)}
    return [old[key(c)] for c in comps_new]

def shared_object_task(W, payload):
    """the unadjusted stratification is ONE Stratification object applied to two models with different layouts (scenario models built from
    common building blocks), both built before either is run: the first model's aggregate trajectory must still be that of its unstratified
    version (same definition without the shared stratification)"""
    import interp as interp_mod
    r = random.Random(f"C03s:{payload['seed']}:{payload['index']}")
    prog = Gen(r, Opts(max_strats=1, max_flows=4, allow_requests=False, allow_computed=False, allow_post_flows=False, allow_adjust=False, allow_mixing=False,
                       allow_inf_adjust=False, allow_rebalance=False, allow_age=False, allow_strain=False, allow_state=False, small_dt=True, max_steps=5,
                       kinds=["transition", "death", "transition"])).program()
    out = mk_out(prog)
    bump(out, "variant:shared_object")
    base = prog["build"]
    names = base[0]["comps"]
    comps = [r.choice(names)]
    key = f"c03shared:{payload['seed']}:{payload['index']}"
    shared = {"op": "stratify", "kind": "plain", "name": "shr", "strata": ["u", "v"], "comps": comps, "split": [["u", {"c": "1/4"}], ["v", {"c": "3/4"}]], "share": key}
    other = {"op": "stratify", "kind": "plain", "name": "xtra", "strata": ["k1", "k2", "k3"], "comps": [n for n in names if n not in comps][:1] or comps}
    opsA = base + [shared]
    opsB = base + [other, shared]
    interp_mod.SHARED_STRATS.pop(key, None)
    try:
        IA = interp_mod.Interp(); IB = interp_mod.Interp(); I0 = interp_mod.Interp()
        for I_, ops_ in ((IA, opsA), (IB, opsB), (I0, base)):
            for op in ops_:
                if not I_.apply(op)["ok"]:
                    bump(out, "build_rejected"); return out
        params = [[k, v] for k, v in prog["params"].items()]
        ra = IA.apply({"op": "run", "params": params, "solver": "euler"}); r0 = I0.apply({"op": "run", "params": params, "solver": "euler"})
        out["evals"] += 2
        if r0["ok"] and not ra["ok"]:
            fail(out, "a model with an unadjusted stratification (an object shared with another model built before the run) cannot be run although its unstratified version can",
                 "c03", payload, err=str(ra.get("err"))[:300], program_A=opsA, program_B=opsB, params=prog["params"])
            return out
        if not (ra["ok"] and r0["ok"]):
            bump(out, "run_failed"); return out
        a = np.array(ra["outputs"]); o = np.array(r0["outputs"])
        if not (np.all(np.isfinite(a)) and np.all(np.isfinite(o))):
            bump(out, "diverged"); return out
        ca = [(c.name, dict(c.strata)) for c in IA.model.compartments]; c0 = [c.name for c in I0.model.compartments]
        agg = np.zeros_like(o)
        for j, (nm, st) in enumerate(ca):
            st2 = {k: v for k, v in st.items() if k != "shr"}
            tgt = [i for i, c in enumerate(I0.model.compartments) if c.name == nm and dict(c.strata) == st2]
            agg[:, tgt[0]] += a[:, j]
        out["cases"].append(prog_hash(opsA) + ":shared_object")
        tol = 1e-9 * max(1.0, float(np.abs(o).max()))
        if np.abs(agg - o).max() > tol:
            fail(out, "aggregate trajectory changes when the unadjusted stratification is an object shared with another model built before the run", "c03", payload,
                 worst=float(np.abs(agg - o).max()), tol=tol, program_A=opsA, program_B=opsB, params=prog["params"])
    finally:
        interp_mod.SHARED_STRATS.pop(key, None)
    return out


def task(W, payload):
    variant = payload["variant"]
    if variant == "shared_object":
        return shared_object_task(W, payload)
    r = random.Random(f"C03:{payload['seed']}:{payload['index']}")
    has_age_ok = variant == "age"
    opts = Opts(max_strats=2, max_flows=6, n_requests=0, allow_requests=False, allow_computed=False, allow_age=not has_age_ok,
                allow_strain=(variant != "strain"), allow_state=False, allow_rebalance=False, small_dt=True, max_steps=6)
    if variant in ("strain", "proportionate"):
        opts.force_infection = True
    even_split = r.random() < 0.4
    if variant == "proportionate" and not even_split:
        # a proportionate matrix M[i][j] = p_j stays proportionate along the trajectory only while the population stays split by p:
        # entry and absolute flows are shared EQUALLY between strata (documented rule), which keeps an uneven split only if they are absent
        opts.kinds = ["transition", "death", "universal_death", "infection", "infection"]
    if variant == "strain":
        # per-strain forces of infection add up only when no other stratification interferes with infectiousness by strain
        opts.max_strats = 1
    g = Gen(r, opts)
    prog = g.program()
    out = mk_out(prog)
    bump(out, "variant:" + variant)
    ops = prog["build"]
    names = ops[0]["comps"]; inf = ops[0]["inf"]
    # the extra unadjusted stratification
    if variant == "age":
        strata = r.choice([["0", "5"], ["0", "15", "60"], ["0", "10"]]); new = {"op": "stratify", "kind": "age", "name": "age", "strata": strata, "comps": list(names)}
    elif variant == "strain":
        # infected compartments = infectious ones plus everything an infection flow leads into
        infl = [op for op in ops if op["op"] == "flow" and op["kind"] in ("inf_freq", "inf_dens")]
        if any(op["src"] in inf for op in infl):
            bump(out, "skip_source_infectious"); return out
        comps = [n for n in names if n in inf or any(op["dst"] == n for op in infl)]
        if any(op["src"] in comps for op in infl):
            bump(out, "skip_source_infected"); return out
        new = {"op": "stratify", "kind": "strain", "name": "strain", "strata": ["wild", "var"][: r.randint(1, 2)], "comps": comps}
    else:
        nm = "extra"
        k = r.randint(1, 3)
        strata = ["a", "b", "c"][:k]
        full = variant == "proportionate" or r.random() < 0.6
        comps = list(names) if full else ([n for n in names if r.random() < 0.6] or [names[0]])
        new = {"op": "stratify", "kind": "plain", "name": nm, "strata": strata, "comps": comps}
        from gen import SPLITS
        props = r.choice(SPLITS[k])
        if variant == "proportionate" and even_split:
            props = [Fr(1, k)] * k
        if r.random() < 0.7 or variant == "proportionate":
            new["split"] = [[s, {"c": q(p)}] for s, p in zip(strata, props)]
        else:
            props = [Fr(1, k)] * k
        if variant == "proportionate":
            # homogeneous ("proportionate") mixing: frequency-dependent transmission M[i][j] = p_j (population share of j);
            # density-dependent transmission M[i][j] = 1 (every infectious person counts once)
            if g.inf_kind == "inf_freq":
                new["mixing"] = [[{"c": q(p)} for p in props] for _ in strata]
            else:
                new["mixing"] = [[{"c": "1"} for p in props] for _ in strata]
    I0, e0 = build(ops)
    I1, e1 = build(ops + [new])
    if I0 is None or I1 is None:
        bump(out, "build_rejected"); return out
    m0, m1 = I0.model, I1.model
    idx = agg_index(m1.compartments, m0.compartments, new["name"])
    n0, n1 = len(m0.compartments), len(m1.compartments)
    A = np.zeros((n0, n1))
    for j, i in enumerate(idx): A[i, j] = 1.0
    h = prog_hash(ops + [new])
    params = prog["params"]; pl = [[k, v] for k, v in params.items()]
    nontrivial = len(m0.flows) >= 2
    t0 = Fr(prog["meta"]["t0"]); dt = Fr(prog["meta"]["dt"])
    if variant != "proportionate":
        for trial in range(3):
            x1 = [Fr(r.choice([0, 1, 3, 10, 25, 100]), r.choice([1, 2])) for _ in range(n1)]
            # keep every mixing category of both models positive
            x1 = [v if v > 0 or r.random() < 0.5 else Fr(1) for v in x1]
            x0 = [float(v) for v in A @ np.array([float(v) for v in x1])]
            if min(x0) < 0: continue
            t = t0 + Fr(r.randint(0, 2 * prog["meta"]["nsteps"]), 2) * dt
            s1 = I1.apply({"op": "one_step", "params": pl, "t": q(t), "x": [q(v) for v in x1]})
            s0 = I0.apply({"op": "one_step", "params": pl, "t": q(t), "x": [q(Fr(v).limit_denominator(1 << 20)) for v in x0]})
            out["evals"] += 1
            if not (s0["ok"] and s1["ok"]):
                bump(out, "one_step_failed"); continue
            if not (np.all(np.isfinite(s0["comp_rates"])) and np.all(np.isfinite(s1["comp_rates"]))):
                bump(out, "nan_rates"); continue
            if variant == "strain":
                # only the infection flows are claimed: per-strain rates add up to the unstratified ones
                def inf_total(I, s):
                    return sum(v for f, v in zip(I.model.flows, s["flow_rates"]) if type(f).__name__.startswith("Infection"))
                a, b = inf_total(I1, s1), inf_total(I0, s0)
                if not close(a, b, max(1.0, abs(b)), 1e-9):
                    fail(out, "per-strain infection flow rates do not add up to the unstratified ones", "c03", payload, stratified=a, unstratified=b,
                         t=q(t), x=[q(v) for v in x1], program=ops, extra=new, params=params)
            else:
                agg = A @ np.array(s1["comp_rates"])
                if not vec_close(list(agg), s0["comp_rates"], 1e-9):
                    fail(out, "aggregated compartment rates of the stratified model differ from the unstratified model's", "c03", payload,
                         aggregated=list(map(float, agg)), unstratified=s0["comp_rates"], t=q(t), x=[q(v) for v in x1], program=ops, extra=new, params=params,
                         signature_hint="see flows.py stratify methods")
            if nontrivial: out["cases"].append(h + f":rates{trial}")
    if variant != "strain":
        # trajectories from the split population
        req = [{"op": "request", "name": "tot_" + n, "kind": "comp", "comps": [n], "save": True} for n in names[:2]]
        fl = [op for op in ops if op["op"] == "flow" and op["kind"] not in ("universal_death",)]
        req += [{"op": "request", "name": "fl_" + op["name"], "kind": "flow", "flow": op["name"], "raw": True, "save": True} for op in fl[:2]]
        # per-stratum outputs of the stratified model and their sums over the new strata (which must reproduce the unstratified outputs)
        per = []
        st_names = sorted(new["strata"], key=int) if new["kind"] == "age" else list(new["strata"])
        for n in names[:2]:
            if n in new["comps"]:
                parts = []
                for st in st_names:
                    per.append({"op": "request", "name": f"tot_{n}__{st}", "kind": "comp", "comps": [n], "strata": [[new["name"], st]], "save": False}); parts.append(f"tot_{n}__{st}")
                per.append({"op": "request", "name": "sum_tot_" + n, "kind": "agg", "sources": parts, "save": True})
        for op in fl[:2]:
            end = "src_strata" if op.get("src") in new["comps"] else ("dst_strata" if op.get("dst") in new["comps"] else None)
            if end is None or new["kind"] == "age":
                continue      # (an age stratification adds ageing flows and sends births to the first age group only)
            parts = []
            for st in st_names:
                per.append(dict({"op": "request", "name": f"fl_{op['name']}__{st}", "kind": "flow", "flow": op["name"], "raw": True, "save": False}, **{end: [[new["name"], st]]}))
                parts.append(f"fl_{op['name']}__{st}")
            per.append({"op": "request", "name": "sum_fl_" + op["name"], "kind": "agg", "sources": parts, "save": True})
        J0, _ = build(ops + req); J1, _ = build(ops + [new] + req + per)
        if J1 is None:
            J1, _ = build(ops + [new] + req); per = []
            bump(out, "per_stratum_requests_rejected")
        if J0 is not None and J1 is not None:
            for solver in ("euler", "rk4", "odeint"):
                kw = {"rtol": "7/500000000", "atol": "7/500000000"} if solver == "odeint" else {}
                r0 = J0.apply(dict({"op": "run", "params": pl, "solver": solver}, **kw)); r1 = J1.apply(dict({"op": "run", "params": pl, "solver": solver}, **kw))
                out["evals"] += 1
                if not (r0["ok"] and r1["ok"]):
                    bump(out, "run_failed"); continue
                o0 = np.array(r0["outputs"]); o1 = np.array(r1["outputs"])
                if not (np.all(np.isfinite(o0)) and np.all(np.isfinite(o1))) or max(np.abs(o0).max(), np.abs(o1).max()) > 1e7:
                    bump(out, "diverged"); continue
                if o1.min() < -1e-9 or o0.min() < -1e-9:
                    bump(out, "negative_states_skipped"); continue   # outside the quantifier (non-negative states)
                agg = o1 @ A.T
                N = max(1.0, float(np.abs(o0).max()))
                tol = 1e-9 * N if solver != "odeint" else 1e-4 * N   # adaptive: both models solved at the PRECISE tolerance (1.4e-8)
                if np.abs(agg - o0).max() > tol:
                    # the solvers evaluate the rates at STAGE states between the rows; when a stage state of the stratified model has a negative
                    # entry (an absolute flow or an importation-fed loss drawing on a stratum that holds nobody, e.g. a split of 0) the rates are
                    # those of the clipped state and the aggregate cannot match: outside the quantifier like negative rows (ASSUMPTIONS)
                    try:
                        import jax.numpy as jnp
                        pf_ = {k: float(Fr(v)) for k, v in params.items()}
                        rn_ = J1.model.get_runner(pf_, jit=False)
                        tt_ = [float(t) for t in J1.model.times]
                        hh_ = tt_[1] - tt_[0]
                        stage_neg = False
                        for i_ in range(len(tt_) - 1):
                            k1_ = np.asarray(rn_.impl_dict["one_step"](pf_, tt_[i_], jnp.array(o1[i_])).comp_rates, dtype=float)
                            if (o1[i_] + hh_ * k1_).min() < -1e-12 or (o1[i_] + hh_ / 2 * k1_).min() < -1e-12:
                                stage_neg = True; break
                    except BaseException:
                        stage_neg = False
                    if stage_neg:
                        bump(out, "negative_stage_states_skipped"); continue
                    fail(out, f"aggregated trajectory of the stratified model differs from the unstratified model's ({solver})", "c03", payload,
                         worst=float(np.abs(agg - o0).max()), tol=tol, program=ops, extra=new, params=params)
                    continue
                d0 = dict(r0["derived"]); d1 = dict(r1["derived"])
                for k in d0:
                    if not np.allclose(d0[k], d1[k], rtol=0, atol=max(tol, 1e-9 * max(1.0, np.abs(d0[k]).max()))):
                        fail(out, f"derived output {k} changes under an unadjusted stratification ({solver})", "c03", payload, program=ops, extra=new, params=params,
                             unstratified=list(map(float, d0[k])), stratified=list(map(float, d1[k])))
                for k in d1:
                    if k.startswith("sum_") and k[4:] in d0:
                        if not np.allclose(d0[k[4:]], d1[k], rtol=0, atol=max(tol, 1e-9 * max(1.0, np.abs(d0[k[4:]]).max()))):
                            fail(out, f"per-stratum derived outputs summed over the new strata ({k}) do not reproduce the unstratified output ({solver})", "c03", payload,
                                 program=ops, extra=new, params=params, unstratified=list(map(float, d0[k[4:]])), summed=list(map(float, d1[k])))
                if nontrivial: out["cases"].append(h + ":traj:" + solver)
    if payload["index"] < 5:
        out["sample"] = {"variant": variant, "extra_stratification": new, "base_program": ops[:6]}
    return out
